"""C14 — crystal collections stay consistent under any sequence of operations (+ the crystal-container share of C04).

Decided by the Lean theorems of lean-crystals/XrlCrystals/Props/C14.lean (refinement of a dictionary specification by
a pointer-level heap model of src/crystal_diffraction.c, by induction over arbitrary operation histories).
The model is tied to the code by running the compiled model (`c14-model model`) and the library built from the working
tree (harness/c14drv.c, ASan+UBSan, allocation counter) on the same seeded random histories and comparing, after every
operation: return value, error, live heap blocks, open files, memory order / capacity of every live array, the listing,
every lookup, every handed-out copy, and sanitizer abort <=> model `ub`.
Violation search: the executed specification (`c14-model spec`) against the library on the legal histories.
"""
import os, sys, re, json, time, random, struct, subprocess, hashlib, shutil, math
from concurrent.futures import ThreadPoolExecutor
from vlib import core, cbuild
from vlib.cbuild import VERIF, REPO, Scratch, BuildError
from vlib.core import log

ID = 'C14'
LEAN = os.path.join(VERIF, 'lean-crystals')
MODULE = 'XrlCrystals.Props.C14'
NAMESPACE = 'XrlCrystals.C14'
PROPS_FILE = os.path.join(LEAN, 'XrlCrystals', 'Props', 'C14.lean')
# the property theorems: refinement + clauses (C14), the file clauses over the character-level reader (C14b), the tie of the
# hand model to the structure extracted from the clang AST of the working tree (C14c)
PROPS = [('XrlCrystals.Props.C14', PROPS_FILE), ('XrlCrystals.Props.C14b', os.path.join(LEAN, 'XrlCrystals', 'Props', 'C14b.lean')),
         ('XrlCrystals.Props.C14c', os.path.join(LEAN, 'XrlCrystals', 'Props', 'C14c.lean'))]
FACTS_TOOL = os.path.join(VERIF, 'tools', 'c14_facts.py')
FACTS_FILE = os.path.join(LEAN, 'XrlCrystals', 'Gen', 'Facts.lean')
SKELETON_FILE = os.path.join(LEAN, 'XrlCrystals', 'Hand', 'Skeleton.lean')
HARNESS = os.path.join(VERIF, 'harness', 'c14drv.c')
CORPUS = os.path.join(VERIF, 'corpus')
WRAP = ['-Wl,--wrap=' + s for s in 'malloc calloc realloc free strdup strndup vasprintf'.split()]
REQUIRED_THEOREMS = ['crystals_refine', 'crystals_refine_run', 'crystals_no_ub']
NONVACUITY = ['example']

def hx(x):
    return 'x%016x' % struct.unpack('<Q', struct.pack('<d', float(x)))[0]

def unhx(s):
    return struct.unpack('<d', struct.pack('<Q', int(s[1:], 16)))[0]

# --------------------------------------------------------------------------------------------------------------
# crystals, files, histories

# names: prefixes of each other, case order ('Z' < 'a' in strcmp), names of shipped crystals, a 20-character name
POOL = ['Aa', 'Ab', 'B', 'Ba', 'C60', 'Cu2O', 'D', 'Diamond', 'E1', 'E10', 'E2', 'Fe', 'Fe2O3', 'G', 'Ge', 'H2O', 'Ice',
        'J', 'K', 'KCl', 'L', 'LiF', 'M', 'N', 'NaCl', 'O', 'P', 'Q', 'R', 'Si', 'Si2', 'SiX', 'T', 'U', 'V', 'W_long_name_20_chars', 'X',
        'Y', 'Zz', 'a', 'ab', 'b', 'z', '_', '0']

LONG_NAMES = ['W_long_name_20_charsA', 'W_long_name_20_charsB', 'W_long_name_20_chars_and_more', 'Quite_a_long_crystal_name_1', 'Quite_a_long_crystal_name_2']

def dec(rng, lo, hi, nd=None, wide=True):
    """a decimal token.  Besides plain `%.nf` forms: exponent notation, an explicit `+`, a trailing or leading `.`, leading zeros -
    every form is read the same way by C's strtod / scanf("%lf") and by Python's float() (the independent prediction)"""
    nd = rng.choice([0, 1, 2, 4, 6]) if nd is None else nd
    v = rng.uniform(lo, hi)
    t = ('%.' + str(nd) + 'f') % v
    if not wide: return t
    k = rng.random()
    if k < 0.80: return t
    if k < 0.86: return ('%.' + str(rng.choice([0, 2, 5])) + rng.choice('eE')) % v            # 5.43e+00, 5E+00
    sg, body = ('-', t[1:]) if t.startswith('-') else ('', t)
    if k < 0.89: return t if sg else '+' + t
    if k < 0.92: return sg + (body + '.' if '.' not in body else body.rstrip('0'))          # `5.`  `5.4`
    if k < 0.95: return sg + '00' + body
    if k < 0.97: return ('%de-3' % int(v * 1000))                                           # 5431e-3
    return t + 'e0'

def c_int(tok):
    """value of an integer token as scanf("%i") reads a C literal: 0x.. hexadecimal, 0.. octal, else decimal"""
    t = tok.strip(); neg = t.startswith('-'); t = t.lstrip('+-')
    if t[:2].lower() == '0x': v = int(t[2:], 16)
    elif len(t) > 1 and t[0] == '0': v = int(t, 8)
    else: v = int(t, 10)
    return -v if neg else v

def z_token(rng, z):
    k = rng.random()
    if k < 0.85: return str(z)
    if k < 0.90: return '+%d' % z
    if k < 0.95: return '0%o' % z           # octal, as %i reads it
    return '0x%X' % z

def gen_crystal(rng, name=None, wide=True):
    """a crystal as decimal strings (so that the same numbers can be written to a file and parsed back exactly)"""
    name = name or rng.choice(POOL)
    k = rng.random()
    D = lambda lo, hi: dec(rng, lo, hi, wide=wide)
    if k < 0.45: ang = ['90.0000'] * 3
    elif k < 0.6: ang = ['90', '90', '120']
    elif k < 0.87: ang = [D(50, 130) for _ in range(3)]
    elif k < 0.9: ang = [D(-130, -50) for _ in range(3)]         # negative angles: cos is even, the volume formula does not care
    else: ang = [D(1, 179) for _ in range(3)]                     # often geometrically impossible: volume NaN
    a = D(1, 20)
    cell = [a, a if rng.random() < 0.5 else D(1, 20), a if rng.random() < 0.4 else D(1, 20)] + ang
    n = rng.choice([0, 1, 1, 2, 2, 3, 4, 6, 8])
    zt = (lambda z: z_token(rng, z)) if wide else str
    atoms = [(zt(rng.choice([1, 6, 8, 14, 26, 29, 32, 82, 92, rng.randint(1, 107)])), rng.choice(['1.0', '1', '0.5', '0.25', D(0, 1)]),
              rng.choice(['0.0', '.25', '0.5', '.75', '-0.0', D(0, 1)]), rng.choice(['0', '.25', '0.5', '.75', '1e-1', D(0, 1)]),
              rng.choice(['0.0', '.25', '0.5', '.75', '-.25', D(0, 1)])) for _ in range(n)]
    vol = rng.choice(['0', '1', '-3.5', dec(rng, 0, 1000, wide=False), '1e300'])
    return dict(name=name, cell=cell, atoms=atoms, vol=vol)

def crystal_tokens(c, vol=None):
    t = [c['name']] + [hx(float(v)) for v in c['cell']] + [hx(float(c['vol'] if vol is None else vol)), str(len(c['atoms']))]
    for a in c['atoms']:
        t += [str(c_int(a[0]))] + [hx(float(v)) for v in a[1:5]]
    return ' '.join(t)

def render_entry(rng_bits, c, bad=None, opt=None):
    """text of one `#S` block in the syntax of data/Crystals.dat.  `bad`: how to corrupt it.
    `opt`: dict(tabs: separators are tabs / several blanks, biso: a sixth column, longc: comment lines of 100+ characters)"""
    b = rng_bits; opt = opt or {}
    sep = ['\t', '  ', ' \t ', '\t\t'][b % 4] if opt.get('tabs') else ' '
    J = lambda xs: sep.join(xs)
    out = []
    fname = c.get('fname', c['name'])
    if bad == 'S':
        out.append(['#S 14', '#S', '#S x ' + fname, '#S 7'][b % 4])          # sscanf("%20s %d %20s") != 3
        out.append('#UCELL ' + ' '.join(c['cell']))
        out.append('#L  AtomicNumber  Fraction  X  Y  Z')
        return out
    out.append(J(['#S', '%d' % (b % 93), fname]) + ('   ignored words' if opt.get('tabs') and b & 16 else ''))
    if b & 1: out.append('#UCOMMENT generated %d' % b)
    if opt.get('longc'):
        # fgets(buffer, 100) cuts a long line into pieces; the pieces of a comment are lines that mean nothing
        out.append('#UCOMMENT ' + 'long comment, '[: 1 + b % 13] * 30)
    if bad == 'UM': out.append(['#UCELL ' + ' '.join(c['cell'][:5]), '#UCELL 1 2 x 90 90 90', '#UCELL'][b % 3])
    elif bad != 'U0': out.append(J(['#UCELL'] + c['cell']))
    if bad == 'U2': out.append('#UCELL ' + ' '.join(c['cell']))
    if b & 2: out.append('#USYSTEM Cubic'); out.append('#UTEMP 298.15')
    if bad == 'EOF':
        # the file ends here, before or with the `#L` line
        out.append('#L  AtomicNumber  Fraction  X  Y  Z' if b & 4 else '#UREF none')
        return out
    out.append('#L  AtomicNumber  Fraction  X  Y  Z' + ('  Biso' if opt.get('biso') else ''))
    for i, a in enumerate(c['atoms']):
        if bad == 'AT' and i == c['bad_line']:
            if c['bad_how'] == 0: out.append('%s %s oops %s %s' % (a[0], a[1], a[3], a[4])); continue
            if c['bad_how'] == 1: out.append('Si %s %s %s %s' % (a[1], a[2], a[3], a[4])); continue
            out.append('')                                                     # a blank line is counted as an atom
        out.append(J(list(a[:5]) + (['%.2f' % (0.1 + 0.07 * ((b + i) % 23))] if opt.get('biso') else [])))
    return out

def many_perm(seed, i):
    return (i * 7919 + 13 * seed) % 10007

def many_name(seed, i):
    return 'M%d_%05d' % (seed % 1000, many_perm(seed, i))

def gen_many(seed, i):
    """crystal number i of the generated family `seed` of the bulk operations - the same integer arithmetic as harness/c14drv.c:gen_many and
    lean-crystals/Driver.lean:genMany; every number is a dyadic fraction that its decimal text carries exactly"""
    perm = many_perm(seed, i)
    if perm % 3 == 0: ang = ['90', '90', '90']
    elif perm % 3 == 1: ang = ['90', '90', '120']
    else: ang = [str(80 + i % 15), str(85 + perm % 9), str(95 + i % 11)]
    cell = ['%.2f' % (3 + perm % 11 + 0.25 * (i % 4)), '%.1f' % (4 + 0.5 * (i % 7)), str(5 + perm % 5)] + ang
    atoms = [(str(1 + (perm + 13 * j) % 92), '0.5' if j % 2 else '1.0', '%.3f' % (((i + j) % 8) / 8.0), '%.2f' % ((perm % 4) / 4.0), '%.1f' % ((j % 2) * 0.5))
             for j in range(1 + i % 4)]
    return dict(name=many_name(seed, i), cell=cell, atoms=atoms, vol='0')

def render_many(n, seed):
    """the file of a `readmany` operation: n generated crystals in the syntax of data/Crystals.dat"""
    out = ['#F generated by props/c14.py: %d crystals of family %d' % (n, seed)]
    for i in range(n):
        c = gen_many(seed, i)
        out += ['#S %d %s' % (i + 1, c['name']), '#UCELL ' + ' '.join(c['cell']), '#L  AtomicNumber  Fraction  X  Y  Z'] + [' '.join(a) for a in c['atoms']]
    return '\n'.join(out) + '\n'

def render_file(spec):
    """spec: dict(entries=[crystal...], bad=None|(kind, crystal), bits=int, tail=0|1|2|3, [tabs, biso, longc, crlf, empty0])
    or dict(raw=<text>, why=<kind>) for a file whose reading is not predicted by the generator (see `uninterpreted_file`)
    or dict(many=(n, seed)) for the file of a bulk `readmany` operation"""
    if 'many' in spec: return render_many(*spec['many'])
    if 'raw' in spec: return spec['raw']
    if spec.get('empty0'): return ''
    b = spec['bits']
    lines = ['#F generated', '#UT test', '', '#UD #S is mentioned here but not at the start of a line'] if b & 8 else []
    if spec.get('longc') and b & 8:
        k = 95 + b % 120
        if (4 + k + 1) % 99 == 0: k += 1                 # fgets(buffer, 100) cuts after every 99 characters: `#S` must not start a piece
        lines.append('#UD ' + 'x' * k + ' #S 3 Ghost is inside a long line but not at a cut')
    for i, c in enumerate(spec['entries']):
        lines += render_entry(b + 7 * i, c, None, spec)
    text_tail = '#EOF\n'
    text = None
    if spec.get('bad'):
        kind, c = spec['bad']
        lines += render_entry(b, c, kind, spec)
        if kind == 'EOF': text = '\n'.join(lines) + ('\n' if b & 32 else '')
        else:
            # whatever follows the malformed entry must not matter
            lines += render_entry(b + 1, dict(name='Later', cell=['1', '1', '1', '90', '90', '90'], atoms=[('1', '1', '0', '0', '0')], vol='0'))
    elif spec.get('tail') in (1, 3) and spec['entries'] and spec['entries'][-1]['atoms']:
        # 1: no `#` line and no newline after the last atom; 3: the file ends with the newline of its last atom line
        text = '\n'.join(lines) + ('\n' if spec['tail'] == 3 else '')
    elif spec.get('tail') == 2:
        text_tail = '#EOF\n\n\n'
    if text is None: text = '\n'.join(lines + [text_tail]) if lines else text_tail
    if spec.get('crlf'): text = text.replace('\n', '\r\n')
    return text

ASCII_BYTES = ''.join(chr(i) for i in range(32, 127)) + '\x00\t\r\n\n\n   ##'

def uninterpreted_file(rng, names, kind=None):
    """files whose reading the generator does not predict: the model's character-level reader (`c14-model parse`) says what
    Crystal_ReadFile makes of them, and the library must agree; for the specification they are `whatever the reader model reads`"""
    kind = kind or rng.choice(['garbage', 'mutated', 'mutated', 'mutated', 'longatom', 'oct', 'ghost', 'glued'])
    base = dict(entries=[gen_crystal(rng, rng.choice(names)) for _ in range(rng.choice([1, 2, 3]))], bad=None, bits=rng.randint(0, 1 << 16), tail=rng.choice([0, 1, 3]),
                tabs=rng.random() < 0.3, biso=rng.random() < 0.3)
    text = render_file(base)
    if kind == 'garbage':
        text = ''.join(rng.choice(ASCII_BYTES) for _ in range(rng.choice([1, 7, 40, 200, 600])))
        if rng.random() < 0.5: text = rng.choice(['#S', '#S 1 G\n#UCELL', '#S 1 G\n#UCELL 1 2 3 4 5 6\n#L\n', '#']) + text
    elif kind == 'mutated':
        for _ in range(rng.choice([1, 1, 2, 4])):
            if not text: break
            i = rng.randrange(len(text)); k = rng.random()
            if k < 0.35: text = text[:i] + rng.choice(ASCII_BYTES) + text[i + 1:]
            elif k < 0.55: text = text[:i] + rng.choice(ASCII_BYTES) + text[i:]
            elif k < 0.75: text = text[:i] + text[i + 1:]
            elif k < 0.85: text = text[:i]                                        # truncated anywhere
            else:
                ls = text.split('\n'); j = rng.randrange(len(ls)); ls.insert(j, ls[rng.randrange(len(ls))]); text = '\n'.join(ls)
    elif kind == 'longatom':
        ls = text.split('\n'); idx = [j for j, l in enumerate(ls) if l and l[0] != '#']
        if idx:
            j = rng.choice(idx); ls[j] = ls[j] + ' ' * rng.choice([60, 80, 99, 120]) + rng.choice(['', '0.5', '# remark'])
        text = '\n'.join(ls)
    elif kind == 'oct':
        ls = text.split('\n'); idx = [j for j, l in enumerate(ls) if l and l[0] != '#']
        for j in idx[:2]: ls[j] = rng.choice(['08', '09', '019', '0x', '0xg1', '+08', '-010']) + ' ' + ls[j].split(None, 1)[-1]
        text = '\n'.join(ls)
    elif kind == 'ghost':
        pad = rng.choice([99, 99, 98, 100, 198])
        text = ('#UD ' + 'y' * (pad - 4)) + rng.choice(['#S 3 Ghost', '#L', '#UCELL 9 9 9 90 90 90', '#S 3 ' + names[0]]) + '\n' + text
    elif kind == 'glued':
        text = text.replace('#UCELL ', rng.choice(['#UCELL', '#UCELLS ', '#UCELL\t', '#UCELL +'])).replace('#S ', rng.choice(['#S', '#S\t', '#Sx ', '#S -']), 1)
    return dict(raw=text, why=kind)

def parsed_tokens(spec):
    """the parsed content handed to the specification (and, for replays without files, to the model): `G <crystal>`… [`E <kind> …`]"""
    if 'raw' in spec: return spec.get('tokens') or ''
    if spec.get('empty0'): return ''
    t = []
    for c in spec['entries']:
        t.append('G ' + crystal_tokens(dict(c, name=c.get('fname', c['name'])[:20]), vol='0'))
    if spec.get('bad'):
        kind, c = spec['bad']
        nm = c.get('fname', c['name'])[:20]
        if kind == 'S': t.append('E S')
        elif kind == 'AT':
            n = len(c['atoms']) + (1 if c['bad_how'] == 2 else 0)
            line = c['bad_line'] if c['bad_how'] < 2 else len(c['atoms'])
            t.append('E AT %s %d %d' % (nm, line, n))
        else: t.append('E %s %s' % (kind, nm))
    return ' '.join(t)

def file_names(spec):
    """names (as stored: 20 characters) the file tries to add"""
    if 'raw' in spec: return [w.split(' ')[1] for w in (' ' + (spec.get('tokens') or '')).split(' G ')[1:]]
    return [c.get('fname', c['name'])[:20] for c in spec.get('entries', [])]

NOSLOT_OPS = ('add', 'addmany', 'read', 'readmany')
BCAP = [512]      # CRYSTALARRAY_MAX of the working tree (set by Env.build_c)
OPLINE = re.compile(r'^(op (\d+) \w+ ret=\S+) err=.*$')
def without_error_objects(lines, ns):
    """the prediction for a history in which the operations `ns` pass no error slot: the same lines (return value, refusals, every observation
    afterwards) minus the error object of those operations.  A `ub` line stays as it is."""
    if not ns: return lines
    out = []
    for l in lines:
        m = OPLINE.match(l) if l.startswith('op ') else None
        out.append(m.group(1) + ' err=-' if (m and int(m.group(2)) in ns) else l)
    return out

class Hist:
    """a history: ops are dicts; handles are indices into the caller's tables, renumbered on shrinking"""
    def __init__(self, ops, pool=None, kind='valid', shared=None):
        self.ops = ops; self.pool = pool or (POOL + LONG_NAMES); self.kind = kind
        self.shared = shared        # a directory that already holds the crystal files `f<fidx>.dat` of this (enumerated) history
        self.skip = None

    def file_specs(self):
        return [dict(many=(o['n'], o['seed'])) if o['op'] == 'readmany' else o['file'] for o in self.ops
                if o['op'] == 'readmany' or (o['op'] == 'read' and isinstance(o['file'], dict))]

    def noslot_ops(self):
        """indices of the operations made WITHOUT an error slot (`xrl_error **error` = NULL): harness line `N:<op> …`"""
        return {i for i, o in enumerate(self.ops) if o.get('noslot') and o['op'] in NOSLOT_OPS}

    def lines(self, builtin_lines, for_c=True):
        """the history file.  for_c: as harness/c14drv.c reads it (`N:` prefix on operations without an error slot); otherwise as the model and
        the specification read it (they predict the call with a slot; `without_error_objects` then removes the error object from the prediction)"""
        out = list(builtin_lines) + ['pool ' + ' '.join(self.pool)]
        nfile = 0; files = []; ns = self.noslot_ops() if for_c else set(); first = len(out)
        for o in self.ops:
            k = o['op']
            if k == 'init': out.append('init %d' % o['n'])
            elif k == 'add': out.append('add %s %s' % (o['arr'], self.src(o['src'])))
            elif k == 'read':
                if o['file'] in ('NOFILE', 'NULLNAME'): out.append('read %s %s' % (o['arr'], o['file']))
                elif self.shared is not None:
                    out.append(('read %s %d %s' % (o['arr'], o['fidx'], parsed_tokens(o['file']))).rstrip())
                else:
                    out.append(('read %s %d %s' % (o['arr'], nfile, parsed_tokens(o['file']))).rstrip()); files.append(render_file(o['file'])); nfile += 1
            elif k == 'addmany': out.append('addmany %s %d %d' % (o['arr'], o['n'], o['seed']))
            elif k == 'readmany':
                out.append('readmany %s %d %d %d' % (o['arr'], nfile, o['n'], o['seed'])); files.append('(%d generated crystals, family %d)' % (o['n'], o['seed'])); nfile += 1
            elif k == 'get': out.append('get %s %s' % (o['arr'], o['name']))
            elif k == 'list': out.append('list %s' % o['arr'])
            elif k == 'copy': out.append('copy %s' % self.src(o['src']))
            elif k == 'free': out.append('free %d' % o['j'])
            elif k == 'afree': out.append('afree %d' % o['i'])
            elif k == 'scrib': out.append('scrib %d %s' % (o['j'], hx(o['w'])))
        for i in ns: out[first + i] = 'N:' + out[first + i]
        return out, files

    @staticmethod
    def src(s):
        if s == 'N' or isinstance(s, str): return s
        return 'L ' + crystal_tokens(s)

    def to_json(self):
        def clean(o):
            if isinstance(o.get('file'), dict) and 'tokens' in o['file']: o = dict(o, file={k: v for k, v in o['file'].items() if k != 'tokens'})
            return {k: v for k, v in o.items() if k != 'fidx'}
        return json.dumps(dict(kind=self.kind, pool=self.pool, ops=[clean(o) for o in self.ops]))

    @staticmethod
    def from_json(txt):
        d = json.loads(txt)
        return Hist(d['ops'], d['pool'], d.get('kind', 'valid'))

    # ---- shrinking support: drop op k and everything that depends on the handle it created -------------------
    def drop(self, k):
        ops = [dict(o) for o in self.ops]
        na = sum(1 for o in ops[:k] if o['op'] == 'init'); nobj = sum(1 for o in ops[:k] if o['op'] in ('get', 'copy'))
        o = ops[k]
        dead_a = na if o['op'] == 'init' else None
        dead_o = nobj if o['op'] in ('get', 'copy') else None
        new = []
        for i, p in enumerate(ops):
            if i == k: continue
            p = dict(p)
            if 'arr' in p and p['arr'] != 'B':
                ai = int(p['arr'][1:])
                if ai == dead_a: continue
                if dead_a is not None and ai > dead_a: p['arr'] = 'A%d' % (ai - 1)
            if p['op'] == 'afree':
                if p['i'] == dead_a: continue
                if dead_a is not None and p['i'] > dead_a: p['i'] -= 1
            if isinstance(p.get('src'), str) and p['src'].startswith('O'):
                oj = int(p['src'][1:])
                if oj == dead_o: continue
                if dead_o is not None and oj > dead_o: p['src'] = 'O%d' % (oj - 1)
            if p['op'] in ('free', 'scrib'):
                if p['j'] == dead_o: continue
                if dead_o is not None and p['j'] > dead_o: p['j'] -= 1
            new.append(p)
        return Hist(new, self.pool, self.kind)

def gen_file(rng, names, max_entries=5):
    r = rng.random()
    if r < 0.03: return dict(empty0=True, entries=[], bad=None, bits=0, tail=0)          # a file of 0 bytes: no crystal, no error
    if r < 0.11: return uninterpreted_file(rng, names)
    n = rng.choice([0, 1, 1, 2, 2, 3, max_entries])
    entries = []
    for _ in range(n):
        c = gen_crystal(rng, rng.choice(names))
        if rng.random() < 0.05: c['fname'] = c['name'] + '_made_longer_than_20_characters'
        entries.append(c)
    spec = dict(entries=entries, bad=None, bits=rng.randint(0, 1 << 16), tail=rng.choice([0, 0, 0, 1, 2, 3]),
                tabs=rng.random() < 0.2, biso=rng.random() < 0.15, longc=rng.random() < 0.15, crlf=rng.random() < 0.12)
    if rng.random() < 0.3:
        kind = rng.choice(['S', 'U0', 'U2', 'UM', 'EOF', 'AT'])
        c = gen_crystal(rng, rng.choice(names))
        if kind == 'AT':
            if not c['atoms']: c['atoms'] = [('1', '1.0', '0', '0', '0')]
            c['bad_line'] = rng.randrange(len(c['atoms'])); c['bad_how'] = rng.choice([0, 1, 2])
            if c['bad_how'] == 2: c['bad_line'] = rng.randrange(len(c['atoms']))
        spec['bad'] = (kind, c)
    return spec

def gen_history(rng, kind='valid', length=None):
    """kinds: valid (every handle used while live), misuse (stale handles on purpose), builtin_full (crosses 512)"""
    length = length or rng.choice([6, 12, 25, 50, 100, 200])
    names = rng.sample(POOL, rng.choice([3, 6, 12, 30, len(POOL)]))
    ops = []
    arrs = []      # state per array: 'live' | 'null' | 'freed'
    objs = []
    def new_init():
        n = rng.choice([0, 0, 1, 1, 2, 3, 5, 8, 12, rng.randint(0, 12), -1 if rng.random() < 0.3 else 4])
        ops.append(dict(op='init', n=n)); arrs.append('null' if n < 0 else 'live')
    for _ in range(rng.choice([1, 1, 2, 3])): new_init()
    if kind == 'builtin_full':
        # fill the built-in collection up to a few places below its capacity with one file, then go on
        fill = [dict(name='F%04d' % i, cell=['1', '2', '3', '90', '90', '90'], atoms=[('1', '1.0', '0', '0', '0')], vol='0') for i in range(rng.randint(466, 476))]
        ops.append(dict(op='read', arr='B', file=dict(entries=fill, bad=None, bits=0, tail=0)))
        length = min(length, 40)
    def pick_arr(for_free=False):
        r = rng.random()
        cand = [i for i, s in enumerate(arrs) if s == 'live']
        if kind == 'misuse' and r < 0.08:
            stale = [i for i, s in enumerate(arrs) if s == 'freed']
            if stale: return 'A%d' % rng.choice(stale)
        if not for_free and (r < (0.5 if kind == 'builtin_full' else 0.15) or not cand):
            nul = [i for i, s in enumerate(arrs) if s == 'null']
            return 'A%d' % rng.choice(nul) if nul and rng.random() < 0.3 else 'B'
        return 'A%d' % rng.choice(cand) if cand else 'B'
    def pick_obj():
        cand = [j for j, s in enumerate(objs) if s == 'live']
        if kind == 'misuse' and rng.random() < 0.08:
            stale = [j for j, s in enumerate(objs) if s == 'freed']
            if stale: return rng.choice(stale)
        if rng.random() < 0.1:
            nul = [j for j, s in enumerate(objs) if s == 'null']
            if nul: return rng.choice(nul)
        return rng.choice(cand) if cand else None
    def pick_src():
        r = rng.random()
        if r < 0.04: return 'N'
        if r < 0.3:
            j = pick_obj()
            if j is not None: return 'O%d' % j
        # names longer than the 20 characters a crystal FILE can carry enter through Crystal_AddCrystal only: different names that share
        # their first 20 characters must stay different crystals (lookups and the duplicate test compare whole names)
        if rng.random() < 0.06: return gen_crystal(rng, rng.choice(LONG_NAMES))
        return gen_crystal(rng, rng.choice(names))
    while len(ops) < length:
        r = rng.random()
        if r < 0.38: ops.append(dict(op='add', arr=pick_arr(), src=pick_src()))
        elif r < 0.48:
            f = rng.choice(['NOFILE', 'NULLNAME']) if rng.random() < 0.08 else gen_file(rng, names)
            ops.append(dict(op='read', arr=pick_arr(), file=f))
        elif r < 0.60:
            r2 = rng.random()
            nm = '~' if r2 < 0.03 else rng.choice(LONG_NAMES) if r2 < 0.15 else rng.choice(names)
            if 0.15 <= r2 < 0.22:           # a name some file of this history stored (possibly cut to 20 characters)
                fn = [x for o in ops if o['op'] == 'read' and isinstance(o['file'], dict) and 'raw' not in o['file'] for x in file_names(o['file'])]
                if fn: nm = rng.choice(fn)
            ops.append(dict(op='get', arr=pick_arr(), name=nm)); objs.append('?')
        elif r < 0.65: ops.append(dict(op='list', arr=pick_arr()))
        elif r < 0.71: ops.append(dict(op='copy', src=pick_src())); objs.append('?')
        elif r < 0.80:
            j = pick_obj()
            if j is not None:
                ops.append(dict(op='free', j=j))
                if objs[j] == 'live': objs[j] = 'freed'
        elif r < 0.86:
            j = pick_obj()
            if j is not None: ops.append(dict(op='scrib', j=j, w=rng.choice([0.0, -1.5, 7.25, 1e-300])))
        elif r < 0.90:
            a = pick_arr(for_free=True)
            if a != 'B':
                i = int(a[1:]); ops.append(dict(op='afree', i=i))
                if arrs[i] == 'live': arrs[i] = 'freed'
        elif r < 0.94: new_init()
        else: ops.append(dict(op='add', arr=pick_arr(), src=pick_src()))
        # objects created by get/copy: whether they are NULL is decided by the run; the generator treats '?' as live and the
        # caller's Crystal_Free(NULL) / use of a NULL copy are legal anyway
        for j, s in enumerate(objs):
            if s == '?': objs[j] = 'live'
    if kind != 'misuse':
        # epilogue: release everything still held, so that the history ends quiescent (C04: full release)
        for j, s in enumerate(objs):
            if s == 'live': ops.append(dict(op='free', j=j))
        for i, s in enumerate(arrs):
            if s == 'live': ops.append(dict(op='afree', i=i))
        ops.append(dict(op='list', arr='B'))
    # every name that can be in a collection is looked up in every live collection after every operation: the short names of this
    # history, the names longer than the 20 characters a file can carry, and the 20-character prefixes files store for long names
    cut = sorted({x for o in ops if o['op'] == 'read' and isinstance(o['file'], dict) and 'raw' not in o['file'] for x in file_names(o['file']) if len(x) == 20} - set(names))
    # a share of the histories makes some of its additions / file reads WITHOUT an error slot (error = NULL: the caller looks at the return value only):
    # same return value, same refusals, same state afterwards.  Drawn from a generator of its own, after the history is complete: the histories themselves
    # are the ones the seed gave before this was added.  builtin_full histories (they cross the fixed capacity of the built-in collection) more often.
    r2 = random.Random(rng.getrandbits(32))
    if r2.random() < (0.6 if kind == 'builtin_full' else 0.35):
        p_ = r2.choice([0.2, 0.5, 1.0])
        for o in ops:
            if o['op'] in NOSLOT_OPS and r2.random() < p_: o['noslot'] = True
    return Hist(ops, names + LONG_NAMES + cut, kind)

# --------------------------------------------------------------------------------------------------------------
# bulk histories: growth far beyond the initial capacity (and beyond CRYSTALARRAY_MAX, which bounds the built-in collection only)

def bulk_histories(rng, bcap, nbuiltin, tier='quick'):
    """short histories around one or two bulk operations (`addmany`: hundreds of single additions; `readmany`: a file with hundreds of
    crystals), into user arrays of several initial capacities and into the built-in collection around its capacity.  After every operation
    the usual observation: count, capacity, order in memory, listing, and a lookup of a sample of the generated names (first, last, random
    ones, the first one beyond the family, another family's) - all predicted by the model and by the specification."""
    free = bcap - nbuiltin
    fams = rng.sample(range(1, 1000), 60); fi = iter(fams)
    out = []
    def pool_for(fams_n, extra=()):
        ns = []
        for s, n in fams_n:
            idx = sorted({0, 1, n - 1, n, max(0, n // 2), min(n - 1, bcap - 2), min(n - 1, bcap), min(n - 1, bcap + 1)} | set(rng.sample(range(max(n, 1)), min(8, max(n, 1)))))
            ns += [many_name(s, i) for i in idx]
        return sorted(set(ns)) + ['Si', 'Aa'] + list(extra)
    def H(ops, fams_n):
        out.append(Hist(list(ops), pool_for(fams_n), 'bulk'))
    # (a) single additions: the initial capacities of the task text (0: the vector is created by the first addition; 7, 12: grown in steps)
    for cap, n in ((0, 700), (7, rng.randint(bcap + 5, bcap + 250)), (12, rng.randint(bcap + 5, bcap + 250))):
        s1, s2 = next(fi), next(fi)
        H([dict(op='init', n=cap), dict(op='addmany', arr='A0', n=n, seed=s1), dict(op='get', arr='A0', name=many_name(s1, n - 1)),
           dict(op='addmany', arr='A0', n=15, seed=s1),                       # every one a duplicate: 0 accepted, first refusal at 0
           dict(op='addmany', arr='A0', n=25, seed=s2), dict(op='list', arr='A0'), dict(op='free', j=0), dict(op='afree', i=0)], [(s1, n), (s2, 25)])
    # (b) files with many crystals (staged in a temporary array inside Crystal_ReadFile, then merged)
    for cap, n in ((3, 600), (0, 300), (0, bcap - 1), (1, 1100)):
        s1, s2 = next(fi), next(fi)
        H([dict(op='init', n=cap), dict(op='readmany', arr='A0', n=n, seed=s1), dict(op='get', arr='A0', name=many_name(s1, n // 3)),
           dict(op='readmany', arr='A0', n=min(n, 320), seed=s1),            # all present: refused, nothing changes
           dict(op='readmany', arr='A0', n=40, seed=s2), dict(op='free', j=0), dict(op='afree', i=0)], [(s1, n), (s2, 40)])
    # (c) the built-in collection around its fixed capacity: single additions up to the refusal; files that fit exactly / are one too long
    s1, s2, s3 = next(fi), next(fi), next(fi)
    k = rng.randint(3, 30)
    H([dict(op='addmany', arr='B', n=free + k, seed=s1), dict(op='get', arr='B', name=many_name(s1, free - 1)), dict(op='get', arr='B', name=many_name(s1, free)),
       dict(op='readmany', arr='B', n=2, seed=s2), dict(op='list', arr='B'), dict(op='free', j=0), dict(op='free', j=1)], [(s1, free + k), (s2, 2)])
    H([dict(op='readmany', arr='B', n=free, seed=s1), dict(op='addmany', arr='B', n=3, seed=s2), dict(op='list', arr='B')], [(s1, free), (s2, 3)])
    H([dict(op='readmany', arr='B', n=free + 1, seed=s1), dict(op='list', arr='B'), dict(op='readmany', arr='B', n=free - k, seed=s2),
       dict(op='readmany', arr='B', n=k + 1, seed=s3), dict(op='readmany', arr='B', n=k, seed=s3), dict(op='addmany', arr='B', n=2, seed=s1)],
      [(s1, free + 1), (s2, free - k), (s3, k + 1)])
    # (c') the same WITHOUT an error slot (`N:` operations, error = NULL) next to the same with one: the refusal at the fixed capacity must not depend on
    # the caller having handed in a place for the error object.  Exactly-full table + one more (single addition, file with one crystal), with and without slot;
    # bulk additions across the capacity without slot; a file that is one too long without slot; user arrays grown without slot.
    s1, s2, s3, s4 = next(fi), next(fi), next(fi), next(fi)
    H([dict(op='readmany', arr='B', n=free, seed=s1), dict(op='addmany', arr='B', n=1, seed=s2, noslot=True), dict(op='addmany', arr='B', n=1, seed=s2),
       dict(op='readmany', arr='B', n=1, seed=s3, noslot=True), dict(op='readmany', arr='B', n=1, seed=s3), dict(op='addmany', arr='B', n=2, seed=s4, noslot=True),
       dict(op='get', arr='B', name=many_name(s2, 0)), dict(op='list', arr='B'), dict(op='free', j=0)], [(s1, free), (s2, 1), (s3, 1), (s4, 2)])
    H([dict(op='addmany', arr='B', n=free, seed=s1, noslot=True), dict(op='add', arr='B', src=gen_crystal(rng, 'Zz_one_more'), noslot=True), dict(op='add', arr='B', src=gen_crystal(rng, 'Zz_one_more')),
       dict(op='add', arr='B', src=gen_crystal(rng, 'Si'), noslot=True), dict(op='add', arr='B', src='N', noslot=True), dict(op='list', arr='B')], [(s1, free)])
    H([dict(op='addmany', arr='B', n=free + k, seed=s1, noslot=True), dict(op='get', arr='B', name=many_name(s1, free - 1)), dict(op='get', arr='B', name=many_name(s1, free)),
       dict(op='list', arr='B'), dict(op='free', j=0), dict(op='free', j=1)], [(s1, free + k)])
    H([dict(op='readmany', arr='B', n=free + 1, seed=s1, noslot=True), dict(op='list', arr='B'), dict(op='readmany', arr='B', n=free - k, seed=s2, noslot=True),
       dict(op='readmany', arr='B', n=k + 1, seed=s3, noslot=True), dict(op='readmany', arr='B', n=k, seed=s3, noslot=True), dict(op='addmany', arr='B', n=2, seed=s1, noslot=True),
       dict(op='list', arr='B')], [(s1, free + 1), (s2, free - k), (s3, k + 1)])
    for cap, n in ((0, bcap + 20), (7, 300)):
        s1, s2 = next(fi), next(fi)
        H([dict(op='init', n=cap), dict(op='addmany', arr='A0', n=n, seed=s1, noslot=True), dict(op='addmany', arr='A0', n=15, seed=s1, noslot=True),
           dict(op='readmany', arr='A0', n=n + 40, seed=s1, noslot=True), dict(op='readmany', arr='A0', n=bcap + 1, seed=s2, noslot=True), dict(op='add', arr='A0', src=gen_crystal(rng, 'Aa'), noslot=True),
           dict(op='add', arr='A0', src=gen_crystal(rng, 'Aa'), noslot=True), dict(op='list', arr='A0'), dict(op='afree', i=0)], [(s1, n + 40), (s2, bcap + 1)])
    # (d) a user array grown past CRYSTALARRAY_MAX next to a filled built-in collection
    s1, s2 = next(fi), next(fi)
    H([dict(op='init', n=rng.randint(0, 12)), dict(op='addmany', arr='B', n=free - 2, seed=s1), dict(op='readmany', arr='A0', n=bcap + 88, seed=s1),
       dict(op='readmany', arr='B', n=3, seed=s2), dict(op='addmany', arr='A0', n=30, seed=s2), dict(op='afree', i=0)], [(s1, bcap + 88), (s2, 30)])
    if tier != 'quick':
        for _ in range(6):
            cap = rng.randint(0, 40); n = rng.randint(bcap - 20, bcap + 300); s1, s2 = next(fi), next(fi)
            how = rng.choice(['addmany', 'readmany'])
            H([dict(op='init', n=cap), dict(op=how, arr='A0', n=n, seed=s1), dict(op=rng.choice(['addmany', 'readmany']), arr='A0', n=rng.randint(1, 60), seed=s2),
               dict(op='list', arr='A0'), dict(op='afree', i=0)], [(s1, n), (s2, 60)])
    return out

# --------------------------------------------------------------------------------------------------------------
# exhaustive enumeration of short histories

EXH_NAMES = ['Si', 'Aa', 'W_long_name_20_chars_and_more']          # a shipped crystal's name, a new one, one of 29 characters
def exh_crystal(name, k):
    return dict(name=name, cell=['%d.5' % (2 + k), '%d.25' % (3 + k), '4', '90', '90', ['90', '120', '75.5'][k % 3]],
                atoms=[('14', '1.0', '0', '0', '0'), ('8', '0.5', '.25', '.25', '.%d' % (k + 1))][:1 + k % 2], vol=['0', '7', '-1'][k % 3])
EXH_LIT = [exh_crystal(n, k) for k, n in enumerate(EXH_NAMES)]
EXH_FILES = [dict(entries=[exh_crystal('Aa', 3), dict(exh_crystal('W_long', 4), fname='W_long_name_20_chars_and_more')], bad=None, bits=3, tail=3),
             dict(entries=[exh_crystal('Si', 5)], bad=('UM', exh_crystal('Bad', 6)), bits=4, tail=0),
             dict(empty0=True, entries=[], bad=None, bits=0, tail=0)]
EXH_POOL = EXH_NAMES + ['W_long_name_20_chars']

def exh_alphabet(level):
    """the operation kinds of the protocol over 3 names, the built-in array and (at most) one user array and two handed-out objects.
    level 3: everything (29 operations, length <= 4 in the quick tier); level 2: without the operations that differ from a kept one only in the
    target or the literal (20; length 5 in the thorough tier); level 1: one literal per target, one lookup per collection (15; MemorySanitizer pass)"""
    A = [dict(op='init', n=0), dict(op='init', n=1)]
    if level >= 3: A.append(dict(op='init', n=-1))
    lits = [0, 1, 2] if level >= 2 else [1, 2]
    A += [dict(op='add', arr='A0', src=EXH_LIT[i]) for i in lits]
    A += [dict(op='add', arr='B', src=EXH_LIT[i]) for i in ([0, 1, 2] if level >= 3 else [2])]
    A += [dict(op='add', arr='A0', src='O0')]
    if level >= 3: A += [dict(op='add', arr='A0', src='N'), dict(op='add', arr='B', src='O0')]
    A += [dict(op='read', arr='A0', file=EXH_FILES[0], fidx=0)]
    if level >= 2: A += [dict(op='read', arr='A0', file=EXH_FILES[1], fidx=1), dict(op='read', arr='A0', file=EXH_FILES[2], fidx=2)]
    if level >= 3: A += [dict(op='read', arr='B', file=EXH_FILES[0], fidx=0), dict(op='read', arr='A0', file='NOFILE')]
    A += [dict(op='get', arr='A0', name=n) for n in (EXH_NAMES if level >= 2 else EXH_NAMES[1:])]
    A += [dict(op='get', arr='B', name=n) for n in (['Si', EXH_NAMES[2]] if level >= 3 else ['Si'])]
    if level >= 2: A += [dict(op='list', arr='A0')]
    if level >= 3: A += [dict(op='copy', src=EXH_LIT[1])]
    A += [dict(op='copy', src='O0'), dict(op='free', j=0), dict(op='free', j=1), dict(op='scrib', j=0, w=-1.5), dict(op='afree', i=0)]
    return A

def exh_apply(st, o):
    """syntactic life cycle of the handles: -> (applicable, undefined, new state).  State: (A0 in None|'live'|'null'|'freed', objects)"""
    a0, objs = st
    k = o['op']
    uses_a = o.get('arr') == 'A0' or k == 'afree'
    if uses_a and a0 is None: return False, False, st
    src = o.get('src')
    uses_o = [int(src[1:])] if isinstance(src, str) and src.startswith('O') else [o['j']] if k in ('free', 'scrib') else []
    if any(j >= len(objs) for j in uses_o): return False, False, st
    ub = (uses_a and a0 == 'freed') or any(objs[j] == 'freed' for j in uses_o)
    if ub: return True, True, st
    if k == 'init':
        if a0 is not None: return False, False, st          # one user array: a second `init` would never be referred to
        a0 = 'null' if o['n'] < 0 else 'live'
    elif k in ('get', 'copy'):
        if len(objs) >= 2: return False, False, st
        objs = objs + ('live',)
    elif k == 'free': objs = tuple('freed' if j == o['j'] else x for j, x in enumerate(objs))
    elif k == 'afree': a0 = 'freed' if a0 == 'live' else a0
    return True, False, (a0, objs)

def exhaustive_histories(L, level, shared, with_ub=True):
    """every history of exactly L operations over the alphabet in which each operation refers to handles that exist, plus every shorter one
    that ends in an operation through a released handle (undefined: the history stops there).  Shorter legal histories are prefixes."""
    A = exh_alphabet(level); out = []
    def rec(prefix, st):
        if len(prefix) == L: out.append(prefix); return
        for o in A:
            ok, ub, st2 = exh_apply(st, o)
            if not ok: continue
            if ub:
                if with_ub: out.append(prefix + [o])
            else: rec(prefix + [o], st2)
    rec([], (None, ()))
    return [Hist(ops, EXH_POOL, 'exhaustive', shared) for ops in out], len(A)

# --------------------------------------------------------------------------------------------------------------
# running and comparing

class Env:
    """the built artefacts of one check run"""
    def __init__(self, sc):
        self.sc = sc; self.cdrv = None; self.model = os.path.join(LEAN, '.lake', 'build', 'bin', 'c14-model'); self.builtin = []; self.bcap = 512
        self.n = 0

    def build_c(self):
        cbuild.build_prdata(self.sc, REPO)
        objs, fl = cbuild.build_lib(self.sc, REPO)
        self.cdrv = cbuild.link(self.sc, objs, [HARNESS], self.sc.path('c14drv'), fl + WRAP)
        m = re.search(r'#define\s+CRYSTALARRAY_MAX\s+(\d+)', open(os.path.join(REPO, 'include', 'xraylib-defs.h')).read())
        if not m: raise BuildError('CRYSTALARRAY_MAX not found in include/xraylib-defs.h')
        self.bcap = int(m.group(1)); BCAP[0] = self.bcap
        p = subprocess.run([self.cdrv, '/dev/null', self.sc.dir, 'dump'], capture_output=True, text=True, env=self.cenv())
        if p.returncode != 0 or not p.stdout.startswith('builtin '):
            raise BuildError('dump of the built-in collection failed: ' + (p.stderr or p.stdout)[-1500:])
        self.builtin = p.stdout.splitlines()
        # the initial state of the model is the same for every history of the run: one file, named by a `builtinfile` line
        bf = self.sc.path('builtin.txt')
        with open(bf, 'w') as f: f.write('\n'.join(self.builtin) + '\n')
        self.builtin_ref = ['builtinfile ' + bf]

    def cenv(self):
        return dict(os.environ, ASAN_OPTIONS='detect_leaks=0:abort_on_error=0:halt_on_error=1:allocator_may_return_null=0',
                    UBSAN_OPTIONS='print_stacktrace=0:halt_on_error=1')

    def materialise_many(self, hists):
        """write the crystal files and the history file of each history -> [(dir, history path)].  Files the generator does not
        interpret get their expected content (for the specification) from the model's character-level reader."""
        mats = []; raws = []
        for h in hists:
            self.n += 1
            if h.shared is not None:
                d = h.shared
                hp = os.path.join(d, 'h%07d.txt' % self.n)
            else:
                d = self.sc.path('h%07d' % self.n); os.makedirs(d, exist_ok=True)
                hp = os.path.join(d, 'history.txt')
                for i, sp in enumerate(h.file_specs()):
                    fp = os.path.join(d, 'f%d.dat' % i)
                    with open(fp, 'wb') as f: f.write(render_file(sp).encode('latin-1'))
                    if 'raw' in sp: raws.append((h, sp, fp))
            mats.append((d, hp))
        if raws:
            got = self.parse_files([fp for _, _, fp in raws])
            for h, sp, fp in raws:
                g = got.get(fp, 'UNSUPPORTED')
                if g.startswith('P'): sp['tokens'] = g[2:]
                else: sp['tokens'] = ''; h.skip = 'the reader model does not interpret file %s (%s): %s' % (os.path.basename(fp), sp.get('why'), g)
        for h, (d, hp) in zip(hists, mats):
            lines, _ = h.lines(self.builtin_ref)
            with open(hp, 'w', encoding='latin-1') as f: f.write('\n'.join(lines) + '\n')
            if h.noslot_ops():            # the model and the specification read the history without the `N:` marks
                lines, _ = h.lines(self.builtin_ref, for_c=False)
                with open(model_path(hp), 'w', encoding='latin-1') as f: f.write('\n'.join(lines) + '\n')
        return mats

    def parse_files(self, paths):
        out = {}
        for i in range(0, len(paths), 300):
            p = subprocess.run([self.model, 'parse'] + paths[i:i + 300], capture_output=True)
            if p.returncode != 0: raise BuildError('c14-model parse failed: ' + p.stderr.decode('utf-8', 'replace')[-2000:])
            for l in p.stdout.decode('utf-8', 'replace').split('\n'):
                if l.startswith('file '):
                    t = l.split(' ', 2)
                    out[t[1]] = t[2] if len(t) > 2 else ''
        return out

    def run_c(self, d, hp, cdrv=None):
        p = subprocess.run([cdrv or self.cdrv, hp, d], capture_output=True, env=self.cenv())
        out = p.stdout.decode('latin-1'); err = p.stderr.decode('latin-1')
        return out.split('\n')[:-1] if out.endswith('\n') else out.split('\n'), self.died(p.returncode, out, err)

    DIED = re.compile(r'(runtime error: [^\n]*|ERROR: AddressSanitizer: [^\n]*|WARNING: MemorySanitizer: [^\n]*|SUMMARY: [^\n]*)')
    def died(self, rc, out, err):
        if rc == 0 and out.rstrip().endswith('end'): return None
        m = self.DIED.search(err)
        return m.group(1)[:200] if m else 'exit %d %s' % (rc, err[-200:].replace('\n', ' '))

    def run_c_batch(self, mats, jobs=14, cdrv=None):
        """every history in a forked child of one harness process per chunk -> [(lines, died)] aligned with `mats`"""
        if not mats: return []
        chunks = [mats[i::jobs] for i in range(jobs) if mats[i::jobs]]
        def one(ch):
            self.n += 1
            lf = self.sc.path('batch%07d_%d.txt' % (self.n, id(ch) % 100000))
            with open(lf, 'w') as f: f.write(''.join('%s %s\n' % (hp, d) for d, hp in ch))
            p = subprocess.run([cdrv or self.cdrv, lf, '-', 'batch'], capture_output=True, env=self.cenv())
            os.unlink(lf)
            if p.returncode != 0: raise BuildError('c14drv batch mode failed (exit %d): %s' % (p.returncode, p.stderr.decode('latin-1')[-1500:]))
            errs = {}; cur = None
            for l in p.stderr.decode('latin-1').split('\n'):
                if l.startswith('history '): cur = l[8:]; errs[cur] = []
                elif cur is not None: errs[cur].append(l)
            res = {}; cur = None; buf = []
            for l in p.stdout.decode('latin-1').split('\n'):
                if cur is None:
                    if l.startswith('history '): cur = l[8:]; buf = []
                elif l.startswith('exit ') and l[5:].isdigit():
                    if buf and buf[-1] == '': buf.pop()            # the parent starts its `exit` line on a fresh line
                    rc = int(l[5:]); out = '\n'.join(buf)
                    res[cur] = (buf, self.died(rc, out, '\n'.join(errs.get(cur, []))))
                    cur = None
                else: buf.append(l)
            return res
        res = {}
        with ThreadPoolExecutor(max_workers=jobs) as ex:
            for r in ex.map(one, chunks): res.update(r)
        missing = [hp for _, hp in mats if hp not in res]
        if missing: raise BuildError('c14drv batch mode gave no answer for %d histories, e.g. %s' % (len(missing), missing[0]))
        return [res[hp] for _, hp in mats]

    def run_model(self, mode, hps):
        """one model process for many histories; returns {path: lines}"""
        out = {}
        for i in range(0, len(hps), 200):
            p = subprocess.run([self.model, mode, str(self.bcap)] + hps[i:i + 200], capture_output=True)
            if p.returncode != 0: raise BuildError('c14-model failed: ' + p.stderr.decode('utf-8', 'replace')[-2000:])
            cur = None
            for l in p.stdout.decode('utf-8', 'replace').split('\n'):
                if l.startswith('history '): cur = l[8:]; out[cur] = []
                elif cur is not None and l != '': out[cur].append(l)
        return out

def model_path(hp): return hp[:-4] + '.model.txt'
VOL = re.compile(r' v=(x[0-9a-f]{16})')
def line_agrees(c, m, stats):
    if c == m: return True
    if c.startswith('op ') and ' err=2:Could not open' in c and ' err=2:Could not open' in m:
        return c.split(' err=')[0] == m.split(' err=')[0]
    a, b = VOL.split(c), VOL.split(m)
    if len(a) != len(b) or a[0::2] != b[0::2]: return False
    for x, y in zip(a[1::2], b[1::2]):
        u, v = unhx(x), unhx(y)
        if math.isnan(u) and math.isnan(v): continue
        if not core.close(u, v, 1e-12): return False
        if u != v: stats['max_rel_dev'] = max(stats.get('max_rel_dev', 0.0), abs(u - v) / max(abs(u), abs(v)))
    return True

def compare_model(c_lines, died, m_lines, stats):
    """None if model and implementation agree on this history, else a description of the first difference"""
    m_ub = next((i for i, l in enumerate(m_lines) if re.search(r'^(op \d+ \w+|observe) ub ', l)), None)
    if died is not None:
        if m_ub is None: return 'implementation aborted (%s) after line %d, the model runs to the end' % (died, len(c_lines))
        # the implementation prints `op k name` before executing: its last line is that prefix (or an observation line)
        for i in range(min(m_ub, len(c_lines))):
            if i < len(c_lines) - 1 and not line_agrees(c_lines[i], m_lines[i], stats):
                return 'line %d: impl `%s` / model `%s`' % (i, c_lines[i][:160], m_lines[i][:160])
        last_c_op = max((i for i, l in enumerate(c_lines) if l.startswith('op ')), default=-1)
        last_m_op = max((i for i, l in enumerate(m_lines[:m_ub + 1]) if l.startswith('op ')), default=-1)
        if last_c_op != last_m_op: return 'implementation aborted (%s) in op at line %d, model ub in op at line %d' % (died, last_c_op, last_m_op)
        stats['ub_agreed'] = stats.get('ub_agreed', 0) + 1
        return None
    if m_ub is not None: return 'model says `%s`, the implementation runs to the end without a sanitizer report' % m_lines[m_ub]
    for i, (c, m) in enumerate(zip(c_lines, m_lines)):
        if not line_agrees(c, m, stats): return 'line %d: impl `%s` / model `%s`' % (i, c[:200], m[:200])
    if len(c_lines) != len(m_lines): return 'different number of lines: impl %d, model %d' % (len(c_lines), len(m_lines))
    return None

ALLOC = re.compile(r' alloc=\d+'); ERRTXT = re.compile(r' err=\d+:.*$')
def c_to_spec_view(l):
    """project a harness line onto what the specification talks about"""
    if ' alloc=' in l: l = ALLOC.sub('', l)
    if ' err=' in l and not l.endswith(' err=-'): l = ERRTXT.sub(' err=+', l)
    return l

def compare_spec(c_lines, died, s_lines, stats):
    """None if the implementation did what the specification says on this (legal) history"""
    ill = next((i for i, l in enumerate(s_lines) if l.endswith(' illegal')), None)
    upto = len(s_lines) if ill is None else ill
    if died is not None and len(c_lines) <= upto:
        return 'undefined behaviour in a legal history: %s (after line %d: `%s`)' % (died, len(c_lines) - 1, c_lines[-1][:120] if c_lines else '')
    for i in range(min(upto, len(c_lines))):
        c, s = c_lines[i], s_lines[i]
        if c == s: continue
        c = c_to_spec_view(c)
        if s.startswith('live ?'):
            if not c.endswith(' fds 0'): return 'line %d: open files after the call: `%s`' % (i, c)
            continue
        if not line_agrees(c, s, stats): return 'line %d: impl `%s` / spec `%s`' % (i, c[:200], s[:200])
    if ill is None and len(c_lines) != len(s_lines): return 'different number of lines: impl %d, spec %d' % (len(c_lines), len(s_lines))
    return None

def check_histories(env, hists, stats, jobs=14, modes=('model', 'spec'), cdrv=None, timing=None):
    """run histories through the implementation, the model and the specification.
    Returns a list of (hist, mode, difference): mode 'model' = model and implementation disagree (the tie),
    mode 'spec' = the implementation does not do what the property says (a violation)."""
    t0 = time.time()
    mats = env.materialise_many(hists)
    t1 = time.time()
    cres = env.run_c_batch(mats, jobs, cdrv)
    t2 = time.time()
    mp = {hp: (model_path(hp) if h.noslot_ops() else hp) for h, (_, hp) in zip(hists, mats)}
    hps = [mp[hp] for _, hp in mats]
    chunks = [hps[i::jobs] for i in range(jobs) if hps[i::jobs]]
    res = {}
    for mode in modes:
        with ThreadPoolExecutor(max_workers=jobs) as ex:
            res[mode] = {}
            for r in ex.map(lambda c: env.run_model(mode, c), chunks): res[mode].update(r)
    t3 = time.time()
    bad = []
    for h, (d, hp), (cl, died) in zip(hists, mats, cres):
        if h.skip:
            stats['reader_unsupported'] = stats.get('reader_unsupported', 0) + 1
        else:
            for mode in modes:
                ml = without_error_objects(res[mode].get(mp[hp], []), h.noslot_ops())
                if mode == 'model':
                    if any(re.match(r'op \d+ read unsupported$', l) for l in ml[-1:]):
                        stats['reader_unsupported'] = stats.get('reader_unsupported', 0) + 1; break
                    diff = compare_model(cl, died, ml, stats)
                else:
                    if h.kind == 'misuse': continue
                    diff = compare_spec(cl, died, ml, stats)
                if diff: bad.append((h, mode, diff))
            account(h, cl, died, stats)
        if h.shared is None: shutil.rmtree(d, ignore_errors=True)
        else:
            for x in {hp, mp[hp]}:
                try: os.unlink(x)
                except OSError: pass
    if timing is not None:
        for k, v in (('materialise', t1 - t0), ('library', t2 - t1), ('model_and_spec', t3 - t2), ('compare', time.time() - t3)):
            timing[k] = round(timing.get(k, 0.0) + v, 2)
    return bad

LOOKUP = re.compile(r'^(?:B|A\d+) \? (\S+) (F|A)')
def account(h, cl, died, stats):
    stats['histories'] = stats.get('histories', 0) + 1
    stats['ops'] = stats.get('ops', 0) + len(h.ops)
    stats['lines'] = stats.get('lines', 0) + len(cl)
    stats.setdefault('kinds', {}); stats['kinds'][h.kind] = stats['kinds'].get(h.kind, 0) + 1
    mutated = False
    for l in cl:
        if l.startswith('op '):
            t = l.split(' ')
            failed = (' err=' in l and not l.endswith('err=-')) or (t[2] in ('add', 'read', 'readmany') and ' ret=0 ' in l)      # without a slot a refusal shows in the return value only
            key = t[2] + (':fail' if failed else ':ok')
            stats.setdefault('dist', {}); stats['dist'][key] = stats['dist'].get(key, 0) + 1
            if (not failed and t[2] in ('add', 'read', 'readmany')) or (t[2] == 'addmany' and ' ret=0/' not in l): mutated = True
            if failed:
                msg = re.sub(r'(crystal|Crystal) \S+', r'\1 <name>', l.split(' err=')[1]); msg = re.sub(r'line \d+', 'line <n>', msg); msg = re.sub(r'open \S+ for reading.*', 'open <file>', msg)
                stats.setdefault('errors', {}); stats['errors'][msg] = stats['errors'].get(msg, 0) + 1
        elif l.startswith('A') and ' alloc=' in l:
            m = re.search(r'n=(\d+) alloc=(\d+)', l)
            if m:
                n, al = int(m.group(1)), int(m.group(2))
                stats['max_n'] = max(stats.get('max_n', 0), n); stats['max_alloc'] = max(stats.get('max_alloc', 0), al)
        elif l.startswith('B list '):
            stats['max_builtin'] = max(stats.get('max_builtin', 0), int(l.split(' ')[2]))
    if died: stats['impl_aborts'] = stats.get('impl_aborts', 0) + 1
    # names longer than the 20 characters of a file name field, and their 20-character prefixes: really looked up?
    ll = stats.setdefault('lookups_by_name_length', {'>20': {'found': 0, 'absent': 0}, '=20': {'found': 0, 'absent': 0}, '<20': {'found': 0, 'absent': 0}})
    rets = {}
    for l in cl:
        m = LOOKUP.match(l) if ' ? ' in l else None
        if m:
            n = len(m.group(1)); ll['>20' if n > 20 else '=20' if n == 20 else '<20']['found' if m.group(2) == 'F' else 'absent'] += 1
        elif l.startswith('op '):
            t = l.split(' ', 4)
            if len(t) > 3 and t[1].isdigit(): rets[int(t[1])] = l
    ns = h.noslot_ops()
    if ns:
        d = stats.setdefault('ops_without_error_slot', {'histories': 0, 'ops': 0, 'refused': 0, 'refused_at_builtin_capacity': 0})
        d['histories'] += 1
        for k in ns:
            r = rets.get(k)
            if r is None: continue
            d['ops'] += 1
            if re.search(r' ret=0 | ret=\d+/\d+ ', r): d['refused'] += 1
            if h.ops[k].get('arr') == 'B' and re.search(r' ret=0 | ret=\d+/\d+ ', r) and stats.get('max_builtin', 0) >= 0 and any(l.startswith('B list %d ' % BCAP[0]) for l in cl): d['refused_at_builtin_capacity'] += 1
    lg = stats.setdefault('get_ops_by_name_length', {'>20': {'found': 0, 'absent': 0}, '=20': {'found': 0, 'absent': 0}, '<20': {'found': 0, 'absent': 0}})
    fk = stats.setdefault('file_kinds', {})
    for k, o in enumerate(h.ops):
        r = rets.get(k)
        if r is None: continue
        if o['op'] == 'get' and o['name'] != '~':
            n = len(o['name']); lg['>20' if n > 20 else '=20' if n == 20 else '<20']['found' if ' ret=P' in r else 'absent'] += 1
        elif o['op'] == 'read' and isinstance(o['file'], dict):
            f = o['file']
            lab = ('raw:' + f.get('why', '?')) if 'raw' in f else 'empty0' if f.get('empty0') else ('bad:' + f['bad'][0]) if f.get('bad') else 'good'
            d = fk.setdefault(lab, {'ret1': 0, 'ret0': 0})
            d['ret1' if ' ret=1' in r else 'ret0'] += 1
            if 'raw' not in f and not f.get('empty0'):
                for flag in ('tabs', 'biso', 'longc', 'crlf'):
                    if f.get(flag):
                        d2 = fk.setdefault('with:' + flag, {'ret1': 0, 'ret0': 0}); d2['ret1' if ' ret=1' in r else 'ret0'] += 1
                if f.get('tail') in (1, 2, 3) and not f.get('bad'):
                    d2 = fk.setdefault('tail:%d' % f['tail'], {'ret1': 0, 'ret0': 0}); d2['ret1' if ' ret=1' in r else 'ret0'] += 1
    if mutated:
        stats.setdefault('_nontrivial', set()).add(hashlib.sha256(h.to_json().encode()).hexdigest())

def shrink(env, h, mode, budget=400):
    """greedy one-op-at-a-time minimisation of a disagreeing history (handles are renumbered by Hist.drop)"""
    st = {}
    def fails(x):
        r = check_histories(env, [x], st, jobs=1, modes=(mode,))
        return r[0][2] if r else None
    cur = h; why = fails(h)
    if why is None: return h, 'not reproducible'
    # 1. cut the tail, 2. drop single ops from the end to the start, 3. simplify files and crystals
    lo = 1
    while lo < len(cur.ops) and budget > 0:
        cand = Hist(cur.ops[:len(cur.ops) // 2], cur.pool, cur.kind); budget -= 1
        w = fails(cand) if cand.ops else None
        if w: cur, why = cand, w
        else: break
    k = len(cur.ops) - 1
    while k >= 0 and budget > 0:
        cand = cur.drop(k); budget -= 1
        w = fails(cand) if cand.ops else None
        if w: cur, why = cand, w
        k -= 1
        k = min(k, len(cur.ops) - 1)
    for i, o in enumerate(list(cur.ops)):
        if budget <= 0: break
        if o['op'] in ('addmany', 'readmany') and o['n'] > 1:
            # a bulk operation: the smallest count that still fails (bisection; the failing input stays ONE operation line)
            lo, hi = 0, o['n']                     # invariant: count `hi` fails
            while hi - lo > 1 and budget > 0:
                mid = (lo + hi) // 2
                ops = list(cur.ops); ops[i] = dict(o, n=mid); cand = Hist(ops, cur.pool, cur.kind); budget -= 1
                w = fails(cand)
                if w: hi, cur, why = mid, cand, w
                else: lo = mid
            continue
        if o['op'] == 'read' and isinstance(o['file'], dict) and 'raw' in o['file']:
            f = o['file']; ls = f['raw'].split('\n')
            for j in range(len(ls) - 1, -1, -1):             # a file the generator does not interpret: drop whole lines
                if budget <= 0 or len(ls) <= 1: break
                g = dict(raw='\n'.join(ls[:j] + ls[j + 1:]), why=f.get('why')); ops = list(cur.ops); ops[i] = dict(o, file=g)
                cand = Hist(ops, cur.pool, cur.kind); budget -= 1
                w = fails(cand)
                if w: cur, why, ls, o = cand, w, ls[:j] + ls[j + 1:], ops[i]
        elif o['op'] == 'read' and isinstance(o['file'], dict):
            f = o['file']
            for j in range(len(f.get('entries', [])) - 1, -1, -1):
                g = dict(f, entries=f['entries'][:j] + f['entries'][j + 1:]); ops = list(cur.ops); ops[i] = dict(o, file=g)
                cand = Hist(ops, cur.pool, cur.kind); budget -= 1
                w = fails(cand)
                if w: cur, why, f, o = cand, w, g, ops[i]
        for fld in ('src',):
            c = o.get(fld)
            if isinstance(c, dict) and c['atoms']:
                ops = list(cur.ops); ops[i] = dict(o, **{fld: dict(c, atoms=[])}); cand = Hist(ops, cur.pool, cur.kind); budget -= 1
                w = fails(cand)
                if w: cur, why = cand, w
    used = set()
    for o in cur.ops:
        if o['op'] == 'get': used.add(o['name'])
        for c in ([o['src']] if isinstance(o.get('src'), dict) else []) + (o['file'].get('entries', []) if isinstance(o.get('file'), dict) else []): used.add(c.get('fname', c['name'])[:20])
        if isinstance(o.get('file'), dict) and 'raw' in o['file']: used.update(file_names(o['file']))
    small = Hist(cur.ops, [n for n in cur.pool if n in used] or cur.pool[:1], cur.kind)
    w = fails(small)
    if w: cur, why = small, w
    return cur, why

# --------------------------------------------------------------------------------------------------------------
# the Lean side: regenerate what is extracted from the sources, build, audit

import fcntl
class LeanLock:
    def __enter__(self):
        self.f = open(os.path.join(LEAN, '.verif.lock'), 'w'); fcntl.flock(self.f, fcntl.LOCK_EX); return self
    def __exit__(self, *a):
        fcntl.flock(self.f, fcntl.LOCK_UN); self.f.close()

GEN_FILE = os.path.join(LEAN, 'XrlCrystals', 'Gen', 'Builtin.lean')

def builtin_names_from_table(inline_path):
    """names of `__Crystal_arr[]` in the generated xrayglob_inline.c, in table order"""
    txt = open(inline_path, errors='replace').read()
    m = re.search(r'static Crystal_Struct __Crystal_arr\[CRYSTALARRAY_MAX\] = \{(.*?)\n\};', txt, re.S)
    if not m: raise BuildError('__Crystal_arr not found in the generated table file')
    names = re.findall(r'^\s*\{"([^"]*)"', m.group(1), re.M)
    n = re.search(r'Crystal_Array Crystal_arr = \{(\d+), (\d+|CRYSTALARRAY_MAX), __Crystal_arr\};', txt)
    if not n or int(n.group(1)) != len(names): raise BuildError('Crystal_arr header does not match its table')
    return names, n.group(2)

def regenerate(env):
    names, alloc = builtin_names_from_table(env.sc.path('b', 'xrayglob_inline.c'))
    dumped = [l.split(' ')[1] for l in env.builtin]
    if names != dumped: raise BuildError('built-in names of the table file and of the running library differ')
    if alloc not in ('CRYSTALARRAY_MAX', str(env.bcap)): raise BuildError('Crystal_arr.n_alloc is %s, CRYSTALARRAY_MAX is %d' % (alloc, env.bcap))
    esc = lambda s: '"' + s.replace('\\', '\\\\').replace('"', '\\"') + '"'
    src = ('/- GENERATED by props/c14.py from the table file produced by prdata and include/xraylib-defs.h of the working tree;\n'
           '   never edited, git-ignored.  The start state of `crystals_refine_from_start` is the shipped collection:\n'
           '   its hypotheses (strictly sorted names, within CRYSTALARRAY_MAX) are decided here by the kernel. -/\n'
           'namespace XrlCrystals.Gen\n'
           'def CRYSTALARRAY_MAX : Nat := %d\n'
           'def builtinNames : List String := [%s]\n'
           'theorem builtin_names_sorted : builtinNames.Pairwise (· < ·) := by decide\n'
           'theorem builtin_fits : builtinNames.length ≤ CRYSTALARRAY_MAX := by decide\n'
           'end XrlCrystals.Gen\n') % (env.bcap, ', '.join(esc(n) for n in names))
    os.makedirs(os.path.dirname(GEN_FILE), exist_ok=True)
    old = open(GEN_FILE).read() if os.path.exists(GEN_FILE) else None
    if old != src: open(GEN_FILE, 'w').write(src)
    return names

def regenerate_facts(env):
    """structure of the container code from the clang AST of the working tree -> Gen/Facts.lean; returns (problem or None, facts)"""
    js = env.sc.path('c14_facts.json')
    p = subprocess.run([sys.executable, FACTS_TOOL, env.sc.path('b'), FACTS_FILE, '--json', js], capture_output=True, text=True, env=dict(os.environ, VERIF_REPO=REPO))
    if p.returncode == 3: return 'the structure extractor does not understand the container code any more (broken tie): ' + p.stderr.strip()[-600:], None
    if p.returncode != 0: raise BuildError('tools/c14_facts.py crashed: ' + p.stderr[-2000:])
    return None, json.load(open(js))

def lean_string_lists(path, prefix=''):
    """`def <prefix>NAME : List String := [ "..." , ... ]` blocks of a Lean file -> {NAME: [lines]}"""
    sys.path.insert(0, os.path.join(VERIF, 'tools'))
    from c14_facts import unlean_str
    out = {}
    txt = open(path).read()
    for m in re.finditer(r'^def ' + re.escape(prefix) + r'(\w+) : List String := \[\n(.*?)\n\]', txt, re.S | re.M):
        out[m.group(1)] = [unlean_str(l.strip().rstrip(',')) for l in m.group(2).split('\n') if l.strip()]
    return out

def skeleton_diff(facts):
    """entry-level view of a failing `code_skeleton_*` theorem: which statements of which function changed"""
    import difflib
    exp = lean_string_lists(SKELETON_FILE)
    out = []
    for fn, got in facts['skeletons'].items():
        e = exp.get(fn)
        if e is None: out.append('%s: no recorded skeleton' % fn); continue
        if e != got:
            d = [l for l in difflib.unified_diff(e, got, 'modelled ' + fn, 'working tree ' + fn, lineterm='', n=1)]
            out.append('\n'.join(d[:40]))
    return out

def failing_in(log, path):
    rel = os.path.relpath(path, LEAN)
    lines = [int(x) for m in re.findall(re.escape(rel) + r':(\d+):\d+: error|error: ' + re.escape(rel) + r':(\d+)', log) for x in m if x]
    src = open(path).read().splitlines(); names = []
    for ln in lines:
        for i in range(min(ln, len(src)) - 1, -1, -1):
            m = re.match(r'\s*(?:private\s+)?(?:theorem|example)\s*([\w\.\']*)', src[i])
            if m:
                nm = m.group(1) or 'example@%d' % (i + 1)
                if nm not in names: names.append(nm)
                break
    return names

def lean_sources():
    out = [os.path.join(LEAN, 'Driver.lean')]
    for root, dirs, files in os.walk(os.path.join(LEAN, 'XrlCrystals')):
        out += [os.path.join(root, f) for f in files if f.endswith('.lean')]
    return sorted(out)

def lake(targets):
    p = subprocess.run(['lake', 'build'] + targets, cwd=LEAN, capture_output=True, text=True)
    return p.returncode == 0, p.stdout + p.stderr

def print_axioms(sc, modules, names):
    src = ''.join('import %s\n' % m for m in modules) + ''.join('#print axioms %s\n' % n for n in names)
    path = sc.path('Audit.lean'); open(path, 'w').write(src)
    p = subprocess.run(['lake', 'env', 'lean', path], cwd=LEAN, capture_output=True, text=True)
    res = {}
    txt = p.stdout + p.stderr
    for m in re.finditer(r"'([^']+)' depends on axioms: \[([^\]]*)\]|'([^']+)' does not depend on any axioms", txt):
        if m.group(1): res[m.group(1)] = [a.strip() for a in m.group(2).replace('\n', ' ').split(',') if a.strip()]
        else: res[m.group(3)] = []
    return res, txt

# --------------------------------------------------------------------------------------------------------------
# replay files, corpus

def replay_body(h, mode, why, env=None):
    lines, files = h.lines([])
    b = '# C14 %s\n# %s\n' % ('VIOLATION: the library does not do what the property says (specification vs implementation)' if mode == 'spec'
                               else 'model and implementation disagree (correspondence)', why.replace('\n', ' ')[:1500])
    b += '# history (syntax: harness/c14drv.c); replay with ./check C14 --replay <this file>\n'
    for l in lines: b += '#   ' + (l if len(l) < 400 else l[:400] + ' …') + '\n'
    for i, f in enumerate(files):
        b += '# file f%d.dat:\n' % i + ''.join('#   | ' + x + '\n' for x in (f.splitlines()[:40] + (['…'] if f.count('\n') > 40 else [])))
    b += '#mode ' + mode + '\n#json ' + h.to_json() + '\n'
    return b

def load_histories(path):
    out = []
    mode = 'spec'
    for l in open(path):
        if l.startswith('#mode '): mode = l.split()[1]
        if l.startswith('#json '): out.append((Hist.from_json(l[6:]), mode))
    return out

def corpus():
    out = []
    if os.path.isdir(CORPUS):
        for f in sorted(os.listdir(CORPUS)):
            if f.startswith(ID + '-') and f.endswith('.lines'):
                out += [h for h, _ in load_histories(os.path.join(CORPUS, f))]
    return out

# --------------------------------------------------------------------------------------------------------------

TRUSTED = [
    'Lean 4.33 kernel (lake build; thorough tier: leanchecker re-check of the three Props modules); axioms allowed: propext, Classical.choice, Quot.sound (audited by #print axioms on every run)',
    'Mathlib (module-wise, proofs only: Data.Multiset.*, Data.List.Sort, Data.String.Basic)',
    'hand model lean-crystals/XrlCrystals/Hand/{Crystals,Caller,Reader}.lean of src/crystal_diffraction.c: (1) its structure is tied to the source statically - tools/c14_facts.py extracts the statement skeleton of the ten container '
    'functions and the two comparators, the growth step, the error codes and messages, the fgets length, the scanf formats and the buffer sizes from the clang AST of the working tree on every run, and Props/C14c.lean proves '
    'extracted = recorded (Hand/Skeleton.lean) and model constants / model error objects = extracted ones; (2) its behaviour is tied by execution - every history of <= 4 (thorough: 5) operations over a 29-operation alphabet, plus the '
    'seeded random histories, through harness/c14drv.c on the ASan+UBSan build of the working tree, every observable compared after every operation',
    'the extractor tools/c14_facts.py (a 200-line walk over the clang JSON AST that aborts on any construct it does not know) and clang-14 as parser',
    'libc by contract: qsort (sorts with the comparator), bsearch (finds an equal element of a sorted vector), realloc (as allocate-copy-free), strdup; the conversions %d %i %lf %20s of scanf, fgets, ftell/fseek, feof are MODELLED '
    '(Hand/Reader.lean, written as lean-loader/Loader/Scan.lean, probed against glibc 2.36) and compared with the library on the bytes of every generated file, incl. byte-level garbage; decimal -> double is the driver\'s own correctly '
    'rounded conversion (checked against Python float() on 20 000 tokens while building, and against the library\'s strtod by every run)',
    'not modelled: allocation failure (malloc returning NULL), IEEE-754 (doubles are only copied; the volume formula is a parameter, property C13), inf / nan / hexadecimal floating-point tokens in crystal files (such files are '
    'skipped and counted), bytes >= 0x80 in crystal files, Crystal_Struct arguments with a NULL name or a wrong n_atom built by the caller',
    'AddressSanitizer/UBSan (thorough tier also MemorySanitizer), the --wrap allocation counter and /proc/self/fd: observers in the correspondence check and the violation search only',
]

class C14:
    id = ID
    level = 'proof'

    def run(self, tier, seed, replay=None):
        t0 = time.time()
        timings = {}; notes = []
        sc = Scratch()
        try:
            return self._run(sc, tier, seed, replay, t0, timings, notes)
        except BuildError as e:
            log('BUILD ERROR', str(e)[:3000])
            path = self.write_replay('check %s could not build the working tree or its own harness:\n%s\n' % (ID, str(e)[:4000]), 'txt')
            print('VIOLATION property=%s replay=%s no-failing-input-found' % (ID, path))
            self.evidence(tier, seed, t0, timings, notes, dict(obligations=1, discharged=0, checker_cmd='lake build ' + MODULE, trusted_base=TRUSTED,
                          explanation='build failed: ' + str(e)[:500], evaluations=1, distinct_nontrivial=0), 1)
            return 1
        finally:
            sc.__exit__(None, None, None)

    def write_replay(self, body, suffix='lines'):
        os.makedirs(core.REPLAY_DIR, exist_ok=True)
        h = hashlib.sha256(body.encode()).hexdigest()[:12]
        path = os.path.join(core.REPLAY_DIR, '%s-%s.%s' % (ID, h, suffix))
        open(path, 'w').write(body)
        return os.path.relpath(path, VERIF)

    def evidence(self, tier, seed, t0, timings, notes, cov, violations):
        os.makedirs(core.EVID_DIR, exist_ok=True)
        ev = dict(property_id=ID, tier=tier, seed=seed, level=self.level, coverage=cov, wall_s=round(time.time() - t0, 2), violations=violations,
                  assumptions=['the shipped collection is strictly sorted by name and within CRYSTALARRAY_MAX (decided by the kernel on the regenerated table, XrlCrystals.Gen.builtin_names_sorted / builtin_fits)',
                               'histories inside the property use no handle after releasing it (the specification is undefined there; such histories are still run for the correspondence: sanitizer abort <=> model ub)'],
                  timings=timings, notes=notes)
        with open(os.path.join(core.EVID_DIR, ID + '.json'), 'w') as f: json.dump(ev, f, indent=1)

    def _run(self, sc, tier, seed, replay, t0, timings, notes):
        problems = []           # broken obligations / broken tie (no failing input by themselves)
        # ---- 1. C artefacts from the working tree ---------------------------------------------------------------
        t = time.time()
        env = Env(sc); env.build_c(); timings['c_build'] = round(time.time() - t, 2)
        # ---- 2. regenerate, lake build ---------------------------------------------------------------------------
        t = time.time()
        with LeanLock():
            names = regenerate(env)
            facts_problem, facts = regenerate_facts(env)
            ok_exe, log_exe = lake(['c14-model'])
            built = {}
            for mod, path in PROPS:
                if mod.endswith('C14c') and facts_problem: built[mod] = (False, facts_problem); continue
                built[mod] = lake([mod])
            ok_gen, log_gen = lake(['XrlCrystals.Gen.Builtin'])
        timings['lake_build'] = round(time.time() - t, 2)
        if not ok_exe: raise BuildError('the model driver does not build: ' + log_exe[-3000:])
        ok_props = all(ok for ok, _ in built.values())
        failing = []
        if facts_problem: problems.append(facts_problem)
        for mod, path in PROPS:
            ok, lg = built[mod]
            if ok or (mod.endswith('C14c') and facts_problem): continue
            f = failing_in(lg.replace(LEAN + '/', ''), path) or ['(module %s does not build)' % mod]
            failing += f
            problems.append('theorems that no longer check: %s\n%s' % (', '.join(f), '\n'.join(re.findall(r'error: [^\n]*', lg)[:8])))
            if mod.endswith('C14c') and facts:
                for d in skeleton_diff(facts): problems.append('the container code of the working tree is not the code the hand model was written against:\n' + d)
        if not ok_gen:
            problems.append('the shipped collection is not strictly sorted by name or does not fit CRYSTALARRAY_MAX (XrlCrystals.Gen.Builtin does not build): ' +
                            ' '.join(re.findall(r'error: [^\n]*', log_gen)[:3]))
        # ---- 3. audit -------------------------------------------------------------------------------------------
        t = time.time()
        bad = core.audit_sources(lean_sources())
        if bad: problems.append('forbidden construct in Lean sources: ' + '; '.join(bad[:5]))
        theorems = [t for _, path in PROPS for t in core.theorems_of(path, NAMESPACE)]
        for req in REQUIRED_THEOREMS:
            if NAMESPACE + '.' + req not in theorems: problems.append('property theorem %s is missing from %s' % (req, MODULE))
        gen_theorems = ['XrlCrystals.Gen.builtin_names_sorted', 'XrlCrystals.Gen.builtin_fits']
        axioms = {}
        ok_mods = [(m, path) for m, path in PROPS if built[m][0]]
        audited = [t for _, path in ok_mods for t in core.theorems_of(path, NAMESPACE)] + (gen_theorems if ok_gen else [])
        if audited:
            axioms, txt = print_axioms(sc, [m for m, _ in ok_mods] + (['XrlCrystals.Gen.Builtin'] if ok_gen else []), audited)
            for th in audited:
                if th not in axioms: problems.append('axiom audit: no report for %s' % th)
                else:
                    extra = set(axioms[th]) - core.ALLOWED_AXIOMS
                    if extra: problems.append('axiom audit: %s depends on %s' % (th, sorted(extra)))
        n_examples = sum(len(re.findall(r'^\s*example\b', core.strip_comments(open(path).read()), re.M)) for _, path in PROPS)
        if n_examples < 5: problems.append('non-vacuity examples missing from %s (found %d)' % (MODULE, n_examples))
        if tier == 'thorough' and ok_props:
            for mod, _ in PROPS:
                p = subprocess.run(['lake', 'env', 'leanchecker', mod], cwd=LEAN, capture_output=True, text=True)
                if p.returncode != 0: problems.append('leanchecker rejected %s: %s' % (mod, (p.stdout + p.stderr)[-400:]))
                else: notes.append('leanchecker re-checked ' + mod)
        timings['audit'] = round(time.time() - t, 2)
        # ---- 5. correspondence + violation search ----------------------------------------------------------------
        t = time.time()
        stats = {}
        rng = random.Random(seed * 1000003 + 14)
        if replay:
            hists = [h for h, _ in load_histories(replay)]
            if not hists: raise BuildError('no history (#json line) in replay file ' + replay)
        else:
            n = 500 if tier == 'quick' else 6000
            kinds = ['valid'] * 6 + ['misuse'] * 2 + ['builtin_full']
            hists = corpus() + [gen_history(rng, rng.choice(kinds)) for _ in range(n)]
        bad = []; tsplit = {}
        for i in range(0, len(hists), 400):
            bad += check_histories(env, hists[i:i + 400], stats, timing=tsplit)
        timings['correspondence_and_search'] = round(time.time() - t, 2)
        # ---- 5a. bulk operations (every run): growth far beyond the initial capacity and beyond CRYSTALARRAY_MAX ------------------
        t = time.time()
        bulk = {}
        if not replay:
            hb = bulk_histories(random.Random(seed * 1000003 + 141), env.bcap, len(names), tier)
            st1 = {}
            bad += check_histories(env, hb, st1, timing=tsplit)
            big = [(o['op'], o['arr'][0], o['n']) for h in hb for o in h.ops if o['op'] in ('addmany', 'readmany')]
            bulk = dict(histories=len(hb), ops=st1.get('ops', 0), lines_compared=st1.get('lines', 0), bulk_operations=len(big),
                        single_additions_in_addmany=sum(n for k, a, n in big if k == 'addmany'), crystals_in_readmany_files=sum(n for k, a, n in big if k == 'readmany'),
                        file_sizes=sorted({n for k, a, n in big if k == 'readmany'}), largest_user_array=st1.get('max_n', 0), largest_capacity=st1.get('max_alloc', 0),
                        largest_builtin=st1.get('max_builtin', 0), distribution=st1.get('dist', {}), errors_hit=st1.get('errors', {}))
            for k in ('histories', 'ops', 'lines', 'ub_agreed', 'impl_aborts'): stats[k] = stats.get(k, 0) + st1.get(k, 0)
            for k in ('max_n', 'max_alloc', 'max_builtin'): stats[k] = max(stats.get(k, 0), st1.get(k, 0))
            stats.setdefault('kinds', {})['bulk'] = len(hb)
            stats.setdefault('_nontrivial', set()).update(st1.get('_nontrivial', set()))
        timings['bulk'] = round(time.time() - t, 2)
        # ---- 5b. exhaustive enumeration of short histories (every run) ----------------------------------------------
        t = time.time()
        exh = {}
        if not replay:
            xd = sc.path('exh'); os.makedirs(xd, exist_ok=True)
            for i, sp in enumerate(EXH_FILES):
                with open(os.path.join(xd, 'f%d.dat' % i), 'wb') as f: f.write(render_file(sp).encode('latin-1'))
            plan = [(4, 3)] if tier == 'quick' else [(4, 3), (5, 2)]
            for L, level in plan:
                xs, nalpha = exhaustive_histories(L, level, xd)
                st2 = {}
                for i in range(0, len(xs), 6000):
                    bad += check_histories(env, xs[i:i + 6000], st2, timing=tsplit)
                exh['length<=%d' % L] = dict(alphabet=nalpha, histories=len(xs), ops=st2.get('ops', 0), lines_compared=st2.get('lines', 0),
                                             ended_in_abort_agreed_with_model_ub=st2.get('ub_agreed', 0), distribution=st2.get('dist', {}),
                                             lookups_by_name_length=st2.get('lookups_by_name_length'), file_kinds=st2.get('file_kinds'))
                for k in ('histories', 'ops', 'lines', 'ub_agreed', 'impl_aborts'): stats[k] = stats.get(k, 0) + st2.get(k, 0)
                stats.setdefault('kinds', {})['exhaustive'] = stats.get('kinds', {}).get('exhaustive', 0) + len(xs)
                stats.setdefault('_nontrivial', set()).update(st2.get('_nontrivial', set()))
        timings['exhaustive'] = round(time.time() - t, 2)
        timings['split'] = tsplit
        # ---- 5c. uninitialised reads (thorough tier): the same comparison on a MemorySanitizer build ----------------------
        msan = {}
        if tier == 'thorough' and not replay:
            t = time.time()
            objs_m, fl_m = cbuild.build_lib(sc, REPO, san='memory', tag='msan', extra=['-fsanitize-memory-track-origins=2'])
            cdrv_m = cbuild.link(sc, objs_m, [HARNESS], sc.path('c14drv_msan'), fl_m + WRAP)
            rng_m = random.Random(seed * 1000003 + 1414)
            hm = corpus() + [gen_history(rng_m, rng_m.choice(['valid'] * 8 + ['builtin_full']), length=rng_m.choice([6, 12, 25, 50])) for _ in range(1200)]
            hm += exhaustive_histories(4, 1, sc.path('exh'), with_ub=False)[0]       # MemorySanitizer does not see stale handles: legal histories only
            st3 = {}
            for i in range(0, len(hm), 600):
                bad += check_histories(env, hm[i:i + 600], st3, cdrv=cdrv_m, timing=tsplit)
            msan = dict(histories=st3.get('histories', 0), ops=st3.get('ops', 0), lines_compared=st3.get('lines', 0), reports=st3.get('impl_aborts', 0), file_kinds=st3.get('file_kinds'))
            for k in ('histories', 'ops', 'lines'): stats[k] = stats.get(k, 0) + st3.get(k, 0)
            stats.setdefault('_nontrivial', set()).update(st3.get('_nontrivial', set()))
            notes.append('MemorySanitizer pass: %d histories, %d reports' % (msan['histories'], msan['reports']))
            timings['msan'] = round(time.time() - t, 2)
        viol = [(h, why) for h, mode, why in bad if mode == 'spec']
        tie = [(h, why) for h, mode, why in bad if mode == 'model']
        # ---- report ---------------------------------------------------------------------------------------------
        exit_code = 0
        t = time.time()
        if viol:
            # one minimal history per distinct failure (first line of the difference without addresses), at most 4 shrunk
            seen = {}
            for h, why in sorted(viol, key=lambda x: len(x[0].ops)):
                key = re.sub(r'0x[0-9a-f]+|\d+', '#', why)[:90]
                if key not in seen: seen[key] = (h, why)
            body = ''
            for k, (h, why) in list(seen.items())[:4]:
                sh, w = shrink(env, h, 'spec', budget=250 if tier == 'quick' else 800)
                body += replay_body(sh, 'spec', w) + '\n'
            if problems or tie: body += '# also broken: %s\n' % json.dumps(dict(obligations=problems, tie=[w for _, w in tie[:3]]))[:3000]
            path = self.write_replay(body)
            print('VIOLATION property=%s replay=%s' % (ID, path))
            exit_code = 1
        elif tie or problems:
            body = '# %s is no longer shown to hold; the violation search (specification vs library, %d histories) found no failing history\n' % (ID, stats.get('histories', 0))
            for pb in problems: body += '# ' + pb.replace('\n', '\n# ') + '\n'
            for h, why in tie[:2]:
                sh, w = shrink(env, h, 'model', budget=150)
                body += replay_body(sh, 'model', w) + '\n'
            path = self.write_replay(body)
            print('VIOLATION property=%s replay=%s no-failing-input-found' % (ID, path))
            exit_code = 1
        timings['shrink'] = round(time.time() - t, 2)
        n_dis = sum(1 for th in theorems if th in axioms and th not in [NAMESPACE + '.' + f for f in failing] and not (set(axioms[th]) - core.ALLOWED_AXIOMS))
        nontriv = len(stats.pop('_nontrivial', set()))
        samples = []
        for h in hists[-2:]:
            ls, fs = h.lines([])
            samples.append(dict(kind=h.kind, ops=len(h.ops), history=[l[:200] for l in ls[:12]], files=len(fs)))
        cov = dict(obligations=max(len(theorems), 1), discharged=n_dis,
                   checker_cmd='cd lean-crystals && lake build %s XrlCrystals.Gen.Builtin  (Gen/Builtin.lean and Gen/Facts.lean are regenerated from the working tree first; then `#print axioms` on every theorem of the modules)' % ' '.join(m for m, _ in PROPS),
                   trusted_base=TRUSTED, theorems=[dict(name=th, axioms=axioms.get(th)) for th in theorems + gen_theorems],
                   traces_validated_against_impl=stats.get('histories', 0), evaluations=stats.get('ops', 0), distinct_nontrivial=nontriv,
                   rule='(a) EXHAUSTIVE: every history of exactly 4 operations (thorough tier: also every history of 5 operations over a 20-operation subset) over an alphabet of %d operations - the operation kinds of the protocol over 3 names (a shipped name, a new one, one of 29 characters), '
                        'the built-in array, one user array (capacities 0, 1, -1), literal / handed-out / NULL sources, a well-formed file (2 entries, one name cut to 20 characters), a file with a good entry followed by a malformed one, '
                        'a 0-byte file, a missing file, two handed-out objects (copy, free, scribble, double free) - in which every operation refers to handles that exist; histories that use a released handle end there '
                        '(sanitizer abort <=> model ub); shorter legal histories are prefixes.  (b) RANDOM: seeded random operation histories (length 6..200 + release epilogue) over 1-3 user arrays of initial capacity 0..12 (and -1), the built-in array ' % (exh.get('length<=4', {}).get('alphabet', 0))
                        + '(NULL) incl. a kind that fills it to its capacity, literal crystals (names from a pool of %d incl. prefixes/case/shipped names, cells, 0-8 atoms), '
                        'handed-out copies as sources, generated crystal files (well-formed with wide token syntax: exponent, sign, leading/trailing dot, leading zeros, tabs, octal/hex atomic numbers as %%i reads them, '
                        'CR LF line ends, the optional Biso column, comment lines of 100+ characters, four kinds of file end incl. a final newline after the last atom; 6 kinds of corruption, duplicate names, long names; '
                        '0-byte files; and files the generator does not interpret - random ASCII bytes incl. NUL, byte-level mutations of valid files, atom lines of 100+ characters, `08`-style atomic numbers, `#S` at a cut of '
                        'fgets(buffer,100), glued tags - whose expected content is what the character-level reader model makes of their bytes), '
                        'a "misuse" kind with stale handles (sanitizer abort <=> model ub); every history is run on the library (fresh process), the model and the '
                        'specification; after EVERY operation: return value, error, live blocks, open files, raw vector (count, capacity, order), listing, a lookup of every '
                        'pool name in every live collection, every handed-out copy.  (c) BULK (every run): short histories around bulk operations - `addmany` (hundreds of single additions of generated, pairwise different crystals whose names are '
                        'not in insertion order; answers the number accepted, the index of the first refusal and its error) and `readmany` (generated files with 300, CRYSTALARRAY_MAX - 1, 600 and 1100 crystals) - into user arrays of initial capacity '
                        '0, 7, 12, 3, 1 (growth past 512 and 1024 entries), repeated (all duplicates: refused), and into the built-in collection around its capacity (additions up to the refusal, a file that fits exactly, a file with one crystal '
                        'too many, refills); count, capacity, memory order, listing and a sample of lookups compared after every operation; a bulk operation is the sequence of its single operations through the unchanged model / specification '
                        'step.  (d) NO ERROR SLOT: about a third of the random histories (60 %% of those that cross the capacity of the built-in collection) make some or all of their additions / file reads with error = NULL '
                        '(harness line `N:<op>`), and bulk sessions do it around the fixed capacity: exactly-full built-in table + one more (single addition, one-crystal file) without and with a slot, bulk additions and a file one too long '
                        'without slot, user arrays grown past 512 without slot; the model and the specification predict the call with a slot, the prediction minus the error object must be what the library does '
                        '(ops_without_error_slot).  non-trivial = distinct histories with at least one successful addition or file load' % len(POOL),
                   ops_without_error_slot=stats.get('ops_without_error_slot', {}),
                   samples=samples, histories=stats.get('histories', 0), lines_compared=stats.get('lines', 0), kinds=stats.get('kinds', {}),
                   distribution=stats.get('dist', {}), errors_hit=stats.get('errors', {}), ub_agreed=stats.get('ub_agreed', 0), impl_aborts=stats.get('impl_aborts', 0),
                   max_user_array=stats.get('max_n', 0), max_capacity=stats.get('max_alloc', 0), max_builtin=stats.get('max_builtin', 0),
                   max_rel_dev_volume=stats.get('max_rel_dev', 0.0), builtin_crystals=len(names), CRYSTALARRAY_MAX=env.bcap,
                   correspondence_mismatches=len(tie), search_violations=len(viol), nonvacuity_examples=n_examples,
                   exhaustive=exh, bulk=bulk, memory_sanitizer_pass=msan or 'thorough tier only',
                   lookups_by_name_length=stats.get('lookups_by_name_length'), get_ops_by_name_length=stats.get('get_ops_by_name_length'),
                   file_kinds=stats.get('file_kinds'), files_outside_the_reader_model=stats.get('reader_unsupported', 0),
                   extracted_structure=(dict(growth_step=facts['growth'], fgets_length=facts['fgets_n'], scanf_formats=facts['formats'], buffers=facts['buffers'],
                                             error_codes=facts['codes'], error_sites=len(facts['errors']), skeleton_lines={k: len(v) for k, v in facts['skeletons'].items()}) if facts else None),
                   broken=dict(obligations=problems, tie=[w for _, w in tie[:5]]), repo=REPO)
        self.evidence(tier, seed, t0, timings, notes, cov, len(viol) + (1 if (tie or problems) and not viol else 0))
        log('%s %s: exit %d (%.1fs; theorems %d/%d; %d histories, %d ops, %d lines; tie mismatches %d; violations %d)' % (
            ID, tier, exit_code, time.time() - t0, n_dis, len(theorems), stats.get('histories', 0), stats.get('ops', 0), stats.get('lines', 0), len(tie), len(viol)))
        return exit_code

CHECK = C14()
