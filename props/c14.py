"""C14 — crystal collections stay consistent under any sequence of operations (+ the crystal-container share of C04).

Decided by the Lean theorems of lean-crystals/XrlCrystals/Props/C14.lean (refinement of a dictionary specification by
a pointer-level heap model of src/crystal_diffraction.c, by induction over arbitrary operation histories).
The model is tied to the code by running the compiled model (`c14-model model`) and the library built from the working
tree (harness/c14drv.c, ASan+UBSan, allocation counter) on the same seeded random histories and comparing, after every
operation: return value, error, live heap blocks, open files, memory order / capacity of every live array, the listing,
every lookup, every handed-out copy, and sanitizer abort <=> model `ub`.
Violation search: the executed specification (`c14-model spec`) against the library on the legal histories.
"""
import os, sys, re, json, time, random, struct, subprocess, hashlib, shutil, math
from concurrent.futures import ThreadPoolExecutor
from vlib import core, cbuild
from vlib.cbuild import VERIF, REPO, Scratch, BuildError
from vlib.core import log

ID = 'C14'
LEAN = os.path.join(VERIF, 'lean-crystals')
MODULE = 'XrlCrystals.Props.C14'
NAMESPACE = 'XrlCrystals.C14'
PROPS_FILE = os.path.join(LEAN, 'XrlCrystals', 'Props', 'C14.lean')
HARNESS = os.path.join(VERIF, 'harness', 'c14drv.c')
CORPUS = os.path.join(VERIF, 'corpus')
WRAP = ['-Wl,--wrap=' + s for s in 'malloc calloc realloc free strdup strndup vasprintf'.split()]
REQUIRED_THEOREMS = ['crystals_refine', 'crystals_refine_run', 'crystals_no_ub']
NONVACUITY = ['example']

def hx(x):
    return 'x%016x' % struct.unpack('<Q', struct.pack('<d', float(x)))[0]

def unhx(s):
    return struct.unpack('<d', struct.pack('<Q', int(s[1:], 16)))[0]

# --------------------------------------------------------------------------------------------------------------
# crystals, files, histories

# names: prefixes of each other, case order ('Z' < 'a' in strcmp), names of shipped crystals, a 20-character name
POOL = ['Aa', 'Ab', 'B', 'Ba', 'C60', 'Cu2O', 'D', 'Diamond', 'E1', 'E10', 'E2', 'Fe', 'Fe2O3', 'G', 'Ge', 'H2O', 'Ice',
        'J', 'K', 'KCl', 'L', 'LiF', 'M', 'N', 'NaCl', 'O', 'P', 'Q', 'R', 'Si', 'Si2', 'SiX', 'T', 'U', 'V', 'W_long_name_20_chars', 'X',
        'Y', 'Zz', 'a', 'ab', 'b', 'z', '_', '0']

LONG_NAMES = ['W_long_name_20_charsA', 'W_long_name_20_charsB', 'W_long_name_20_chars_and_more', 'Quite_a_long_crystal_name_1', 'Quite_a_long_crystal_name_2']

def dec(rng, lo, hi, nd=None):
    nd = rng.choice([0, 1, 2, 4, 6]) if nd is None else nd
    return ('%.' + str(nd) + 'f') % rng.uniform(lo, hi)

def gen_crystal(rng, name=None):
    """a crystal as decimal strings (so that the same numbers can be written to a file and parsed back exactly)"""
    name = name or rng.choice(POOL)
    k = rng.random()
    if k < 0.45: ang = ['90.0000'] * 3
    elif k < 0.6: ang = ['90', '90', '120']
    elif k < 0.9: ang = [dec(rng, 50, 130) for _ in range(3)]
    else: ang = [dec(rng, 1, 179) for _ in range(3)]          # often geometrically impossible: volume NaN
    a = dec(rng, 1, 20)
    cell = [a, a if rng.random() < 0.5 else dec(rng, 1, 20), a if rng.random() < 0.4 else dec(rng, 1, 20)] + ang
    n = rng.choice([0, 1, 1, 2, 2, 3, 4, 6, 8])
    atoms = [(str(rng.choice([1, 6, 8, 14, 26, 29, 32, 82, 92, rng.randint(1, 107)])), rng.choice(['1.0', '1', '0.5', '0.25', dec(rng, 0, 1)]),
              rng.choice(['0.0', '.25', '0.5', '.75', dec(rng, 0, 1)]), rng.choice(['0', '.25', '0.5', '.75', dec(rng, 0, 1)]),
              rng.choice(['0.0', '.25', '0.5', '.75', dec(rng, 0, 1)])) for _ in range(n)]
    vol = rng.choice(['0', '1', '-3.5', dec(rng, 0, 1000), '1e300'])
    return dict(name=name, cell=cell, atoms=atoms, vol=vol)

def crystal_tokens(c, vol=None):
    t = [c['name']] + [hx(float(v)) for v in c['cell']] + [hx(float(c['vol'] if vol is None else vol)), str(len(c['atoms']))]
    for a in c['atoms']:
        t += [str(int(a[0]))] + [hx(float(v)) for v in a[1:]]
    return ' '.join(t)

def render_entry(rng_bits, c, bad=None):
    """text of one `#S` block in the syntax of data/Crystals.dat.  `bad`: how to corrupt it."""
    b = rng_bits
    out = []
    fname = c.get('fname', c['name'])
    if bad == 'S':
        out.append(['#S 14', '#S', '#S x ' + fname, '#S 7'][b % 4])          # sscanf("%20s %d %20s") != 3
        out.append('#UCELL ' + ' '.join(c['cell']))
        out.append('#L  AtomicNumber  Fraction  X  Y  Z')
        return out
    out.append('#S %d %s' % (b % 93, fname))
    if b & 1: out.append('#UCOMMENT generated %d' % b)
    if bad == 'UM': out.append(['#UCELL ' + ' '.join(c['cell'][:5]), '#UCELL 1 2 x 90 90 90', '#UCELL'][b % 3])
    elif bad != 'U0': out.append('#UCELL ' + ' '.join(c['cell']))
    if bad == 'U2': out.append('#UCELL ' + ' '.join(c['cell']))
    if b & 2: out.append('#USYSTEM Cubic'); out.append('#UTEMP 298.15')
    if bad == 'EOF':
        # the file ends here.  (fgets' result is not looked at: were `#UCELL` the last line it would be seen twice and the
        # error would be "Multiple #UCELL lines"; so the last line is made something else)
        out.append('#L  AtomicNumber  Fraction  X  Y  Z' if b & 4 else '#UREF none')
        return out
    out.append('#L  AtomicNumber  Fraction  X  Y  Z')
    for i, a in enumerate(c['atoms']):
        if bad == 'AT' and i == c['bad_line']:
            if c['bad_how'] == 0: out.append('%s %s oops %s %s' % (a[0], a[1], a[3], a[4])); continue
            if c['bad_how'] == 1: out.append('Si %s %s %s %s' % (a[1], a[2], a[3], a[4])); continue
            out.append('')                                                     # a blank line is counted as an atom
        out.append(' '.join(a))
    return out

def render_file(spec):
    """spec: dict(entries=[crystal...], bad=None|(kind, crystal), bits=int, tail=0|1|2)"""
    b = spec['bits']
    lines = ['#F generated', '#UT test', '', '#UD #S is mentioned here but not at the start of a line'] if b & 8 else []
    for i, c in enumerate(spec['entries']):
        lines += render_entry(b + 7 * i, c)
    text_tail = '#EOF\n'
    if spec.get('bad'):
        kind, c = spec['bad']
        lines += render_entry(b, c, kind)
        if kind == 'EOF': return '\n'.join(lines) + '\n'
        # whatever follows the malformed entry must not matter
        lines += render_entry(b + 1, dict(name='Later', cell=['1', '1', '1', '90', '90', '90'], atoms=[('1', '1', '0', '0', '0')], vol='0'))
    elif spec.get('tail') == 1 and spec['entries'] and spec['entries'][-1]['atoms']:
        return '\n'.join(lines)                                                # no `#` line and no newline after the last atom
    elif spec.get('tail') == 2:
        text_tail = '#EOF\n\n\n'
    return '\n'.join(lines + [text_tail]) if lines else text_tail

def parsed_tokens(spec):
    """the parsed content handed to the model: `G <crystal>`… [`E <kind> …`]"""
    t = []
    for c in spec['entries']:
        t.append('G ' + crystal_tokens(dict(c, name=c.get('fname', c['name'])[:20]), vol='0'))
    if spec.get('bad'):
        kind, c = spec['bad']
        nm = c.get('fname', c['name'])[:20]
        if kind == 'S': t.append('E S')
        elif kind == 'AT':
            n = len(c['atoms']) + (1 if c['bad_how'] == 2 else 0)
            line = c['bad_line'] if c['bad_how'] < 2 else len(c['atoms'])
            t.append('E AT %s %d %d' % (nm, line, n))
        else: t.append('E %s %s' % (kind, nm))
    return ' '.join(t)

class Hist:
    """a history: ops are dicts; handles are indices into the caller's tables, renumbered on shrinking"""
    def __init__(self, ops, pool=None, kind='valid'):
        self.ops = ops; self.pool = pool or (POOL + LONG_NAMES); self.kind = kind

    def lines(self, builtin_lines):
        out = list(builtin_lines) + ['pool ' + ' '.join(self.pool)]
        nfile = 0; files = []
        for o in self.ops:
            k = o['op']
            if k == 'init': out.append('init %d' % o['n'])
            elif k == 'add': out.append('add %s %s' % (o['arr'], self.src(o['src'])))
            elif k == 'read':
                if o['file'] in ('NOFILE', 'NULLNAME'): out.append('read %s %s' % (o['arr'], o['file']))
                else:
                    out.append(('read %s %d %s' % (o['arr'], nfile, parsed_tokens(o['file']))).rstrip()); files.append(render_file(o['file'])); nfile += 1
            elif k == 'get': out.append('get %s %s' % (o['arr'], o['name']))
            elif k == 'list': out.append('list %s' % o['arr'])
            elif k == 'copy': out.append('copy %s' % self.src(o['src']))
            elif k == 'free': out.append('free %d' % o['j'])
            elif k == 'afree': out.append('afree %d' % o['i'])
            elif k == 'scrib': out.append('scrib %d %s' % (o['j'], hx(o['w'])))
        return out, files

    @staticmethod
    def src(s):
        if s == 'N' or isinstance(s, str): return s
        return 'L ' + crystal_tokens(s)

    def to_json(self):
        return json.dumps(dict(kind=self.kind, pool=self.pool, ops=self.ops))

    @staticmethod
    def from_json(txt):
        d = json.loads(txt)
        return Hist(d['ops'], d['pool'], d.get('kind', 'valid'))

    # ---- shrinking support: drop op k and everything that depends on the handle it created -------------------
    def drop(self, k):
        ops = [dict(o) for o in self.ops]
        na = sum(1 for o in ops[:k] if o['op'] == 'init'); nobj = sum(1 for o in ops[:k] if o['op'] in ('get', 'copy'))
        o = ops[k]
        dead_a = na if o['op'] == 'init' else None
        dead_o = nobj if o['op'] in ('get', 'copy') else None
        new = []
        for i, p in enumerate(ops):
            if i == k: continue
            p = dict(p)
            if 'arr' in p and p['arr'] != 'B':
                ai = int(p['arr'][1:])
                if ai == dead_a: continue
                if dead_a is not None and ai > dead_a: p['arr'] = 'A%d' % (ai - 1)
            if p['op'] == 'afree':
                if p['i'] == dead_a: continue
                if dead_a is not None and p['i'] > dead_a: p['i'] -= 1
            if isinstance(p.get('src'), str) and p['src'].startswith('O'):
                oj = int(p['src'][1:])
                if oj == dead_o: continue
                if dead_o is not None and oj > dead_o: p['src'] = 'O%d' % (oj - 1)
            if p['op'] in ('free', 'scrib'):
                if p['j'] == dead_o: continue
                if dead_o is not None and p['j'] > dead_o: p['j'] -= 1
            new.append(p)
        return Hist(new, self.pool, self.kind)

def gen_file(rng, names, max_entries=5):
    n = rng.choice([0, 1, 1, 2, 2, 3, max_entries])
    entries = []
    for _ in range(n):
        c = gen_crystal(rng, rng.choice(names))
        if rng.random() < 0.05: c['fname'] = c['name'] + '_made_longer_than_20_characters'
        entries.append(c)
    spec = dict(entries=entries, bad=None, bits=rng.randint(0, 1 << 16), tail=rng.choice([0, 0, 0, 1, 2]))
    if rng.random() < 0.3:
        kind = rng.choice(['S', 'U0', 'U2', 'UM', 'EOF', 'AT'])
        c = gen_crystal(rng, rng.choice(names))
        if kind == 'AT':
            if not c['atoms']: c['atoms'] = [('1', '1.0', '0', '0', '0')]
            c['bad_line'] = rng.randrange(len(c['atoms'])); c['bad_how'] = rng.choice([0, 1, 2])
            if c['bad_how'] == 2: c['bad_line'] = rng.randrange(len(c['atoms']))
        spec['bad'] = (kind, c)
    return spec

def gen_history(rng, kind='valid', length=None):
    """kinds: valid (every handle used while live), misuse (stale handles on purpose), builtin_full (crosses 512)"""
    length = length or rng.choice([6, 12, 25, 50, 100, 200])
    names = rng.sample(POOL, rng.choice([3, 6, 12, 30, len(POOL)]))
    ops = []
    arrs = []      # state per array: 'live' | 'null' | 'freed'
    objs = []
    def new_init():
        n = rng.choice([0, 0, 1, 1, 2, 3, 5, 8, 12, rng.randint(0, 12), -1 if rng.random() < 0.3 else 4])
        ops.append(dict(op='init', n=n)); arrs.append('null' if n < 0 else 'live')
    for _ in range(rng.choice([1, 1, 2, 3])): new_init()
    if kind == 'builtin_full':
        # fill the built-in collection up to a few places below its capacity with one file, then go on
        fill = [dict(name='F%04d' % i, cell=['1', '2', '3', '90', '90', '90'], atoms=[('1', '1.0', '0', '0', '0')], vol='0') for i in range(rng.randint(466, 476))]
        ops.append(dict(op='read', arr='B', file=dict(entries=fill, bad=None, bits=0, tail=0)))
        length = min(length, 40)
    def pick_arr(for_free=False):
        r = rng.random()
        cand = [i for i, s in enumerate(arrs) if s == 'live']
        if kind == 'misuse' and r < 0.08:
            stale = [i for i, s in enumerate(arrs) if s == 'freed']
            if stale: return 'A%d' % rng.choice(stale)
        if not for_free and (r < (0.5 if kind == 'builtin_full' else 0.15) or not cand):
            nul = [i for i, s in enumerate(arrs) if s == 'null']
            return 'A%d' % rng.choice(nul) if nul and rng.random() < 0.3 else 'B'
        return 'A%d' % rng.choice(cand) if cand else 'B'
    def pick_obj():
        cand = [j for j, s in enumerate(objs) if s == 'live']
        if kind == 'misuse' and rng.random() < 0.08:
            stale = [j for j, s in enumerate(objs) if s == 'freed']
            if stale: return rng.choice(stale)
        if rng.random() < 0.1:
            nul = [j for j, s in enumerate(objs) if s == 'null']
            if nul: return rng.choice(nul)
        return rng.choice(cand) if cand else None
    def pick_src():
        r = rng.random()
        if r < 0.04: return 'N'
        if r < 0.3:
            j = pick_obj()
            if j is not None: return 'O%d' % j
        # names longer than the 20 characters a crystal FILE can carry enter through Crystal_AddCrystal only: different names that share
        # their first 20 characters must stay different crystals (lookups and the duplicate test compare whole names)
        if rng.random() < 0.06: return gen_crystal(rng, rng.choice(LONG_NAMES))
        return gen_crystal(rng, rng.choice(names))
    while len(ops) < length:
        r = rng.random()
        if r < 0.38: ops.append(dict(op='add', arr=pick_arr(), src=pick_src()))
        elif r < 0.48:
            f = rng.choice(['NOFILE', 'NULLNAME']) if rng.random() < 0.08 else gen_file(rng, names)
            ops.append(dict(op='read', arr=pick_arr(), file=f))
        elif r < 0.60:
            ops.append(dict(op='get', arr=pick_arr(), name='~' if rng.random() < 0.03 else rng.choice(names))); objs.append('?')
        elif r < 0.65: ops.append(dict(op='list', arr=pick_arr()))
        elif r < 0.71: ops.append(dict(op='copy', src=pick_src())); objs.append('?')
        elif r < 0.80:
            j = pick_obj()
            if j is not None:
                ops.append(dict(op='free', j=j))
                if objs[j] == 'live': objs[j] = 'freed'
        elif r < 0.86:
            j = pick_obj()
            if j is not None: ops.append(dict(op='scrib', j=j, w=rng.choice([0.0, -1.5, 7.25, 1e-300])))
        elif r < 0.90:
            a = pick_arr(for_free=True)
            if a != 'B':
                i = int(a[1:]); ops.append(dict(op='afree', i=i))
                if arrs[i] == 'live': arrs[i] = 'freed'
        elif r < 0.94: new_init()
        else: ops.append(dict(op='add', arr=pick_arr(), src=pick_src()))
        # objects created by get/copy: whether they are NULL is decided by the run; the generator treats '?' as live and the
        # caller's Crystal_Free(NULL) / use of a NULL copy are legal anyway
        for j, s in enumerate(objs):
            if s == '?': objs[j] = 'live'
    if kind != 'misuse':
        # epilogue: release everything still held, so that the history ends quiescent (C04: full release)
        for j, s in enumerate(objs):
            if s == 'live': ops.append(dict(op='free', j=j))
        for i, s in enumerate(arrs):
            if s == 'live': ops.append(dict(op='afree', i=i))
        ops.append(dict(op='list', arr='B'))
    return Hist(ops, names, kind)

# --------------------------------------------------------------------------------------------------------------
# running and comparing

class Env:
    """the built artefacts of one check run"""
    def __init__(self, sc):
        self.sc = sc; self.cdrv = None; self.model = os.path.join(LEAN, '.lake', 'build', 'bin', 'c14-model'); self.builtin = []; self.bcap = 512
        self.n = 0

    def build_c(self):
        cbuild.build_prdata(self.sc, REPO)
        objs, fl = cbuild.build_lib(self.sc, REPO)
        self.cdrv = cbuild.link(self.sc, objs, [HARNESS], self.sc.path('c14drv'), fl + WRAP)
        m = re.search(r'#define\s+CRYSTALARRAY_MAX\s+(\d+)', open(os.path.join(REPO, 'include', 'xraylib-defs.h')).read())
        if not m: raise BuildError('CRYSTALARRAY_MAX not found in include/xraylib-defs.h')
        self.bcap = int(m.group(1))
        p = subprocess.run([self.cdrv, '/dev/null', self.sc.dir, 'dump'], capture_output=True, text=True, env=self.cenv())
        if p.returncode != 0 or not p.stdout.startswith('builtin '):
            raise BuildError('dump of the built-in collection failed: ' + (p.stderr or p.stdout)[-1500:])
        self.builtin = p.stdout.splitlines()

    def cenv(self):
        return dict(os.environ, ASAN_OPTIONS='detect_leaks=0:abort_on_error=0:halt_on_error=1:allocator_may_return_null=0',
                    UBSAN_OPTIONS='print_stacktrace=0:halt_on_error=1')

    def materialise(self, h):
        self.n += 1
        d = self.sc.path('h%06d' % self.n); os.makedirs(d, exist_ok=True)
        lines, files = h.lines(self.builtin)
        hp = os.path.join(d, 'history.txt')
        open(hp, 'w').write('\n'.join(lines) + '\n')
        for i, t in enumerate(files): open(os.path.join(d, 'f%d.dat' % i), 'w').write(t)
        return d, hp

    def run_c(self, d, hp):
        p = subprocess.run([self.cdrv, hp, d], capture_output=True, text=True, env=self.cenv(), errors='replace')
        died = None
        if p.returncode != 0 or not p.stdout.rstrip().endswith('end'):
            m = re.search(r'(runtime error: [^\n]*|ERROR: AddressSanitizer: [^\n]*|SUMMARY: [^\n]*)', p.stderr)
            died = (m.group(1)[:200] if m else 'exit %d %s' % (p.returncode, p.stderr[-200:]))
        return p.stdout.splitlines(), died

    def run_model(self, mode, hps):
        """one model process for many histories; returns {path: lines}"""
        out = {}
        for i in range(0, len(hps), 200):
            p = subprocess.run([self.model, mode, str(self.bcap)] + hps[i:i + 200], capture_output=True, text=True)
            if p.returncode != 0: raise BuildError('c14-model failed: ' + p.stderr[-2000:])
            cur = None
            for l in p.stdout.splitlines():
                if l.startswith('history '): cur = l[8:]; out[cur] = []
                elif cur is not None: out[cur].append(l)
        return out

VOL = re.compile(r' v=(x[0-9a-f]{16})')
def line_agrees(c, m, stats):
    if c == m: return True
    if c.startswith('op ') and ' err=2:Could not open' in c and ' err=2:Could not open' in m:
        return c.split(' err=')[0] == m.split(' err=')[0]
    a, b = VOL.split(c), VOL.split(m)
    if len(a) != len(b) or a[0::2] != b[0::2]: return False
    for x, y in zip(a[1::2], b[1::2]):
        u, v = unhx(x), unhx(y)
        if math.isnan(u) and math.isnan(v): continue
        if not core.close(u, v, 1e-12): return False
        if u != v: stats['max_rel_dev'] = max(stats.get('max_rel_dev', 0.0), abs(u - v) / max(abs(u), abs(v)))
    return True

def compare_model(c_lines, died, m_lines, stats):
    """None if model and implementation agree on this history, else a description of the first difference"""
    m_ub = next((i for i, l in enumerate(m_lines) if re.search(r'^(op \d+ \w+|observe) ub ', l)), None)
    if died is not None:
        if m_ub is None: return 'implementation aborted (%s) after line %d, the model runs to the end' % (died, len(c_lines))
        # the implementation prints `op k name` before executing: its last line is that prefix (or an observation line)
        for i in range(min(m_ub, len(c_lines))):
            if i < len(c_lines) - 1 and not line_agrees(c_lines[i], m_lines[i], stats):
                return 'line %d: impl `%s` / model `%s`' % (i, c_lines[i][:160], m_lines[i][:160])
        last_c_op = max((i for i, l in enumerate(c_lines) if l.startswith('op ')), default=-1)
        last_m_op = max((i for i, l in enumerate(m_lines[:m_ub + 1]) if l.startswith('op ')), default=-1)
        if last_c_op != last_m_op: return 'implementation aborted (%s) in op at line %d, model ub in op at line %d' % (died, last_c_op, last_m_op)
        stats['ub_agreed'] = stats.get('ub_agreed', 0) + 1
        return None
    if m_ub is not None: return 'model says `%s`, the implementation runs to the end without a sanitizer report' % m_lines[m_ub]
    if len(c_lines) != len(m_lines): return 'different number of lines: impl %d, model %d' % (len(c_lines), len(m_lines))
    for i, (c, m) in enumerate(zip(c_lines, m_lines)):
        if not line_agrees(c, m, stats): return 'line %d: impl `%s` / model `%s`' % (i, c[:200], m[:200])
    return None

def c_to_spec_view(l):
    """project a harness line onto what the specification talks about"""
    l = re.sub(r' alloc=\d+', '', l)
    l = re.sub(r' err=\d+:.*$', ' err=+', l)
    return l

def compare_spec(c_lines, died, s_lines, stats):
    """None if the implementation did what the specification says on this (legal) history"""
    ill = next((i for i, l in enumerate(s_lines) if l.endswith(' illegal')), None)
    upto = len(s_lines) if ill is None else ill
    if died is not None and len(c_lines) <= upto:
        return 'undefined behaviour in a legal history: %s (after line %d: `%s`)' % (died, len(c_lines) - 1, c_lines[-1][:120] if c_lines else '')
    for i in range(min(upto, len(c_lines))):
        c, s = c_to_spec_view(c_lines[i]), s_lines[i]
        if s.startswith('live ?'):
            if not c.endswith(' fds 0'): return 'line %d: open files after the call: `%s`' % (i, c)
            continue
        if not line_agrees(c, s, stats): return 'line %d: impl `%s` / spec `%s`' % (i, c[:200], s[:200])
    if ill is None and len(c_lines) != len(s_lines): return 'different number of lines: impl %d, spec %d' % (len(c_lines), len(s_lines))
    return None

def check_histories(env, hists, stats, jobs=14, modes=('model', 'spec')):
    """run histories through the implementation, the model and the specification.
    Returns a list of (hist, mode, difference): mode 'model' = model and implementation disagree (the tie),
    mode 'spec' = the implementation does not do what the property says (a violation)."""
    mats = [env.materialise(h) for h in hists]
    with ThreadPoolExecutor(max_workers=jobs) as ex:
        cres = list(ex.map(lambda dh: env.run_c(*dh), mats))
    hps = [hp for _, hp in mats]
    chunks = [hps[i::jobs] for i in range(jobs) if hps[i::jobs]]
    res = {}
    for mode in modes:
        with ThreadPoolExecutor(max_workers=jobs) as ex:
            res[mode] = {}
            for r in ex.map(lambda c: env.run_model(mode, c), chunks): res[mode].update(r)
    bad = []
    for h, (d, hp), (cl, died) in zip(hists, mats, cres):
        for mode in modes:
            ml = res[mode].get(hp, [])
            if mode == 'model':
                diff = compare_model(cl, died, ml, stats)
            else:
                if h.kind == 'misuse': continue
                diff = compare_spec(cl, died, ml, stats)
            if diff: bad.append((h, mode, diff))
        account(h, cl, died, stats)
        shutil.rmtree(d, ignore_errors=True)
    return bad

def account(h, cl, died, stats):
    stats['histories'] = stats.get('histories', 0) + 1
    stats['ops'] = stats.get('ops', 0) + len(h.ops)
    stats['lines'] = stats.get('lines', 0) + len(cl)
    stats.setdefault('kinds', {}); stats['kinds'][h.kind] = stats['kinds'].get(h.kind, 0) + 1
    mutated = False
    for l in cl:
        if l.startswith('op '):
            t = l.split(' ')
            failed = ' err=' in l and not l.endswith('err=-')
            key = t[2] + (':fail' if failed else ':ok')
            stats.setdefault('dist', {}); stats['dist'][key] = stats['dist'].get(key, 0) + 1
            if not failed and t[2] in ('add', 'read'): mutated = True
            if failed:
                msg = re.sub(r'(crystal|Crystal) \S+', r'\1 <name>', l.split(' err=')[1]); msg = re.sub(r'line \d+', 'line <n>', msg); msg = re.sub(r'open \S+ for reading.*', 'open <file>', msg)
                stats.setdefault('errors', {}); stats['errors'][msg] = stats['errors'].get(msg, 0) + 1
        elif l.startswith('A') and ' alloc=' in l:
            m = re.search(r'n=(\d+) alloc=(\d+)', l)
            if m:
                n, al = int(m.group(1)), int(m.group(2))
                stats['max_n'] = max(stats.get('max_n', 0), n); stats['max_alloc'] = max(stats.get('max_alloc', 0), al)
        elif l.startswith('B list '):
            stats['max_builtin'] = max(stats.get('max_builtin', 0), int(l.split(' ')[2]))
    if died: stats['impl_aborts'] = stats.get('impl_aborts', 0) + 1
    if mutated:
        stats.setdefault('_nontrivial', set()).add(hashlib.sha256(h.to_json().encode()).hexdigest())

def shrink(env, h, mode, budget=400):
    """greedy one-op-at-a-time minimisation of a disagreeing history (handles are renumbered by Hist.drop)"""
    st = {}
    def fails(x):
        r = check_histories(env, [x], st, jobs=1, modes=(mode,))
        return r[0][2] if r else None
    cur = h; why = fails(h)
    if why is None: return h, 'not reproducible'
    # 1. cut the tail, 2. drop single ops from the end to the start, 3. simplify files and crystals
    lo = 1
    while lo < len(cur.ops) and budget > 0:
        cand = Hist(cur.ops[:len(cur.ops) // 2], cur.pool, cur.kind); budget -= 1
        w = fails(cand) if cand.ops else None
        if w: cur, why = cand, w
        else: break
    k = len(cur.ops) - 1
    while k >= 0 and budget > 0:
        cand = cur.drop(k); budget -= 1
        w = fails(cand) if cand.ops else None
        if w: cur, why = cand, w
        k -= 1
        k = min(k, len(cur.ops) - 1)
    for i, o in enumerate(list(cur.ops)):
        if budget <= 0: break
        if o['op'] == 'read' and isinstance(o['file'], dict):
            f = o['file']
            for j in range(len(f['entries']) - 1, -1, -1):
                g = dict(f, entries=f['entries'][:j] + f['entries'][j + 1:]); ops = list(cur.ops); ops[i] = dict(o, file=g)
                cand = Hist(ops, cur.pool, cur.kind); budget -= 1
                w = fails(cand)
                if w: cur, why, f, o = cand, w, g, ops[i]
        for fld in ('src',):
            c = o.get(fld)
            if isinstance(c, dict) and c['atoms']:
                ops = list(cur.ops); ops[i] = dict(o, **{fld: dict(c, atoms=[])}); cand = Hist(ops, cur.pool, cur.kind); budget -= 1
                w = fails(cand)
                if w: cur, why = cand, w
    used = set()
    for o in cur.ops:
        if o['op'] == 'get': used.add(o['name'])
        for c in ([o['src']] if isinstance(o.get('src'), dict) else []) + (o['file']['entries'] if isinstance(o.get('file'), dict) else []): used.add(c.get('fname', c['name'])[:20])
    small = Hist(cur.ops, [n for n in cur.pool if n in used] or cur.pool[:1], cur.kind)
    w = fails(small)
    if w: cur, why = small, w
    return cur, why

# --------------------------------------------------------------------------------------------------------------
# the Lean side: regenerate what is extracted from the sources, build, audit

import fcntl
class LeanLock:
    def __enter__(self):
        self.f = open(os.path.join(LEAN, '.verif.lock'), 'w'); fcntl.flock(self.f, fcntl.LOCK_EX); return self
    def __exit__(self, *a):
        fcntl.flock(self.f, fcntl.LOCK_UN); self.f.close()

GEN_FILE = os.path.join(LEAN, 'XrlCrystals', 'Gen', 'Builtin.lean')

def builtin_names_from_table(inline_path):
    """names of `__Crystal_arr[]` in the generated xrayglob_inline.c, in table order"""
    txt = open(inline_path, errors='replace').read()
    m = re.search(r'static Crystal_Struct __Crystal_arr\[CRYSTALARRAY_MAX\] = \{(.*?)\n\};', txt, re.S)
    if not m: raise BuildError('__Crystal_arr not found in the generated table file')
    names = re.findall(r'^\s*\{"([^"]*)"', m.group(1), re.M)
    n = re.search(r'Crystal_Array Crystal_arr = \{(\d+), (\d+|CRYSTALARRAY_MAX), __Crystal_arr\};', txt)
    if not n or int(n.group(1)) != len(names): raise BuildError('Crystal_arr header does not match its table')
    return names, n.group(2)

def regenerate(env):
    names, alloc = builtin_names_from_table(env.sc.path('b', 'xrayglob_inline.c'))
    dumped = [l.split(' ')[1] for l in env.builtin]
    if names != dumped: raise BuildError('built-in names of the table file and of the running library differ')
    if alloc not in ('CRYSTALARRAY_MAX', str(env.bcap)): raise BuildError('Crystal_arr.n_alloc is %s, CRYSTALARRAY_MAX is %d' % (alloc, env.bcap))
    esc = lambda s: '"' + s.replace('\\', '\\\\').replace('"', '\\"') + '"'
    src = ('/- GENERATED by props/c14.py from the table file produced by prdata and include/xraylib-defs.h of the working tree;\n'
           '   never edited, git-ignored.  The start state of `crystals_refine_from_start` is the shipped collection:\n'
           '   its hypotheses (strictly sorted names, within CRYSTALARRAY_MAX) are decided here by the kernel. -/\n'
           'namespace XrlCrystals.Gen\n'
           'def CRYSTALARRAY_MAX : Nat := %d\n'
           'def builtinNames : List String := [%s]\n'
           'theorem builtin_names_sorted : builtinNames.Pairwise (· < ·) := by decide\n'
           'theorem builtin_fits : builtinNames.length ≤ CRYSTALARRAY_MAX := by decide\n'
           'end XrlCrystals.Gen\n') % (env.bcap, ', '.join(esc(n) for n in names))
    os.makedirs(os.path.dirname(GEN_FILE), exist_ok=True)
    old = open(GEN_FILE).read() if os.path.exists(GEN_FILE) else None
    if old != src: open(GEN_FILE, 'w').write(src)
    return names

def lean_sources():
    out = [os.path.join(LEAN, 'Driver.lean')]
    for root, dirs, files in os.walk(os.path.join(LEAN, 'XrlCrystals')):
        out += [os.path.join(root, f) for f in files if f.endswith('.lean')]
    return sorted(out)

def lake(targets):
    p = subprocess.run(['lake', 'build'] + targets, cwd=LEAN, capture_output=True, text=True)
    return p.returncode == 0, p.stdout + p.stderr

def print_axioms(sc, modules, names):
    src = ''.join('import %s\n' % m for m in modules) + ''.join('#print axioms %s\n' % n for n in names)
    path = sc.path('Audit.lean'); open(path, 'w').write(src)
    p = subprocess.run(['lake', 'env', 'lean', path], cwd=LEAN, capture_output=True, text=True)
    res = {}
    txt = p.stdout + p.stderr
    for m in re.finditer(r"'([^']+)' depends on axioms: \[([^\]]*)\]|'([^']+)' does not depend on any axioms", txt):
        if m.group(1): res[m.group(1)] = [a.strip() for a in m.group(2).replace('\n', ' ').split(',') if a.strip()]
        else: res[m.group(3)] = []
    return res, txt

# --------------------------------------------------------------------------------------------------------------
# replay files, corpus

def replay_body(h, mode, why, env=None):
    lines, files = h.lines([])
    b = '# C14 %s\n# %s\n' % ('VIOLATION: the library does not do what the property says (specification vs implementation)' if mode == 'spec'
                               else 'model and implementation disagree (correspondence)', why.replace('\n', ' ')[:1500])
    b += '# history (syntax: harness/c14drv.c); replay with ./check C14 --replay <this file>\n'
    for l in lines: b += '#   ' + (l if len(l) < 400 else l[:400] + ' …') + '\n'
    for i, f in enumerate(files):
        b += '# file f%d.dat:\n' % i + ''.join('#   | ' + x + '\n' for x in (f.splitlines()[:40] + (['…'] if f.count('\n') > 40 else [])))
    b += '#mode ' + mode + '\n#json ' + h.to_json() + '\n'
    return b

def load_histories(path):
    out = []
    mode = 'spec'
    for l in open(path):
        if l.startswith('#mode '): mode = l.split()[1]
        if l.startswith('#json '): out.append((Hist.from_json(l[6:]), mode))
    return out

def corpus():
    out = []
    if os.path.isdir(CORPUS):
        for f in sorted(os.listdir(CORPUS)):
            if f.startswith(ID + '-') and f.endswith('.lines'):
                out += [h for h, _ in load_histories(os.path.join(CORPUS, f))]
    return out

# --------------------------------------------------------------------------------------------------------------

TRUSTED = [
    'Lean 4.33 kernel (lake build; thorough tier: leanchecker re-check of XrlCrystals.Props.C14); axioms allowed: propext, Classical.choice, Quot.sound (audited by #print axioms on every run)',
    'Mathlib (module-wise, proofs only: Data.Multiset.*, Data.List.Sort, Data.String.Basic)',
    'hand model lean-crystals/XrlCrystals/Hand/{Crystals,Caller}.lean of src/crystal_diffraction.c: trusted only as far as the correspondence run exercises it (same histories through harness/c14drv.c on the ASan+UBSan build of the working tree, every observable compared after every operation)',
    'libc by contract: qsort (sorts with the comparator), bsearch (finds an equal element of a sorted vector), realloc (as allocate-copy-free), strdup, and the tokenisation fgets/sscanf/fscanf of Crystal_ReadFile (the model takes the parsed entries; the generator predicts them and the prediction is checked against the library on every file)',
    'not modelled: allocation failure (malloc returning NULL), IEEE-754 (doubles are only copied; the volume formula is a parameter, property C13), lines longer than 99 characters and a Biso column in crystal files, Crystal_Struct arguments with a NULL name or a wrong n_atom built by the caller',
    'AddressSanitizer/UBSan, the --wrap allocation counter and /proc/self/fd: observers in the correspondence check and the violation search only',
]

class C14:
    id = ID
    level = 'proof'

    def run(self, tier, seed, replay=None):
        t0 = time.time()
        timings = {}; notes = []
        sc = Scratch()
        try:
            return self._run(sc, tier, seed, replay, t0, timings, notes)
        except BuildError as e:
            log('BUILD ERROR', str(e)[:3000])
            path = self.write_replay('check %s could not build the working tree or its own harness:\n%s\n' % (ID, str(e)[:4000]), 'txt')
            print('VIOLATION property=%s replay=%s no-failing-input-found' % (ID, path))
            self.evidence(tier, seed, t0, timings, notes, dict(obligations=1, discharged=0, checker_cmd='lake build ' + MODULE, trusted_base=TRUSTED,
                          explanation='build failed: ' + str(e)[:500], evaluations=1, distinct_nontrivial=0), 1)
            return 1
        finally:
            sc.__exit__(None, None, None)

    def write_replay(self, body, suffix='lines'):
        os.makedirs(core.REPLAY_DIR, exist_ok=True)
        h = hashlib.sha256(body.encode()).hexdigest()[:12]
        path = os.path.join(core.REPLAY_DIR, '%s-%s.%s' % (ID, h, suffix))
        open(path, 'w').write(body)
        return os.path.relpath(path, VERIF)

    def evidence(self, tier, seed, t0, timings, notes, cov, violations):
        os.makedirs(core.EVID_DIR, exist_ok=True)
        ev = dict(property_id=ID, tier=tier, seed=seed, level=self.level, coverage=cov, wall_s=round(time.time() - t0, 2), violations=violations,
                  assumptions=['the shipped collection is strictly sorted by name and within CRYSTALARRAY_MAX (decided by the kernel on the regenerated table, XrlCrystals.Gen.builtin_names_sorted / builtin_fits)',
                               'histories inside the property use no handle after releasing it (the specification is undefined there; such histories are still run for the correspondence: sanitizer abort <=> model ub)'],
                  timings=timings, notes=notes)
        with open(os.path.join(core.EVID_DIR, ID + '.json'), 'w') as f: json.dump(ev, f, indent=1)

    def _run(self, sc, tier, seed, replay, t0, timings, notes):
        problems = []           # broken obligations / broken tie (no failing input by themselves)
        # ---- 1. C artefacts from the working tree ---------------------------------------------------------------
        t = time.time()
        env = Env(sc); env.build_c(); timings['c_build'] = round(time.time() - t, 2)
        # ---- 2. regenerate, lake build ---------------------------------------------------------------------------
        t = time.time()
        with LeanLock():
            names = regenerate(env)
            ok_exe, log_exe = lake(['c14-model'])
            ok_props, log_props = lake([MODULE])
            ok_gen, log_gen = lake(['XrlCrystals.Gen.Builtin'])
        timings['lake_build'] = round(time.time() - t, 2)
        if not ok_exe: raise BuildError('the model driver does not build: ' + log_exe[-3000:])
        failing = []
        if not ok_props:
            failing = core.failing_theorems(log_props.replace(LEAN + '/', ''), PROPS_FILE) or ['(module %s does not build)' % MODULE]
            problems.append('theorems that no longer check: %s\n%s' % (', '.join(failing), '\n'.join(re.findall(r'error: [^\n]*', log_props)[:8])))
        if not ok_gen:
            problems.append('the shipped collection is not strictly sorted by name or does not fit CRYSTALARRAY_MAX (XrlCrystals.Gen.Builtin does not build): ' +
                            ' '.join(re.findall(r'error: [^\n]*', log_gen)[:3]))
        # ---- 3. audit -------------------------------------------------------------------------------------------
        t = time.time()
        bad = core.audit_sources(lean_sources())
        if bad: problems.append('forbidden construct in Lean sources: ' + '; '.join(bad[:5]))
        theorems = core.theorems_of(PROPS_FILE, NAMESPACE)
        for req in REQUIRED_THEOREMS:
            if NAMESPACE + '.' + req not in theorems: problems.append('property theorem %s is missing from %s' % (req, MODULE))
        gen_theorems = ['XrlCrystals.Gen.builtin_names_sorted', 'XrlCrystals.Gen.builtin_fits']
        axioms = {}
        if ok_props and ok_gen:
            axioms, txt = print_axioms(sc, [MODULE, 'XrlCrystals.Gen.Builtin'], theorems + gen_theorems)
            for th in theorems + gen_theorems:
                if th not in axioms: problems.append('axiom audit: no report for %s' % th)
                else:
                    extra = set(axioms[th]) - core.ALLOWED_AXIOMS
                    if extra: problems.append('axiom audit: %s depends on %s' % (th, sorted(extra)))
        src = core.strip_comments(open(PROPS_FILE).read())
        n_examples = len(re.findall(r'^\s*example\b', src, re.M))
        if n_examples < 5: problems.append('non-vacuity examples missing from %s (found %d)' % (MODULE, n_examples))
        if tier == 'thorough' and ok_props:
            p = subprocess.run(['lake', 'env', 'leanchecker', MODULE], cwd=LEAN, capture_output=True, text=True)
            if p.returncode != 0: problems.append('leanchecker rejected %s: %s' % (MODULE, (p.stdout + p.stderr)[-400:]))
            else: notes.append('leanchecker re-checked ' + MODULE)
        timings['audit'] = round(time.time() - t, 2)
        # ---- 5. correspondence + violation search ----------------------------------------------------------------
        t = time.time()
        stats = {}
        rng = random.Random(seed * 1000003 + 14)
        if replay:
            hists = [h for h, _ in load_histories(replay)]
            if not hists: raise BuildError('no history (#json line) in replay file ' + replay)
        else:
            n = 500 if tier == 'quick' else 6000
            kinds = ['valid'] * 6 + ['misuse'] * 2 + ['builtin_full']
            hists = corpus() + [gen_history(rng, rng.choice(kinds)) for _ in range(n)]
        bad = []
        for i in range(0, len(hists), 400):
            bad += check_histories(env, hists[i:i + 400], stats)
        timings['correspondence_and_search'] = round(time.time() - t, 2)
        viol = [(h, why) for h, mode, why in bad if mode == 'spec']
        tie = [(h, why) for h, mode, why in bad if mode == 'model']
        # ---- report ---------------------------------------------------------------------------------------------
        exit_code = 0
        t = time.time()
        if viol:
            # one minimal history per distinct failure (first line of the difference without addresses), at most 4 shrunk
            seen = {}
            for h, why in sorted(viol, key=lambda x: len(x[0].ops)):
                key = re.sub(r'0x[0-9a-f]+|\d+', '#', why)[:90]
                if key not in seen: seen[key] = (h, why)
            body = ''
            for k, (h, why) in list(seen.items())[:4]:
                sh, w = shrink(env, h, 'spec', budget=250 if tier == 'quick' else 800)
                body += replay_body(sh, 'spec', w) + '\n'
            if problems or tie: body += '# also broken: %s\n' % json.dumps(dict(obligations=problems, tie=[w for _, w in tie[:3]]))[:3000]
            path = self.write_replay(body)
            print('VIOLATION property=%s replay=%s' % (ID, path))
            exit_code = 1
        elif tie or problems:
            body = '# %s is no longer shown to hold; the violation search (specification vs library, %d histories) found no failing history\n' % (ID, stats.get('histories', 0))
            for pb in problems: body += '# ' + pb.replace('\n', '\n# ') + '\n'
            for h, why in tie[:2]:
                sh, w = shrink(env, h, 'model', budget=150)
                body += replay_body(sh, 'model', w) + '\n'
            path = self.write_replay(body)
            print('VIOLATION property=%s replay=%s no-failing-input-found' % (ID, path))
            exit_code = 1
        timings['shrink'] = round(time.time() - t, 2)
        n_dis = 0 if not ok_props else sum(1 for th in theorems if th in axioms and not (set(axioms[th]) - core.ALLOWED_AXIOMS))
        nontriv = len(stats.pop('_nontrivial', set()))
        samples = []
        for h in hists[-2:]:
            ls, fs = h.lines([])
            samples.append(dict(kind=h.kind, ops=len(h.ops), history=[l[:200] for l in ls[:12]], files=len(fs)))
        cov = dict(obligations=max(len(theorems), 1), discharged=n_dis,
                   checker_cmd='cd lean-crystals && lake build %s XrlCrystals.Gen.Builtin  (then `#print axioms` on every theorem of the module)' % MODULE,
                   trusted_base=TRUSTED, theorems=[dict(name=th, axioms=axioms.get(th)) for th in theorems + gen_theorems],
                   traces_validated_against_impl=stats.get('histories', 0), evaluations=stats.get('ops', 0), distinct_nontrivial=nontriv,
                   rule='seeded random operation histories (length 6..200 + release epilogue) over 1-3 user arrays of initial capacity 0..12 (and -1), the built-in array '
                        '(NULL) incl. a kind that fills it to its capacity, literal crystals (names from a pool of %d incl. prefixes/case/shipped names, cells, 0-8 atoms), '
                        'handed-out copies as sources, generated crystal files (well-formed, 6 kinds of corruption, duplicate names, long names, three kinds of file end), '
                        'a "misuse" kind with stale handles (sanitizer abort <=> model ub); every history is run on the library (fresh process), the model and the '
                        'specification; after EVERY operation: return value, error, live blocks, open files, raw vector (count, capacity, order), listing, a lookup of every '
                        'pool name in every live collection, every handed-out copy.  non-trivial = distinct histories with at least one successful addition or file load' % len(POOL),
                   samples=samples, histories=stats.get('histories', 0), lines_compared=stats.get('lines', 0), kinds=stats.get('kinds', {}),
                   distribution=stats.get('dist', {}), errors_hit=stats.get('errors', {}), ub_agreed=stats.get('ub_agreed', 0), impl_aborts=stats.get('impl_aborts', 0),
                   max_user_array=stats.get('max_n', 0), max_capacity=stats.get('max_alloc', 0), max_builtin=stats.get('max_builtin', 0),
                   max_rel_dev_volume=stats.get('max_rel_dev', 0.0), builtin_crystals=len(names), CRYSTALARRAY_MAX=env.bcap,
                   correspondence_mismatches=len(tie), search_violations=len(viol), nonvacuity_examples=n_examples,
                   broken=dict(obligations=problems, tie=[w for _, w in tie[:5]]), repo=REPO)
        self.evidence(tier, seed, t0, timings, notes, cov, len(viol) + (1 if (tie or problems) and not viol else 0))
        log('%s %s: exit %d (%.1fs; theorems %d/%d; %d histories, %d ops, %d lines; tie mismatches %d; violations %d)' % (
            ID, tier, exit_code, time.time() - t0, n_dis, len(theorems), stats.get('histories', 0), stats.get('ops', 0), stats.get('lines', 0), len(tie), len(viol)))
        return exit_code

CHECK = C14()
