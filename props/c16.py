"""C16 — queries are pure: results do not depend on call history and leave no trace.

Decided by the theorems of lean-sched/XrlSched/Props/C16.lean over the footprint table regenerated from the
working tree on every run; tied to the real library by harness/c16_hist.c (seeded histories of the whole API in
one process vs the same calls in processes without history; checksums of every data section of libxrl; locale,
cwd, stderr; retained error objects / results re-read at the end).  The histories are run twice: on the tables as shipped
(data/kissel_pe.dat is empty there: the Kissel / cascade family only fails) and on the regenerated Kissel configuration, where
that family succeeds.  Three builds of library + harness: AddressSanitizer/UBSan (main; the allocator's fill byte differs between the process with and the
process without history, so that a byte of a returned object the library never wrote differs between them), no sanitizer (real glibc allocator: real block
re-use), MemorySanitizer (every scalar of a returned object is tested for initialisation).  After every call the harness, playing an application, takes the
next element of its own strtok / rand / lrand48 sequences and compares the buffers getenv / localtime / asctime / tmpnam / strerror returned, getopt's
variables, the position of stdin and the buffering of stdout with what an undisturbed C library yields."""
import os, sys, re, json, time, subprocess, random, hashlib, itertools
HERE = os.path.dirname(os.path.abspath(__file__))
sys.path.insert(0, os.path.join(os.path.dirname(HERE), 'tools'))
import schedlib as sl
from schedlib import core, cbuild, xrlops, log

ID = 'C16'
MODULE = 'XrlSched.Props.C16'
NAMESPACE = 'XrlSched.C16'
PROPS = os.path.join(sl.LEAN_DIR, 'XrlSched', 'Props', 'C16.lean')
KEY_LOCALE = 'CompoundParser:setlocale(LC_NUMERIC) LC_NUMERIC=C.utf8'
NONVACUITY = ['exAtomicWeight', 'exCaching', 'glibcExt_respects_pure', 'exCP', 'exCP_follows', 'exAddUser']
ALLOW_DEFS = ['libm', 'allocFns', 'searchFns', 'stringFns', 'diagFns']
ERR_RE = re.compile(r' e:\d|:~|bad-op|unparsed|noerr')
INSERTING = ('AddBuiltin', 'ReadFileBuiltin')        # ops that EXPLICITLY insert into the built-in crystal array

def opname(o): return o.split(' ', 1)[0].replace('retain-', '')

def kissel_good_ops(meta, fam):
    """a few calls per Kissel / cascade function with arguments that are valid on the regenerated table (K, L1, L3, M1 of Fe, Ag, Pb above
    their edges; KL3, KL2, L3M5, L2M4 lines): deterministic, so that `succeeded at least once` does not depend on the seed"""
    gen = xrlops.generic_functions(meta); out = []
    for fn in fam:
        if fn not in gen: continue
        ret, ins, zout = gen[fn]; pools = []
        for pn, kd in ins:
            q = pn.lower()
            if kd == 'i': pools.append(['26', '82', '47'] if q == 'z' else ['0', '1', '3', '4'] if 'shell' in q else ['-3', '-2', '-90', '-63'] if 'line' in q else ['0', '1'])
            elif kd == 'd': pools.append([xrlops.hx(95.0), xrlops.hx(30.0)] if q in ('e', 'e0', 'energy') else [xrlops.hx(0.3), xrlops.hx(1.0)])
            elif kd == 's': pools.append(['FeS2', 'PbO'])
            else: pools.append(['@Si'])
        combos = list(itertools.product(*pools)); step = max(1, len(combos) // 16)
        out += ['%s %s E' % (fn, ' '.join(c)) for c in combos[::step][:16]]
    return out
DEPRECATION = re.compile(r'^(\w+ has been deprecated and will be removed in a future release of xraylib\.|Please remove all occurrences of this method in your code\.)$')

class Hist:
    """one run of harness/c16_hist.

    Uninitialised heap memory is call history in its purest form: a field of a returned object that the library never writes holds what the
    previous owner of the block left there.  AddressSanitizer (the build of the main harness) would hide that — its allocator fills every new
    block with 0xbe in EVERY process.  So the fill is part of the experiment: the process with a history gets its blocks filled with 0xbe (a
    recycled block: somebody's old bytes), the process without history gets them zero-filled (what a heap that nobody has used yet hands out).
    A result that contains a byte the library did not write therefore differs between the two.  (`kind` plain: no sanitizer, the real glibc
    allocator, real block re-use; `kind` msan: MemorySanitizer, see check_msan.)"""
    def __init__(self, exe, regions, sc, kind='asan'):
        self.exe = exe; self.regions = regions; self.sc = sc; self.n = 0; self.kind = kind
    def run(self, mode, lines, env_extra):
        self.n += 1
        path = self.sc.path('ops_%s%d.txt' % (getattr(self, 'tag', ''), self.n))
        with open(path, 'w') as f: f.write('\n'.join(lines) + '\n')
        env = {k: v for k, v in os.environ.items() if not k.startswith('LC_') and k != 'LANG' and not k.startswith('MALLOC_')}
        env.update(ASAN_OPTIONS='detect_leaks=0:abort_on_error=0:max_malloc_fill_size=1048576:malloc_fill_byte=%d' % (0xbe if mode == 'hist' else 0), UBSAN_OPTIONS='print_stacktrace=0',
                   MSAN_OPTIONS='exitcode=99:halt_on_error=1')
        env.update(env_extra)
        try:
            p = subprocess.run([self.exe, mode, path, self.regions], capture_output=True, text=True, env=env, cwd=self.sc.dir, errors='replace', timeout=600)
        except subprocess.TimeoutExpired as ex:      # a hang of the library under test must not hang the check
            class R: pass
            p = R(); p.returncode = -9; p.stdout = ex.stdout.decode('latin1') if isinstance(ex.stdout, bytes) else (ex.stdout or '')
            p.stderr = (ex.stderr.decode('latin1') if isinstance(ex.stderr, bytes) else (ex.stderr or '')) + '\n[harness killed after 600 s: hang]'
        res = {}; states = []; other = []; last_begin = None
        for l in p.stdout.splitlines():
            if l.startswith('R '):
                _, i, rest = l.split(' ', 2); res[int(i)] = rest
            elif l.startswith('B '): last_begin = int(l.split()[1])
            elif l.startswith('S '): states.append(l[2:])
            else: other.append(l)
        died_at = last_begin if (p.returncode != 0 and last_begin is not None and last_begin not in res) else None
        return dict(res=res, states=states, other=other, stderr=p.stderr, rc=p.returncode, died_at=died_at)

def split_ops(lines): return [l for l in lines if not l.startswith('!') and not l.startswith('#')]

def stderr_unexpected(txt):
    return [l for l in txt.splitlines() if l.strip() and not DEPRECATION.match(l.strip())]

def run(tier, seed, replay=None):
    ctx = sl.Ctx(ID, tier, seed)
    try:
        return _run(ctx, replay)
    except sl.BuildError as e:
        log('BUILD ERROR', str(e)[:3000])
        path = core.write_replay(ctx, 'check %s could not build the working tree or its own harness:\n%s\n' % (ID, str(e)[:4000]), 'txt')
        print('VIOLATION property=%s replay=%s no-failing-input-found' % (ID, path))
        sl.write_evidence(ctx, 'proof', dict(obligations=1, discharged=0, checker_cmd='cd lean-sched && lake build ' + MODULE, trusted_base=sl.TRUSTED_BASE,
                          explanation='build failed: ' + str(e)[:500], evaluations=1, distinct_nontrivial=0), 1, [])
        return 1
    finally:
        ctx.close()

def _run(ctx, replay):
    rep = dict(proof_broken=[], tie_broken=[], problems=[], violations=[], known=[])
    known = sl.known(ID)
    # ---- 1. C artefacts + footprint ------------------------------------------------------------------
    objs, fl = sl.build_c(ctx, 'address,undefined', 'san')
    meta, lean_tmp, fp_problems = sl.extract_footprint(ctx)
    rep['tie_broken'] += ['footprint extraction: ' + p for p in fp_problems]
    # ---- 2. lake build, 3. audit --------------------------------------------------------------------
    evals = ['Gen.localeProtocols.all (fun p => p.restoring)', 'Gen.localeProtocols.length', 'localeEntries.length', 'pureEntries.length',
             'Gen.mutatorEntries.length', 'Gen.fns.length', 'Gen.userMutatorEntries.length']
    with sl.Lock():
        changed = sl.install_gen(lean_tmp)
        ok_props, blog = sl.lake_build(ctx, [MODULE])
        theorems, axioms, ev, aprobs = (sl.theorems_of(PROPS, NAMESPACE), {}, {}, [])
        if ok_props:
            theorems, axioms, ev, aprobs = sl.audit(ctx, MODULE, NAMESPACE, PROPS, evals)
        if ok_props and ctx.tier == 'thorough':
            okc, txt = sl.leanchecker(ctx, MODULE)
            if not okc: aprobs.append('leanchecker rejected %s: %s' % (MODULE, txt))
            else: ctx.notes.append('leanchecker re-checked %s' % MODULE)
    rep['problems'] += aprobs
    src = open(PROPS).read()
    for w in NONVACUITY:
        if not re.search(r'\b%s\b' % re.escape(w), src): rep['problems'].append('non-vacuity witness %s missing from %s' % (w, MODULE))
    allow = sum(sl.names_in(PROPS, ALLOW_DEFS).values(), [])
    explain = []; explain_user = []
    if not ok_props:
        rep['proof_broken'] = sl.failing_theorems(blog, PROPS) or ['(module %s does not build)' % MODULE]
        rep['proof_log'] = sl.first_errors(blog)
        diag_sites = sl.names_in(PROPS, ['diagSites'])['diagSites']
        explain = sl.explain_footprint(meta, set(allow) | {'setlocale'}, diag_sites=diag_sites)
        file_fns = sl.names_in(PROPS, ['fileFns'])['fileFns']
        explain_user = sl.explain_footprint(meta, set(allow) | set(file_fns), entries=meta.get('user_mutators', []))
    restoring = ev.get(evals[0])
    n_protocols = int(ev.get(evals[1], '0') or 0)
    # static protocol summary from the extractor (used when Lean could not be asked)
    protos = {n: f['locale_ops'] for n, f in meta['functions'].items() if f['locale_ops']}
    if restoring is None:
        restoring = 'unknown'
    # ---- 5. the tie: histories on the real library --------------------------------------------------------
    def harness(objs_, tag, fl_=None, odir='o_san', kind='asan'):
        exe_ = sl.link_harness(ctx, objs_, fl if fl_ is None else fl_, 'c16_hist.c', 'c16_hist' + tag, extra=['-no-pie', '-Wl,-Map=' + ctx.sc.path('hist%s.map' % tag)], meta=meta)
        regs_ = sl.map_regions(ctx.sc.path('hist%s.map' % tag), ctx.sc.path(odir) + os.sep)
        if len(regs_) < 20 or sum(r[1] for r in regs_) < (1 << 20):
            rep['tie_broken'].append('link map%s: only %d data regions / %d bytes of libxrl found' % (tag, len(regs_), sum(r[1] for r in regs_)))
        regfile = ctx.sc.path('regions%s.txt' % tag)
        with open(regfile, 'w') as f: f.write(''.join('%x %x %s %s\n' % r for r in regs_))
        hh = Hist(exe_, regfile, ctx.sc, kind); hh.sym = None; hh.tag = tag
        return hh, regs_
    H, regs = harness(objs, '')
    exe = H.exe
    files = xrlops.write_crystal_files(ctx.sc.dir)          # crystal files of the ReadFile ops, in the harness's working directory
    good_files = [f for f in files if f in ('xv_user1.dat', 'xv_user2.dat')]
    # the regenerated Kissel configuration: same code objects, other tables
    HR = None; fam = sl.kissel_family(meta)
    try:
        HR, regsR = harness(sl.build_c_kissel(ctx, objs, 'address,undefined', 'san'), 'R')
    except sl.BuildError as ex:
        rep['tie_broken'].append('regenerated-Kissel configuration could not be built (data/kissel -> kissel_pe.dat -> prdata): %s' % str(ex)[:400])
    # the same sources without any sanitizer (the real glibc allocator: freed blocks are really handed out again, with their old contents) and
    # under MemorySanitizer (library AND harness instrumented: every scalar of a returned object is tested for initialisation before it is rendered)
    HP = HM = None
    try:
        t_ = time.time()
        objsP, flP = cbuild.build_lib(ctx.sc, cbuild.REPO, san=None, tag='plain')
        HP, regsP = harness(objsP, 'P', flP, 'o_plain', 'plain')
        objsM, flM = cbuild.build_lib(ctx.sc, cbuild.REPO, san='memory', tag='msan', extra=('-fsanitize-memory-track-origins=2',))
        HM, regsM = harness(objsM, 'M', flM, 'o_msan', 'msan')
        ctx.tick('c_build_plain_msan', t_)
    except sl.BuildError as ex:
        rep['tie_broken'].append('the unsanitized / MemorySanitizer build of the history harness failed: %s' % str(ex)[:400])
    stats = dict(histories=0, ops_in_histories=0, distinct_ops=0, compared=0, state_checks=0, retained_objects=0, retained_error_objects=0, exec_fresh_checked=0,
                 regions=len(regs), region_bytes=sum(r[1] for r in regs), retained_errors_by_op={}, arr_checks=0)
    findings = []      # dict(kind, key, what, ops, env)
    ok_texts = set(); err_texts = set(); ok_kissel = set(); err_kissel = set()

    def fresh_results(texts, env, H=H):
        texts = sorted(set(texts))
        r = H.run('fresh', texts, env)
        out = {t: r['res'].get(i) for i, t in enumerate(texts)}
        return out, r

    def cats_of(s): return dict(x.split('=', 1) for x in s.split(',') if '=' in x)

    def check_history(ops, env, label, insertion=False, H=H):
        r_ = _check_history(ops, env, label, insertion, H)
        for f_ in findings: f_.setdefault('H', H)
        return r_

    def _check_history(ops, env, label, insertion, H):
        """run one history; compare every op with its fresh-process result; check state/tables/retained/stderr"""
        lines = ['!state', '!snapshot'] + ops + ['!end', '!state', '!diff']
        h = H.run('hist', lines, env)
        guard = 0
        while h['died_at'] is not None and guard < 5:      # an op that crashes the process is C04's subject: drop it, say so
            bad = h['died_at']; guard += 1
            ctx.notes.append('%s: op `%s` killed the process (%s); excluded from this history (memory safety is C04)' % (label, ops[bad], (re.findall(r'(runtime error: [^\n]*|ERROR: AddressSanitizer: [^\n]*)', h['stderr']) or ['rc %d' % h['rc']])[0][:120]))
            ops = ops[:bad] + ops[bad + 1:]
            lines = ['!state', '!snapshot'] + ops + ['!end', '!state', '!diff']
            h = H.run('hist', lines, env)
        if h['rc'] != 0:
            rep['tie_broken'].append('%s: history harness exited %d: %s' % (label, h['rc'], h['stderr'][-300:])); return
        fr, fraw = fresh_results(ops, env, H)
        stats['histories'] += 1; stats['ops_in_histories'] += len(ops)
        # names that really were inserted into the built-in array (a failing insertion inserts nothing: everything stays comparable)
        okins = [o for i, o in enumerate(ops) if opname(o) in INSERTING and (h['res'].get(i) or '').startswith('i:1')]
        inserted = [o.split(' ')[2] for o in okins if opname(o) == 'AddBuiltin'] + (['XvTric'] if any('xv_user2.dat' in o for o in okins) else []) + \
                   (['XvCubic', 'XvHex'] if any('xv_user1.dat' in o for o in okins) else [])
        insertion = insertion and bool(okins)
        okT, errT = (ok_kissel, err_kissel) if H is HR else (ok_texts, err_texts)
        for i, o in enumerate(ops):
            a = h['res'].get(i); b = fr.get(o)
            stats['compared'] += 1
            if a is not None and a == b: (okT if not ERR_RE.search(a) else errT).add(o)
            if a is not None and o.startswith('retain-') and re.search(r' e:\d', a):
                stats['retained_errors_by_op'][opname(o)] = stats['retained_errors_by_op'].get(opname(o), 0) + 1
            # the built-in crystal array, per call: only a SUCCESSFUL explicit insertion may change its contents
            if a is not None:
                stats['arr_checks'] += 1
                changed = a.endswith(' ARR!') or ' ARR! ' in a
                may = opname(o) in INSERTING and a.startswith('i:1')
                if changed and not may:
                    findings.append(dict(kind='crystal-array', what='the call changed the contents of the built-in crystal array%s' % (
                        ' although the insertion FAILED (a failing insertion must leave the array untouched)' if opname(o) in INSERTING else ' (only an explicit insertion may)'),
                        ops=ops[:i + 1], env=env, got=a, expected='array contents as before the call', label=label)); break
                if may and not changed:
                    rep['tie_broken'].append('%s: `%s` reports success but the contents of the built-in crystal array did not change: the per-call array checksum does not observe it' % (label, o))
            # open descriptors, per call: no call may leave one more (or one less) open — whatever kind of file it was handed
            if a is not None:
                stats['fd_checks'] = stats.get('fd_checks', 0) + 1
                if ' FDS:' in a:
                    m_ = re.search(r' FDS:(\d+)>(\d+)', a)
                    findings.append(dict(kind='descriptors', what='the call left the process with %s open file descriptors instead of %s (a descriptor %s): the descriptor table is process-global state' % (
                        m_.group(2), m_.group(1), 'leaked' if int(m_.group(2)) > int(m_.group(1)) else 'closed that was not the call\'s own'), ops=ops[:i + 1], env=env, got=a,
                        expected='as many open descriptors after the call as before it', label=label)); break
            # hidden cursors of the C library that the application has in progress across the call (strtok, rand, getenv, static buffers, getopt, stdin/stdout)
            if a is not None:
                stats['libc_cursor_checks'] = stats.get('libc_cursor_checks', 0) + 1
                if ' APP!' in a:
                    marks = re.findall(r' APP!(\w+):(\S*)', a)
                    findings.append(dict(kind='libc-state', what='the call disturbed C-library state that the APPLICATION had in progress across it (process-global state): ' +
                                         '; '.join('%s: %s' % (k_, v_.replace('-', ' ').replace('_', ' ')) for k_, v_ in marks), ops=ops[:i + 1], env=env, got=a,
                                         expected='the application\'s own strtok / rand / lrand48 sequences continue where they were, the buffers getenv / localtime / asctime / tmpnam / strerror returned, getopt\'s variables and the positions of stdin / stdout are untouched, '
                                                  'uselocale(0) is the handle the calling thread had installed (its own locale object, or LC_GLOBAL_LOCALE)',
                                         label=label, probes=[k_ for k_, _ in marks])); break
            if a is not None and ' LOCALE>' in a:
                findings.append(dict(kind='locale', what='the call changed the process locale: LC_ALL is now %s' % a[a.index('LOCALE>') + 7:].split(' ')[0], ops=ops[:i + 1], env=env,
                                     got=a, expected='locale as before the call (every category)', label=label, per_call=True)); break
            if insertion and (opname(o) in ('CrystalsList',) + INSERTING or any(x in o for x in inserted)): continue
            if a is not None and ' STDOUT+' in a:
                findings.append(dict(kind='stdout', what='the call wrote to standard output (%s): a standard stream is process-global state' % a[a.index('STDOUT+'):][:24], ops=[o], env=env,
                                     got=a, expected='nothing on standard output', label=label)); break
            if a != b:
                what_ = 'result after history differs from the result in a process without history'
                if H.kind == 'asan' and a is not None and b is not None and 'bebebebe' in a and 'bebebebe' not in b:
                    what_ += ' — the difference is the byte pattern 0xbe: memory of a freshly allocated block that the library handed out WITHOUT WRITING it (a recycled block holds its ' \
                             'previous owner\'s bytes, rendered here as 0xbe; a heap nobody has used yet holds zeros)'
                if H.kind == 'plain': what_ += ' (unsanitized build, real glibc allocator: blocks released by earlier calls are handed out again with their old contents)'
                findings.append(dict(kind='result', what=what_, ops=ops[:i + 1], env=env,
                                     got=a, expected=b, label=label)); break
        # state
        stats['state_checks'] += 1
        if len(h['states']) == 2:
            s0, s1 = [s.split(' | ') for s in h['states']]
            if s0[1] == 'C.utf8': stats['utf8_locale_held'] = True
            if 'XRLV_THREAD_LOCALE' in env:
                # non-vacuity of the thread-locale mode: the harness thread really runs on a locale object of its own, at the start and at the end
                if ' tl=own:' not in s0[-1] or ' tl=own:' not in s1[-1]:
                    rep['tie_broken'].append('%s: XRLV_THREAD_LOCALE=%s was requested but the harness thread is not on its own locale object (%s / %s)' % (label, env['XRLV_THREAD_LOCALE'], s0[-1], s1[-1]))
                else:
                    stats['thread_locale_histories'] = stats.get('thread_locale_histories', 0) + 1
                    stats['thread_locale_checks'] = stats.get('thread_locale_checks', 0) + len(ops)
                    if env['XRLV_THREAD_LOCALE'] == 'C.utf8' and s0[0] == 'C' and s0[-1].endswith(':UTF-8'): stats['thread_locale_differs_from_process_locale'] = True
            elif ' tl=global:' not in s0[-1]:
                rep['tie_broken'].append('%s: the harness thread does not start on LC_GLOBAL_LOCALE although no thread locale was requested (%s)' % (label, s0[-1]))
            if len(s0) > 4 and all(v == 'C.utf8' for v in cats_of(s0[4]).values()): stats['utf8_all_categories_held'] = True
            if s0[:2] != s1[:2] or s0[4:5] != s1[4:5]:
                c0, c1 = cats_of(s0[4]) if len(s0) > 4 else {}, cats_of(s1[4]) if len(s1) > 4 else {}
                chg = sorted(k for k in c0 if c0[k] != c1.get(k))
                if not any(f.get('per_call') and f['label'] == label for f in findings):
                    findings.append(dict(kind='locale', what='process locale changed by the history: categories %s: %s -> %s (LC_ALL %s -> %s)' % (
                        chg, [c0[k] for k in chg], [c1.get(k) for k in chg], s0[0], s1[0]), ops=ops, env=env, label=label, categories=chg))
            if s0[2] != s1[2]:
                findings.append(dict(kind='cwd', what='working directory changed: %s -> %s' % (s0[2], s1[2]), ops=ops, env=env, label=label))
            if len(s0) > 5 and s0[5] != s1[5]:
                d0, d1 = s0[5].split(' '), s1[5].split(' ')
                findings.append(dict(kind='process-state', what='process-global state changed by the history (environment / signal dispositions / signal mask / rounding mode / open descriptors / umask): %s -> %s' % (
                    [x for x, y in zip(d0, d1) if x != y], [y for x, y in zip(d0, d1) if x != y]), ops=ops, env=env, label=label))
            elif len(s0) > 5: stats['process_state_checks'] = stats.get('process_state_checks', 0) + 1
            diff = [l for l in h['other'] if l.startswith('D ')]
            nd = [l for l in h['other'] if l.startswith('diffbytes')]
            if (s0[3] != s1[3] or diff):
                if H.sym is None: H.sym = sl.symbol_at(H.exe)
                where = sorted(set(H.sym(int(l.split()[1], 16)).split('+')[0] for l in diff))
                crystal = [w for w in where if w in ('Crystal_arr', '__Crystal_arr')]
                if insertion and crystal: stats['insertion_changed'] = crystal
                if insertion: where = [w for w in where if w not in crystal]
                if where or not insertion:
                    findings.append(dict(kind='tables', what='library data changed by the history: %s (%s)' % (where, ' '.join(nd)), ops=ops, env=env, label=label, where=where))
        else:
            rep['tie_broken'].append('%s: expected two state lines, got %r' % (label, h['states']))
        for l in h['other']:
            m = re.match(r'retained (\d+) changed (\d+)(?: errors (\d+))?', l)
            if m:
                stats['retained_objects'] += int(m.group(1)); stats['retained_error_objects'] += int(m.group(3) or 0)
                if int(m.group(2)):
                    findings.append(dict(kind='retained', what='an object handed to the caller earlier was changed by later calls: ' + ' '.join(x for x in h['other'] if x.startswith('retained-changed'))[:400], ops=ops, env=env, label=label))
        ux = stderr_unexpected(h['stderr'])
        if ux:
            findings.append(dict(kind='stderr', what='unexpected output on stderr: %r' % ux[:3], ops=ops, env=env, label=label))
        if insertion:
            # explicit insertions DO change state: the inserted name must be found afterwards (non-vacuity of the exemption)
            okq = [i for i, o in enumerate(ops) if o.startswith('GetCrystal ') and inserted and o.split(' ')[1] == inserted[0] and 'crystal:"' in (h['res'].get(i) or '')]
            stats['insertion_visible'] = len(okq)
            stats['insertion_from_file_visible'] = len([i for i, o in enumerate(ops) if o.startswith('GetCrystal XvTric') and 'crystal:"XvTric"' in (h['res'].get(i) or '')])
            stats['failed_insertions_checked'] = len([i for i, o in enumerate(ops) if opname(o) in INSERTING and not (h['res'].get(i) or '').startswith('i:1')])
        return h, fr

    def hidden_state_groups(g, ops, npairs=None):
        """in EVERY history, whatever the seed: (1) groups `call that leaves errno = ERANGE (overflowing / underflowing subscript, crystal file with 1e-400,
        the application itself) -> query that converts a subscript` as adjacent runs; (2) one Crystal_ReadFile per exit path of that function (every
        file of tools/xrlops.py, a directory, /dev/null, a NULL and a missing name), into a user array and — the directory — into the built-in one"""
        npairs = npairs if npairs is not None else (24 if ctx.tier == 'quick' else 60)
        groups = g.errno_pairs(npairs)
        fileops = [['ReadFileUser %s %s' % ('~' if f_ == '~' else xrlops.esc(f_), 'E')] for f_ in files + xrlops.SPECIAL_PATHS + ['xv_missing.dat']]
        fileops += [['ReadFileDirUser E'], ['ReadFileDir E'], ['retain-ReadFileDirUser E'], ['ReadFileDir N'], ['ReadFileMissing E']]
        # (3) heap residue: parser / NIST / radionuclide / crystal calls that allocate and release, IMMEDIATELY followed by a query that hands out a newly
        # allocated object (add_compound_data on parsed and on hand-written mixtures, CompoundParser, catalogue lookups, crystal copies)
        heap = g.heap_groups(max(8, npairs // 2))
        stats['errno_groups'] = stats.get('errno_groups', 0) + len(groups); stats['file_exit_path_ops'] = stats.get('file_exit_path_ops', 0) + len(fileops)
        stats['heap_residue_groups'] = stats.get('heap_residue_groups', 0) + len(heap)
        return g.insert_groups(ops, groups + fileops + heap, g.rng)

    def check_msan(ops, env, label):
        """the history once more under MemorySanitizer (library and harness instrumented): a scalar of a returned object that the library never wrote is
        rendered `UNINIT!`; a branch / libc call of the library on an uninitialised value stops the process with a report.  Either is a result that is
        not a function of the arguments: it is whatever the memory held before."""
        if HM is None: return
        h = HM.run('hist', ops, env)
        stats['msan_histories'] = stats.get('msan_histories', 0) + 1
        for i, o in enumerate(ops):
            a = h['res'].get(i)
            if a is None: continue
            stats['msan_ops'] = stats.get('msan_ops', 0) + 1
            if 'UNINIT!' in a:
                findings.append(dict(kind='uninitialised', what='the call handed out an object with a field the library never wrote (MemorySanitizer; the field is marked UNINIT! below): '
                                     'what the caller reads there is whatever earlier calls left in that memory — zeros in a process without history, stale bytes after one',
                                     ops=ops[:i + 1], env=env, got=a, expected='every field of the returned object is written by the call', label=label, H=HM)); return
        if h['died_at'] is not None:
            rpt = re.search(r'WARNING: MemorySanitizer: [^\n]*(?:\n\s+#\d+ [^\n]*){0,5}', h['stderr'])
            if rpt:
                findings.append(dict(kind='uninitialised', what='MemorySanitizer stopped the call: the library used an uninitialised value (%s)' % ' '.join(rpt.group(0).split())[:500],
                                     ops=ops[:h['died_at'] + 1], env=env, got='process stopped by MemorySanitizer', expected='no value that the library did not compute decides anything', label=label, H=HM))
            else:
                ctx.notes.append('%s: op `%s` killed the MemorySanitizer harness without a MemorySanitizer report (rc %s): %s' % (label, ops[h['died_at']][:80], h['rc'], h['stderr'][-200:]))
        elif h['rc'] != 0:
            rep['tie_broken'].append('%s: MemorySanitizer harness exited %d: %s' % (label, h['rc'], h['stderr'][-300:]))

    C_ENV = dict(LC_ALL='C')
    # the calling thread's OWN locale (harness/c16_hist.c, XRLV_THREAD_LOCALE): the harness thread installs uselocale(newlocale(LC_ALL_MASK, name, 0)) before
    # the history and checks after EVERY call that uselocale(0) is still that handle and that the object still answers nl_langinfo as it did.  setlocale(…, NULL)
    # — the per-call ` LOCALE>` observer — speaks about the process locale only.  Every generated history contains parser / _CP / Refractive_Index calls
    # (hidden_state_groups), so a call that leaves the thread on another locale object is seen in each history that runs in this mode, whatever the seed.
    def TL(env, name='C.utf8'): return dict(env, XRLV_THREAD_LOCALE=name)
    if replay:
        txt = open(replay).read()
        env = dict(re.findall(r'^#env (\w+)=(\S*)$', txt, flags=re.M)) or C_ENV
        ops = split_ops(txt.splitlines())
        cfg = (re.findall(r'^#config (\w+)', txt, flags=re.M) or ['shipped'])[0]
        if cfg == 'msan' and HM is not None: check_msan(ops, env, 'replay')
        else:
            check_history(ops, env, 'replay', insertion=any(opname(o) in INSERTING for o in ops),
                          H=(HR if (HR is not None and cfg == 'kissel') else HP if (HP is not None and cfg == 'plain') else H))
    else:
        nh, nops = (4, 2500) if ctx.tier == 'quick' else (30, 12000)
        all_ops = []
        cdir = os.path.join(sl.VERIF, 'corpus')                      # corpus first
        for fn in sorted(os.listdir(cdir)) if os.path.isdir(cdir) else []:
            if fn.startswith(ID + '-') and fn.endswith('.lines'):
                txt = open(os.path.join(cdir, fn)).read()
                ops = split_ops(txt.splitlines()); all_ops += ops
                kis = bool(re.search(r'^#config kissel', txt, flags=re.M))
                if kis and HR is None: continue
                cenv = dict(re.findall(r'^#env (\w+)=(\S*)$', txt, flags=re.M)) or C_ENV
                check_history(ops, cenv, 'corpus ' + fn, insertion=any(opname(o) in INSERTING for o in ops),
                              H=(HR if kis else H))
                if not kis and not any(opname(o) in INSERTING for o in ops):
                    if HP is not None: check_history(ops, cenv, 'corpus %s (unsanitized build, glibc allocator)' % fn, H=HP)
                    check_msan(ops, cenv, 'corpus %s (MemorySanitizer)' % fn)
        for i in range(nh):
            g = xrlops.OpGen(random.Random(ctx.rng.getrandbits(64)), meta, files=files)
            ops = g.ops(nops, allow_retain=True)
            ops = [o for o in ops if opname(o) not in INSERTING]
            if i % 2 == 0: ops = [o for o in ops if o != 'XRayInit']
            ops = hidden_state_groups(g, ops)
            if i % 2 == 1: ops = ['XRayInit'] + ops           # with and without XRayInit
            all_ops += ops
            env_i = (C_ENV, TL(C_ENV), TL(C_ENV, 'C'), C_ENV)[i % 4]      # plain / own locale object C.utf8 over process locale C / own object "C" / plain
            check_history(ops, env_i, 'history %d%s' % (i, ' (calling thread has its own locale object: uselocale(newlocale(%s)))' % env_i['XRLV_THREAD_LOCALE'] if len(env_i) > 1 else ''))
        # the unsanitized build (real allocator, real block re-use) and the MemorySanitizer build: one generated history each, heap-residue groups included
        for Hx_, nm_, nx_ in ((HP, 'unsanitized build, glibc allocator', 800 if ctx.tier == 'quick' else 6000), (HM, 'MemorySanitizer', 800 if ctx.tier == 'quick' else 6000)):
            if Hx_ is None: continue
            for j_ in range(1 if ctx.tier == 'quick' else 3):
                g = xrlops.OpGen(random.Random(ctx.rng.getrandbits(64)), meta, files=files)
                ops = [o for o in g.ops(nx_, allow_retain=True) if opname(o) not in INSERTING]
                ops = hidden_state_groups(g, ops, 16 if ctx.tier == 'quick' else 40)
                if j_ % 2 == 1: ops = ['XRayInit'] + ops
                all_ops += ops
                env_j = TL(C_ENV) if j_ % 2 == 0 else C_ENV
                if Hx_ is HM: check_msan(ops, env_j, 'history %d (%s)' % (j_, nm_))
                else: check_history(ops, env_j, 'history %d (%s)' % (j_, nm_), H=Hx_)
        stats['distinct_ops'] = len(set(all_ops))
        # a history with explicit insertions into the built-in crystal array
        g = xrlops.OpGen(random.Random(ctx.rng.getrandbits(64)), meta, files=files)
        ops = [o for o in g.ops(600, allow_retain=True) if opname(o) not in INSERTING]
        names = ['AaVerif0', 'MmVerif1', 'ZzVerif2']      # before, between and after the built-in names: an insertion must leave the others alone wherever it lands
        for k, nm in enumerate(names):
            ops.insert(100 + 150 * k, 'AddBuiltin @%s %s E' % (['Si', 'Ge', 'LiF'][k], nm))
        # failing insertions (duplicate name; a file one of whose names exists; a malformed file; a missing crystal): the array must stay as it is —
        # judged per call by the contents checksum (` ARR!`), and by the lookups of XvNew / XvGood below, which must fail as in a fresh process
        ops.insert(300, 'retain-AddBuiltin @Si Si E'); ops.insert(420, 'AddBuiltin @Ge %s N' % names[0])
        ops.insert(430, 'retain-ReadFileBuiltin xv_dup.dat E'); ops.insert(440, 'ReadFileBuiltin xv_bad.dat E'); ops.insert(450, 'AddBuiltin @Unobtainium Qq E')
        # every other failing exit of Crystal_ReadFile, and a directory, with the BUILT-IN array as the target
        ops[460:460] = ['ReadFileBuiltin %s E' % f_ for f_ in ('xv_badS.dat', 'xv_nocell.dat', 'xv_twocell.dat', 'xv_trunc.dat', 'xv_badatom.dat', 'xv_twice.dat', 'xv_missing.dat')] + ['ReadFileDir E']
        # a SUCCESSFUL Crystal_ReadFile into the built-in array
        ops.insert(500, 'ReadFileBuiltin xv_user2.dat E')
        ops += ['GetCrystal %s E' % names[0], 'CrystalsList E', 'AddBuiltin @Si %s E' % names[0], 'GetCrystal XvTric E', 'GetCrystal XvNew E', 'GetCrystal XvGood E', 'GetCrystal Qq N',
                'ReadFileBuiltin xv_user2.dat E']
        ops += ['Crystal_UnitCellVolume @%s E' % c for c in ('TlAP', 'Si', 'AlphaQuartz', 'Muscovite', 'Beryl')] + ['Crystal_dSpacing @TlAP 1 1 1 E']
        check_history(ops, C_ENV, 'insertion history', insertion=True)
        if not stats.get('insertion_changed') or not stats.get('insertion_visible') or not stats.get('insertion_from_file_visible'):
            rep['tie_broken'].append('explicit crystal insertion left no trace (changed=%s, visible=%s, from file=%s): the harness does not observe Crystal_arr' % (
                stats.get('insertion_changed'), stats.get('insertion_visible'), stats.get('insertion_from_file_visible')))
        # ---- the regenerated Kissel configuration: the 63 Kissel / cascade entry points on their SUCCESS path -----------------------------------
        if HR is not None:
            gen_ = xrlops.generic_functions(meta); famg = [f_ for f_ in fam if f_ in gen_]
            nk, kops = (1, 1500) if ctx.tier == 'quick' else (6, 6000)
            good = kissel_good_ops(meta, fam)
            for i in range(nk):
                g = xrlops.OpGen(random.Random(ctx.rng.getrandbits(64)), meta, files=files)
                g.Z = [26, 82, 47, 29, 56] + [g.rng.choice([0, 120, 99])]; g.E = [95.0, 30.0, 12.0] + [g.rng.uniform(1, 120) for _ in range(2)] + [g.rng.choice([0.0, -1.0, 1e4])]
                ops = []
                for _ in range(kops):
                    r_ = g.rng.random()
                    if r_ < 0.55: g.allow_retain = True; ops.append(g.generic_op(g.rng.choice(famg)))
                    elif r_ < 0.70 and good: ops.append(g.rng.choice(good))
                    else: ops.append(g.op(True))
                ops = hidden_state_groups(g, [o for o in ops if opname(o) not in INSERTING], 12)
                if i == 0: ops = good + ops                  # every function's known-good calls at least once, first in a history …
                else: ops = ops + good                       # … and last
                if i % 2 == 1: ops = ['XRayInit'] + ops
                all_ops += ops
                check_history(ops, TL(C_ENV) if i % 2 == 0 else C_ENV, 'Kissel history %d (regenerated kissel_pe.dat)' % i, H=HR)
            ksucc = {f_: 0 for f_ in famg}
            for o in ok_kissel:
                if opname(o) in ksucc: ksucc[opname(o)] += 1
            stats['kissel'] = dict(histories=nk, family=len(fam), family_generic=len(famg), distinct_succeeding_calls=sum(ksucc.values()),
                                   distinct_failing_calls=len([o for o in err_kissel if opname(o) in ksucc]), succeeded_per_function=ksucc,
                                   regions=len(regsR), region_bytes=sum(r[1] for r in regsR))
            never = sorted(f_ for f_, n_ in ksucc.items() if n_ == 0)
            if never and not any(f_.get('label', '').startswith('Kissel') for f_ in findings):
                rep['tie_broken'].append('regenerated-Kissel configuration: %d Kissel/cascade functions never succeeded (%s): their success path was not exercised' % (len(never), ', '.join(never[:12])))
            stats['distinct_ops'] = len(set(all_ops))
        # an error object returned by one call is never affected by later calls: a slot that still holds an error is handed to
        # later failing calls (direct failures and failures one level down that are propagated) — harness/c04heap.c `err 6..11`
        try:
            from props import c04 as C4
            hexe = ctx.sc.path('c04heap')
            cbuild.link(ctx.sc, objs, [os.path.join(sl.VERIF, 'harness', 'c04heap.c')], hexe, fl + ['-I' + os.path.join(cbuild.REPO, 'src')] + C4.WRAP)
            eg = [['err %d' % k] for k in range(6, 12)]
            er = C4.run_heap(ctx, hexe, eg)
            for i, g_ in enumerate(eg):
                got, died = er.get(i, ([], 'not run'))
                stats['compared'] += 1
                if died is not None or not got or not got[0].startswith('1 '):
                    findings.append(dict(kind='error-object', what='an error object already stored in a slot was replaced or changed by a later failing call (c04heap `%s`: %s)' % (g_[0], (got[0] if got else str(died)[-200:])),
                                         ops=['# harness/c04heap.c: ' + g_[0]], env=C_ENV, got=(got[0] if got else 'died'), expected='1 … (slot untouched)', label='error persistence'))
            stats['error_persistence_checks'] = len(eg)
        except Exception as ex:
            rep['tie_broken'].append('error-persistence step could not run: %s' % str(ex)[:300])
        # fork == exec: a sample of ops in genuinely fresh (exec'ed) processes
        sample = ctx.rng.sample(sorted(set(all_ops)), min(10 if ctx.tier == 'quick' else 60, len(set(all_ops))))
        fr, _ = fresh_results(sample, C_ENV)
        for o in sample:
            r1 = H.run('one', [o], C_ENV)
            stats['exec_fresh_checked'] += 1
            if r1['res'].get(0) != fr.get(o):
                rep['tie_broken'].append('fork-fresh and exec-fresh disagree on `%s`: %r vs %r' % (o, fr.get(o), r1['res'].get(0)))
        # the locale: the application runs with every category = C.utf8 (LC_ALL), and with LC_NUMERIC=C.utf8 alone; every category is
        # compared per call (` LOCALE>`) and end to end.  (In a process whose categories are all "C" a non-restoring setlocale(LC_CTYPE /
        # LC_COLLATE / LC_ALL, "C") would be invisible.)
        for env_, n_ in ((dict(LC_ALL='C.utf8'), 400 if ctx.tier == 'quick' else 3000), (dict(LC_NUMERIC='C.utf8'), 200 if ctx.tier == 'quick' else 1500),
                         (TL(dict(LC_ALL='C.utf8'), 'C'), 200 if ctx.tier == 'quick' else 1500)):      # the reverse: process locale C.utf8, the thread's own object "C"
            g = xrlops.OpGen(random.Random(ctx.rng.getrandbits(64)), meta, files=files)
            ops = [o for o in g.ops(n_, allow_retain=True) if opname(o) not in INSERTING]
            # every entry point from which a setlocale call is reachable is in this history, whatever the seed (a protocol that does not put
            # back what it found must not depend on being sampled)
            locfam = [e_ for e_ in sorted(meta['classes']) if e_ in g.generic and any('setlocale' in meta['functions'][x_]['exts'] for x_ in sl.closure(meta, e_))]
            for e_ in locfam:
                for _ in range(3): ops.insert(g.rng.randrange(len(ops) + 1), g.generic_op(e_))
            stats['locale_family_entries_in_locale_history'] = len(locfam)
            ops = hidden_state_groups(g, ops, 12)
            check_history(ops, env_, 'history under %s' % ' '.join('%s=%s' % kv for kv in env_.items()))
        if HR is not None:
            g = xrlops.OpGen(random.Random(ctx.rng.getrandbits(64)), meta, files=files); g.allow_retain = True
            ops = [g.generic_op(g.rng.choice(famg)) for _ in range(150)] + good[::4]
            check_history(ops, dict(LC_ALL='C.utf8'), 'Kissel history under LC_ALL=C.utf8', H=HR)
        # targeted search when the footprint theorem is broken: hammer the entries that reach the offending functions
        if explain:
            ents = sorted(set(x['entry'] for x in explain))
            gen = xrlops.generic_functions(meta)
            ents_g = [e for e in ents if e in gen]
            if ents_g:
                # exhaustive discrete sweep of the offending entries (every Z x every macro value, typical real arguments): a trace left only
                # for one element / one macro (a stray diagnostic for Z = 81, a cache for one shell) must not depend on being sampled
                from vlib import apisweep
                sweep_deadline = ctx.t0 + (420 if ctx.tier == 'quick' else 1500)      # the sweeps are a search aid: they must not eat the check's deadline
                for fn_ in ents_g[:6]:
                    if time.time() > sweep_deadline: ctx.notes.append('exhaustive sweeps stopped at the time budget before %s' % fn_); break
                    ret_, ins_, zout_ = gen[fn_]
                    if any(kd not in ('i', 'd') for _, kd in ins_) or sum(1 for _, kd in ins_ if kd == 'i') > 2: continue
                    vals_ = []
                    for pn_, kd in ins_:
                        if kd == 'i': vals_.append([str(v) for v in apisweep.int_values(pn_, False, ctx.rng, ctx.tier, False)])
                        else: vals_.append([xrlops.hx(v) for v in ([0.5] if pn_.lower() in ('pz', 'q') else [1.0] if pn_.lower() in ('theta', 'phi') else [10.0, 0.05] + ([95.0] if fn_ in fam else []))])
                    combos = [[]]
                    for vs in vals_: combos = [c + [v] for c in combos for v in vs]
                    if len(combos) > 120000: combos = ctx.rng.sample(combos, 120000)
                    allops = ['%s %s E' % (fn_, ' '.join(c)) for c in combos]
                    Hx = HR if (HR is not None and fn_ in fam) else H
                    for k0 in range(0, len(allops), 6000):
                        check_history(allops[k0:k0 + 6000], C_ENV, 'exhaustive sweep of %s [%d..]' % (fn_, k0), H=Hx)
                        if any(f.get('label', '').startswith('exhaustive sweep') for f in findings) or time.time() > sweep_deadline: break
                for rnd in range(6):
                    g = xrlops.OpGen(random.Random(ctx.rng.getrandbits(64)), meta); g.fresh_p = 0.05
                    ops = [g.generic_op(g.rng.choice(ents_g)) for _ in range(800)]
                    check_history(ops, TL(C_ENV) if rnd % 2 == 1 else C_ENV, 'targeted history %d (%s)' % (rnd, ','.join(ents_g[:4])))
                    if HR is not None and any(e_ in fam for e_ in ents_g):
                        check_history([o for o in ops if opname(o) in fam] + kissel_good_ops(meta, [e_ for e_ in ents_g if e_ in fam]), C_ENV, 'targeted Kissel history %d' % rnd, H=HR)
                    if any(f['kind'] in ('result', 'tables', 'retained', 'stderr', 'stdout', 'crystal-array', 'descriptors', 'libc-state', 'uninitialised') for f in findings): break

    # ---- shrink + classify ---------------------------------------------------------------------------------
    def differs(ops, env, kind, H):
        if kind == 'result':
            h = H.run('hist', ops, env); fr, _ = fresh_results([ops[-1]], env, H)
            return h['rc'] == 0 and h['res'].get(len(ops) - 1) != fr.get(ops[-1])
        if kind == 'crystal-array':
            h = H.run('hist', ops, env)
            return h['rc'] == 0 and ' ARR!' in (h['res'].get(len(ops) - 1) or '')
        if kind == 'descriptors':
            h = H.run('hist', ops, env)
            return h['rc'] == 0 and ' FDS:' in (h['res'].get(len(ops) - 1) or '')
        if kind == 'libc-state':
            h = H.run('hist', ops, env)
            return h['rc'] == 0 and ' APP!' in (h['res'].get(len(ops) - 1) or '')
        if kind == 'uninitialised':
            h = H.run('hist', ops, env)
            return 'UNINIT!' in (h['res'].get(len(ops) - 1) or '') or (h['died_at'] == len(ops) - 1 and 'MemorySanitizer' in h['stderr'])
        if kind == 'stderr':
            h = H.run('hist', ops, env)
            return h['rc'] == 0 and bool(stderr_unexpected(h['stderr']))
        h = H.run('hist', ['!state', '!snapshot'] + ops + ['!end', '!state', '!diff'], env)
        if h['rc'] != 0 or len(h['states']) != 2: return False
        s0, s1 = [s.split(' | ') for s in h['states']]
        if kind == 'locale': return s0[:2] != s1[:2] or s0[4:5] != s1[4:5]
        if kind == 'process-state': return s0[5:6] != s1[5:6]
        if kind == 'tables': return s0[3] != s1[3]
        if kind == 'retained': return any(re.match(r'retained \d+ changed [1-9]', l) for l in h['other'])
        return False

    def shrink(f):
        ops = list(f['ops']); kind = f['kind']; env = f['env']; Hf = f.get('H', H)
        if kind not in ('result', 'locale', 'tables', 'retained', 'crystal-array', 'stderr', 'process-state', 'descriptors', 'libc-state', 'uninitialised') or not differs(ops, env, kind, Hf): return ops
        keep_last = kind in ('result', 'crystal-array', 'descriptors', 'libc-state', 'uninitialised')
        n = 2; budget = 120
        while len(ops) > (2 if kind == 'result' else 1) and budget > 0:      # a result needs a history AND the query; a trace can be left by one call
            body = ops[:-1] if keep_last else ops
            chunk = max(1, len(body) // n); reduced = False
            for s in range(0, len(body), chunk):
                cand = body[:s] + body[s + chunk:] + (ops[-1:] if keep_last else [])
                budget -= 1
                if cand and differs(cand, env, kind, Hf):
                    ops = cand; n = max(n - 1, 2); reduced = True; break
                if budget <= 0: break
            if not reduced:
                if chunk == 1: break
                n = min(n * 2, len(body))
        return ops

    t = time.time()
    new_viol = []
    seen_kinds = set()
    for f in findings:
        if f['kind'] in seen_kinds and f['kind'] != 'result': continue
        seen_kinds.add(f['kind'])
        f['min'] = shrink(f)
        if f['kind'] == 'locale':
            fam = set()
            for e, c in meta['classes'].items():
                if 'setlocale' in set().union(*[set(meta['functions'][x]['exts']) for x in sl.closure(meta, e)]): fam.add(e)
            in_family = len(f['min']) == 1 and bool(xrlops.exercised(f['min'], meta) & fam)
            if in_family and restoring != 'true' and 'C.utf8' in (f['env'].get('LC_NUMERIC'), f['env'].get('LC_ALL')) and f.get('categories', ['NUMERIC']) == ['NUMERIC']:
                f['key'] = KEY_LOCALE
        hit = [k for k in known if k[0] == f.get('key')]
        if hit: rep['known'].append((f, hit[0]))
        else: new_viol.append(f)
    ctx.tick('shrink', t)
    # model vs implementation on the locale: the Lean verdict must agree with what the library does
    if not replay:
        loc_seen = any(f['kind'] == 'locale' for f in findings)
        if not stats.get('utf8_locale_held'):
            ctx.notes.append('locale C.utf8 not available in this image: the locale part of the tie was not exercised'); restoring = 'unchecked'
        if restoring == 'true' and loc_seen:
            rep['tie_broken'].append('Lean: every setlocale protocol restores the locale; real library: locale changed')
        if restoring == 'false' and not loc_seen and n_protocols:
            rep['tie_broken'].append('Lean: a setlocale protocol does not restore the locale (purity_full_iff); real library under LC_NUMERIC=C.utf8: locale unchanged — model and implementation disagree')

    # ---- report -------------------------------------------------------------------------------------------
    exit_code = 0
    for f, k in rep['known']:
        print('KNOWN-FINDING: property=%s %s: %s' % (ID, k[0], k[1]))
    broken = rep['proof_broken'] or rep['tie_broken'] or rep['problems']
    def body_of(f):
        b = '# %s\n# %s\n' % (f['what'], f.get('label', ''))
        if f.get('got') is not None or f.get('expected') is not None:
            b += '# after this history the last call returned: %s\n# in a process without history it returns:    %s\n' % (f.get('got'), f.get('expected'))
        for k, v in f['env'].items(): b += '#env %s=%s\n' % (k, v)
        if HR is not None and f.get('H') is HR: b += '#config kissel   (tables of the regenerated Kissel configuration: tools/regen_kissel.py)\n'
        if HP is not None and f.get('H') is HP: b += '#config plain   (library and harness built without sanitizer: the real glibc allocator)\n'
        if HM is not None and f.get('H') is HM: b += '#config msan   (library and harness built with -fsanitize=memory)\n'
        return b + '\n'.join(f.get('min') or f['ops']) + '\n'
    if new_viol:
        body = '# violation of %s found on the real library (harness/c16_hist.c); minimised history below\n' % ID
        body += body_of(new_viol[0])
        for f in new_viol[1:4]:
            body += '\n# also: %s (%d ops)\n' % (f['what'], len(f.get('min') or f['ops']))
            for l_ in body_of(f).splitlines()[2:][:12]: body += '#    ' + l_[:600] + '\n'
        if broken: body += '\n# broken obligations: %s\n' % json.dumps(dict(proof=rep['proof_broken'], tie=rep['tie_broken'], other=rep['problems']))[:3000]
        for x in explain[:20]: body += '# readonly_footprint: entry %s reaches %s (%s): writes %s, external calls outside the allow-list %s\n' % (x['entry'], x['function'], x['file'], x['writes'], x['exts'])
        for x in explain_user[:10]: body += '# user_mutator_footprint: %s (array argument not NULL) reaches %s (%s): writes %s, external calls outside allow-list + file input %s\n' % (x['entry'], x['function'], x['file'], x['writes'], x['exts'])
        path = core.write_replay(ctx, body)
        print('VIOLATION property=%s replay=%s' % (ID, path)); exit_code = 1
    elif broken:
        body = '# %s is no longer shown to hold; the history search (%d histories, %d calls compared) found no failing history\n' % (ID, stats['histories'], stats['compared'])
        if rep['proof_broken']:
            body += '# theorems that no longer check: %s\n# %s\n' % (', '.join(rep['proof_broken']), rep.get('proof_log', '').replace('\n', '\n# '))
        for x in explain[:40]: body += '# readonly_footprint: entry %s reaches %s (%s): writes %s, external calls outside the allow-list %s\n' % (x['entry'], x['function'], x['file'], x['writes'], x['exts'])
        for x in explain_user[:10]: body += '# user_mutator_footprint: %s (array argument not NULL) reaches %s (%s): writes %s, external calls outside allow-list + file input %s\n' % (x['entry'], x['function'], x['file'], x['writes'], x['exts'])
        for tb in rep['tie_broken']: body += '# tie broken: %s\n' % tb
        for pb in rep['problems']: body += '# %s\n' % pb
        path = core.write_replay(ctx, body)
        print('VIOLATION property=%s replay=%s no-failing-input-found' % (ID, path)); exit_code = 1

    n_dis = 0 if not ok_props else sum(1 for th in theorems if th in axioms and not (set(axioms[th]) - sl.ALLOWED_AXIOMS))
    ex = xrlops.exercised(all_ops if not replay else [], meta) if not replay else set()
    cov = dict(obligations=max(len(theorems), 1), discharged=n_dis,
               checker_cmd='cd lean-sched && lake build %s  (then `#print axioms` on each theorem; thorough: leanchecker)' % MODULE,
               trusted_base=sl.TRUSTED_BASE, theorems=[dict(name=th, axioms=axioms.get(th)) for th in theorems],
               traces_validated_against_impl=stats['compared'], evaluations=stats['compared'] + stats['state_checks'] + stats['exec_fresh_checked'],
               distinct_nontrivial=len(ok_texts) + len(ok_kissel), distinct_failing_calls=len(err_texts) + len(err_kissel), distinct_calls=stats['distinct_ops'],
               distinct_nontrivial_shipped_tables=len(ok_texts), distinct_nontrivial_regenerated_kissel=len(ok_kissel),
               rule='seeded histories of API calls (tools/xrlops.py: every public function with a generic signature + hand-written ops for parser, NIST, '
                    'radionuclides, crystals, error API, deprecated functions; arguments from small per-run pools plus fresh draws; valid and failing calls; '
                    'with/without XRayInit; objects retained across calls).  Every call of a history is compared bit-for-bit with the same call in a process '
                    'without history (forked before any library call; a sample re-checked in exec\'ed processes).  distinct_nontrivial = number of distinct '
                    'call texts (function + argument tuple) that were executed inside a history, agreed with the fresh process AND produced a value or '
                    'object rather than an error; distinct_failing_calls counts the distinct erroring ones; both are summed over the two data configurations '
                    '(tables as shipped, where data/kissel_pe.dat is empty and the Kissel/cascade family can only fail; tables with kissel_pe.dat regenerated from '
                    'data/kissel, where it succeeds: history_stats.kissel.succeeded_per_function).  Hidden per-thread state: errno is carried from call to call as in an application '
                    'that makes the calls back to back (a process without history starts with errno = 0), and EVERY history contains adjacent groups `call that leaves errno = ERANGE '
                    '(CompoundParser of a subscript with 400 digits / an underflowing one; a SUCCESSFUL Crystal_ReadFile of a file containing 1e-400, 1e400; the application: AppErrno 34, '
                    'AppFe 1 = all floating-point exception flags raised) -> query that converts a subscript or number (CompoundParser, _CP functions, Refractive_Index*, add_compound_data, '
                    'Crystal_ReadFile)` (history_stats.errno_groups).  Descriptors: the number of open file descriptors is compared after EVERY call (history_stats.fd_checks), and every history '
                    'contains one Crystal_ReadFile per exit path of that function (directory, /dev/null, empty / blank / comment-only file, NULL and missing name, malformed #S, no / two #UCELL, '
                    'truncated, bad atom line, duplicate name, out-of-range numbers: history_stats.file_exit_path_ops).  Uninitialised output: EVERY field of every returned object is rendered bit-exactly '
                    '(add_compound_data: nElements, nAtomsAll, molarMass, Elements, massFractions, nAtoms; NIST / radionuclide records, crystals with all atoms, xrlComplex, string lists); every history contains groups '
                    '`parser / NIST / radionuclide / crystal calls that allocate and release -> query that hands out a newly allocated object` (history_stats.heap_residue_groups; add_compound_raw = add_compound_data on mixtures '
                    'the application wrote itself, no other library call in the op); in the AddressSanitizer build the process with history gets new blocks filled with 0xbe and the process without history zero-filled, '
                    'so a byte the library did not write differs; the corpus and one generated history also run in an unsanitized build (real glibc allocator, real block re-use: history_stats.histories counts them) and under '
                    'MemorySanitizer (history_stats.msan_ops: a scalar of a returned object that was never written is rendered UNINIT!, a branch on one stops the call).  Hidden C-library cursors: after EVERY call '
                    '(history_stats.libc_cursor_checks) the harness takes the next token of a strtok tokenisation it has in progress, the next rand() and lrand48() of its sequences, and compares the strings / buffers getenv, '
                    'localtime, asctime, tmpnam, strerror returned to it, optind / opterr / optopt / optarg, ftell(stdin) + the descriptor offset, the buffering of stdout and localeconv() with what an undisturbed C library yields.  The calling thread\'s own locale: in a share of the histories of every build '
                    '(history_stats.thread_locale_histories; always the corpus history C16-thread-locale, one generated AddressSanitizer history with an object for C.utf8 and one for C, the unsanitized and MemorySanitizer histories, '
                    'the first Kissel history, one history with process locale C.utf8 and the thread on "C") the harness thread installs uselocale(newlocale(LC_ALL_MASK, name, 0)) before the history; after EVERY call '
                    'uselocale(0) must return that handle (LC_GLOBAL_LOCALE in the other histories) and nl_langinfo(CODESET / RADIXCHAR / THOUSEP) through it must be unchanged (history_stats.thread_locale_checks)',
               samples=[dict(call=o) for o in (all_ops[:3] + all_ops[-3:] if not replay else [])] +
                       [dict(finding=f['what'], minimal_history=f.get('min'), env=f['env']) for f in findings[:3]],
               footprint=dict(functions=len(meta['functions']), public=len(meta['classes']), classes={c: sum(1 for v in meta['classes'].values() if v == c) for c in set(meta['classes'].values())},
                              writers={n: f['writes'] for n, f in meta['functions'].items() if f['writes'] or f['unknown_writes']},
                              statics={n: f['statics'] for n, f in meta['functions'].items() if f['statics']},
                              external_callees=sorted(set(x for f in meta['functions'].values() for x in f['exts'])),
                              errno_reads={n: f['errno_reads'] for n, f in meta['functions'].items() if f.get('errno_reads')},
                              locale_protocols=protos, selftest_idioms=meta.get('selftest_idioms'), table_sha256=meta['sha256'], regenerated_text_changed=changed),
               lean_verdicts=ev, history_stats=stats,
               public_functions_exercised=len(ex), public_functions_not_exercised=sorted(set(meta['classes']) - ex) if not replay else None,
               known_findings_reproduced=len(rep['known']), broken=dict(proof=rep['proof_broken'], tie=rep['tie_broken'], other=rep['problems']))
    sl.write_evidence(ctx, 'proof', cov, len(new_viol) + (1 if broken and not new_viol else 0),
                      ['libc/libm functions of the allow-list do not modify the library tables, the crystal array or the locale (contract, DESIGN §6)',
                       'a C function behaves as SOME program of atomic accesses within its syntactic footprint (checked, not proved, by the history harness)'])
    log('%s %s: exit %d (%.1fs; theorems %d/%d; %d histories, %d calls compared, %d distinct; findings %d new / %d known; verdict restoring=%s)' % (
        ID, ctx.tier, exit_code, time.time() - ctx.t0, n_dis, len(theorems), stats['histories'], stats['compared'], stats['distinct_ops'], len(new_viol), len(rep['known']), restoring))
    return exit_code

class _Check:
    id = ID
    def run(self, tier, seed, replay=None): return run(tier, seed, replay)

CHECK = _Check()
