"""C18 — the C++ wrappers return what C returns and throw exactly when C reports an error.

Level: proof over the wrapper protocol (lean-cpp/XrlCpp/Props/C18.lean) + finite wrapper table extracted from the
clang AST of cplusplus/xraylib++.h on every run; tie: C++ driver vs C driver vs the executable model on one stream."""
import os, sys, re, json, time, subprocess, hashlib, math
from concurrent.futures import ThreadPoolExecutor
from vlib import core, cbuild, xdrv
from vlib.cbuild import VERIF, REPO, BuildError
from vlib.xdrv import log
sys.path.insert(0, os.path.join(VERIF, 'tools'))
import xapi

PROJECT = os.path.join(VERIF, 'lean-cpp')
MODULE = 'XrlCpp.Props.C18'
NAMESPACE = 'XrlCpp.C18'
PROPS_FILE = os.path.join(PROJECT, 'XrlCpp', 'Props', 'C18.lean')
FINDINGS_FILE = None
LEAK_KEY = 'cplusplus/xraylib++.h:_process_error throws without releasing the xrl_error'
NONVACUITY = ['example : headerPE.Conforms', 'example : Reachable', 'example : Gen.cProtos.length', 'example : Gen.classMaps.length', 'example : Gen.errorCodes.length', 'example : structFits', 'example : OutFits']
# wrappers whose success path needs a populated Kissel table (data/kissel_pe.dat is empty as shipped): second pass on the regenerated table
KISSEL_RE = re.compile(r'Kissel|Photo_Total|Photo_Partial|^ElectronConfig$')
# driver op -> the C function whose table entry the executable model is asked about (default: the op itself)
ENTRY_OF = {'Atomic_FactorsM': 'Atomic_Factors', 'StructAdd': 'Crystal_AddCrystal', 'StructAddF': 'Crystal_AddCrystal'}
NO_ENTRY = {'ProcessError', 'StructCopy', 'StructNew', 'CAdd', 'CReadFile', 'CList'}          # synthetic / composite ops: plain protocol
# ops of the C++ driver that change / read the built-in collection through the C API called directly (no wrapper involved): the C driver is sent
# the line that has the same effect on ITS collection (a one-entry crystal file = one Crystal_AddCrystal; C14's subject), so that both processes
# stay in the same state and the C answer remains the reference for the wrappers' queries that follow
C_TWIN = {'CAdd': 'StructAdd', 'CReadFile': 'StructAdd', 'CList': 'Crystal_GetCrystalsList'}
ROUTES = {'StructAdd': 'the method Crystal::Struct::AddCrystal()', 'StructAddF': 'the free function Crystal::AddCrystal(Struct&)',
          'CAdd': 'the C API: Crystal_AddCrystal(c, NULL, &error)', 'CReadFile': 'the C API: Crystal_ReadFile(file, NULL, &error)'}

def c_line(l):
    t = l.split(' ', 1)
    return (C_TWIN[t[0]] + ' ' + t[1]) if t[0] in C_TWIN and len(t) > 1 else l
TRUSTED = [
    'Lean 4.33 kernel (lake build of XrlCpp.Props.C18; thorough tier: leanchecker)',
    'axioms allowed: propext, Classical.choice, Quot.sound (audited by #print axioms on every run)',
    'tools/extract_cpp.py + clang-14 JSON AST of cplusplus/xraylib++.h and include/*.h: wrapper table (callee, forwarded arguments, error check, release, returned value as a term over the C result), '
    'member-initialiser lists (field maps), C struct declarations, xrl_error_code enumerators and _process_error description; '
    'checked on every run by the three-way correspondence (C driver, C++ driver, executable model) and by refusing anything unclassified',
    'hand model lean-cpp/XrlCpp/Hand/{Cpp,Struct}.lean of the wrapper protocol and of Crystal::Struct ownership: trusted as far as the correspondence run exercises it',
    'the C library is the reference: its own behaviour (values, error codes, C-side leaks) is the subject of C01-C17, not of C18',
    'tools/regen_kissel.py (port of data/kissel/kissel.pro) for the second data configuration: only used to obtain a populated Kissel table on which both drivers are run; '
    'a wrong table would make both sides wrong alike',
    'modelled, not verified: the C++ compiler and runtime (exception propagation, std::vector/std::string copies), the allocator; '
    'ASan/UBSan and the --wrap live-block counter are observers of the correspondence run only',
]

def spec_kind(code):
    return 'invalid_argument' if code == 1 else 'bad_alloc' if code == 0 else 'runtime_error'

# ------------------------------------------------------------------------------------------------ generator

class Gen:
    def __init__(self, ctx, tables, cdrv, cpp=True):
        self.ctx = ctx; self.t = tables; self.cdrv = cdrv; self.cpp = cpp
        self.protos = {p['name']: p for p in tables['protos']}
        self.ranges = xapi.macro_ranges(REPO)
        self.quick = ctx.tier == 'quick'
        self.catalog = self.read_catalog()
        self.sp = xapi.Space(ctx.seed, ctx.tier, self.ranges, self.catalog)
        self.rng = self.sp.rng

    def read_catalog(self):
        zmax = 120
        q = ['GetCompoundDataNISTList E', 'GetRadioNuclideDataList E', 'Crystal_GetCrystalsList E'] + ['AtomicNumberToSymbol %d E' % z for z in range(1, zmax)] + \
            ['EdgeEnergy %d %d E' % (z, s) for z in range(1, 101) for s in range(0, 4)]
        a = xdrv.run_driver([self.cdrv], q, chunk=None)
        def strs(ans):
            p = xdrv.parse_c(ans)
            return [xapi.unesc(v[1:]) for v in p['vals'][1:]] if p['kind'] == 'ok' and p['code'] is None else []
        cat = dict(nist=strs(a[0]), nuclides=strs(a[1]), crystals=strs(a[2]), symbols=[], edges={})
        for z in range(1, zmax):
            p = xdrv.parse_c(a[2 + z])
            if p['kind'] == 'ok' and p['code'] is None and p['vals']: cat['symbols'].append(xapi.unesc(p['vals'][0][1:]))
        k = 2 + zmax
        for z in range(1, 101):
            es = []
            for s in range(4):
                p = xdrv.parse_c(a[k]); k += 1
                if p['kind'] == 'ok' and p['code'] is None: es.append(xapi.unhx(p['vals'][0]))
            cat['edges'][z] = es
        if not (cat['nist'] and cat['nuclides'] and cat['crystals'] and cat['symbols']):
            raise BuildError('C reference driver returned an empty catalogue: %s' % a[:3])
        return cat

    # one argument axis: ('d', [values]) discrete, enumerated;  ('c', fn) continuous, sampled per tuple
    def axis(self, fn, pname, ty):
        sp = self.sp
        if ty == 'int':
            if pname == 'Z': return ('d', sp.dom_Z())
            if pname == 'shell': return ('d', sp.dom('shell'))
            if pname == 'line': return ('d', sp.dom('line'))
            if pname == 'trans': return ('d', sp.dom('trans'))
            if pname == 'auger_trans': return ('d', sp.dom('auger'))
            return ('d', list(range(-3, 6)))
        if ty == 'double':
            if pname in ('E', 'E0', 'energy'): return ('c', lambda Z: sp.energies(Z, 3))
            if pname in ('theta', 'phi'): return ('c', lambda Z: sp.angles(2))
            if pname in ('q', 'pz'): return ('c', lambda Z: sp.momenta(2))
            if pname == 'density': return ('c', lambda Z: sp.densities(2))
            return ('c', lambda Z: [sp.prob()])
        if ty == 'str':
            return ('c', lambda Z: sp.compounds(1))
        raise BuildError('no argument domain for parameter %s:%s of %s' % (pname, ty, fn))

    def scalar_lines(self, fn, cap):
        """the whole discrete product when it fits `cap`, else a seeded uniform subsample of it; plus a mostly-valid
        stratum of the same size (elements 1..98, inner shells / strong lines, energies above the edges) so that
        success paths are exercised as much as error paths"""
        p = self.protos[fn]
        axes = [self.axis(fn, n, t) for n, t in p['params'][:-1]]
        disc = [a[1] for a in axes if a[0] == 'd']
        total = 1
        for d in disc: total *= len(d)
        reps = 1
        if not disc:                       # continuous only: a fixed number of structured samples
            total = 1; reps = min(cap, 60 if self.quick else 400)
        idxs = range(total) if total <= cap else sorted(self.rng.sample(range(total), cap))
        out = []
        def emit(tup, valid):
            Z = None
            args = []; k = 0
            for (n, t), a in zip(p['params'][:-1], axes):
                if a[0] == 'd':
                    v = tup[k]; k += 1
                    if n == 'Z': Z = v
                    args.append(str(v))
                elif valid and n in ('E', 'E0', 'energy'):
                    args.append(xapi.hx(self.rng.choice([3.0, 8.0, 20.0, 50.0, 100.0, 150.0, 300.0, round(self.rng.uniform(1, 200), 2)])))
                elif valid and n in ('theta', 'phi'): args.append(xapi.hx(self.rng.uniform(0.05, 3.0)))
                elif valid and n in ('q', 'pz'): args.append(xapi.hx(self.rng.uniform(0.0, 20.0)))
                elif valid and n == 'density': args.append(xapi.hx(self.rng.uniform(0.5, 20.0)))
                elif valid and t == 'str': args.append(xapi.sarg(self.rng.choice(xapi.FORMULAS_OK + self.catalog['nist'])))
                else:
                    v = self.rng.choice(a[1](Z))
                    args.append(xapi.sarg(v) if t == 'str' else xapi.hx(v))
            out.append('%s %s E' % (fn, ' '.join(args)))
        for ix in idxs:
            tup = []; r = ix
            for d in reversed(disc): tup.append(d[r % len(d)]); r //= len(d)
            tup.reverse()
            for _ in range(reps): emit(tup, False)
        # mostly-valid stratum
        rng = self.rng
        vdom = dict(Z=lambda: rng.randint(1, 98), shell=lambda: rng.choice([0, 0, 1, 2, 3, 3, 4, 5, 6, 7, 8, 9, 12]),
                    line=lambda: rng.choice([0, 1, 2, 3, -1, -2, -3, -5, -6, -13, -29, -30, -60, -63, -86, -89, -90, -rng.randint(1, 383)]),
                    trans=lambda: rng.randint(*self.ranges['trans']), auger_trans=lambda: rng.randint(0, 200))
        nvalid = min(cap, max(len(idxs) * reps, 50)) if (disc or not self.quick) else 50
        for _ in range(nvalid):
            tup = [vdom.get(n, lambda: 1)() for (n, t), a in zip(p['params'][:-1], axes) if a[0] == 'd']
            emit(tup, True)
        return out

    def stateless(self):
        """-> (lines, rule text)"""
        q = self.quick; sp = self.sp; rng = self.rng; cat = self.catalog
        lines = []
        cap = 3000 if q else 60000
        tmpl = sorted(self.t['generic']) if self.cpp else sorted(self.t['scalar_functions'])
        for fn in tmpl:
            if fn in self.protos and xapi.is_simple(self.protos[fn]): lines += self.scalar_lines(fn, cap)
        # hand-written wrappers
        lines += ['SymbolToAtomicNumber %s E' % xapi.sarg(s) for s in cat['symbols'] + ['', 'Xx', 'fe', 'FE', 'Fee', ' Fe', 'Uu', '0', 'H2']]
        lines += ['AtomicNumberToSymbol %d E' % z for z in range(-3, 126)]
        forms = xapi.FORMULAS_OK + xapi.FORMULAS_BAD + cat['nist'][:10] + [sp.gen_formula() for _ in range(150 if q else 3000)]
        forms += [sp.mutate(rng.choice(xapi.FORMULAS_OK)) for _ in range(60 if q else 1500)]
        lines += ['CompoundParser %s E' % xapi.sarg(f) for f in forms]
        lo, hi = self.ranges['nist']; lines += ['GetCompoundDataNISTByIndex %d E' % i for i in range(lo - 3, hi + 4)]
        lines += ['GetCompoundDataNISTByName %s E' % xapi.sarg(s) for s in cat['nist'] + [sp.mutate(rng.choice(cat['nist'])) for _ in range(30)] + ['', 'H2O', 'water']]
        lines += ['GetCompoundDataNISTList E']
        lo, hi = self.ranges['nuclide']; lines += ['GetRadioNuclideDataByIndex %d E' % i for i in range(lo - 3, hi + 4)]
        lines += ['GetRadioNuclideDataByName %s E' % xapi.sarg(s) for s in cat['nuclides'] + [sp.mutate(rng.choice(cat['nuclides'])) for _ in range(15)] + ['', '55fe', 'Fe55']]
        lines += ['GetRadioNuclideDataList E', 'Crystal_GetCrystalsList E']
        for c in sp.compounds(120 if q else 2000):
            lines.append('Refractive_Index %s %s %s E' % (xapi.sarg(c), xapi.hx(rng.choice(sp.energies(None, 3))), xapi.hx(rng.choice(sp.densities(2)))))
        for Z in sp.dom_Z():
            for _ in range(2 if q else 12):
                lines.append('Atomic_Factors %d %s %s %s E' % (Z, xapi.hx(rng.choice(sp.energies(Z, 3))), xapi.hx(rng.choice(sp.momenta(2))), xapi.hx(rng.choice([0.0, 1.0, 0.5, -1.0, 10.0]))))
        # the same wrapper with every subset of output slots (a NULL slot switches a factor — and its argument checks — off in C), at
        # arguments that are invalid for only some of the factors
        for Z in ([1, 8, 26, 92, 99, 0, 121] if q else list(sp.dom_Z())[::3]):
            for E_ in (-1.0, 0.0, 0.0005, 8.0, 20000.0):
                for q_ in (-1.0, 0.0, 0.5, 1e9):
                    for mk in range(8):
                        lines.append('Atomic_FactorsM %d %s %s %s %d E' % (Z, xapi.hx(E_), xapi.hx(q_), xapi.hx(rng.choice([1.0, 0.5, 0.0, -1.0])), mk))
        # crystal queries: every crystal of the catalogue, garbage names, Miller indices incl. 000 and negatives, flags
        names = cat['crystals'] + ['', 'Nope', 'si', 'Si ', sp.mutate('Diamond')]
        hkls = [(0, 0, 0), (1, 1, 1), (2, 2, 0), (-1, 1, 3), (4, 0, 0), (0, 0, 1), (3, -3, 3), (6, 6, 6), (1, 0, -2)]
        lines += ['Crystal_GetCrystal %s E' % xapi.sarg(n) for n in names]
        lines += ['Crystal_UnitCellVolume %s E' % xapi.sarg(n) for n in names]
        for n in names:
            for hkl in (hkls if not q else rng.sample(hkls, 4)):
                h = '%d %d %d' % hkl
                E = xapi.hx(rng.choice([8.0, 0.5, 17.44, 0.0, -1.0, 100.0, 2.0, 30.0] + sp.energies(None, 2)))
                ra = xapi.hx(rng.choice(sp.angles(2) + [1.0])); db = xapi.hx(rng.choice([1.0, 0.5, 0.0, -1.0, 2.0]))
                s = xapi.sarg(n)
                lines.append('Crystal_dSpacing %s %s E' % (s, h))
                lines.append('Bragg_angle %s %s %s E' % (s, E, h))
                lines.append('Q_scattering_amplitude %s %s %s %s E' % (s, E, h, ra))
                lines.append('Crystal_F_H_StructureFactor %s %s %s %s %s E' % (s, E, h, db, ra))
                fl = rng.choice([(0, 0, 0), (2, 2, 2), (1, 1, 1), (0, 2, 2), (2, 0, 1), (3, 2, 2), (-1, 2, 2), (2, 2, 5)])
                lines.append('Crystal_F_H_StructureFactor_Partial %s %s %s %s %s %d %d %d E' % (s, E, h, db, ra, fl[0], fl[1], fl[2]))
                if self.cpp:
                    lines.append('StructCopy %s %s %s E' % (s, E, h))
                    lines.append('StructNew %s %s %s E' % (s, xapi.sarg(n + '_new'), h))
        # _process_error on every code of the enum, beyond it, and NULL
        for code in ([-1, 0, 1, 2, 3, 4, 5, 6, 7] if self.cpp else []):      # 6, 7: representable in the enum's value range, beyond its enumerators
            for m in ['Z out of range', '', 'a%b c', 'x' * 300]:
                lines.append('ProcessError %d %s E' % (code, xapi.sarg(m)))
        rule = ('every _XRL_FUNCTION wrapper x its discrete argument space (Z in [-3,125] x every macro in and +-3 around the header range), %s; '
                'continuous arguments (energies at table ends / element edges +- 1e-9 rel., 0, negatives; angles; q; densities) drawn per tuple; strings: valid formulas, '
                'NIST names, generated formulas, garbage, 1-byte mutations; every hand-written wrapper: all symbols, Z, NIST/nuclide indices +-3 and names, %d formulas, '
                'all %d crystals x Miller indices x energies x flags, each line through the Crystal::Struct method AND the free function of namespace Crystal; '
                'Crystal::Struct copy/new/add scenarios; _process_error on codes -1(NULL),0..7; allocation-failure injection (XRL_ERROR_MEMORY); the built-in crystal array filled until '
                'Crystal_AddCrystal reports XRL_ERROR_RUNTIME; sessions in which every wrapper answering from process-wide collection state is asked before and after every mutation route (method, free function, C API Crystal_AddCrystal / Crystal_ReadFile called directly) in every order of the routes; histories of the ownership model; every line of a Kissel-dependent wrapper (name matches Kissel|Photo_Total|Photo_Partial|ElectronConfig) '
                'a second time on the data configuration with the Kissel table regenerated from data/kissel; all choices from VERIF_SEED=%d') % (
                    'enumerated completely up to %d tuples per wrapper, else a seeded uniform subsample of that size, plus a mostly-valid stratum of the same size (Z in 1..98, inner shells / strong lines, energies above the edges)' % cap, len(forms), len(cat['crystals']), self.ctx.seed)
        return lines, rule

    def sessions(self):
        """stateful streams, each run in one fresh process"""
        cat = self.catalog; rng = self.rng; out = []
        # add crystals to the built-in array, re-add (error), look them up, list
        for k in range(2 if self.quick else 8):
            s = []; src = rng.sample(cat['crystals'], 5)
            for j, n in enumerate(src):
                nn = '%s_v%d' % (n, j)
                # StructAdd: Crystal::Struct::AddCrystal (method); StructAddF: Crystal::AddCrystal (free function) -- alternating, both in every session
                A = ('StructAdd', 'StructAddF') if (j + k) % 2 == 0 else ('StructAddF', 'StructAdd')
                s += ['%s %s %s E' % (A[0], xapi.sarg(n), xapi.sarg(nn)), 'Crystal_GetCrystal %s E' % xapi.sarg(nn), 'Crystal_UnitCellVolume %s E' % xapi.sarg(nn)]
                if rng.random() < 0.5: s.append('%s %s %s E' % (A[1], xapi.sarg(n), xapi.sarg(nn)))
                s.append('%s %s %s E' % (A[1], xapi.sarg(n), xapi.sarg(n)))
                s.append('%s %s %s E' % (A[0], xapi.sarg(n), xapi.sarg(n)))
            s += ['Crystal_GetCrystalsList E', 'Bragg_angle %s %s 1 1 1 E' % (xapi.sarg(src[0] + '_v0'), xapi.hx(10.0))]
            out.append(s)
        # allocation failure: the k-th allocation of the call fails once -> XRL_ERROR_MEMORY -> std::bad_alloc (or the C code aborts: then both abort)
        s = []
        targets = ['GetCompoundDataNISTByIndex 5 E', 'GetCompoundDataNISTByName %s E' % xapi.sarg(cat['nist'][3]), 'GetCompoundDataNISTList E',
                   'GetRadioNuclideDataByIndex 2 E', 'GetRadioNuclideDataByName %s E' % xapi.sarg(cat['nuclides'][1]), 'GetRadioNuclideDataList E',
                   'Crystal_GetCrystalsList E', 'Crystal_GetCrystal sSi E', 'StructCopy sSi %s 1 1 1 E' % xapi.hx(8.0), 'Bragg_angle sSi %s 1 1 1 E' % xapi.hx(8.0)]
        for tline in targets:
            for k in (1, 2, 3):
                s += ['!failalloc %d' % k, tline]
        out.append(s)
        # the same for every other wrapper (method and free function) that reaches one of the XRL_ERROR_MEMORY sites of src/ (the lookup's
        # Crystal_MakeCopy; the three NIST and the three nuclide functions at further catalogue entries): the FIRST allocation of the C call
        # fails - the one injection point at which the unchanged library reports the failure cleanly everywhere (C03/C04) - so C answers
        # code 0 and the wrapper must throw std::bad_alloc.  (seeded change C18-11: _process_error without its XRL_ERROR_MEMORY case)
        s = []
        cn = rng.sample(cat['crystals'], 3)
        more = ['Q_scattering_amplitude %s %s 1 1 1 %s E' % (xapi.sarg(cn[0]), xapi.hx(8.0), xapi.hx(1.0)),
                'Crystal_F_H_StructureFactor %s %s 2 2 0 %s %s E' % (xapi.sarg(cn[1]), xapi.hx(17.44), xapi.hx(1.0), xapi.hx(1.0)),
                'Crystal_F_H_StructureFactor_Partial %s %s 1 1 1 %s %s 2 2 2 E' % (xapi.sarg(cn[2]), xapi.hx(8.0), xapi.hx(1.0), xapi.hx(1.0)),
                'Crystal_UnitCellVolume %s E' % xapi.sarg(cn[0]), 'Crystal_dSpacing %s 1 1 1 E' % xapi.sarg(cn[1]),
                'StructNew %s %s 1 1 1 E' % (xapi.sarg(cn[2]), xapi.sarg(cn[2] + '_new'))]
        lo, hi = self.ranges['nist']; more += ['GetCompoundDataNISTByIndex %d E' % i for i in rng.sample(range(lo, hi + 1), 3)]
        more += ['GetCompoundDataNISTByName %s E' % xapi.sarg(n) for n in rng.sample(cat['nist'], 3)]
        lo, hi = self.ranges['nuclide']; more += ['GetRadioNuclideDataByIndex %d E' % i for i in rng.sample(range(lo, hi + 1), 3)]
        more += ['GetRadioNuclideDataByName %s E' % xapi.sarg(n) for n in rng.sample(cat['nuclides'], 3)]
        more += ['Crystal_GetCrystal %s E' % xapi.sarg(n) for n in cn]
        for tline in more: s += ['!failalloc 1', tline]
        out.append(s)
        # fill the built-in crystal array (fixed size): once it is full Crystal_AddCrystal reports XRL_ERROR_RUNTIME — the one code other than
        # MEMORY / INVALID_ARGUMENT that a wrapped C function produces on this tree — through both routes
        s = []
        for i in range(640):
            s.append('%s %s %s E' % ('StructAdd' if i % 2 == 0 else 'StructAddF', xapi.sarg(cat['crystals'][i % len(cat['crystals'])]), xapi.sarg('fill_%04d' % i)))
        out.append(s)
        return out

    def state_sessions(self):
        """sessions on process-wide collection state: every wrapper that answers from the built-in crystal collection (the listing, lookups by
        name, a query on a looked-up crystal) and the two other list wrappers are asked BEFORE and AFTER every mutation of the collection, and the
        collection is changed by every route there is: the method, the free function, and the C API called directly (Crystal_AddCrystal,
        Crystal_ReadFile on the built-in array) - in every order of the four routes.  Each session is one fresh process; `CList` is the C list
        function called directly inside the C++ process (the two processes are in the same state)."""
        import itertools
        cat = self.catalog; rng = self.rng; out = []
        routes = list(ROUTES)
        perms = list(itertools.permutations(routes))
        if self.quick: perms = [p for i, p in enumerate(perms) if i % 2 == self.ctx.seed % 2] + [tuple(routes)]
        for k, perm in enumerate(perms):
            src = rng.sample(cat['crystals'], len(perm)); s = []
            def queries(nn, more):
                q = ['Crystal_GetCrystalsList E', 'Crystal_GetCrystal %s E' % xapi.sarg(nn)]
                if more: q += ['CList E', 'Crystal_UnitCellVolume %s E' % xapi.sarg(nn), 'GetCompoundDataNISTList E', 'GetRadioNuclideDataList E', 'Crystal_GetCrystal %s E' % xapi.sarg(rng.choice(cat['crystals']))]
                return q
            for j, (r, n) in enumerate(zip(perm, src)):
                nn = '%s_%s%d' % (n[:12], 'mfar'[routes.index(r)], j)
                # every third session does not ask before its first mutation (a first query after a mutation is a different program)
                if not (j == 0 and k % 3 == 2): s += queries(nn, j == 0)
                s.append('%s %s %s E' % (r, xapi.sarg(n), xapi.sarg(nn)))
                s += queries(nn, True)
                if rng.random() < 0.5:
                    # the same name again through another route: refused (error), the collection and every answer stay as they are
                    s.append('%s %s %s E' % (rng.choice(routes), xapi.sarg(n), xapi.sarg(nn))); s += queries(nn, False)
            out.append(s)
        # the built-in collection filled to its capacity and beyond, through alternating routes, with the listing asked on the way
        s = ['Crystal_GetCrystalsList E']
        for i in range(520):
            s.append('%s %s %s E' % (routes[i % 4], xapi.sarg(cat['crystals'][i % len(cat['crystals'])]), xapi.sarg('full_%04d' % i)))
            if i in (0, 1, 2, 3, 100, 472, 473, 474, 475, 519): s += ['Crystal_GetCrystalsList E', 'CList E']
        out.append(s)
        return out

    def histories(self):
        """random histories of the ownership model (Hand/Struct.lean) -> list of (cpp line, model line, names, forms)"""
        cat = self.catalog; rng = self.rng; out = []
        for _ in range(30 if self.quick else 400):
            names = rng.sample(cat['crystals'], 4); forms = rng.sample(xapi.FORMULAS_OK, 3)
            ops = []; nobj = 0
            for _ in range(rng.randint(4, 40)):
                c = rng.random()
                if nobj == 0 or c < 0.18: ops.append(('g', rng.randrange(4))); nobj += 1
                elif c < 0.26: ops.append(('n', rng.randrange(4))); nobj += 1
                elif c < 0.36: ops.append(('p', rng.randrange(3))); nobj += 1
                elif c < 0.48: ops.append(('c', rng.randrange(nobj + 1))); nobj += 1      # may name a destroyed / not yet existing object: skipped
                elif c < 0.53: ops.append(('m', rng.randrange(nobj + 1))); nobj += 1      # move-construct / vector growth: copies in the model
                elif c < 0.56: ops.append(('w', rng.randrange(nobj + 1))); nobj += 1
                elif c < 0.74: ops.append(('d', rng.randrange(nobj + 1)))
                elif c < 0.84: ops.append(('k', rng.randrange(nobj + 1)))
                elif c < 0.92: ops.append(('f', rng.randrange(nobj + 1)))      # method that walks the atom array of the C struct
                else: ops.append(('r', rng.randrange(nobj + 1)))
            out.append((names, forms, ops))
        return out

def parse_hist(line):
    t = line.split(' ')
    n = int(t[1]); names = [xapi.unesc(x[1:]) for x in t[2:2 + n]]
    m = int(t[2 + n]); forms = [xapi.unesc(x[1:]) for x in t[3 + n:3 + n + m]]
    return names, forms, [(x[0], int(x[1:])) for x in t[3 + n + m:]]

def hist_lines(names, forms, ops):
    cpp = 'Hist %d %s %d %s %s' % (len(names), ' '.join(xapi.sarg(n) for n in names), len(forms), ' '.join(xapi.sarg(f) for f in forms), ' '.join('%s%d' % o for o in ops))
    # the unchanged header has no move constructor and no special vector support: `m` and `w` are copies in the ownership model
    mod = 'hist ' + ' '.join('%s%d' % ('c' if o in ('m', 'w') else 'k' if o == 'f' else o, (x + 100) if o == 'p' else x) for o, x in ops)
    return cpp, mod

# ------------------------------------------------------------------------------------------------ the check

class C18:
    id = 'C18'

    def run(self, tier, seed, replay=None):
        ctx = core.Ctx('C18', tier, seed)
        self._no_kissel = False
        if replay:
            try: self._no_kissel = '@config' not in open(replay).read()
            except OSError: pass
        try:
            return self._run(ctx, replay)
        except BuildError as e:
            log('BUILD ERROR', str(e)[:3000])
            body = '# check C18 could not build the working tree or its own harness (cplusplus/xraylib++.h must compile against include/*.h):\n# ' + str(e)[:4000].replace('\n', '\n# ') + '\n'
            path = core.write_replay(ctx, body, 'txt')
            print('VIOLATION property=C18 replay=%s no-failing-input-found' % path)
            core.write_evidence(ctx, 'proof', dict(obligations=1, discharged=0, checker_cmd='cd lean-cpp && lake build ' + MODULE, trusted_base=TRUSTED,
                                explanation='build failed: ' + str(e)[:500], evaluations=1, distinct_nontrivial=0), 1)
            return 1
        finally:
            fut = getattr(self, '_ktable', None)
            if fut is not None:
                try: fut.result()        # never remove the scratch directory under a running compiler
                except Exception: pass
            ctx.close()

    # ---- build everything from the working tree
    def build(self, ctx, rep):
        sc = ctx.sc; aux = sc.path('aux'); os.makedirs(aux, exist_ok=True)
        ctx.build_c()
        # the table object of the second data configuration is made in the background while the Lean side is built
        self._kpool = ThreadPoolExecutor(max_workers=1)
        self._ktable = self._kpool.submit(self.kissel_table, ctx, 'real') if not getattr(self, '_no_kissel', False) else None
        t = time.time()
        with xdrv.Lock(os.path.join(PROJECT, '.verif.lock')):
            p = subprocess.run([sys.executable, os.path.join(VERIF, 'tools', 'extract_cpp.py'), sc.path('b'), os.path.join(PROJECT, 'XrlCpp', 'Gen'), aux],
                               capture_output=True, text=True, env=dict(os.environ, VERIF_REPO=REPO))
            ctx.tick('extract', t)
            for l in p.stdout.splitlines():
                if l.startswith('EXTRACT-FAILED'): raise BuildError(l)
                if l.startswith('UNCLASSIFIED'): rep['tie_broken'].append('wrapper extraction: ' + l)
            if p.returncode not in (0, 3): raise BuildError('extract_cpp.py crashed: ' + p.stderr[-3000:])
            t = time.time()
            ok_exe, log_exe = xdrv.lake_build(PROJECT, ['xrlcpp-model'])
            ok_props, log_props = xdrv.lake_build(PROJECT, [MODULE])
            ctx.tick('lake_build', t)
            if not ok_exe: raise BuildError('executable model does not build: ' + xdrv.first_errors(log_exe))
            theorems = core.theorems_of(PROPS_FILE, NAMESPACE)
            axioms = {}
            if ok_props:
                axioms, _ = xdrv.print_axioms(PROJECT, sc.path('Audit.lean'), MODULE, theorems)
            else:
                rep['proof_broken'] = [n for n in failing_theorems(log_props)] or ['(module %s does not build)' % MODULE]
                rep['proof_log'] = xdrv.first_errors(log_props, 10)
            if ctx.tier == 'thorough' and ok_props:
                t = time.time()
                pc = subprocess.run(['lake', 'env', 'leanchecker', MODULE], cwd=PROJECT, capture_output=True, text=True)
                ctx.tick('leanchecker', t)
                if pc.returncode != 0: rep['problems'].append('leanchecker rejected %s: %s' % (MODULE, (pc.stdout + pc.stderr)[-400:]))
                else: ctx.notes.append('leanchecker re-checked %s' % MODULE)
            # keep a private copy of the executable: another run may rebuild it while we use it
            import shutil
            shutil.copy(os.path.join(PROJECT, '.lake', 'build', 'bin', 'xrlcpp-model'), sc.path('xrlcpp-model'))
        bad = core.audit_sources(xdrv.lean_files(PROJECT, 'XrlCpp') + [os.path.join(PROJECT, 'Driver.lean')])
        if bad: rep['problems'].append('forbidden construct in Lean sources: ' + '; '.join(bad[:5]))
        for th in theorems:
            if ok_props and th not in axioms: rep['problems'].append('axiom audit: no report for %s' % th)
            elif ok_props and set(axioms[th]) - xdrv.ALLOWED_AXIOMS: rep['problems'].append('axiom audit: %s depends on %s' % (th, sorted(set(axioms[th]) - xdrv.ALLOWED_AXIOMS)))
        src = open(PROPS_FILE).read()
        for w in NONVACUITY:
            if w not in src: rep['problems'].append('non-vacuity witness `%s` missing from %s' % (w, MODULE))
        tables = json.load(open(os.path.join(aux, 'cpp_tables.json')))
        if not ok_props and 'wrapper_table_complete' in rep['proof_broken']: rep['table_diagnosis'] = diagnose_table(tables)[:20]
        if not ok_props and 'field_maps_complete' in rep['proof_broken']: rep['table_diagnosis'] = (rep.get('table_diagnosis', []) + diagnose_maps(tables))[:20]
        t = time.time()
        def b1(): return xdrv.build_c_driver(sc, ctx.objs, ctx.cfl, aux)
        with ThreadPoolExecutor(max_workers=2) as ex:
            f1 = ex.submit(b1)
            ao = sc.path('allocwrap_cpp.o')
            cbuild.run(['clang-14'] + ctx.cfl + ['-c', os.path.join(xdrv.HARNESS, 'allocwrap.c'), '-o', ao])
            cbuild.run(['clang++-14', '-std=gnu++17'] + ctx.cfl + ['-I' + aux, '-I' + os.path.join(REPO, 'cplusplus'), os.path.join(xdrv.HARNESS, 'cppdrv.cpp'), ao] +
                       list(ctx.objs) + ['-lm', xdrv.WRAP, '-o', sc.path('cppdrv')])
            cdrv, _ = f1.result()
        ctx.tick('drivers', t)
        return dict(tables=tables, theorems=theorems, axioms=axioms, ok_props=ok_props, cdrv=cdrv, cppdrv=sc.path('cppdrv'), model=sc.path('xrlcpp-model'), aux=aux, allocwrap_cpp=ao)

    def kissel_table(self, ctx, kind='real'):
        """-> the table object (xrayglob_inline.c compiled) of the data configuration with the regenerated Kissel table"""
        sc = ctx.sc; t = time.time()
        root = sc.path('kroot_' + kind); os.makedirs(os.path.join(root, 'data'), exist_ok=True)
        for f in os.listdir(os.path.join(REPO, 'data')):
            src = os.path.join(REPO, 'data', f); dst = os.path.join(root, 'data', f)
            if f != 'kissel_pe.dat' and not os.path.lexists(dst): os.symlink(src, dst)
        p = subprocess.run([sys.executable, os.path.join(VERIF, 'tools', 'regen_kissel.py'), os.path.join(REPO, 'data', 'kissel'), os.path.join(root, 'data', 'kissel_pe.dat')],
                           capture_output=True, text=True)
        if p.returncode != 0: raise BuildError('regen_kissel.py failed: ' + p.stderr[-1000:])
        inline = cbuild.build_prdata(sc, REPO, data_root=root, bname='bK' + kind)
        o = sc.path('xrayglob_inline_K%s.o' % kind)
        cbuild.run(['clang-14'] + cbuild.cflags(REPO, sc.path('b')) + ['-O0', '-g0', '-w', '-fsanitize=address', '-c', inline, '-o', o])
        ctx.tick('kissel_table_' + kind, t)
        return o

    def build_kissel(self, ctx, b, kind='real'):
        """the same two drivers on the second data configuration: data/kissel_pe.dat REGENERATED from the raw files of data/kissel
        (tools/regen_kissel.py, a port of data/kissel/kissel.pro) and passed through the working tree's own prdata; same code objects,
        only the generated table file differs.  -> dict like `build`'s with the drivers of that configuration"""
        sc = ctx.sc; t = time.time()
        fut = getattr(self, '_ktable', None)
        o = fut.result() if fut is not None else self.kissel_table(ctx, kind)
        objs = [x for x in ctx.objs if not x.endswith('xrayglob_inline.c.o')] + [o]
        if len(objs) != len(ctx.objs): raise BuildError('table object of the first configuration not found among the library objects')
        aux = b['aux']
        def b1(): return xdrv.build_c_driver(_Sub(sc, '_K' + kind), objs, ctx.cfl, aux)
        with ThreadPoolExecutor(max_workers=2) as ex:
            f1 = ex.submit(b1)
            cbuild.run(['clang++-14', '-std=gnu++17'] + ctx.cfl + ['-I' + aux, '-I' + os.path.join(REPO, 'cplusplus'), os.path.join(xdrv.HARNESS, 'cppdrv.cpp'), b['allocwrap_cpp']] +
                       objs + ['-lm', xdrv.WRAP, '-o', sc.path('cppdrv_K' + kind)])
            cdrv, _ = f1.result()
        ctx.tick('kissel_config_' + kind, t)
        return dict(b, cdrv=cdrv, cppdrv=sc.path('cppdrv_K' + kind))

    # ---- judge one line
    def judge(self, line, c_ans, w_ans, m_ans):
        """-> (tie_ok, verdict) with verdict None | dict(what, expected, leak_only)"""
        c = xdrv.parse_c(c_ans); w = xdrv.parse_w(w_ans)
        if c_ans == 'set' and w_ans == 'set': return True, None
        if c['kind'] == 'died' or w['kind'] == 'died':
            if c['kind'] == w['kind']: return True, None        # the C code itself aborts (C04's subject), identically through the wrapper
            return False, dict(what='one side aborted: C `%s`, C++ `%s`' % (c_ans[:120], w_ans[:120]), expected='same outcome as C', leak_only=False)
        if c['kind'] != 'ok' or w['kind'] not in ('ok', 'throw'):
            return False, dict(what='unparsable answer', expected=c_ans, leak_only=False)
        tie = True
        # model prediction
        if m_ans is not None:
            mt = m_ans.split(' ')
            if mt[0] == 'ret': tie = (w['kind'] == 'ok' and w['live'] == int(mt[1]))
            elif mt[0] == 'throw': tie = (w['kind'] == 'throw' and w['cls'] == mt[1] and w['live'] == int(mt[2]) and (mt[3] == '-' or mt[3][1:] == w['msg']))
            else: tie = False
        # the property as stated
        if c['code'] is None:
            if w['kind'] != 'ok': return tie, dict(what='C succeeded but the wrapper threw %s(%s)' % (w.get('cls'), xapi.unesc(w.get('msg', ''))[:80]), expected='value ' + ' '.join(c['vals'])[:200], leak_only=False)
            if w['vals'] != c['vals']: return tie, dict(what='wrapper value differs from C value', expected='ok ' + ' '.join(c['vals'])[:300], leak_only=False)
        else:
            if w['kind'] != 'throw': return tie, dict(what='C reported error %d but the wrapper returned' % c['code'], expected='throw %s' % spec_kind(c['code']), leak_only=False)
            if w['cls'] != spec_kind(c['code']): return tie, dict(what='C error code %d must be thrown as %s, got %s' % (c['code'], spec_kind(c['code']), w['cls']), expected='throw %s' % spec_kind(c['code']), leak_only=False)
            if spec_kind(c['code']) != 'bad_alloc' and w['msg'] != (c['msg'] or ''): return tie, dict(what='exception does not carry the C message', expected='what() = ' + xapi.unesc(c['msg'] or ''), leak_only=False)
        if w['live'] != c['live']:
            return tie, dict(what='live blocks after the call: wrapper %+d vs C %+d' % (w['live'], c['live']), expected='L%d' % c['live'], leak_only=True,
                             leak_delta=w['live'] - c['live'], threw=(w['kind'] == 'throw'))
        return tie, None

    def judge_all(self, line, c_ans, w_ans, m_ans):
        """a line answered through several routes (`<method> || <free function>`): the first route that is judged wrong"""
        tie = True; v = None
        for wa in w_ans.split(' || '):
            t1, v1 = self.judge(line, c_ans, wa, m_ans)
            tie = tie and t1
            if v is None: v = v1
        return tie, v

    def model_line(self, c_ans, line=None):
        """the observed behaviour of the C call, for the executable model; with `line`: asked of the extracted table entry that
        forwards to the C function the line names (`wrapw`), so that what the model says depends on that entry's `checked` flag"""
        c = xdrv.parse_c(c_ans)
        if c['kind'] != 'ok': return None
        obs = '1 %s 0 %d %s' % ('E' if c['code'] is None else 'F%d' % c['code'], max(c['live'], 0), c['msg'] or '')
        fn = line.split(' ')[0] if line else None
        if not fn or fn in NO_ENTRY or fn.startswith('!'): return 'wrap ' + obs
        return 'wrapw %s %s' % (ENTRY_OF.get(fn, fn), obs)

    def run_model(self, b, lines):
        if not lines: return []
        p = subprocess.run([b['model']], input='\n'.join(lines) + '\n', capture_output=True, text=True)
        if p.returncode != 0: raise BuildError('executable model failed: ' + p.stderr[-1000:])
        return p.stdout.splitlines()

    def three_way(self, b, lines, chunk):
        with ThreadPoolExecutor(max_workers=2) as ex:
            fc = ex.submit(xdrv.run_driver, [b['cdrv']], [c_line(l) for l in lines], None, chunk, 8)
            fw = ex.submit(xdrv.run_driver, [b['cppdrv']], lines, None, chunk, 8)
            c = fc.result(); w = fw.result()
        ml = [self.model_line(a, l) for a, l in zip(c, lines)]
        mo = self.run_model(b, [m for m in ml if m is not None])
        it = iter(mo)
        m = [next(it) if x is not None else None for x in ml]
        return c, w, m

    def _run(self, ctx, replay):
        rep = dict(problems=[], proof_broken=[], tie_broken=[], violations=[], known=[])
        known = xdrv.load_findings('C18', FINDINGS_FILE)
        b = self.build(ctx, rep)
        pe = b['tables']['pe']
        dist = {}; distK = {}; viols = []; tie_mis = []; leaks = []; samples = []; n_eval = 0; nontriv = set()
        skipped = []
        self.builds = {'': b}
        ctx.routes = dict(lines_with_two_routes=0)
        def account(line, c_ans, w_ans, m_ans, prefix=None, cfg='', session=None):
            """one line of the stream; a crystal query is answered through the method and through the free function: both are judged.
            `session`: the lines of the stateful session up to and including this one - they are the failing input when this line is wrong"""
            if line.startswith('!'): return
            routes = w_ans.split(' || ')
            if len(routes) > 1: ctx.routes['lines_with_two_routes'] += 1
            for ri, wa in enumerate(routes):
                account1(line, c_ans, wa, m_ans, prefix, cfg, '@free-function' if ri else '', session)
        def account1(line, c_ans, w_ans, m_ans, prefix, cfg, route, session=None):
            nonlocal n_eval
            n_eval += 1
            if prefix and ('s(null)' in c_ans or c_ans.startswith('died') or (w_ans.startswith('throw other:St11logic_error') and 'construction%20from%20null' in w_ans)):
                # injected allocation failure that the C code does not report (it returns an object with a NULL member, or
                # aborts): the C result is not a value the property speaks about (C03/C04's subject); counted, not judged
                skipped.append((prefix, line, c_ans[:100], w_ans[:100])); return
            fn = line.split(' ')[0] + route
            d = (distK if cfg else dist).setdefault(fn, dict(calls=0, ok=0, err={}, died=0, msgs=set()))
            d['calls'] += 1
            c = xdrv.parse_c(c_ans)
            if c['kind'] == 'ok' and c['code'] is None: d['ok'] += 1; nontriv.add((fn, 'ok', cfg))
            elif c['kind'] == 'ok': d['err'][str(c['code'])] = d['err'].get(str(c['code']), 0) + 1; d['msgs'].add(xapi.unesc(c['msg'] or '')[:60]); nontriv.add((fn, c['code'], (c['msg'] or '')[:40], cfg))
            elif c['kind'] == 'died': d['died'] += 1
            tie, v = self.judge(line, c_ans, w_ans, m_ans)
            if not tie: tie_mis.append((line, c_ans, w_ans, m_ans))
            if v:
                if route: v = dict(v, what=v['what'] + ' (through the free function of namespace Crystal)')
                v = dict(v, key=(prefix + '\n' + line) if prefix else line, got=w_ans[:400], c=c_ans[:400], cfg=cfg)
                if session:
                    muts = [l.split(' ')[0] for l in session if l.split(' ')[0] in ROUTES]
                    v = dict(v, key='@session\n' + '\n'.join(session), session=list(session), cls=(line.split(' ')[0], v['what'].split(':')[0], cfg, muts[-1] if muts else ''),
                             what=v['what'] + ' (line %d of a session; the built-in collection was changed before by: %s)' % (len(session), ', '.join(ROUTES[m] for m in muts) or 'nothing'))
                if v['leak_only'] and v.get('threw') and v.get('leak_delta') == 2: leaks.append(v)
                else: viols.append(v)
        if replay:
            rl = [l.strip() for l in open(replay) if l.strip() and not l.startswith('#')]
            if not rl:
                log('replay file names no call; running the whole check'); replay = None
            else:
                hl = [l for l in rl if l.startswith('Hist ')]; rl = [l for l in rl if not l.startswith('Hist ')]
                if hl:
                    g = Gen(ctx, b['tables'], b['cdrv'])
                    self.histories(ctx, b, g, rep, viols, dist, [parse_hist(l) for l in hl])
                    n_eval += len(hl)
                    print('%d ownership histories replayed, %d disagree with the model' % (len(hl), len(viols)))
                # `@config kissel-real` / `@config shipped`: the data configuration the following lines are run on
                segs = []; cfg = ''
                for l in rl:
                    if l.startswith('@config'): cfg = '' if l.split()[-1] == 'shipped' else l.split()[-1]; continue
                    if l == '@session': segs.append((cfg, [])); continue          # the lines that follow are one stateful session: a fresh process
                    if not segs or segs[-1][0] != cfg: segs.append((cfg, []))
                    segs[-1][1].append(l)
                for cfg, sl in segs:
                    if not sl: continue
                    if cfg and cfg not in self.builds:
                        if cfg != 'kissel-real': raise BuildError('replay file names an unknown data configuration: ' + cfg)
                        self.builds[cfg] = self.build_kissel(ctx, b, 'real')
                    c, w, m = self.three_way(self.builds[cfg], sl, None)
                    for i, (l, ca, wa, ma) in enumerate(zip(sl, c, w, m)):
                        print('%s%s\n   C   : %s\n   C++ : %s\n   model: %s' % (l, '   [data configuration: %s]' % cfg if cfg else '', ca[:300], wa[:300], ma))
                        account(l, ca, wa, ma, sl[i - 1] if i and sl[i - 1].startswith('!') else None, cfg, sl[:i + 1] if any(x.split(' ')[0] in ROUTES for x in sl[:i]) else None)
        if not replay:
            g = Gen(ctx, b['tables'], b['cdrv'])
            corpus = core_corpus('C18')
            lines, rule = g.stateless()
            t = time.time()
            lines = corpus + lines
            c, w, m = self.three_way(b, lines, 5000)
            for l, ca, wa, ma in zip(lines, c, w, m): account(l, ca, wa, ma)
            samples = [dict(call=lines[i], c=c[i][:200], cpp=w[i][:200], model=m[i]) for i in sorted(ctx.rng.sample(range(len(lines)), 8))]
            for s in g.sessions():
                c, w, m = self.three_way(b, s, None)
                for i, (l, ca, wa, ma) in enumerate(zip(s, c, w, m)): account(l, ca, wa, ma, s[i - 1] if i and s[i - 1].startswith('!') else None)
            ctx.tick('correspondence', t)
            # sessions on process-wide collection state: the wrappers' queries before and after every mutation route (failing input = the session)
            t = time.time()
            ss = g.state_sessions() + core_sessions('C18')
            ctx.state_sessions = dict(sessions=len(ss), lines=sum(len(s) for s in ss), mutations={r: sum(1 for s in ss for l in s if l.split(' ')[0] == r) for r in ROUTES},
                                      list_queries=sum(1 for s in ss for l in s if l.startswith('Crystal_GetCrystalsList ')))
            with ThreadPoolExecutor(max_workers=6) as ex:
                for s, (c, w, m) in zip(ss, ex.map(lambda s: self.three_way(b, s, None), ss)):
                    for i, (l, ca, wa, ma) in enumerate(zip(s, c, w, m)): account(l, ca, wa, ma, None, '', s[:i + 1])
            ctx.tick('state_sessions', t)
            # second data configuration — the one the property names: the Kissel table regenerated from the raw files.  The shipped
            # data/kissel_pe.dat is empty, so every wrapper of the Kissel family (and ElectronConfig, CS(b)_Photo_Total/_Partial) only
            # ever fails above; here the same lines (and the corpus) are run again where those calls succeed.
            t = time.time()
            bk = self.builds['kissel-real'] = self.build_kissel(ctx, b, 'real')
            kl = [l for l in lines if KISSEL_RE.search(l.split(' ')[0])]
            ck, wk, mk = self.three_way(bk, kl, 5000)
            for l, ca, wa, ma in zip(kl, ck, wk, mk): account(l, ca, wa, ma, None, 'kissel-real')
            ki = sorted(ctx.rng.sample(range(len(kl)), min(4, len(kl))))
            samples += [dict(call=kl[i], data_configuration='kissel-real', c=ck[i][:200], cpp=wk[i][:200], model=mk[i]) for i in ki]
            ctx.tick('kissel_pass', t)
            # histories of the ownership model: real objects vs Hand/Struct.lean
            t = time.time()
            self.histories(ctx, b, g, rep, viols, dist)
            ctx.tick('histories', t)
            ctx.rule = rule
        # ---- classify
        for l, ca, wa, ma in tie_mis[:5]:
            rep['tie_broken'].append('model and C++ wrapper disagree: %s | C: %s | C++: %s | model: %s' % (l, ca[:160], wa[:160], ma))
        if len(tie_mis) > 5: rep['tie_broken'].append('… %d more lines on which the model mispredicts the wrapper' % (len(tie_mis) - 5))
        leak_known = [k for k in known if k[0] == LEAK_KEY]
        lsan = None
        if leaks:
            lsan = self.confirm_leak(ctx, b, leaks[0]['key'])
            if leak_known: rep['known'].append((leaks[0], leak_known[0], len(leaks)))
            else: viols += leaks
        if pe['frees'] and leaks:
            rep['tie_broken'].append('_process_error releases the error according to the extraction, but %d throwing calls still leave 2 blocks' % len(leaks))
        ctx.skipped = skipped; ctx.distK = distK
        if not replay:
            # non-vacuity of the allocation-failure injection: a run in which no wrapped C call reported XRL_ERROR_MEMORY has not compared the bad_alloc clause
            mem = {k: d['err'].get('0', 0) for k, d in dist.items() if k.split('@')[0] != 'ProcessError' and d['err'].get('0', 0)}
            ctx.memory_error_calls = mem
            if len(mem) < 8: rep['problems'].append('allocation-failure injection: only %d wrappers/routes were compared on a C call that reported XRL_ERROR_MEMORY (%s)' % (len(mem), sorted(mem)))
        return self.report(ctx, b, rep, viols, leaks, lsan, dist, samples, n_eval, len(nontriv), replay)

    def hist_obs(self, b, cat):
        """what a method call / member read must show for each catalogue entry, from the C reference"""
        q = ['Crystal_UnitCellVolume %s E' % xapi.sarg(n) for n in cat['crystals']] + ['Crystal_GetCrystal %s E' % xapi.sarg(n) for n in cat['crystals']] + \
            ['CompoundParser %s E' % xapi.sarg(f) for f in xapi.FORMULAS_OK] + \
            ['Crystal_F_H_StructureFactor %s %s 1 1 1 %s %s E' % (xapi.sarg(n), xapi.hx(8.0), xapi.hx(1.0), xapi.hx(1.0)) for n in cat['crystals']]      # = op `f` of cppdrv.cpp
        a = xdrv.run_driver([b['cdrv']], q, chunk=None)
        nC = len(cat['crystals']); nF = len(xapi.FORMULAS_OK)
        def re_part(ans):
            p = xdrv.parse_c(ans)
            return p['vals'][0] if p['kind'] == 'ok' and p['code'] is None and p['vals'] else None
        return dict(ucv={n: xdrv.parse_c(a[i])['vals'][0] for i, n in enumerate(cat['crystals'])},
                    vol={n: xdrv.parse_c(a[nC + i])['vals'][7] for i, n in enumerate(cat['crystals'])},
                    mm={f: xdrv.parse_c(a[2 * nC + i])['vals'][-1] for i, f in enumerate(xapi.FORMULAS_OK)},
                    fh={n: re_part(a[2 * nC + nF + i]) for i, n in enumerate(cat['crystals'])})

    def hist_run(self, b, obs, items):
        """real wrapper objects vs Hand/Struct.lean on histories -> [(cpp line, cpp answer, model answer, complaint or None)]"""
        cl = []; ml = []
        for names, forms, ops in items:
            x, y = hist_lines(names, forms, ops); cl.append(x); ml.append(y)
        w = xdrv.run_driver([b['cppdrv']], cl, chunk=None)
        mo = self.run_model(b, ml)
        out = []
        for (names, forms, ops), line, wa, ma in zip(items, cl, w, mo):
            bad = None
            mt = ma.split(' '); wt = wa.split(' ')
            if mt[0] != 'ok': bad = 'model faults on a history: ' + ma       # cannot happen (struct_no_fault); reported as broken tie
            elif wt[0] != 'ok': bad = 'wrapper objects misbehave on a history: ' + wa[:200]
            else:
                mev = mt[1:-1]; mL = int(mt[-1][1:])
                wev = []; i = 1
                while i < len(wt) and not wt[i].startswith('L'):
                    if wt[i] == 'v': wev.append(('v', wt[i + 1])); i += 2
                    else: wev.append((wt[i], None)); i += 1
                wL = int(wt[i][1:]); wZ = int(wt[i + 1][1:])
                if len(mev) != len(wev) or len(mev) != len(ops): bad = 'event count differs'
                else:
                    for (o, x), me, (we, wb) in zip(ops, mev, wev):
                        if me[0] != we: bad = 'op %s%d: model %s, objects %s' % (o, x, me, we); break
                        if me[0] == 'v':
                            cid = int(me[1:])
                            exp = obs['mm'][forms[cid - 100]] if cid >= 100 else (obs['ucv'][names[cid]] if o == 'k' else obs['fh'][names[cid]] if o == 'f' else obs['vol'][names[cid]])
                            if wb != exp: bad = 'op %s%d: object answered from other contents than those it was built from (%s, expected %s)' % (o, x, wb, exp); break
                    if not bad and wL != 3 * mL: bad = 'live C blocks %d, model says %d objects x 3 blocks' % (wL, mL)
                    if not bad and wZ != 0: bad = '%d blocks live after every wrapper object was destroyed' % wZ
            out.append((line, wa, ma, bad))
        return out

    def hist_shrink(self, b, obs, item):
        names, forms, ops = item
        ops = list(ops)
        def fails(o): return self.hist_run(b, obs, [(names, forms, o)])[0][3] is not None
        i = len(ops) - 1
        while i >= 0 and len(ops) > 1:
            cand = ops[:i] + ops[i + 1:]
            if fails(cand): ops = cand
            i -= 1
        return (names, forms, ops)

    def histories(self, ctx, b, g, rep, viols, dist, items=None):
        items = items if items is not None else g.histories()
        if not items: return
        obs = self.hist_obs(b, g.catalog)
        # `f` needs the C reference value of the structure factor; a crystal for which C reports an error there is asked for its volume instead
        items = [(names, forms, [('k' if (o == 'f' and any(obs['fh'][n] is None for n in names)) else o, x) for o, x in ops]) for names, forms, ops in items]
        d = dist.setdefault('Hist', dict(calls=0, ok=0, err={}, died=0, msgs=set()))
        first = True
        for item, (line, wa, ma, bad) in zip(items, self.hist_run(b, obs, items)):
            d['calls'] += 1
            if bad:
                if first:
                    first = False
                    line = hist_lines(*self.hist_shrink(b, obs, item))[0]
                viols.append(dict(key=line, got=wa[:400], expected=ma[:400], what='ownership history: ' + bad, leak_only=False))
            else:
                d['ok'] += 1

    def confirm_leak(self, ctx, b, line):
        """independent confirmation on the real code: LeakSanitizer on one throwing call"""
        try:
            p = subprocess.run([b['cppdrv']], input=line + '\n', capture_output=True, text=True, timeout=60,
                               env=dict(os.environ, ASAN_OPTIONS='detect_leaks=1:exitcode=23', LSAN_OPTIONS='report_objects=0'))
            m = re.search(r'SUMMARY: AddressSanitizer: (\d+) byte\(s\) leaked in (\d+) allocation', p.stderr)
            frames = re.findall(r'in (xrl_\w+|__wrap_\w+) ', p.stderr)
            if m: return dict(call=line, bytes=int(m.group(1)), allocations=int(m.group(2)), frames=sorted(set(frames))[:6])
            return dict(call=line, note='LeakSanitizer gave no report here (exit %d): %s' % (p.returncode, p.stderr[-200:]))
        except Exception as e:
            return dict(call=line, note='LeakSanitizer run failed: %s' % e)

    def shrink(self, b, v):
        """shrink integers toward 0 / doubles toward simple values / strings by deletion while the same kind of disagreement persists"""
        line = v['key']
        if v.get('session'): return self.shrink_session(b, v)
        if line.split(' ')[0] in ('Hist', 'StructAdd', 'StructAddF') or line.startswith('!') or '\n' in line: return line
        b = self.builds.get(v.get('cfg', ''), b)
        def fails(l):
            c, w, m = self.three_way(b, [l], None)
            _, vv = self.judge_all(l, c[0], w[0], m[0])
            return vv is not None and vv['what'].split(':')[0] == v['what'].split(':')[0]
        t = line.split(' ')
        for _ in range(3):
            changed = False
            for i in range(1, len(t) - 1):
                cands = []
                if re.fullmatch(r'-?\d+', t[i]):
                    x = int(t[i]); cands = [c for c in (0, 1, x // 2, x - 1 if x > 0 else x + 1) if c != x]
                elif t[i].startswith('x') and len(t[i]) == 17:
                    x = xapi.unhx(t[i]); cands = [xapi.hx(c) for c in (1.0, 10.0, float(round(x)) if math.isfinite(x) else 0.0) if c != x]
                elif t[i].startswith('s') and len(t[i]) > 2:
                    s = xapi.unesc(t[i][1:]); cands = [xapi.sarg(s[:len(s) // 2]), xapi.sarg(s[1:]), xapi.sarg(s[:-1])]
                for c in cands:
                    t2 = t[:i] + [str(c)] + t[i + 1:]
                    if fails(' '.join(t2)): t = t2; changed = True; break
            if not changed: break
        return ' '.join(t)

    def shrink_session(self, b, v):
        """a stateful session whose LAST line is judged wrong: drop earlier lines one at a time while the last line still fails the same way"""
        ls = list(v['session']); kind = v['what'].split(' (')[0].split(':')[0]
        def fails(x):
            c, w, m = self.three_way(b, x, None)
            _, vv = self.judge_all(x[-1], c[-1], w[-1], m[-1])
            return vv is not None and vv['what'].split(':')[0] == kind
        if not fails(ls): return v['key']
        i = len(ls) - 2; budget = 80
        while i >= 0 and budget > 0:
            cand = ls[:i] + ls[i + 1:]; budget -= 1
            if fails(cand): ls = cand
            i -= 1
        return '@session\n' + '\n'.join(ls)

    def report(self, ctx, b, rep, viols, leaks, lsan, dist, samples, n_eval, n_nontriv, replay):
        exit_code = 0
        for v, k, n in rep['known']:
            print('KNOWN-FINDING: property=C18 %s: %s' % (k[0], k[1]))
        broken = rep['proof_broken'] or rep['tie_broken'] or rep['problems']
        if viols:
            body = '# violation of C18: the C++ wrapper does not do what the C function does (replay: ./check C18 --replay <this file>)\n'
            seen = set(); k = 0
            for v in viols:
                cls = v.get('cls') or (v['key'].split(' ')[0], v['what'].split(':')[0], v.get('cfg', ''))
                if cls in seen: continue
                seen.add(cls); k += 1
                if k > 12: break
                key = self.shrink(b, v) if (k <= 3 or v.get('session')) else v['key']
                if v.get('cfg'): key = '@config %s\n%s\n@config shipped' % (v['cfg'], key)
                body += '# %s%s\n# C        : %s\n# C++      : %s\n# expected : %s\n%s\n' % (v['what'], ' [data configuration %s: Kissel table regenerated from data/kissel]' % v['cfg'] if v.get('cfg') else '',
                                                                                      v.get('c', ''), v['got'], v.get('expected'), key)
            body += '# %d failing lines in total\n' % len(viols)
            for d in rep.get('table_diagnosis', []): body += '# wrapper table: %s\n' % d
            if broken: body += '# broken obligations: %s\n' % json.dumps(dict(proof=rep['proof_broken'], tie=rep['tie_broken'], other=rep['problems']))[:3000]
            path = core.write_replay(ctx, body)
            print('VIOLATION property=C18 replay=%s' % path)
            exit_code = 1
        elif broken:
            body = '# C18 is no longer shown to hold; the three-way run (%d calls) exhibited no call on which wrapper and C function differ\n' % n_eval
            if rep['proof_broken']: body += '# theorems that no longer check: %s\n# %s\n' % (', '.join(rep['proof_broken']), rep.get('proof_log', '').replace('\n', '\n# ')[:1500])
            for d in rep.get('table_diagnosis', []): body += '# wrapper table: %s\n' % d
            for tb in rep['tie_broken']: body += '# correspondence / extraction broken: %s\n' % tb
            for pb in rep['problems']: body += '# %s\n' % pb
            path = core.write_replay(ctx, body)
            print('VIOLATION property=C18 replay=%s no-failing-input-found' % path)
            exit_code = 1
        ths = b['theorems']; ax = b['axioms']
        n_dis = 0 if not b['ok_props'] else sum(1 for th in ths if th in ax and not (set(ax[th]) - xdrv.ALLOWED_AXIOMS))
        distK = getattr(ctx, 'distK', {})
        for d in list(dist.values()) + list(distK.values()): d['msgs'] = sorted(d['msgs'])[:8]
        # success path per wrapper, over both data configurations
        t_ = b['tables']
        callable_ops = sorted(set(t_['generic']) | {k.split('@')[0] for k in dist if k.split('@')[0] not in ('Hist', 'ProcessError')})
        okc = {fn: dict(shipped=sum(d['ok'] for k, d in dist.items() if k.split('@')[0] == fn), kissel_real=sum(d['ok'] for k, d in distK.items() if k.split('@')[0] == fn)) for fn in callable_ops}
        kfam = sorted(fn for fn in t_['generic'] if KISSEL_RE.search(fn))
        unobserved = sorted(fn for fn, o in okc.items() if o['shipped'] + o['kissel_real'] == 0) if not replay else []
        if unobserved: ctx.notes.append('no successful call observed for: %s' % ', '.join(unobserved))
        # error codes: which enumerators the C sources can put into an error object, and through which route each was compared
        produced = set()
        for f in sorted(os.listdir(os.path.join(REPO, 'src'))):
            if f.endswith('.c'):
                try: produced |= set(re.findall(r'xrl_set_error(?:_literal)?\s*\(\s*\w+\s*,\s*(XRL_ERROR_\w+)', open(os.path.join(REPO, 'src', f), errors='replace').read()))
                except OSError: pass
        def hits(code, real):
            return sum(d['err'].get(str(code), 0) for dd in (dist, distK) for k, d in dd.items() if (k.split('@')[0] != 'ProcessError') == real)
        code_tab = [dict(name=n, value=v, expected_exception=spec_kind(v), set_somewhere_in_src=(n in produced),
                         compared_through_wrapped_calls=hits(v, True), compared_through_direct_process_error_drive=hits(v, False)) for n, v in t_.get('error_codes', [])]
        tot = dict(calls=sum(d['calls'] for d in dist.values()), ok=sum(d['ok'] for d in dist.values()),
                   err=sum(sum(d['err'].values()) for d in dist.values()), died=sum(d['died'] for d in dist.values()))
        codes = {}
        for d in dist.values():
            for c, n in d['err'].items(): codes[c] = codes.get(c, 0) + n
        log('C18 distribution: %d wrappers/ops, %d calls: %d ok, %d C errors %s, %d aborts inside the C code (same through the wrapper)' % (len(dist), tot['calls'], tot['ok'], tot['err'], codes, tot['died']))
        cov = dict(obligations=max(len(ths), 1), discharged=n_dis,
                   checker_cmd='cd lean-cpp && lake build %s  (then `#print axioms` on each theorem)' % MODULE,
                   trusted_base=TRUSTED, theorems=[dict(name=th, axioms=ax.get(th)) for th in ths],
                   traces_validated_against_impl=n_eval, correspondence_mismatches=len(rep['tie_broken']),
                   evaluations=n_eval, distinct_nontrivial=n_nontriv,
                   rule=getattr(ctx, 'rule', 'replay of %s' % replay) + '; non-trivial = distinct (wrapper or route, outcome class, data configuration) triples, outcome class = success, or (error code, message)',
                   samples=samples, totals=tot, error_codes_hit=codes, distribution=dist,
                   data_configurations=['shipped (data/kissel_pe.dat of the working tree: empty)'] + (['kissel-real (table regenerated from data/kissel by tools/regen_kissel.py, through the tree\'s prdata)'] if distK else []),
                   distribution_kissel_real=distK,
                   kissel_family=dict(wrappers=len(kfam), with_successful_calls_on_kissel_real=sum(1 for fn in kfam if okc.get(fn, {}).get('kissel_real', 0) > 0),
                                      successful_calls={fn: okc.get(fn, {}).get('kissel_real', 0) for fn in kfam}),
                   success_path=dict(wrappers_and_ops=len(okc), observed=sum(1 for o in okc.values() if o['shipped'] + o['kissel_real'] > 0), unobserved=unobserved),
                   state_sessions=dict(getattr(ctx, 'state_sessions', {}), note='sessions (one fresh process each) in which Crystal_GetCrystalsList, Crystal_GetCrystal, Crystal_UnitCellVolume, GetCompoundDataNISTList and '
                                       'GetRadioNuclideDataList are asked before and after every mutation of the built-in crystal collection, the collection being changed through the method (StructAdd), the free function '
                                       '(StructAddF) and the C API called directly from the C++ process (CAdd: Crystal_AddCrystal, CReadFile: Crystal_ReadFile on the built-in array), in every order of the four routes '
                                       '(quick tier: half of the 24 orders, chosen by the seed); CList = the C list function called directly inside the C++ process; the C driver is the reference on every line'),
                   routes=dict(getattr(ctx, 'routes', {}), note='Bragg_angle, Q_scattering_amplitude, F_H_StructureFactor(_Partial), UnitCellVolume, dSpacing: every line through the Crystal::Struct method AND the '
                               'free function of namespace Crystal (keys `<op>@free-function`); AddCrystal: StructAdd (method) / StructAddF (free function) lines'),
                   error_codes=code_tab, memory_error_calls_through_wrappers=getattr(ctx, 'memory_error_calls', {}),
                   error_codes_note='codes other than MEMORY (allocation-failure injection), INVALID_ARGUMENT and RUNTIME (built-in crystal array full) cannot be provoked through a wrapped C function on this tree: '
                                    'IO is set by Crystal_ReadFile only (not wrapped by design), TYPE and UNSUPPORTED by nothing; for those the class and the message are compared on _process_error driven directly',
                   wrapper_table=dict(c_prototypes=len(b['tables']['protos']), wrapper_entries=len(b['tables']['wrappers']), process_error=b['tables']['pe'],
                                      return_terms=ret_summary(b['tables']), class_maps=len(t_.get('class_maps', [])), c_structs=sorted(t_.get('c_structs', {})), own_constructors=len(t_.get('own_ctors', []))),
                   known_findings_reproduced=[dict(key=k[0], calls=n, example=v['key']) for v, k, n in rep['known']],
                   allocation_failure_outcomes_not_judged=dict(count=len(ctx.skipped), why='injected allocation failure that the C code does not report (object with a NULL member, or abort): C03/C04 territory', examples=ctx.skipped[:4]),
                   leak_confirmation_lsan=lsan, leaking_calls=len(leaks), violations_found=len(viols),
                   provenance=dict(tree=cbuild.tree_hash(REPO, ('include', 'cplusplus'))),
                   broken=dict(proof=rep['proof_broken'], tie=rep['tie_broken'], other=rep['problems']))
        core.write_evidence(ctx, 'proof', cov, len(viols) + (1 if broken and not viols else 0),
                            ['the C functions behave as the C driver observes them (their own correctness is C01-C17)',
                             'std::bad_alloc cannot carry a message: "carrying the C message" is required of invalid_argument and runtime_error only'])
        log('C18 %s: exit %d (%.1fs; theorems %d/%d; %d calls three-way, %d model mispredictions, %d violations, %d known-finding calls)' % (
            ctx.tier, exit_code, time.time() - ctx.t0, n_dis, len(ths), n_eval, len(rep['tie_broken']), len(viols), len(leaks) if rep['known'] else 0))
        return exit_code

NOT_WRAPPED_BY_DESIGN = {'Crystal_ArrayInit', 'Crystal_ReadFile', 'xrl_propagate_error', 'xrl_clear_error'}    # = Spec.notWrappedByDesign

def diagnose_table(t):
    """entry-level report for a failed `wrapper_table_complete` (the kernel only says that the table check is false):
    the same conditions as lean-cpp/XrlCpp/Spec/Table.lean, evaluated here to *name* the offending entries"""
    out = []
    protos = {p['name']: p for p in t['protos']}
    ws = t['wrappers']
    callable_ = {w['callee'] for w in ws if w['kind'] not in ('pattern', 'delegate', 'dtor')}
    for p in t['protos']:
        if any(ty == 'errpp' for _, ty in p['params']) and p['name'] not in NOT_WRAPPED_BY_DESIGN and p['name'] not in callable_:
            out.append('public C function %s (%s:%s) has no callable wrapper' % (p['name'], p['header'], p['line']))
    for w in ws:
        if w['kind'] in ('pattern', 'delegate', 'dtor') or w['callee'] in ('', 'xrl_malloc'): continue
        p = protos.get(w['callee'])
        where = 'xrlpp::%s (xraylib++.h:%s)' % (w['name'], w.get('line'))
        if p is None: out.append('%s forwards to %s, which is not a public C function' % (where, w['callee'])); continue
        if not (w['base'] == w['callee'] or 'Crystal_' + w['base'] == w['callee'] or (w['base'], w['callee']) == ('XrayInit', 'XRayInit') or (w['kind'] == 'ctor' and w['callee'] == 'Crystal_MakeCopy')):
            out.append('%s forwards to the C function %s, not to the one of its own name' % (where, w['callee']))
        fwd = [a[1] for a in w['args'] if a[0] in ('param', 'cstr', 'paramCs')]
        if fwd != list(range(len(w['params']))):
            out.append('%s forwards its parameters in the order %s to %s' % (where, fwd, w['callee']))
        if len(w['args']) != len(p['params']): out.append('%s calls %s with %d arguments, the prototype has %d' % (where, w['callee'], len(w['args']), len(p['params'])))
        if any(ty == 'errpp' for _, ty in p['params']) and not w['checked']: out.append('%s does not call _process_error(error) right after %s' % (where, w['callee']))
        if 'ret' in w and jl(w['ret']) != expected_ret(w['kind'], p):
            out.append('%s returns %s; for the C return type of %s the property asks for %s' % (where, ret_str(w['ret']), w['callee'], ret_str(expected_ret(w['kind'], p))))
    for w in ws:
        if w['kind'] == 'pattern' and not w['checked']: out.append('_XRL_FUNCTION overload of %s does not call _process_error(error) right after the C call' % w['name'])
        if w['kind'] == 'delegate' and [a[1] if a[0] == 'param' else a[0] for a in w['args']] != list(range(len(w['params']))):
            out.append('free function xrlpp::%s (xraylib++.h:%s) hands its parameters to the method %s in the order %s' % (w['name'], w.get('line'), w['callee'], [a[1] if a[0] == 'param' else a[0] for a in w['args']]))
        if w['kind'] in ('pattern', 'delegate') and jl(w.get('ret', ['res'])) != ['res']: out.append('%s %s returns %s, not the result of the forwarded call' % (w['kind'], w['name'], ret_str(w['ret'])))
    return out

COUNT_OF = {('compoundData', 'Elements'): 'nElements', ('compoundData', 'massFractions'): 'nElements', ('compoundData', 'nAtoms'): 'nElements',
            ('compoundDataNIST', 'Elements'): 'nElements', ('compoundDataNIST', 'massFractions'): 'nElements',
            ('radioNuclideData', 'XrayLines'): 'nXrays', ('radioNuclideData', 'XrayIntensities'): 'nXrays',
            ('radioNuclideData', 'GammaEnergies'): 'nGammas', ('radioNuclideData', 'GammaIntensities'): 'nGammas', ('Crystal_Struct', 'atom'): 'n_atom'}     # = Spec.countOf

def diagnose_maps(t):
    """entry-level report for a failed `field_maps_complete` (same conditions as Spec.podMapOk / selfMapOk / ownCtorOk, to name the member)"""
    out = []
    cs = t.get('c_structs', {})
    for m in t.get('class_maps', []):
        where = 'xrlpp::%s%s (xraylib++.h:%s)' % (m['cls'], m['sig'], m.get('line'))
        inits = {n: jl(f) for n, f in m['inits']}
        members = t.get('class_members', {}).get(m['cls'], [])
        if m['src'] == 'self':
            for x in members:
                if x != 'cs' and inits.get(x) != ['scalar', x]: out.append('%s: member %s is initialised with %s, not with the member of the same name of the source' % (where, x, ret_str(inits.get(x, ['nothing']))))
        elif m['src'] in cs:
            for f, k in cs[m['src']]:
                exp = {'scalar': ['scalar', f], 'string': ['string', f], 'array': ['range', f, COUNT_OF.get((m['src'], f), '?')], 'atoms': ['atoms', f, COUNT_OF.get((m['src'], f), '?')]}.get(k, ['?'])
                if inits.get(f) != exp: out.append('%s: C field %s of %s must initialise the member %s as %s; the header has %s' % (where, f, m['src'], f, ret_str(exp), ret_str(inits.get(f, ['nothing']))))
            for x in members:
                if x != 'cs' and x not in [f for f, _ in cs[m['src']]]: out.append('%s: data member %s has no counterpart in the C struct %s' % (where, x, m['src']))
        elif m['src'] == '':
            for o in t.get('own_ctors', []):
                if o['sig'] != m['sig']: continue
                for f, c in o['assigns']:
                    if jl(c)[0] == 'other': out.append('%s: assignment to cs->%s not classified: %s' % (where, f, c))
                for cnt, items in o['loops']:
                    for a, f, g, v in items:
                        if f != g or jl(v)[0] == 'other': out.append('%s: cs->%s[i].%s is assigned from element field %s (%s)' % (where, a, f, g, ret_str(v)))
                want = [f for f, _ in cs.get('Crystal_Atom', [])]
                got = [f for cnt, items in o['loops'] for a, f, g, v in items]
                if got != want: out.append('%s: the atom copy loop assigns the fields %s, Crystal_Atom has %s' % (where, got, want))
    return out

def ret_str(t):
    if not isinstance(t, (list, tuple)): return str(t)
    return t[0] if len(t) == 1 else '%s(%s)' % (t[0], ', '.join(ret_str(x) for x in t[1:]))

def ret_summary(t):
    out = {}
    for w in t['wrappers']:
        k = ret_str(w.get('ret', ['?'])); out[k] = out.get(k, 0) + 1
    return out

def expected_ret(kind, p):
    r = p['ret']
    if r in ('double', 'int'): return ['res']
    if r == 'cplx': return ['complex', ['field', ['res'], 're'], ['field', ['res'], 'im']]
    if r == 'cstr': return ['string', ['res']]
    if r == 'strlist':
        k = [i for i, (_, ty) in enumerate(p['params']) if ty == 'outi']
        return ['elems', 'std::string', ['res'], ['outArg', k[0] if k else -1]]
    if r in ('cd', 'cdn', 'rnd'): return ['object', {'cd': 'compoundData', 'cdn': 'compoundDataNIST', 'rnd': 'radioNuclideData'}[r], ['res']]
    if r == 'cs': return ['adopt', ['res']] if kind == 'ctor' else ['object', 'Crystal::Struct', ['res']]
    if r == 'void': return ['none']
    return ['?']

def jl(x):
    return [jl(y) for y in x] if isinstance(x, (list, tuple)) else x

def failing_theorems(build_log):
    rel = os.path.relpath(PROPS_FILE, PROJECT)
    lines = [int(a or b_) for a, b_ in re.findall(re.escape(rel) + r':(\d+):\d+: error|error: ' + re.escape(rel) + r':(\d+)', build_log)]
    try: src = open(PROPS_FILE).read().splitlines()
    except OSError: return []
    names = []
    for ln in lines:
        for i in range(min(ln, len(src)) - 1, -1, -1):
            m = re.match(r'\s*theorem\s+([\w\.\']+)', src[i])
            if m:
                if m.group(1) not in names: names.append(m.group(1))
                break
    return names

def core_corpus(prop):
    """the stateless corpus lines (everything before the first `@session` of each file)"""
    d = os.path.join(VERIF, 'corpus'); out = []
    if os.path.isdir(d):
        for f in sorted(os.listdir(d)):
            if f.startswith(prop) and f.endswith('.lines'):
                for l in open(os.path.join(d, f)):
                    l = l.strip()
                    if l == '@session': break
                    if l and not l.startswith('#'): out.append(l)
    return out

def core_sessions(prop):
    """the stateful corpus sessions: in a corpus file every `@session` line starts one (run in a fresh process, in order)"""
    d = os.path.join(VERIF, 'corpus'); out = []
    if os.path.isdir(d):
        for f in sorted(os.listdir(d)):
            if f.startswith(prop) and f.endswith('.lines'):
                cur = None
                for l in open(os.path.join(d, f)):
                    l = l.strip()
                    if l == '@session': cur = []; out.append(cur); continue
                    if cur is not None and l and not l.startswith('#'): cur.append(l)
    return [s for s in out if s]

class _Sub:
    """view of a Scratch whose file names carry a tag (second build in the same scratch directory)"""
    def __init__(self, sc, tag): self.sc = sc; self.tag = tag
    def path(self, *p): return self.sc.path(*(list(p[:-1]) + [p[-1] + self.tag]))

CHECK = C18()
