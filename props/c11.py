"""C11 — Auger yields and rates are the documented derivation of the raw tables."""
import math
from vlib.runner import Check
from vlib import core
from vlib.core import unhx

class C11(Check):
    id = 'C11'
    module = 'Xrl.Props.C11'
    namespace = 'Xrl.C11'
    functions = ['AugerYield_prdata', 'AugerYield2_prdata', 'AugerRate_prdata', 'AugerRate', 'AugerYield']
    assumptions = ['the run-time tables Auger_Yields / Auger_Rates are the %.10E printing of the values the build-time functions compute: '
                   'checked on every run for all 121 x (9 + 996) cells (exhaustive), not proved',
                   'raw tables (Auger_Transition_Total/Individual, FluorYield_arr, CosKron_arr) are those the real loaders of src/xrayfiles.c produce from data/*.dat in the prdata process']

    def dom(self):
        for Z in range(-2, 124):
            for s in range(-2, 11): yield ('Y', Z, s)
            for a in range(-3, 1000): yield ('R', Z, a)

    def corr(self, ctx):
        """build-time functions: real pr_data.c (harness/prdrv.c) vs generated model on the raw tables"""
        lines = []
        for k, Z, x in self.dom():
            if k == 'Y':
                lines.append('AugerYield_prdata %d %d' % (Z, x)); lines.append('AugerYield2_prdata %d %d' % (Z, x))
            else:
                lines.append('AugerRate_prdata %d %d' % (Z, x))
        return lines

    def extra_steps(self, ctx, rep):
        ctx.build_prdrv()
        lines = self.corr(ctx)
        c = ctx.run_prdrv(lines)
        m = ctx.run_model(lines, dump='pdump')
        mism = [(l, a, b) for l, a, b in zip(lines, c, m) if not core.answers_agree(a + ' E', b + ' E')]
        ctx.coverage['prdata_corr'] = len(lines)
        ctx.notes.append('build-time correspondence (prdrv vs model on raw tables): %d lines, %d mismatches' % (len(lines), len(mism)))
        if mism:
            rep['tie_broken'].append('build-time model and pr_data.c disagree on %d of %d lines; first: %s | impl: %s | model: %s' % (len(mism), len(lines), *mism[0]))
        self._prd = dict(zip(lines, c))

    def corr_lines(self, ctx):
        out = []
        for Z in range(-2, 124):
            for s in range(-2, 11): out.append('AugerYield %d %d E' % (Z, s))
            for a in range(-3, 1000, 1): out.append('AugerRate %d %d E' % (Z, a))
        return out

    def search(self, ctx):
        """(a) specification (name-derived CK structure, raw tables) vs the real pr_data.c functions;
           (b) the public AugerYield/AugerRate of the run-time library vs the specification rounded to 11 digits"""
        if not hasattr(self, '_prd'): return 0, [], {}
        sl = []; keys = []
        for k, Z, x in self.dom():
            if k == 'Y':
                sl += ['spec.augerYield %d %d' % (Z, x), 'spec.netTotal %d %d' % (Z, x)]
                keys += ['AugerYield_prdata %d %d' % (Z, x), 'AugerYield2_prdata %d %d' % (Z, x)]
            else:
                sl.append('spec.augerRate %d %d' % (Z, x)); keys.append('AugerRate_prdata %d %d' % (Z, x))
        try: e = ctx.run_model(sl, dump='pdump')
        except core.BuildError: return 0, [], {'rule': 'specification driver unavailable'}
        pub_lines = ['AugerYield %d %d E' % (Z, x) if k == 'Y' else 'AugerRate %d %d E' % (Z, x) for k, Z, x in self.dom()]
        pub = dict(zip(pub_lines, ctx.run_c(pub_lines)))
        viol = []; nontriv = 0; maxdev = 0.0
        for key, eo in zip(keys, e):
            v = unhx(eo.split(' ')[1])
            got = core.parse_answer(self._prd[key] + ' E')
            if got['kind'] != 'ok' or not core.close(got['vals'][0], v, 1e-12):
                viol.append(dict(key=key, got=self._prd[key], expected=eo, what='build-time derivation vs name-derived specification'))
            if v != 0: nontriv += 1
            # public accessor
            t = key.split()
            if t[0] == 'AugerYield2_prdata': continue
            pl = ('AugerYield %s %s E' if t[0] == 'AugerYield_prdata' else 'AugerRate %s %s E') % (t[1], t[2])
            pa = core.parse_answer(pub[pl])
            if v > 0:
                r = float('%.10E' % v)
                ok = pa['kind'] == 'ok' and pa['slot'] == 'E' and pa['vals'][0] == r
                if not ok: viol.append(dict(key=pl, got=pub[pl], expected='value %r (= %%.10E of the derived %r)' % (r, v), what='public accessor vs derived value'))
            else:
                ok = pa['kind'] == 'ok' and pa['vals'][0] == 0 and pa['slot'].startswith('F')
                if not ok: viol.append(dict(key=pl, got=pub[pl], expected='fails (derived value %r is not positive)' % v, what='public accessor must report unavailable'))
        stats = dict(rule='exhaustive: Z in [-2,123] x shells [-2,10] x Auger macros [-3,999]: real pr_data.c function vs specification on the raw tables, and public AugerYield/AugerRate vs %.10E of the specification; non-trivial = non-zero derived values',
                     distinct_nontrivial=nontriv, exhaustive=True,
                     samples=[dict(call=keys[i], impl=self._prd[keys[i]], expected=e[i]) for i in (40, len(keys) // 2, len(keys) - 5)])
        return len(keys) * 2, viol, stats

CHECK = C11()
