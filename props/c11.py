"""C11 — Auger yields and rates are the documented derivation of the raw tables."""
import math
from vlib.runner import Check
from vlib import core
from vlib.core import unhx

class C11(Check):
    id = 'C11'
    module = 'Xrl.Props.C11'
    namespace = 'Xrl.C11'
    extra_modules = [('Xrl.Props.C11b', 'Xrl.C11')]
    functions = ['AugerYield_prdata', 'AugerYield2_prdata', 'AugerRate_prdata', 'AugerRate', 'AugerYield']
    assumptions = ['the run-time tables Auger_Yields / Auger_Rates are the %.10E printing of the values the build-time functions compute: '
                   'checked on every run for all 121 x (9 + 996) cells (exhaustive), not proved',
                   'raw tables (Auger_Transition_Total/Individual, FluorYield_arr, CosKron_arr) are those the real loaders of src/xrayfiles.c produce from data/*.dat in the prdata process']

    def dom(self):
        for Z in range(-2, 124):
            for s in range(-2, 11): yield ('Y', Z, s)
            for a in range(-3, 1000): yield ('R', Z, a)

    def corr(self, ctx):
        """build-time functions: real pr_data.c (harness/prdrv.c) vs generated model on the raw tables"""
        lines = []
        for k, Z, x in self.dom():
            if k == 'Y':
                lines.append('AugerYield_prdata %d %d' % (Z, x)); lines.append('AugerYield2_prdata %d %d' % (Z, x))
            else:
                lines.append('AugerRate_prdata %d %d' % (Z, x))
        return lines

    def extra_steps(self, ctx, rep):
        ctx.build_prdrv()
        lines = self.corr(ctx)
        c = ctx.run_prdrv(lines)
        m = ctx.run_model(lines, dump='pdump')
        mism = [(l, a, b) for l, a, b in zip(lines, c, m) if not core.answers_agree(a + ' E', b + ' E')]
        ctx.coverage['prdata_corr'] = len(lines)
        ctx.notes.append('build-time correspondence (prdrv vs model on raw tables): %d lines, %d mismatches' % (len(lines), len(mism)))
        if mism:
            rep['tie_broken'].append('build-time model and pr_data.c disagree on %d of %d lines; first: %s | impl: %s | model: %s' % (len(mism), len(lines), *mism[0]))
        self._prd = dict(zip(lines, c))

    def corr_lines(self, ctx):
        out = []
        for Z in range(-2, 124):
            for s in range(-2, 11): out.append('AugerYield %d %d E' % (Z, s))
            for a in range(-3, 1000, 1): out.append('AugerRate %d %d E' % (Z, a))
        return out

    def search(self, ctx):
        """(a) specification (name-derived CK structure, raw tables) vs the real pr_data.c functions;
           (b) the public AugerYield/AugerRate of the run-time library vs the specification rounded to 11 digits"""
        if not hasattr(self, '_prd'): return 0, [], {}
        sl = []; keys = []
        for k, Z, x in self.dom():
            if k == 'Y':
                sl += ['spec.augerYield %d %d' % (Z, x), 'spec.netTotal %d %d' % (Z, x)]
                keys += ['AugerYield_prdata %d %d' % (Z, x), 'AugerYield2_prdata %d %d' % (Z, x)]
            else:
                sl.append('spec.augerRate %d %d' % (Z, x)); keys.append('AugerRate_prdata %d %d' % (Z, x))
        try: e = ctx.run_model(sl, dump='pdump')
        except core.BuildError: return 0, [], {'rule': 'specification driver unavailable'}
        pub_lines = ['AugerYield %d %d E' % (Z, x) if k == 'Y' else 'AugerRate %d %d E' % (Z, x) for k, Z, x in self.dom()]
        pub = dict(zip(pub_lines, ctx.run_c(pub_lines)))
        viol = []; nontriv = 0; maxdev = 0.0
        for key, eo in zip(keys, e):
            v = unhx(eo.split(' ')[1])
            got = core.parse_answer(self._prd[key] + ' E')
            if got['kind'] != 'ok' or not core.close(got['vals'][0], v, 1e-12):
                viol.append(dict(key=key, got=self._prd[key], expected=eo, what='build-time derivation vs name-derived specification'))
            if v != 0: nontriv += 1
            # public accessor
            t = key.split()
            if t[0] == 'AugerYield2_prdata': continue
            pl = ('AugerYield %s %s E' if t[0] == 'AugerYield_prdata' else 'AugerRate %s %s E') % (t[1], t[2])
            pa = core.parse_answer(pub[pl])
            if v > 0:
                r = float('%.10E' % v)
                ok = pa['kind'] == 'ok' and pa['slot'] == 'E' and pa['vals'][0] == r
                if not ok: viol.append(dict(key=pl, got=pub[pl], expected='value %r (= %%.10E of the derived %r)' % (r, v), what='public accessor vs derived value'))
            else:
                ok = pa['kind'] == 'ok' and pa['vals'][0] == 0 and pa['slot'].startswith('F')
                if not ok: viol.append(dict(key=pl, got=pub[pl], expected='fails (derived value %r is not positive)' % v, what='public accessor must report unavailable'))
        # ---- "each Auger rate equals the RAW RATE OF THAT TRANSITION divided by the shell's net total": the raw rates as data/auger_rates.dat
        #      states them, matched to macros by NAME (K-L1N6 <-> K_L1N6_AUGER), independently of the loader's name table
        import os, re as _re, json
        from vlib.core import REPO
        hv = json.load(open(ctx.sc.path('aux', 'hdr_vals.json')))
        macro = {}
        for n_, v_ in hv.items():
            m_ = _re.fullmatch(r'(K|[LM]\d)_(\w+)_AUGER', n_)
            if m_ and v_['kind'] == 'I': macro['%s-%s' % (m_.group(1), m_.group(2))] = v_['value']
        raw = {}; total = {}
        for l in open(os.path.join(REPO, 'data', 'auger_rates.dat')):
            t = l.split()
            if len(t) != 3: continue
            try: Z, v = int(t[0]), float(t[2])
            except ValueError: continue
            if t[1].endswith('-TOTAL'): total[(Z, t[1][:-6])] = v
            else: raw[(Z, t[1])] = v
        def is_ck(nm):
            ini, fin = nm.split('-'); return ini[0] in (fin[0], fin[2] if len(fin) > 2 else '')
        def is_ck2(nm):
            ini, fin = nm.split('-'); hs = _re.findall(r'[KLMNOPQ]\d?', fin); return any(h[0] == ini[0] for h in hs)
        ndat = 0
        net = {}
        for (Z, nm), v in raw.items():
            ini = nm.split('-')[0]
            if is_ck2(nm): net[(Z, ini)] = net.get((Z, ini), 0.0) + v
        for (Z, nm), v in sorted(raw.items()):
            if nm not in macro or is_ck2(nm) or not (1 <= Z <= 120): continue
            ini = nm.split('-')[0]
            tot = total.get((Z, ini), 0.0) - net.get((Z, ini), 0.0)
            pl = 'AugerRate %d %d E' % (Z, macro[nm])
            if pl not in pub: continue
            ndat += 1
            pa = core.parse_answer(pub[pl])
            if v > 0 and tot > 0:
                want = v / tot
                ok = pa['kind'] == 'ok' and pa['slot'] == 'E' and core.close(pa['vals'][0], want, 1e-9)
                if not ok: viol.append(dict(key=pl, got=pub[pl], expected='value %r = raw rate %r of %s in data/auger_rates.dat / net total %r' % (want, v, nm, tot), what='Auger rate vs the record of that transition in the data file'))
            elif v == 0:
                ok = pa['kind'] == 'ok' and pa['vals'][0] == 0 and pa['slot'].startswith('F')
                if not ok: viol.append(dict(key=pl, got=pub[pl], expected='fails (the data file records no rate for %s)' % nm, what='Auger rate vs the record of that transition in the data file'))
        # ---- "each lies in [0,1]" and "the three decay channels partition unity", on the PUBLIC functions of the run-time library:
        #      AugerYield + FluorYield + sum of the Coster-Kronig probabilities leaving the shell = 1 (transitions selected by NAME:
        #      F<X>[P]<i><j>_TRANS leaves sub-shell X<i>), every successful AugerRate in (0, 1]
        shell_macro = {n_[:-6]: v_['value'] for n_, v_ in hv.items() if _re.fullmatch(r'(K|[LM]\d)_SHELL', n_) and v_['kind'] == 'I'}
        ck_from = {}
        for n_, v_ in hv.items():
            m_ = _re.fullmatch(r'F([LM])P?(\d)(\d)_TRANS', n_)
            if m_ and v_['kind'] == 'I': ck_from.setdefault(m_.group(1) + m_.group(2), []).append(v_['value'])
        ql = []
        for Z in range(1, 121):
            for nm, sm in shell_macro.items():
                ql.append('FluorYield %d %d N' % (Z, sm))
                for tr in ck_from.get(nm, []): ql.append('CosKronTransProb %d %d N' % (Z, tr))
        qa = dict(zip(ql, [core.parse_answer(o) for o in ctx.run_c(ql)]))
        npart = 0; nrange = 0; worst = 0.0
        for Z in range(1, 121):
            for nm, sm in shell_macro.items():
                pl = 'AugerYield %d %d E' % (Z, sm)
                pa = core.parse_answer(pub[pl])
                if not (pa['kind'] == 'ok' and pa['slot'] == 'E'): continue
                v = pa['vals'][0]; w_ = qa['FluorYield %d %d N' % (Z, sm)]['vals'][0]
                cks = [qa['CosKronTransProb %d %d N' % (Z, tr)]['vals'][0] for tr in ck_from.get(nm, [])]
                npart += 1
                bad = None
                if not (0 < v <= 1): bad = 'Auger yield outside (0, 1]'
                elif not (0 < w_ <= 1): bad = 'fluorescence yield %r outside (0, 1] where the Auger yield is defined' % w_
                elif any(not (0 <= f_ <= 1) for f_ in cks): bad = 'Coster-Kronig probability outside [0, 1]: %r' % cks
                else:
                    dev = abs(v + w_ + sum(cks) - 1); worst = max(worst, dev)
                    if dev > 1e-9: bad = 'channels do not partition unity: Auger %r + fluorescence %r + Coster-Kronig %r = %r' % (v, w_, cks, v + w_ + sum(cks))
                if bad: viol.append(dict(key=pl, got=pub[pl], expected='in (0,1], and AugerYield + FluorYield + sum CosKronTransProb = 1', what=bad))
        for pl, o in pub.items():
            if not pl.startswith('AugerRate'): continue
            pa = core.parse_answer(o)
            if pa['kind'] == 'ok' and pa['slot'] == 'E':
                nrange += 1
                if not (0 < pa['vals'][0] <= 1 + 1e-9):
                    viol.append(dict(key=pl, got=o, expected='a rate in (0, 1]', what='Auger rate (a share of the shell\'s net non-radiative total) outside (0, 1]'))
        # data hypotheses of Props/C11b.lean, executed on the run-time and on the raw build-time tables
        try:
            inv = ctx.run_model(['spec.augerInputsBad']) + ctx.run_model(['spec.augerInputsBad', 'spec.augerRateBad ' + core.hx(1e-12)], dump='pdump')
            for nm, o in zip(('augerInputsBad', 'augerInputsBad@raw', 'augerRateBad(1e-12)@raw'), inv):
                if o.strip() != 'list []':
                    viol.append(dict(key='spec.' + nm, got=o[:200], expected='list []', what='data hypothesis of C11b (auger_channels_raw / auger_rate_range) fails on the tables built from the working tree'))
        except core.BuildError:
            pass
        stats = dict(partition_cases=npart, rate_range_cases=nrange, partition_worst_dev=worst, datafile_records_checked=ndat, rule='exhaustive: Z in [-2,123] x shells [-2,10] x Auger macros [-3,999]: real pr_data.c function vs specification on the raw tables, and public AugerYield/AugerRate vs %.10E of the specification; non-trivial = non-zero derived values',
                     distinct_nontrivial=nontriv, exhaustive=True,
                     samples=[dict(call=keys[i], impl=self._prd[keys[i]], expected=e[i]) for i in (40, len(keys) // 2, len(keys) - 5)])
        return len(keys) * 2 + ndat + npart + nrange, viol, stats

CHECK = C11()
