"""C04 — no call sequence corrupts, over-reads or leaks memory (numeric API share + index of the ownership theorems)."""
import os, re, subprocess
from vlib.runner import Check
from vlib import core, apisweep
from vlib.core import VERIF

# ownership / heap theorems proved in the sibling projects (audited by name on every run: they must still be stated there)
HEAP_THEOREMS = {
    'lean-parser/XrlParser/Props/C07.lean': ['heap_balanced_fixed', 'heap_leak_count'],
    'lean-crystals/XrlCrystals/Props/C14.lean': ['crystals_no_ub', 'arrayFree_releases_everything', 'no_file_left_open'],
    'lean-cpp/XrlCpp/Props/C18.lean': ['wrap_no_leak_fixed', 'struct_released_when_destroyed'],
}

class C04(Check):
    id = 'C04'
    module = 'Xrl.Props.C04'
    namespace = 'Xrl.C04'
    extra_modules = [('Xrl.Props.C04b', 'Xrl.C04'), ('Xrl.Props.C04c', 'Xrl.C04')]
    functions = None
    assumptions = ['PARTIAL: proved are (a) index arithmetic / signed overflow / function-pointer indices of the machine-translated numeric API against the DECLARED C bounds, for all tables and all int arguments, '
                   'and (b) the ownership protocols of the hand models in the sibling projects (parser, crystal containers, C++ wrappers, compound temporaries); the allocator, libc and the compiler are not modelled',
                   'AddressSanitizer / UBSan are the implementation-side observers of the correspondence run (model ub <=> sanitizer abort); ASan can miss an out-of-bounds read that lands in another live object']

    def lines(self, ctx):
        if not hasattr(ctx, '_c04'):
            ctx._c04 = apisweep.lines_for(ctx.meta, ctx.rng, ctx.tier, extreme=True, budget=5000 if ctx.tier == 'quick' else 50000)
        return ctx._c04

    def corr_lines(self, ctx):
        ls = self.lines(ctx)
        return ls + [l[:-1] + 'N' for l in ls if l.endswith(' E')][::4]

    def extra_steps(self, ctx, rep):
        missing = []
        for path, names in HEAP_THEOREMS.items():
            p = os.path.join(VERIF, path)
            try: txt = core.strip_comments(open(p).read())
            except OSError:
                ctx.notes.append('ownership theorems: %s not present yet' % path); continue
            for n in names:
                if not re.search(r'theorem\s+%s\b' % re.escape(n), txt): missing.append('%s:%s' % (path, n))
        if missing: rep['problems'].append('ownership theorems no longer stated: ' + ', '.join(missing))
        ctx.coverage['ownership_theorems_indexed'] = sum(len(v) for v in HEAP_THEOREMS.values()) - len(missing)

    def search(self, ctx):
        ls = self.lines(ctx)
        a = ctx.run_c(ls)
        viol = []; died = 0
        for l, x in zip(ls, a):
            if x.startswith('died'):
                died += 1
                viol.append(dict(key=l, got=x, expected='no undefined access', what='sanitizer abort in the real library'))
        stats = dict(rule='every exported numeric function x the C03 argument stream extended by INT_MIN, INT_MIN+1, INT_MAX, INT_MAX-1, +-65536 for every int parameter, under ASan+UBSan (-fno-sanitize-recover); '
                          'non-trivial = calls whose arguments include at least one out-of-range or extreme value',
                     distinct_nontrivial=sum(1 for l in ls if re.search(r'-?2147483\d{3}|65536', l)), sanitizer_aborts=died,
                     samples=[dict(call=ls[i], impl=a[i]) for i in (1, len(ls) // 2, len(ls) - 1)])
        # the Kissel-dependent functions index their tables only when the table is filled: once more on the regenerated configuration
        KRE = re.compile(r'Kissel|Photo_Total|Photo_Partial|^ElectronConfig$|^P[LM]\d_')
        kls = [l for l in ls if KRE.search(l.split(' ')[0])]
        if kls:
            try:
                suf = ctx.build_kissel_config('real')
                for l, x in zip(kls, ctx.run_c(kls, exe=ctx.sc.path('cdrv' + suf))):
                    if x.startswith('died'):
                        died += 1; viol.append(dict(key=l + '  @real', got=x, expected='no undefined access', what='sanitizer abort in the real library (regenerated Kissel table)'))
                stats['kissel_regenerated_calls'] = len(kls)
            except core.BuildError as ex:
                viol.append(dict(key='regenerated-Kissel configuration', got=str(ex)[:300], expected='builds', what='data/kissel -> kissel_pe.dat -> prdata'))
        try:
            hn, hv, hst = heap_search(self, ctx)
        except core.BuildError as ex:
            hn, hv, hst = 0, [dict(key='harness/c04heap.c', got=str(ex)[:400], expected='builds', what='heap harness does not build against the working tree')], {}
        stats.update(hst)
        stats['rule'] += '; plus call histories over the allocating APIs (parser, NIST / radionuclide lookups and lists, symbols, all 21 _CP functions and the 3 refractive-index entry points on valid, NIST, ' \
                         'invalid and NULL compounds at energies on both sides of every table end, built-in crystal lookups/copies/lists, user crystal arrays with additions and file loads of ' \
                         'well-formed / duplicate-name / truncated / garbage / empty / missing files, error objects) under ASan+UBSan with an allocation counter: balance 0 after the documented release'
        return len(ls) + hn, (viol + hv)[:200], stats


# ---------------------------------------------------------------------------------------------------------------
# call histories over the allocating APIs, ending in full release (harness/c04heap.c)

WRAP = ['-Wl,--wrap=malloc,--wrap=calloc,--wrap=realloc,--wrap=free,--wrap=strdup,--wrap=strndup,--wrap=vasprintf']

def esc(b):
    if b is None: return '%00NULL'
    if isinstance(b, str): b = b.encode('latin1')
    if not b: return '%'
    return ''.join(chr(c) if (48 <= c <= 57 or 65 <= c <= 90 or 97 <= c <= 122 or c in (46, 40, 41)) else '%%%02X' % c for c in b)

def crystal_entries(repo):
    out = []; cur = None
    for l in open(os.path.join(repo, 'data', 'Crystals.dat'), errors='replace'):
        if l.startswith('#S '):
            cur = [l]; out.append(cur)
        elif l.startswith('#EOF'): cur = None
        elif cur is not None: cur.append(l)
    return [(e[0].split()[2], e) for e in out if len(e[0].split()) >= 3]

def heap_groups(ctx, sc_dir):
    """-> list of groups (each a list of op lines that must stay in one process, brackets closed)"""
    from vlib.core import REPO, hx
    r = ctx.rng; thorough = ctx.tier == 'thorough'
    formulas = ['H2O', 'Ca5(PO4)3OH', 'C6H12O6', 'PuO2', 'Es2O3', 'EsCl3', 'Fm2O3', 'Fe4(Fe(CN)6)3', 'RfO2', 'Rf', 'UO2', 'SiO2', 'H', 'U', 'Lr', 'C22H10N2O5',
                'Mg0.5Fe0.5O', '((((H2O))))', 'H2(SO4)0.5', 'NaCl', 'LaB6']
    nist = ['Water, Liquid', 'Plutonium Dioxide', 'Ferroboride', 'Air, Dry (near sea level)', 'Gadolinium Oxysulfide', 'Kapton Polyimide Film', 'Bone, Cortical (ICRP)']
    bad = ['', None, 'Uu', '(', ')', 'H2O)', '(H2O', 'h2o', 'H2O2.5.5', 'H-2', '2H', 'H2 O', 'Water', 'water, liquid', 'Si\xc3\xa9', 'A' * 300, 'H' * 2000, '(H)0', 'H0', 'He.', '.5H', 'H(', 'X', 'Hx', '0', 'O2' * 400]
    comps = formulas + nist + bad
    Es = [1e-4, 0.0005, 0.001, 0.0011, 0.05, 0.0999, 0.1, 1.0, 8.0, 99.0, 100.0, 799.0, 801.0, 999.9, 1000.0, 1000.1, 5000.0, 10000.0, 10000.1, 1e5, 0.0, -1.0]
    rhos = [1.0, 2.33, 0.0, -1.0]
    groups = []
    one = lambda l: groups.append([l])
    for c in comps: one('cp ' + esc(c))
    for c in comps:
        one('nistn ' + esc(c)); one('radn ' + esc(c)); one('s2z ' + esc(c)); one('cget ' + esc(c)); one('ccopy ' + esc(c))
    for rn in ('55Fe', '57Co', '109Cd', '125I', '137Cs', '133Ba', '153Gd', '238Pu', '241Am', '244Cm', '60Co', 'fe55'): one('radn ' + esc(rn))
    for i in list(range(-2, 183)): one('nisti %d' % i)
    for i in list(range(-2, 13)): one('radi %d' % i)
    for z in range(-2, 125): one('z2s %d' % z)
    for _ in range(3): one('nistl'); one('radl'); one('clist')
    for k in range(12): one('err %d' % k)
    # compound cross sections and refractive indices: every function x compound x energies incl. both table ends
    nE = len(Es) if thorough else 8
    for c in comps:
        for k in range(21):
            for E in (Es if thorough else r.sample(Es, nE)):
                one('cscp %d %s %s %s %s' % (k, esc(c), hx(E), hx(r.choice([0.0, 0.7, 3.14159, -1.0])), hx(r.choice([0.0, 1.0]))))
        for k in range(3):
            for E in Es:
                one('ri %d %s %s %s' % (k, esc(c), hx(E), hx(r.choice(rhos))))
    # numeric crystal functions on copies of built-in crystals: energies on both sides of the Bragg cut-off of common reflections
    cn = [n for n, _ in crystal_entries(REPO)]
    for c in (cn if thorough else r.sample(cn, 8)) + ['nope']:
        for (h, k, l) in [(1, 1, 1), (4, 4, 4), (2, 2, 0), (0, 0, 0), (1, 0, 0), (-3, 1, 2)]:
            for E in ([0.5, 1.0, 1.5, 1.9, 2.0, 2.6, 3.0, 5.0, 7.9, 8.0, 10.0, 20.0, -1.0, 0.0] if thorough else r.sample([0.5, 1.0, 1.5, 1.9, 2.0, 2.6, 3.0, 5.0, 7.9, 8.0, 10.0, 20.0], 5) + [-1.0, 0.0]):
                for kf in range(6):
                    one('cfun %d %s %s %d %d %d %s' % (kf, esc(c), hx(E), h, k, l, hx(r.choice([1.0, 0.9, 0.0, -1.0]) if kf in (2, 3) else 1.0)))
    for Z in (-1, 0, 1, 8, 14, 26, 92, 99, 100, 120, 121):
        for E in (0.0005, 0.001, 1.0, 8.0, 9999.0, 10001.0, -1.0):
            for q in (0.0, 0.5, 1e9, -1.0):
                one('af %d %s %s %s' % (Z, hx(E), hx(q), hx(r.choice([1.0, 0.0, -0.5]))))
    # crystal arrays: brackets ainit .. afree with additions, file loads (well-formed, duplicate names, name already present,
    # truncated, garbage, empty, missing), lookups and listings
    ents = crystal_entries(REPO)
    names = [n for n, _ in ents]
    os.makedirs(sc_dir, exist_ok=True)
    def mkfile(tag, chunks):
        p = os.path.join(sc_dir, tag + '.dat')
        with open(p, 'w') as f: f.write(''.join(chunks))
        return p
    def entry(name, newname=None, drop=None):
        e = list(dict(ents)[name])
        if newname: e[0] = '#S 1 %s\n' % newname
        if drop is not None: e = e[:drop]
        return ''.join(e)
    files = []
    for i in range(9 if not thorough else 45):
        a, b, c = r.sample(names, 3)
        kind = i % 9
        if kind == 0: files.append(mkfile('ok%d' % i, [entry(a, 'N%da' % i), entry(b, 'N%db' % i), '#EOF\n']))
        elif kind == 1: files.append(mkfile('dup%d' % i, [entry(a, 'D%d' % i), entry(b, 'E%d' % i), entry(c, 'D%d' % i), '#EOF\n']))
        elif kind == 2: files.append(mkfile('adj%d' % i, [entry(a, 'D%d' % i), entry(a, 'D%d' % i), '#EOF\n']))
        elif kind == 3: files.append(mkfile('present%d' % i, [entry(a, 'Aaa%d' % i), entry(b, 'Pre'), '#EOF\n']))
        elif kind == 4: files.append(mkfile('trunc%d' % i, [entry(a, 'T%da' % i), entry(b, 'T%db' % i, drop=r.randrange(1, 12))]))
        elif kind == 5: files.append(mkfile('garb%d' % i, ['#S x y\n', 'garbage\n' * 5]))
        elif kind == 6: files.append(mkfile('empty%d' % i, []))
        elif kind == 8:
            # a section whose #L line is followed directly by the next #S: a crystal with zero atoms
            e = list(dict(ents)[a]); k = next(j for j, x in enumerate(e) if x.startswith('#L')) + 1
            files.append(mkfile('noatoms%d' % i, ['#S 1 Z%da\n' % i] + e[1:k] + [entry(b, 'Z%db' % i), '#EOF\n']))
        else: files.append(mkfile('many%d' % i, [entry(r.choice(names), 'M%d_%d' % (i, j)) for j in range(25)] + ['#EOF\n']))
    files.append(os.path.join(sc_dir, 'does-not-exist.dat'))
    groups.append(['bfill 40'])          # the built-in collection filled up, then 40 refused additions (its own process: the collection is global)
    for h in range(12 if not thorough else 120):
        g = ['ainit %d' % r.choice([0, 1, 2, 3, 9, 10, 11, 19, 20])]
        for j in range(r.randrange(2, 30)):
            k = r.random()
            if k < 0.45: g.append('aadd %s %s' % (esc(r.choice(names)), esc(r.choice(['Pre', 'A%d' % r.randrange(40), r.choice(names)]))))
            elif k < 0.7: g.append('aread ' + esc(r.choice(files)))
            elif k < 0.85: g.append('aget ' + esc(r.choice(['Pre', 'A%d' % r.randrange(40), 'nope', 'Z8a', 'Z8b', r.choice(names)])))
            else: g.append('alist')
        g.append('afree')
        groups.append(g)
    return groups

def run_heap(ctx, exe, groups, locale='C'):
    """runs the groups in parallel worker processes; -> list of (group index, line index or None, answer lines, died?)"""
    import subprocess, concurrent.futures
    nw = 12
    buckets = [[] for _ in range(nw)]
    for i, g in enumerate(groups): buckets[i % nw].append(i)
    env = {k: v for k, v in os.environ.items() if not k.startswith('LC_') and k != 'LANG'}
    env.update(ASAN_OPTIONS='detect_leaks=0:abort_on_error=0:exitcode=99', UBSAN_OPTIONS='halt_on_error=1:exitcode=99', LC_ALL=locale)
    results = {}
    def work(idxs):
        todo = list(idxs)
        while todo:
            lines = [l for i in todo for l in groups[i]]
            try:
                p = subprocess.run([exe], input='\n'.join(lines) + '\n', capture_output=True, text=True, errors='replace', env=env, timeout=600)
            except subprocess.TimeoutExpired as ex:
                class P: pass
                p = P(); p.returncode = -9; p.stdout = ex.stdout.decode('latin1') if isinstance(ex.stdout, bytes) else (ex.stdout or ''); p.stderr = 'no answer within 600 s (hang)'
            out = p.stdout.split('\n'); out = out[:-1] if out and out[-1] == '' else out
            pos = 0; nxt = []
            for n, i in enumerate(todo):
                k = len(groups[i])
                got = out[pos:pos + k]
                if len(got) == k:
                    results[i] = (got, None); pos += k
                else:
                    # the process died inside this group: record, then continue with the remaining groups in a fresh process
                    results[i] = (got, (p.stderr or '')[-1500:] or 'exit %d' % p.returncode)
                    nxt = todo[n + 1:]
                    break
            todo = nxt
    with concurrent.futures.ThreadPoolExecutor(nw) as ex: list(ex.map(work, buckets))
    return results

def heap_search(check, ctx):
    from vlib import cbuild
    from vlib.core import REPO
    exe = ctx.sc.path('c04heap')
    cbuild.link(ctx.sc, ctx.objs, [os.path.join(VERIF, 'harness', 'c04heap.c')], exe, ctx.cfl + ['-I' + os.path.join(REPO, 'src')] + WRAP)
    groups = heap_groups(ctx, ctx.sc.path('c04files'))
    # the same single operations once more WITHOUT an error slot (ownership of nested error objects), and the operations that
    # parse a compound once more in a non-C numeric locale (the parser saves / switches / restores LC_NUMERIC)
    singles = [g for g in groups if len(g) == 1 and not g[0].startswith(('err ', 'bfill '))]
    noslot = [['N:' + g[0]] for g in singles]
    loc = [g for g in groups if g[0].split(' ')[0] in ('cp', 'cscp', 'ri')]
    if ctx.tier != 'thorough': loc = loc[::3]
    viol = []; nops = 0; kinds = {}; nfail = 0
    for tag, gs, locale in (('', groups + noslot, 'C'), ('  @LC_ALL=C.UTF-8', loc + [['N:' + g[0]] for g in loc[::4]], 'C.UTF-8')):
        res = run_heap(ctx, exe, gs, locale)
        for i, g in enumerate(gs):
            got, died = res.get(i, ([], 'not run'))
            for l, a in zip(g, got):
                nops += 1; kinds[l.split(' ')[0]] = kinds.get(l.split(' ')[0], 0) + 1
                m = re.match(r'(-?\d+) d=(open|-?\d+) e=(\d)', a)
                if not m:
                    viol.append(dict(key=(' ; '.join(g) if len(g) > 1 else l) + tag, got=a, expected='an answer', what='heap harness: malformed answer')); continue
                if m.group(3) == '1': nfail += 1
                if m.group(2) not in ('open', '0'):
                    viol.append(dict(key=(' ; '.join(g) if len(g) > 1 else l) + tag, got=a, expected='d=0: no block allocated on behalf of the finished call(s) is still held after release',
                                     what='memory still held after the documented release (%s blocks), %s path' % (m.group(2), 'failure' if (m.group(3) == '1' or a.startswith('0 ')) else 'success')))
            if died is not None:
                at = g[len(got)] if len(got) < len(g) else g[-1]
                first = re.search(r'(ERROR: AddressSanitizer: [^\n]*|runtime error: [^\n]*|double free[^\n]*|SUMMARY: [^\n]*)', died)
                viol.append(dict(key=(' ; '.join(g[:len(got) + 1]) if len(g) > 1 else at) + tag, got=(first.group(1) if first else died[-300:]), expected='no undefined access',
                                 what='sanitizer abort / crash in the real library during a call history over the allocating API (at: %s)' % at))
    return nops, viol, dict(heap_ops=nops, heap_groups=len(groups), heap_noslot_ops=len(noslot), heap_nonC_locale_groups=len(loc), heap_op_kinds=kinds, heap_failure_paths=nfail)

CHECK = C04()
