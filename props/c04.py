"""C04 — no call sequence corrupts, over-reads or leaks memory (numeric API share + index of the ownership theorems)."""
import os, re, subprocess
from vlib.runner import Check
from vlib import core, apisweep
from vlib.core import VERIF

# ownership / heap theorems proved in the sibling projects (audited by name on every run: they must still be stated there)
HEAP_THEOREMS = {
    'lean-parser/XrlParser/Props/C07.lean': ['heap_balanced_fixed', 'heap_leak_count'],
    'lean-crystals/XrlCrystals/Props/C14.lean': ['crystals_no_ub', 'arrayFree_releases_everything', 'no_file_left_open'],
    'lean-cpp/XrlCpp/Props/C18.lean': ['wrap_no_leak_fixed', 'struct_released_when_destroyed'],
}

class C04(Check):
    id = 'C04'
    module = 'Xrl.Props.C04'
    namespace = 'Xrl.C04'
    functions = None
    assumptions = ['PARTIAL: proved are (a) index arithmetic / signed overflow / function-pointer indices of the machine-translated numeric API against the DECLARED C bounds, for all tables and all int arguments, '
                   'and (b) the ownership protocols of the hand models in the sibling projects (parser, crystal containers, C++ wrappers, compound temporaries); the allocator, libc and the compiler are not modelled',
                   'AddressSanitizer / UBSan are the implementation-side observers of the correspondence run (model ub <=> sanitizer abort); ASan can miss an out-of-bounds read that lands in another live object']

    def lines(self, ctx):
        if not hasattr(ctx, '_c04'):
            ctx._c04 = apisweep.lines_for(ctx.meta, ctx.rng, ctx.tier, extreme=True, budget=5000 if ctx.tier == 'quick' else 50000)
        return ctx._c04

    def corr_lines(self, ctx):
        ls = self.lines(ctx)
        return ls + [l[:-1] + 'N' for l in ls if l.endswith(' E')][::4]

    def extra_steps(self, ctx, rep):
        missing = []
        for path, names in HEAP_THEOREMS.items():
            p = os.path.join(VERIF, path)
            try: txt = core.strip_comments(open(p).read())
            except OSError:
                ctx.notes.append('ownership theorems: %s not present yet' % path); continue
            for n in names:
                if not re.search(r'theorem\s+%s\b' % re.escape(n), txt): missing.append('%s:%s' % (path, n))
        if missing: rep['problems'].append('ownership theorems no longer stated: ' + ', '.join(missing))
        ctx.coverage['ownership_theorems_indexed'] = sum(len(v) for v in HEAP_THEOREMS.values()) - len(missing)

    def search(self, ctx):
        ls = self.lines(ctx)
        a = ctx.run_c(ls)
        viol = []; died = 0
        for l, x in zip(ls, a):
            if x.startswith('died'):
                died += 1
                viol.append(dict(key=l, got=x, expected='no undefined access', what='sanitizer abort in the real library'))
        stats = dict(rule='every exported numeric function x the C03 argument stream extended by INT_MIN, INT_MIN+1, INT_MAX, INT_MAX-1, +-65536 for every int parameter, under ASan+UBSan (-fno-sanitize-recover); '
                          'non-trivial = calls whose arguments include at least one out-of-range or extreme value',
                     distinct_nontrivial=sum(1 for l in ls if re.search(r'-?2147483\d{3}|65536', l)), sanitizer_aborts=died,
                     samples=[dict(call=ls[i], impl=a[i]) for i in (1, len(ls) // 2, len(ls) - 1)])
        return len(ls), viol[:200], stats

CHECK = C04()
