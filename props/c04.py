"""C04 — no call sequence corrupts, over-reads or leaks memory (numeric API share + index of the ownership theorems)."""
import os, re, subprocess
from vlib.runner import Check
from vlib import core, apisweep
from vlib.core import VERIF

# ownership / heap / no-undefined-access theorems proved in the sibling projects: the EXPLICIT list C04 relies on.  Every name must be
# stated in its file on every run (a missing file or a missing theorem fails the check); their statement hashes are pinned by the
# owning property's entry in props/required_theorems.json.
HEAP_THEOREMS = {
    'lean-parser/XrlParser/Props/C07.lean': ['heap_balanced_fixed', 'heap_balanced_partial', 'heap_leak_count', 'heap_leak_error_path'],
    'lean-crystals/XrlCrystals/Props/C14.lean': ['crystals_no_ub', 'copies_independent', 'arrayFree_releases_everything', 'no_file_left_open'],
    'lean-cpp/XrlCpp/Props/C18.lean': ['wrap_no_leak_fixed', 'wrap_no_leak_extracted', 'struct_released_when_destroyed'],
    'lean-c06/XrlC06/Props/C06.lean': ['cp_temporaries_released', 'cp_temporaries_released_fixed', 'refr_temporaries_released'],
    'lean-c06/XrlC06/Props/C06r.lean': ['refr_temporaries_released_fixed'],
    'lean-c13/XrlC13/Props/C13.lean': ['dspacing_no_ub_fixed', 'fh_no_ub_fixed', 'fh_null_fixed', 'volume_null_fails'],
}

INT_MIN, INT_MAX = -2147483648, 2147483647
INT_EXT = [INT_MIN, INT_MIN + 1, INT_MAX, INT_MAX - 1, -65536, 65536]
# doubles at the ends of the format (the sanitizers judge them; values are not judged here)
DBL_EXT = [-0.0, 5e-324, 1e-310, 2.2250738585072014e-308, 1e-30, 1e30, 1e100, 1e300, 1.7976931348623157e308, -1e300]

class C04(Check):
    id = 'C04'
    module = 'Xrl.Props.C04'
    namespace = 'Xrl.C04'
    extra_modules = [('Xrl.Props.C04b', 'Xrl.C04'), ('Xrl.Props.C04c', 'Xrl.C04'), ('Xrl.Props.C04d', 'Xrl.C04')]
    functions = None
    assumptions = ['PARTIAL: proved are (a) index arithmetic / signed overflow / function-pointer indices of the machine-translated numeric API against the DECLARED C bounds, for all tables and all int arguments, '
                   'and (b) the ownership protocols of the hand models in the sibling projects (parser, crystal containers, C++ wrappers, compound temporaries); the allocator, libc and the compiler are not modelled',
                   'AddressSanitizer / UBSan are the implementation-side observers of the correspondence run (model ub <=> sanitizer abort); ASan can miss an out-of-bounds read that lands in another live object']

    def lines(self, ctx):
        if not hasattr(ctx, '_c04'):
            ctx._c04 = apisweep.lines_for(ctx.meta, ctx.rng, ctx.tier, extreme=True, budget=5000 if ctx.tier == 'quick' else 50000)
        return ctx._c04

    def corr_lines(self, ctx):
        ls = self.lines(ctx)
        return ls + [l[:-1] + 'N' for l in ls if l.endswith(' E')][::4]

    def extra_steps(self, ctx, rep):
        import json
        missing = []
        try: req = json.load(open(os.path.join(VERIF, 'props', 'required_theorems.json')))
        except (OSError, ValueError): req = {}
        pinned = {f: set(ths) for fs in req.values() for f, ths in fs.items()}
        unpinned = []
        for path, names in HEAP_THEOREMS.items():
            p = os.path.join(VERIF, path)
            try: txt = core.strip_comments(open(p).read())
            except OSError:
                missing.append('%s (file not found)' % path); continue
            for n in names:
                if not re.search(r'^\s*theorem\s+%s\b' % re.escape(n), txt, re.M): missing.append('%s:%s' % (path, n))
                elif n not in pinned.get(path, ()): unpinned.append('%s:%s' % (path, n))
        if missing: rep['problems'].append('ownership theorems no longer stated: ' + ', '.join(missing))
        if unpinned: ctx.notes.append('ownership theorems whose statement is not pinned in props/required_theorems.json: ' + ', '.join(unpinned))
        ctx.coverage['ownership_theorems_indexed'] = sum(len(v) for v in HEAP_THEOREMS.values()) - len(missing)
        ctx.coverage['ownership_theorems'] = {k: list(v) for k, v in HEAP_THEOREMS.items()}

    def search(self, ctx):
        ls = self.lines(ctx)
        a = ctx.run_c(ls)
        viol = []; died = 0
        for l, x in zip(ls, a):
            if x.startswith('died'):
                died += 1
                viol.append(dict(key=l, got=x, expected='no undefined access', what='sanitizer abort in the real library'))
        stats = dict(rule='every exported numeric function x the C03 argument stream extended by INT_MIN, INT_MIN+1, INT_MAX, INT_MAX-1, +-65536 for every int parameter, under ASan+UBSan (-fno-sanitize-recover); '
                          'non-trivial = calls whose arguments include at least one out-of-range or extreme value',
                     distinct_nontrivial=sum(1 for l in ls if re.search(r'-?2147483\d{3}|65536', l)), sanitizer_aborts=died,
                     samples=[dict(call=ls[i], impl=a[i]) for i in (1, len(ls) // 2, len(ls) - 1)])
        # doubles at the ends of the format (-0.0, denormals, 1e30 .. DBL_MAX) in every double position of every function: sanitizer
        # judgement only (a double -> int conversion of such a value would be UBSan's float-cast-overflow); not part of the correspondence run
        xl = extreme_double_lines(ctx)
        for l, x in zip(xl, ctx.run_c(xl)):
            if x.startswith('died'):
                died += 1; viol.append(dict(key=l, got=x, expected='no undefined access', what='sanitizer abort in the real library (extreme double argument)'))
        stats['extreme_double_calls'] = len(xl); stats['sanitizer_aborts'] = died
        # the Kissel-dependent functions index their tables only when the table is filled: once more on the regenerated configuration
        KRE = re.compile(r'Kissel|Photo_Total|Photo_Partial|^ElectronConfig$|^P[LM]\d_')
        kls = [l for l in ls + xl if KRE.search(l.split(' ')[0])]
        suf = None
        if kls:
            try:
                suf = ctx.build_kissel_config('real')
                for l, x in zip(kls, ctx.run_c(kls, exe=ctx.sc.path('cdrv' + suf))):
                    if x.startswith('died'):
                        died += 1; viol.append(dict(key=l + '  @real', got=x, expected='no undefined access', what='sanitizer abort in the real library (regenerated Kissel table)'))
                stats['kissel_regenerated_calls'] = len(kls)
            except core.BuildError as ex:
                viol.append(dict(key='regenerated-Kissel configuration', got=str(ex)[:300], expected='builds', what='data/kissel -> kissel_pe.dat -> prdata'))
        try:
            hn, hv, hst = heap_search(self, ctx, suf)
        except core.BuildError as ex:
            hn, hv, hst = 0, [dict(key='harness/c04heap.c', got=str(ex)[:400], expected='builds', what='heap harness does not build against the working tree')], {}
        stats.update(hst)
        stats['rule'] += '; the same functions with -0.0, denormals, 1e30, 1e100, 1e300, DBL_MAX in every double position; plus call histories over the allocating APIs (parser incl. formulas synthesised in C: ' \
                         'nesting depth to 2000, 200 kB strings; NIST / radionuclide lookups and lists, symbols, add_compound_data, all 21 _CP functions and the 3 refractive-index entry points on valid, NIST, ' \
                         'invalid and NULL compounds at energies on both sides of every table end and at the ends of the double format, built-in crystal lookups/copies/lists, the seven numeric crystal functions ' \
                         'with Miller indices / flags / database indices at INT_MIN, INT_MAX, +-65536, user crystal arrays (capacities up to INT_MAX) with additions, copies held across mutations and release, file loads of ' \
                         'well-formed / duplicate-name / truncated / garbage / empty / missing / byte-mutated files, error objects, NULL at every pointer position, XRayInit, the deprecated setters, c_abs/c_mul, ' \
                         'xrl_strdup/strndup/malloc) under ASan+UBSan with an allocation counter and an open-descriptor counter: balance 0 after the documented release; the n-th allocation of a call made to fail ' \
                         '(n swept until the call makes fewer: observation only); the histories once more under MemorySanitizer, library sources compiled with it (uninitialised reads)'
        return len(ls) + len(xl) + hn, (viol + hv)[:200], stats


def extreme_double_lines(ctx):
    """every generated-dispatch function that takes a double: each double position at each value of DBL_EXT, a few typical integers"""
    from vlib.core import hx
    meta = ctx.meta; out = []
    sigs = dict(meta.get('untranslated', {})); sigs.update(meta['functions'])
    for f in sorted(sigs):
        fi = sigs[f]
        if fi['static'] or fi['outs'] or fi['ret'] not in ('double', 'int') or fi['file'] in ('pr_data.c', 'xrf_cross_sections_aux-private.c'): continue
        if any(t not in ('int', 'double', 'errpp') for _, t in fi['params']): continue
        ps = [(n, t) for n, t in fi['params'] if t in ('int', 'double')]
        dpos = [i for i, (_, t) in enumerate(ps) if t == 'double']
        if not dpos: continue
        tail = ' E' if fi['has_error'] else ''
        ivals = []
        for n, t in ps:
            nl = n.lower()
            if t != 'int': ivals.append(None)
            elif nl == 'z': ivals.append([1, 26, 82, 92])
            elif 'shell' in nl: ivals.append([0, 1, 3, 8])
            elif 'line' in nl: ivals.append([-1, -2, -30, 0, 3])
            else: ivals.append([0, 1])
        typ = lambda n: 0.5 if n.lower() in ('pz', 'q') else 1.0 if n.lower() in ('theta', 'phi') else 1.5 if (n.lower().startswith('p') and len(n) <= 3) else 10.0
        combos = [[]]
        for iv in ivals:
            combos = [c + [v] for c in combos for v in (iv or [None])]
        combos = combos[:: max(1, len(combos) // 12)]
        for c in combos:
            for dp in dpos:
                for x in DBL_EXT:
                    args = [str(c[i]) if ps[i][1] == 'int' else hx(x if i == dp else typ(ps[i][0])) for i in range(len(ps))]
                    out.append('%s %s%s' % (f, ' '.join(args), tail))
            for x in DBL_EXT[-3:]:       # all double positions at once
                out.append('%s %s%s' % (f, ' '.join(str(c[i]) if ps[i][1] == 'int' else hx(x) for i in range(len(ps))), tail))
    return out


# ---------------------------------------------------------------------------------------------------------------
# call histories over the allocating APIs, ending in full release (harness/c04heap.c)

WRAP = ['-Wl,--wrap=malloc,--wrap=calloc,--wrap=realloc,--wrap=free,--wrap=strdup,--wrap=strndup,--wrap=vasprintf']

def esc(b):
    if b is None: return '%00NULL'
    if isinstance(b, str): b = b.encode('latin1')
    if not b: return '%'
    return ''.join(chr(c) if (48 <= c <= 57 or 65 <= c <= 90 or 97 <= c <= 122 or c in (46, 40, 41)) else '%%%02X' % c for c in b)

def crystal_entries(repo):
    out = []; cur = None
    for l in open(os.path.join(repo, 'data', 'Crystals.dat'), errors='replace'):
        if l.startswith('#S '):
            cur = [l]; out.append(cur)
        elif l.startswith('#EOF'): cur = None
        elif cur is not None: cur.append(l)
    return [(e[0].split()[2], e) for e in out if len(e[0].split()) >= 3]

NULL_CALLS = 26          # `null <k>` of harness/c04heap.c
# the documented behaviour of each NULL call: (rc, error set, error code)
NULL_EXPECT = {0: (1, 1, 2), 1: (1, 1, 1), 2: (1, 1, 1), 3: (1, 0, -1), 4: (1, 0, -1), 5: (1, 0, -1), 6: (1, 0, -1), 7: (180, 0, -1), 8: (10, 0, -1),
               9: (None, 0, -1), 10: (1, 0, -1), 11: (1, 0, -1), 12: (1, 0, -1), 13: (1, 0, -1), 14: (1, 0, -1), 15: (1, 0, -1), 16: (1, 0, -1),
               17: (1, 0, -1), 18: (1, 1, 1), 19: (1, 0, -1), 20: (1, 0, -1), 21: (1, 0, -1), 22: (1, 0, -1), 23: (1, 0, -1), 24: (1, 1, 1), 25: (1, 1, 1)}
# null 4, 5, 6: FreeCompoundData / FreeCompoundDataNIST / FreeRadioNuclideData(NULL) — a no-op like the other five release functions (repaired: 4c11b33)

def heap_groups(ctx, sc_dir):
    """-> list of groups (each a list of op lines that must stay in one process, brackets closed)"""
    from vlib.core import REPO, hx
    r = ctx.rng; thorough = ctx.tier == 'thorough'
    formulas = ['H2O', 'Ca5(PO4)3OH', 'C6H12O6', 'PuO2', 'Es2O3', 'EsCl3', 'Fm2O3', 'Fe4(Fe(CN)6)3', 'RfO2', 'Rf', 'UO2', 'SiO2', 'H', 'U', 'Lr', 'C22H10N2O5',
                'Mg0.5Fe0.5O', '((((H2O))))', 'H2(SO4)0.5', 'NaCl', 'LaB6']
    nist = ['Water, Liquid', 'Plutonium Dioxide', 'Ferroboride', 'Air, Dry (near sea level)', 'Gadolinium Oxysulfide', 'Kapton Polyimide Film', 'Bone, Cortical (ICRP)']
    bad = ['', None, 'Uu', '(', ')', 'H2O)', '(H2O', 'h2o', 'H2O2.5.5', 'H-2', '2H', 'H2 O', 'Water', 'water, liquid', 'Si\xc3\xa9', 'A' * 300, 'H' * 2000, '(H)0', 'H0', 'He.', '.5H', 'H(', 'X', 'Hx', '0', 'O2' * 400,
           '\xe9H2O', '\xff', '\x80\x80', 'H\xe9', '(\xe9)2', 'H2O\x01', 'H' + '9' * 400, 'H0.' + '0' * 400 + '1', 'H1e5', 'H1e400', 'H0x10', 'Hinf', 'Hnan', '((((((((((H))))))))))', 'H' * 20000]
    comps = formulas + nist + bad
    Es = [1e-4, 0.0005, 0.001, 0.0011, 0.05, 0.0999, 0.1, 1.0, 8.0, 99.0, 100.0, 799.0, 801.0, 999.9, 1000.0, 1000.1, 5000.0, 10000.0, 10000.1, 1e5, 0.0, -1.0]
    Ex = [-0.0, 5e-324, 1e-310, 2.2250738585072014e-308, 1e-30, 1e30, 1e100]      # the ends of the double format (values up to 1e100: beyond, a*a overflows — C12)
    rhos = [1.0, 2.33, 0.0, -1.0]
    groups = []
    one = lambda l: groups.append([l])
    for c in comps: one('cp ' + esc(c))
    for c in comps:
        one('nistn ' + esc(c)); one('radn ' + esc(c)); one('s2z ' + esc(c)); one('cget ' + esc(c)); one('ccopy ' + esc(c))
    for rn in ('55Fe', '57Co', '109Cd', '125I', '137Cs', '133Ba', '153Gd', '238Pu', '241Am', '244Cm', '60Co', 'fe55'): one('radn ' + esc(rn))
    for i in list(range(-2, 183)) + INT_EXT: one('nisti %d' % i)
    for i in list(range(-2, 13)) + INT_EXT: one('radi %d' % i)
    for z in list(range(-2, 125)) + INT_EXT: one('z2s %d' % z)
    for _ in range(3): one('nistl'); one('radl'); one('clist')
    for k in range(12): one('err %d' % k)
    for k in range(NULL_CALLS): one('null %d' % k)
    for k in (0, 1, 3, 4): one('misc %d' % k)
    for (a, b, c_, d) in [(1.0, 2.0, 3.0, -4.0), (0.0, 0.0, 1.0, 1.0), (-0.0, 1e30, 1e30, 5e-324), (1e-310, 1e-310, 1e-310, 1e-310)]: one('misc 2 %s %s %s %s' % (hx(a), hx(b), hx(c_), hx(d)))
    # formulas synthesised in the harness: nesting depth and length beyond what a protocol line carries (the parser recurses per bracket level)
    for d in ([5, 50, 500, 2000] if not thorough else [5, 50, 500, 2000, 5000]): one('cpdeep %d H2O' % d); one('cpdeep %d %s' % (d, esc('Fe2(SO4)3')))
    one('cpdeep 300 %s' % esc('H2O)('))
    one('cpdeep %d H2O' % DEEP_OVERFLOW)
    for n, u in [(1000, 'H2'), (100000, 'O'), (50000, 'H2O'), (3000, '(OH)2'), (20000, 'Uu')] + ([(400000, 'He')] if thorough else []): one('cplong %d %s' % (n, esc(u)))
    one('cplong 1 H %s' % esc('9' * 3000)); one('cplong 2000 %s %s' % (esc('(H'), esc(')' * 2000)))
    for (a, wa, b, wb) in [('H2O', 0.5, 'SiO2', 0.25), ('H', 1.0, 'H', 1.0), ('Ca5(PO4)3OH', 0.3, 'C6H12O6', 0.7), ('SiO2', 0.0, 'U', -1.0), ('U', 1e300, 'C22H10N2O5', 5e-324), ('(', 0.5, 'H', 0.5)]:
        one('acd %s %s %s %s' % (esc(a), hx(wa), esc(b), hx(wb)))
    # compound cross sections and refractive indices: every function x compound x energies incl. both table ends
    nE = len(Es) if thorough else 8
    for c in comps[:len(formulas) + len(nist) + 26]:
        for k in range(21):
            for E in (Es if thorough else r.sample(Es, nE)) + [r.choice(Ex)]:
                one('cscp %d %s %s %s %s' % (k, esc(c), hx(E), hx(r.choice([0.0, 0.7, 3.14159, -1.0] + Ex[:3] + [1e30])), hx(r.choice([0.0, 1.0, -0.0, 1e100]))))
        for k in range(3):
            for E in Es + [r.choice(Ex)]:
                one('ri %d %s %s %s' % (k, esc(c), hx(E), hx(r.choice(rhos + Ex[1:3] + [1e100]))))
    for c in comps[len(formulas) + len(nist) + 26:]:          # the byte-level / long-digit strings: every function at one energy
        for k in range(21): one('cscp %d %s %s %s %s' % (k, esc(c), hx(8.0), hx(0.7), hx(1.0)))
        for k in range(3): one('ri %d %s %s %s' % (k, esc(c), hx(8.0), hx(1.0)))
    # numeric crystal functions on copies of built-in crystals: energies on both sides of the Bragg cut-off of common reflections
    cn = [n for n, _ in crystal_entries(REPO)]
    for c in (cn if thorough else r.sample(cn, 8)) + ['nope']:
        for (h, k, l) in [(1, 1, 1), (4, 4, 4), (2, 2, 0), (0, 0, 0), (1, 0, 0), (-3, 1, 2)]:
            for E in ([0.5, 1.0, 1.5, 1.9, 2.0, 2.6, 3.0, 5.0, 7.9, 8.0, 10.0, 20.0, -1.0, 0.0] if thorough else r.sample([0.5, 1.0, 1.5, 1.9, 2.0, 2.6, 3.0, 5.0, 7.9, 8.0, 10.0, 20.0], 5) + [-1.0, 0.0]):
                for kf in range(6):
                    one('cfun %d %s %s %d %d %d %s' % (kf, esc(c), hx(E), h, k, l, hx(r.choice([1.0, 0.9, 0.0, -1.0]) if kf in (2, 3) else 1.0)))
    # Miller indices: the whole box [-3,4]^3 at one energy (d-spacing, Bragg angle; F_H on a sample), and the ends of int
    box = [(h, k, l) for h in range(-3, 5) for k in range(-3, 5) for l in range(-3, 5)]
    for c in ['Si', 'AlphaQuartz'] + ([r.choice(cn)] if cn else []):
        for (h, k, l) in box:
            one('cfun 5 %s %s %d %d %d %s' % (esc(c), hx(8.0), h, k, l, hx(1.0))); one('cfun 0 %s %s %d %d %d %s' % (esc(c), hx(12.0), h, k, l, hx(1.0)))
        for (h, k, l) in (box if thorough else r.sample(box, 60)):
            one('cfun 2 %s %s %d %d %d %s' % (esc(c), hx(12.0), h, k, l, hx(0.9)))
    ext3 = [(INT_MAX, 1, 1), (1, INT_MIN, 1), (1, 1, INT_MAX - 1), (INT_MIN, INT_MIN, INT_MIN), (INT_MAX, INT_MAX, INT_MAX), (65536, -65536, 0), (INT_MIN + 1, 0, 0), (0, 0, INT_MIN),
            (46341, 46341, 46341), (-46341, 46341, 1), (65536, 65536, 65536)]
    for c in ['Si', 'Muscovite' if 'Muscovite' in cn else 'Ge', 'nope']:
        for (h, k, l) in ext3:
            for kf in range(6):
                for E in (8.0, 1e30, 5e-324):
                    one('cfun %d %s %s %d %d %d %s' % (kf, esc(c), hx(E), h, k, l, hx(1.0)))
    # F_H_Partial: every flag value (valid 0/1/2, invalid, ends of int) and rel_angle / Debye factors incl. the ends of the format
    flags = [-1, 0, 1, 2, 3, INT_MIN, INT_MAX]
    for c in ['Si', 'nope']:
        for f0 in flags:
            for fp in flags:
                for fpp in (flags if thorough else [0, 2, r.choice(flags)]):
                    one('cfunp %s %s 1 1 1 %s %s %d %d %d' % (esc(c), hx(8.0), hx(1.0), hx(1.0), f0, fp, fpp))
        for rel in [0.0, 0.5, 1.0, 2.0, -1.0, 1e30, 1e300, 5e-324, -0.0]:
            for deb in [1.0, 0.5, 5e-324, 1e300, -0.0]:
                one('cfunp %s %s 2 2 0 %s %s 2 2 2' % (esc(c), hx(8.0), hx(deb), hx(rel)))
            one('cfunp %s %s 2 2 0 %s %s 2 2 2 q' % (esc(c), hx(8.0), hx(1.0), hx(rel)))
    for Z in [-1, 0, 1, 8, 14, 26, 92, 99, 100, 120, 121] + INT_EXT:
        for E in (0.0005, 0.001, 1.0, 8.0, 9999.0, 10001.0, -1.0) + ((r.choice(Ex),) if Z > 0 else ()):
            for q in (0.0, 0.5, 1e9, -1.0, 5e-324, 1e100):
                one('af %d %s %s %s' % (Z, hx(E), hx(q), hx(r.choice([1.0, 0.0, -0.5, 5e-324, 1e300]))))
    # crystal arrays: brackets ainit .. afree with additions, file loads (well-formed, duplicate names, name already present,
    # truncated, garbage, empty, missing, byte-level mutations of a real entry), lookups and listings
    ents = crystal_entries(REPO)
    names = [n for n, _ in ents]
    os.makedirs(sc_dir, exist_ok=True)
    def mkfile(tag, chunks):
        p = os.path.join(sc_dir, tag + '.dat')
        with open(p, 'wb') as f: f.write(''.join(chunks).encode('latin1'))
        return p
    def entry(name, newname=None, drop=None):
        e = list(dict(ents)[name])
        if newname: e[0] = '#S 1 %s\n' % newname
        if drop is not None: e = e[:drop]
        return ''.join(e)
    files = []
    for i in range(9 if not thorough else 45):
        a, b, c = r.sample(names, 3)
        kind = i % 9
        if kind == 0: files.append(mkfile('ok%d' % i, [entry(a, 'N%da' % i), entry(b, 'N%db' % i), '#EOF\n']))
        elif kind == 1: files.append(mkfile('dup%d' % i, [entry(a, 'D%d' % i), entry(b, 'E%d' % i), entry(c, 'D%d' % i), '#EOF\n']))
        elif kind == 2: files.append(mkfile('adj%d' % i, [entry(a, 'D%d' % i), entry(a, 'D%d' % i), '#EOF\n']))
        elif kind == 3: files.append(mkfile('present%d' % i, [entry(a, 'Aaa%d' % i), entry(b, 'Pre'), '#EOF\n']))
        elif kind == 4: files.append(mkfile('trunc%d' % i, [entry(a, 'T%da' % i), entry(b, 'T%db' % i, drop=r.randrange(1, 12))]))
        elif kind == 5: files.append(mkfile('garb%d' % i, ['#S x y\n', 'garbage\n' * 5]))
        elif kind == 6: files.append(mkfile('empty%d' % i, []))
        elif kind == 8:
            # a section whose #L line is followed directly by the next #S: a crystal with zero atoms
            e = list(dict(ents)[a]); k = next(j for j, x in enumerate(e) if x.startswith('#L')) + 1
            files.append(mkfile('noatoms%d' % i, ['#S 1 Z%da\n' % i] + e[1:k] + [entry(b, 'Z%db' % i), '#EOF\n']))
        else: files.append(mkfile('many%d' % i, [entry(r.choice(names), 'M%d_%d' % (i, j)) for j in range(25)] + ['#EOF\n']))
    # byte-level mutations of one real entry (the reader works with fgets(…, 100), sscanf %20s / %d / %lf and fscanf %i %lf…)
    base = entry('Si', 'Mut') + '#EOF\n'
    muts = []
    nm = 40 if not thorough else 300
    for j in range(nm):
        kind = j % 10; t = base
        if kind == 0: t = base[:r.randrange(0, len(base))]                                          # truncated at a random byte
        elif kind == 1: pos = r.randrange(len(base)); t = base[:pos] + chr(r.choice([0x80, 0xff, 0xe9, 0x01, 0x7f])) + base[pos + 1:]   # one byte replaced
        elif kind == 2: pos = r.randrange(len(base)); t = base[:pos] + 'X' * r.choice([99, 100, 101, 250, 2000]) + base[pos:]           # a very long line
        elif kind == 3: t = base.replace('Mut', 'M' * r.choice([19, 20, 21, 40, 300]), 1)           # long crystal name (%20s)
        elif kind == 4: t = re.sub(r'^(\d+)(\s)', lambda m_: r.choice(['99999999999999999999', '-2147483649', '2147483648', '0x7fffffff', '010', '121', '-5', '1e9']) + m_.group(2), base, count=1, flags=re.M)   # Zatom field
        elif kind == 5: t = base.replace('#UCELL', r.choice(['#UCELL nan', '#UCELL 1e999 inf', '#UCELL -0.0', '#UCELLX', '#UCEL']), 1)
        elif kind == 6: t = base.replace('\n', '\r\n')                                                # CRLF
        elif kind == 7: t = base.replace('#L', '#L' + 'y' * 200, 1)                                    # the #L line longer than the read buffer
        elif kind == 8: t = base.replace('\n', '\x00\n', r.randrange(1, 4))                           # NUL bytes
        else: t = ''.join(chr(r.randrange(256)) for _ in range(r.choice([1, 7, 99, 100, 101, 513])))  # random bytes
        muts.append(mkfile('mut%d' % j, [t]))
    files_all = files + muts
    files.append(os.path.join(sc_dir, 'does-not-exist.dat')); files_all.append(files[-1]); files_all.append(sc_dir)      # a directory
    groups.append(['bfill 40'])          # the built-in collection filled up, then 40 refused additions (its own process: the collection is global)
    for h in range(12 if not thorough else 120):
        g = ['ainit %d' % r.choice([0, 1, 2, 3, 9, 10, 11, 19, 20])]
        for j in range(r.randrange(2, 30)):
            k = r.random()
            if k < 0.40: g.append('aadd %s %s' % (esc(r.choice(names)), esc(r.choice(['Pre', 'A%d' % r.randrange(40), r.choice(names)]))))
            elif k < 0.65: g.append('aread ' + esc(r.choice(files)))
            elif k < 0.78: g.append('aget ' + esc(r.choice(['Pre', 'A%d' % r.randrange(40), 'nope', 'Z8a', 'Z8b', r.choice(names)])))
            elif k < 0.88: g.append('ahold ' + esc(r.choice(['Pre', 'A%d' % r.randrange(40), 'Mut', r.choice(names)])))
            elif k < 0.92: g.append('adrop')
            else: g.append('alist')
        g.append('afree')
        g.append('adrop')          # copies handed out earlier are used and released AFTER the array is gone
        groups.append(g)
    for f in muts + [sc_dir]: groups.append(['ainit 2', 'aread ' + esc(f), 'ahold Mut', 'alist', 'aget Mut', 'afree', 'adrop'])
    # array capacities at the ends of int (a refused capacity leaves no array: the rest of the bracket is then not executed)
    for n in [-1, INT_MIN, INT_MIN + 1, -65536, 65536, INT_MAX, INT_MAX - 1, 1 << 24]:
        groups.append(['ainit %d' % n, 'aadd Si Pre', 'alist', 'afree'])
    return groups

# Deep nesting: CompoundParserSimple recurses once per bracket level (xraylib-parser.c:253); with the 8 MiB stack the harness runs under, the
# ASan build overflows between 20000 and 25000 levels.  known_findings.txt records it under this key; ONLY a stack-overflow death of a
# `cpdeep N …` operation with N >= DEEP_MIN is filed under it — anything else on such an operation is a violation of its own.
DEEP_KEY = 'cpdeep CompoundParserSimple recursion xraylib-parser.c:253'
DEEP_MIN = 20000
DEEP_OVERFLOW = 40000

ASAN_OPTS = 'detect_leaks=0:abort_on_error=0:exitcode=99:allocator_may_return_null=1:max_allocation_size_mb=3072'

def run_heap(ctx, exe, groups, locale='C', extra_env=None, timeout=600):
    """runs the groups in parallel worker processes; -> {group index: (answer lines, None | text of the death)}"""
    import subprocess, concurrent.futures
    nw = 12
    buckets = [[] for _ in range(nw)]
    for i, g in enumerate(groups): buckets[i % nw].append(i)
    env = {k: v for k, v in os.environ.items() if not k.startswith('LC_') and k != 'LANG'}
    env.update(ASAN_OPTIONS=ASAN_OPTS, UBSAN_OPTIONS='halt_on_error=1:exitcode=99', LC_ALL=locale)
    if extra_env: env.update(extra_env)
    def limits():
        import resource          # a fixed stack size: the depth at which the recursive parser overflows must not depend on the caller's ulimit
        try: resource.setrlimit(resource.RLIMIT_STACK, (8 << 20, resource.getrlimit(resource.RLIMIT_STACK)[1]))
        except (ValueError, OSError): pass
    results = {}
    def work(idxs):
        todo = list(idxs)
        while todo:
            lines = [l for i in todo for l in groups[i]]
            try:
                p = subprocess.run([exe], input='\n'.join(lines) + '\n', capture_output=True, text=True, errors='replace', env=env, timeout=timeout, preexec_fn=limits)
            except subprocess.TimeoutExpired as ex:
                class P: pass
                p = P(); p.returncode = -9; p.stdout = ex.stdout.decode('latin1') if isinstance(ex.stdout, bytes) else (ex.stdout or ''); p.stderr = 'no answer within %d s (hang)' % timeout
            out = p.stdout.split('\n'); out = out[:-1] if out and out[-1] == '' else out
            pos = 0; nxt = []
            for n, i in enumerate(todo):
                k = len(groups[i])
                got = out[pos:pos + k]
                if len(got) == k:
                    results[i] = (got, None); pos += k
                else:
                    # the process died inside this group: record, then continue with the remaining groups in a fresh process
                    txt = p.stderr or ''
                    head = re.search(r'ERROR: AddressSanitizer: [^\n]*|runtime error: [^\n]*|WARNING: MemorySanitizer: [^\n]*', txt)
                    results[i] = (got, ((head.group(0) + '\n') if head else '') + txt[-1500:] or 'exit %d' % p.returncode)
                    nxt = todo[n + 1:]
                    break
            todo = nxt
    with concurrent.futures.ThreadPoolExecutor(nw) as ex: list(ex.map(work, buckets))
    return results

ANS = re.compile(r'(-?\d+) d=(open|held-imbalance|-?\d+) e=(\d)(?: c=(-?\d+) m=(-?\d+) v=(\S+) ow=(\d+) dg=(\d+) fd=(-?\d+) p=(-?\d+) fa=(\d))?')

def parse_heap(a):
    m = ANS.match(a)
    if not m: return None
    g = m.groups()
    return dict(rc=int(g[0]), d=g[1], e=int(g[2]), c=int(g[3]) if g[3] is not None else -1, m=int(g[4]) if g[4] is not None else 0, v=g[5] or '-',
                ow=int(g[6] or 0), dg=int(g[7] or 0), fd=int(g[8] or 0), p=int(g[9] or -1), fa=int(g[10] or 0))

def first_report(died):
    first = re.search(r'(ERROR: AddressSanitizer: [^\n]*|runtime error: [^\n]*|WARNING: MemorySanitizer: [^\n]*|double free[^\n]*|SUMMARY: [^\n]*)', died or '')
    return first.group(1) if first else (died or '')[-300:]

def judge_groups(gs, res, tag, viol, kinds, counters, what='sanitizer abort / crash in the real library during a call history over the allocating API'):
    """memory judgement of one run: every answer well-formed, balance 0, no descriptor left open, no death"""
    for i, g in enumerate(gs):
        got, died = res.get(i, ([], 'not run'))
        refused = False
        for l, a in zip(g, got):
            counters['ops'] += 1; kinds[l.split(' ')[0]] = kinds.get(l.split(' ')[0], 0) + 1
            key = (' ; '.join(g) if len(g) > 1 else l) + tag
            if a == 'bad-op' and refused:
                continue                      # the array of this bracket was refused at ainit: nothing to run
            m = parse_heap(a)
            if not m:
                viol.append(dict(key=key, got=a, expected='an answer', what='heap harness: malformed answer')); continue
            if l.split(':')[-1].startswith('ainit ') and m['rc'] == 0: refused = True
            if m['e'] == 1: counters['fail'] += 1
            if m['d'] not in ('open', '0'):
                viol.append(dict(key=key, got=a, expected='d=0: no block allocated on behalf of the finished call(s) is still held after release',
                                 what='memory still held after the documented release (%s blocks), %s path' % (m['d'], 'failure' if (m['e'] == 1 or a.startswith('0 ')) else 'success')))
            if m['fd'] != 0:
                viol.append(dict(key=key, got=a, expected='fd=0: no file descriptor opened by the call is still open when it returns',
                                 what='file descriptor / FILE* left open (%+d), %s path' % (m['fd'], 'failure' if m['e'] == 1 else 'success')))
            mdp = re.match(r'(?:[NP]:)?cpdeep (\d+) (H2O|Fe2%28SO4%293)$', l)
            if mdp and not (m['rc'] == 1 and m['v'].startswith('x') and abs(core.unhx(m['v']) - {'H2O': 18.015, 'Fe2%28SO4%293': 399.9}[mdp.group(2)]) < 0.1):
                viol.append(dict(key=key, got=a, expected='the composition of the formula inside the brackets (molar mass %s)' % {'H2O': '18.015', 'Fe2%28SO4%293': '399.88'}[mdp.group(2)],
                                 what='a formula nested in %s bracket pairs: rejected or parsed to another composition' % mdp.group(1)))
            if l.split(':')[-1].split(' ')[0] == 'adrop' and m['rc'] < 0:
                viol.append(dict(key=key, got=a, expected='every copy handed out by the array is still a complete crystal after later additions / loads / release of the array',
                                 what='a crystal copy kept by the caller was damaged by a later operation on the array (shared storage)'))
        if died is not None:
            at = g[len(got)] if len(got) < len(g) else g[-1]
            md = re.match(r'(?:[NP]:)?cpdeep (\d+) ', at)
            if md and int(md.group(1)) >= DEEP_MIN and 'stack-overflow' in died and len(g) == 1:
                viol.append(dict(key=DEEP_KEY, got=first_report(died)[:200], expected='no undefined access', what='stack overflow: unbounded recursion of the formula parser on %s nested bracket pairs (%s)' % (md.group(1), at))); continue
            viol.append(dict(key=(' ; '.join(g[:len(got) + 1]) if len(g) > 1 else at) + tag, got=first_report(died), expected='no undefined access', what='%s (at: %s)' % (what, at)))

# operations swept with an allocation failure at every position
def oom_ops(ctx, files_dir):
    from vlib.core import hx
    ops = ['cp H2O', 'cp ' + esc('Ca5(PO4)3OH'), 'cp ' + esc('('), 'cp Uu', 'nistn ' + esc('Water, Liquid'), 'nistn nope', 'nisti 5', 'nisti -1', 'nistl', 'radn 55Fe', 'radn nope', 'radi 3', 'radi 99', 'radl',
           'z2s 26', 'z2s -1', 's2z Fe', 's2z Xx', 'cget Si', 'cget nope', 'ccopy Si', 'clist', 'ainit 4', 'ainit -1',
           'cscp 0 H2O %s x0 x0' % hx(8.0), 'cscp 0 %s %s x0 x0' % (esc('Water, Liquid'), hx(8.0)), 'cscp 0 H2O %s x0 x0' % hx(-1.0), 'cscp 0 nope %s x0 x0' % hx(8.0), 'cscp 13 SiO2 %s %s x0' % (hx(8.0), hx(0.7)),
           'ri 0 H2O %s %s' % (hx(8.0), hx(1.0)), 'ri 2 %s %s %s' % (esc('Water, Liquid'), hx(8.0), hx(-1.0)), 'ri 1 nope %s %s' % (hx(8.0), hx(1.0)),
           'cfun 0 Si %s 1 1 1 %s' % (hx(8.0), hx(1.0)), 'cfun 2 Si %s 1 1 1 %s' % (hx(8.0), hx(1.0)), 'cfun 2 Si %s 1 1 1 %s' % (hx(-1.0), hx(1.0)), 'cfun 5 Si %s 0 0 0 %s' % (hx(8.0), hx(1.0)),
           'af 26 %s %s %s' % (hx(8.0), hx(0.5), hx(1.0)), 'af -1 %s %s %s' % (hx(8.0), hx(0.5), hx(1.0)), 'acd H2O %s SiO2 %s' % (hx(0.5), hx(0.5)), 'misc 4', 'err 1', 'err 2', 'err 5', 'null 0', 'null 1', 'null 10']
    return ops

def oom_sweep(ctx, exe, files_dir, maxn=80):
    """fail the n-th allocation of each operation, n = 1, 2, … until the operation makes fewer than n (fa=0).
    -> (n evaluated, results: list of dict(op, n, outcome, got))"""
    from vlib.core import hx
    ops = oom_ops(ctx, files_dir)
    # a bracket with a file load and additions: the failure is armed for ONE operation of the bracket (the array must stay consistent and be released completely)
    okf = [f for f in sorted(os.listdir(files_dir)) if f.startswith('ok')]
    brackets = []
    if okf:
        f = esc(os.path.join(files_dir, okf[0]))
        brackets = [(['ainit 1', 'aadd Si Pre'], 'aread ' + f, ['alist', 'aget Pre', 'afree']), (['ainit 0'], 'aadd Si Pre', ['aadd Ge G2', 'alist', 'afree']),
                    (['ainit 1', 'aadd Si Pre'], 'aadd Ge G2', ['aget G2', 'alist', 'afree']), (['ainit 2', 'aadd Si Pre'], 'alist', ['afree']), (['ainit 2', 'aadd Si Pre'], 'aget Pre', ['afree']),
                    (['ainit 2', 'aadd Si Pre'], 'ahold Pre', ['afree', 'adrop'])]
    active = [('s', o) for o in ops] + [('b', b) for b in brackets]
    # what each operation does when no allocation fails
    bres = run_heap(ctx, exe, [[o] for o in ops])
    base = {o: parse_heap((bres.get(i, ([], None))[0] or ['?'])[0]) for i, o in enumerate(ops)}
    results = []; nev = 0
    for n in range(1, maxn + 1):
        if not active: break
        gs = [['F%d:%s' % (n, x)] if k == 's' else (x[0] + ['F%d:%s' % (n, x[1])] + x[2]) for k, x in active]
        res = run_heap(ctx, exe, gs)
        nxt = []
        for i, (k, x) in enumerate(active):
            got, died = res.get(i, ([], 'not run')); nev += 1
            idx = 0 if k == 's' else len(x[0])
            name = x if k == 's' else ' ; '.join(x[0] + [x[1]] + x[2])
            if died is not None:
                results.append(dict(op=name, n=n, outcome='crash', got=first_report(died), line=' ; '.join(gs[i]))); nxt.append((k, x)); continue
            ms = [parse_heap(a) for a in got]
            m = ms[idx] if idx < len(ms) else None
            if m is None or any(y is None and a != 'bad-op' for y, a in zip(ms, got)):
                results.append(dict(op=name, n=n, outcome='malformed', got=' | '.join(got), line=' ; '.join(gs[i]))); continue
            if not m['fa']: continue                      # fewer than n allocations: this operation is done
            nxt.append((k, x))
            b = base.get(x) if k == 's' else None
            op0 = (x if k == 's' else x[1]).split(' ')[0]
            out = 'ok-failed' if m['e'] else 'ok-result'
            if any(y is not None and y['d'] not in ('0', 'open') for y in ms): out = 'leak'
            elif any(y is not None and y['fd'] != 0 for y in ms): out = 'fd-leak'
            elif m['e'] and (m['m'] <= 0 or (m['rc'] != 0 and op0 not in ('err', 'misc', 'null'))): out = 'bad-error'       # an error without a message, or an error next to a result
            elif not m['e'] and m['rc'] == 0 and b is not None and b['rc'] != 0 and op0 not in ('err', 'misc'): out = 'null-without-error'
            elif m['e'] and m['c'] != 0 and not (b is not None and b['e'] and b['c'] == m['c']): out = 'ok-failed-other-code'
            results.append(dict(op=name, n=n, outcome=out, got=got[idx], line=' ; '.join(gs[i])))
        active = nxt
    return nev, results

def heap_search(check, ctx, ksuf=None):
    from vlib import cbuild
    from vlib.core import REPO
    exe = ctx.sc.path('c04heap')
    lfl = ctx.cfl + ['-I' + os.path.join(REPO, 'src')] + WRAP
    cbuild.link(ctx.sc, ctx.objs, [os.path.join(VERIF, 'harness', 'c04heap.c')], exe, lfl)
    groups = heap_groups(ctx, ctx.sc.path('c04files'))
    # the same single operations once more WITHOUT an error slot (ownership of nested error objects) and with a slot that ALREADY holds
    # an error (the failing call must neither leak the error it cannot store nor free the one it finds), and the operations that
    # parse a compound once more in a non-C numeric locale (the parser saves / switches / restores LC_NUMERIC)
    singles = [g for g in groups if len(g) == 1 and not g[0].startswith(('err ', 'bfill ', 'misc ', 'cpdeep ', 'cplong '))]
    noslot = [['N:' + g[0]] for g in singles]
    pre = [['P:' + g[0]] for g in (singles if ctx.tier == 'thorough' else singles[::3])]
    loc = [g for g in groups if g[0].split(' ')[0] in ('cp', 'cscp', 'ri', 'acd', 'cplong')]
    if ctx.tier != 'thorough': loc = loc[::3]
    viol = []; kinds = {}; cnt = dict(ops=0, fail=0)
    for tag, gs, locale in (('', groups + noslot + pre, 'C'), ('  @LC_ALL=C.UTF-8', loc + [['N:' + g[0]] for g in loc[::4]], 'C.UTF-8')):
        res = run_heap(ctx, exe, gs, locale)
        judge_groups(gs, res, tag, viol, kinds, cnt)
    st = dict(heap_groups=len(groups), heap_noslot_ops=len(noslot), heap_prefilled_slot_ops=len(pre), heap_nonC_locale_groups=len(loc))
    # the _CP functions that read the Kissel tables succeed only on a filled table: the regenerated configuration
    if ksuf:
        kexe = ctx.sc.path('c04heap' + ksuf)
        kobjs = [x for x in ctx.objs if not x.endswith('xrayglob_inline.c.o')] + [ctx.sc.path('o_san', 'xrayglob_inline_%s.c.o' % ksuf)]
        cbuild.link(ctx.sc, kobjs, [os.path.join(VERIF, 'harness', 'c04heap.c')], kexe, lfl)
        kg = [g for g in groups if len(g) == 1 and re.match(r'cscp (8|9|10|11) ', g[0])]
        kg = kg + [['N:' + g[0]] for g in kg[::2]]
        kres = run_heap(ctx, kexe, kg)
        judge_groups(kg, kres, '  @real', viol, kinds, cnt)
        st['heap_kissel_cp_ops'] = len(kg)
        st['heap_kissel_cp_succeeded'] = sum(1 for i in range(len(kg)) for a in kres.get(i, ([], None))[0] if (parse_heap(a) or {}).get('e') == 0 and (parse_heap(a) or {}).get('rc'))
    # allocation failures
    nev, oom = oom_sweep(ctx, exe, ctx.sc.path('c04files'))
    cls = {}
    for x in oom: cls[x['outcome']] = cls.get(x['outcome'], 0) + 1
    per = {}
    for x in oom:
        k = 'crash' if x['outcome'] == 'crash' else 'clean' if x['outcome'] in ('ok-result', 'ok-failed') else 'contract-break'
        per.setdefault(x['op'][:120], dict(crash=0, **{'contract-break': 0}, clean=0))[k] += 1
    st['alloc_failure_sweep'] = dict(note='OBSERVATION ONLY (allocation failure is outside the quantifier of C04): the n-th allocation made inside one operation returns NULL, n = 1, 2, … until the operation makes fewer; '
                                          'clean = fails with an error / completes, nothing leaked; contract-break = NULL without error, error without message, leak, unexpected code; crash = sanitizer abort',
                                     evaluations=nev, fired=len(oom), outcomes=cls, operations=len({x['op'] for x in oom}), per_operation=per,
                                     examples={k: [dict(line=x['line'], got=x['got'][:160]) for x in oom if x['outcome'] == k][:4] for k in cls})
    if OOM_IS_VIOLATION:
        for x in oom:
            if x['outcome'] in ('crash', 'leak', 'fd-leak', 'bad-error', 'malformed', 'null-without-error'):
                viol.append(dict(key=x['line'], got=x['got'], expected='the call fails with an error (XRL_ERROR_MEMORY) or completes; no undefined access, nothing left allocated or open',
                                 what='allocation failure (the %d-th allocation of the call returns NULL): %s' % (x['n'], x['outcome'])))
    # uninitialised reads: the histories once more under MemorySanitizer (library sources compiled with it too)
    if os.environ.get('VERIF_C04_MSAN', '1') != '0':
        mn, mv, mst = msan_pass(check, ctx, groups + (noslot if ctx.tier == 'thorough' else noslot[::5]))
        viol += mv; st.update(mst); cnt['ops'] += mn
    st.update(heap_ops=cnt['ops'], heap_op_kinds=kinds, heap_failure_paths=cnt['fail'])
    return cnt['ops'] + nev, viol, st

# Allocation failure is outside the quantifier of C04 ("for any arguments … and any sequence of calls": a failing allocator is neither):
# the sweep is an evidence-only OBSERVATION (counts per outcome and per operation in `alloc_failure_sweep`), never a violation.
# Not claimed: behaviour under allocation failure (notes/C0304B_REPORT.md lists what the sweep sees on the unchanged library).
OOM_IS_VIOLATION = False

def msan_pass(check, ctx, groups):
    """library + harness under clang -fsanitize=memory: a read of an uninitialised value that decides a branch / is passed to libc dies"""
    import time
    from vlib import cbuild
    from vlib.core import REPO
    t = time.time()
    objs, fl = cbuild.build_lib(ctx.sc, REPO, san='memory', tag='msan', extra=('-fsanitize-memory-track-origins=2',))
    exe = ctx.sc.path('c04heap_msan')
    cbuild.link(ctx.sc, objs, [os.path.join(VERIF, 'harness', 'c04heap.c')], exe, fl + ['-I' + os.path.join(REPO, 'src')] + WRAP)
    gs = [g for g in groups if not g[0].split(':')[-1].startswith(('cpdeep', 'cplong 100000', 'cplong 400000', 'bfill'))]
    res = run_heap(ctx, exe, gs, extra_env=dict(MSAN_OPTIONS='exitcode=99:halt_on_error=1:allocator_may_return_null=1:max_allocation_size_mb=3072'))
    viol = []; kinds = {}; cnt = dict(ops=0, fail=0)
    judge_groups(gs, res, '  @MemorySanitizer', viol, kinds, cnt, what='MemorySanitizer: use of an uninitialised value / crash in the real library')
    ctx.tick('msan', t)
    return cnt['ops'], viol, dict(msan_ops=cnt['ops'], msan_groups=len(gs))

CHECK = C04()
