"""C20 — every language binding declares the C API with the same constants and types.

Per-language lexers (tools/extract_bindings.py) are run on the repository's current files, their output goes into
the Lean kernel as chunked tables (lean-l4/XrlL4/Gen/C20.lean) and the theorems of lean-l4/XrlL4/Props/C20.lean
decide agreement.  The violation search is the entry-level comparison of the same tables (tools/gen_c20.py),
which names file, line, constant/function, value found and value expected."""
import os, sys, re, json, time, subprocess
from vlib import core, l4, cbuild
from vlib.cbuild import REPO, VERIF, BuildError
from vlib.core import log

ID = 'C20'
MODULE = 'XrlL4.Props.C20'
NAMESPACE = 'XrlL4.C20'
PROPS = os.path.join(l4.L4_DIR, 'XrlL4', 'Props', 'C20.lean')
TOOLS = os.path.join(VERIF, 'tools')
# which theorem speaks about which kind of difference (used to explain a failed build)
THEOREM_OF = dict(constant='constants_agree_%s', family='families_complete_%s', prototype='prototypes_agree_%s',
                  reference='prototypes_agree_%s', **{'prototype-cpp': 'prototypes_agree_cpp_types'}, export='declared_is_exported', **{'constant-dynamic': 'constants_agree_java_dynamic'}, version='versions_agree', duplicate='constants_agree_%s',
                  struct='struct_layouts_agree_%s', **{'struct-cpp': 'struct_members_agree_cpp', 'idl-common': 'idl_common_exact', 'binding-body': 'cython_bodies_bind_same_name',
                     'wrapper-binding': '%s_wrappers_bind_same_name', 'public-signature': 'pascal_public_signatures_agree', 'iface-impl': 'pascal_iface_matches_impl',
                     'idl-routine': 'idl_routines_agree', 'idl-sources': 'idl_sources_same', 'build-sources': 'library_sources_agree',
                     'libtool-version': 'libtool_versions_agree', 'swig-includeall': 'swig_reaches_all_headers'})


def repo_sources(ctx):
    """the C sources of the shared library as src/meson.build defines it (the generated table file is built by build_prdata)"""
    sys.path.insert(0, TOOLS)
    import extract_bindings as X
    from l4common import TieError
    try:
        bdef = X.library_build_definition(REPO)
    except TieError as e:
        raise BuildError('the library\'s build definition could not be read: %s' % e)
    missing = [f for f in bdef['meson'] if f not in bdef['generated'] and not os.path.exists(os.path.join(REPO, 'src', f))]
    if missing: raise BuildError('src/meson.build lists sources that do not exist: %s' % missing)
    return bdef


def build_exports(ctx):
    """link a shared library from the working tree (PIC, -fvisibility=hidden as in src/meson.build) and list its
    defined dynamic function symbols"""
    t = time.time()
    cbuild.build_prdata(ctx.sc, REPO)
    # the headers choose their export / deprecation macros by compiler (`__GNUC__` version tests): the library is linked with BOTH
    # compilers of this image (gcc is what meson uses by default, clang what the other checks use) and a function counts as exported
    # only when both builds export it
    per = {}
    bdef = repo_sources(ctx)
    srcs = [f for f in bdef['meson'] if f not in bdef['generated']]
    if bdef['generated'] != ['xrayglob_inline.c']: raise BuildError('src/meson.build: generated sources of libxrl are %s, this check generates xrayglob_inline.c' % bdef['generated'])
    if sorted(srcs) != sorted(cbuild.LIBXRL):
        ctx.source_list_differs = sorted(set(srcs) ^ set(cbuild.LIBXRL))
    for cc, tag in (('gcc', 'picgcc'), ('clang-14', 'pic')):
        objs, fl = cbuild.build_lib(ctx.sc, REPO, san=None, opt='-O0', extra=['-fPIC', '-fvisibility=hidden'], tag=tag, cc=cc, srcs=srcs)
        so = ctx.sc.path('libxrl_%s.so' % tag)
        cbuild.run([cc, '-shared', '-o', so] + objs + ['-lm'])
        out = cbuild.run(['nm', '-D', '--defined-only', so]).stdout
        per[cc] = {l.split()[-1] for l in out.splitlines() if len(l.split()) >= 3 and l.split()[-2] == 'T'}
    syms = sorted(per['gcc'] & per['clang-14'])
    ctx.notes.append('exported symbols: gcc %d, clang %d, both %d%s' % (len(per['gcc']), len(per['clang-14']), len(syms),
                     '' if per['gcc'] == per['clang-14'] else '; only one compiler exports: %s' % sorted(per['gcc'] ^ per['clang-14'])[:8]))
    path = ctx.sc.path('exported.txt'); open(path, 'w').write('\n'.join(syms) + '\n')
    open(ctx.sc.path('built_sources.txt'), 'w').write('\n'.join(sorted(srcs + bdef['generated'])) + '\n')
    ctx.tick('c_build', t)
    return path, len(syms)


JAVA_PROBE = '''import java.lang.reflect.Field;
public class XrlConsts {
  /* prints the run-time loaded constants of class Xraylib after its static initialiser (XRayInit) has run: NAME <declared type> <bits of the value as double> */
  public static void main(String[] names) throws Exception {
    Class<?> k = Class.forName("com.github.tschoonj.xraylib.Xraylib");
    for (String n : names) {
      Field f;
      try { f = k.getField(n); } catch (NoSuchFieldException e) { System.out.println(n + " missing 0"); continue; }
      double v = f.getType() == int.class ? (double) f.getInt(null) : f.getDouble(null);
      System.out.println(n + " " + f.getType().getName() + " " + Long.toHexString(Double.doubleToRawLongBits(v)));
    }
  }
}
'''

def java_dynamic_run(ctx, dynamic, cnames):
    """the constants of java/Xraylib.java that have no literal (XRayInit() fills them from xraylib.dat, which java/pr_data_java.c writes), OBSERVED:
    the generator and the Java classes are built from the working tree exactly as C19 builds them (props/c19.py: build_java_dat,
    build_java_classes), a small Java program prints the fields after class initialisation, a small C program prints the macros of the same
    names from the public headers; the two must be bit-identical.  -> (differences, observed values).  BuildError if Java cannot be built."""
    import struct
    from props import c19
    t = time.time()
    sc = ctx.sc; jd = sc.path('java_c20')
    names = [n for n, ty, ln in dynamic]
    if not names: return [], []
    c19.build_java_dat(sc, jd)
    c19.build_java_classes(jd)
    src = sc.path('XrlConsts.java'); open(src, 'w').write(JAVA_PROBE)
    pj = subprocess.run(['javac', '-encoding', 'UTF-8', '-nowarn', '-cp', os.path.join(jd, 'classes'), '-d', os.path.join(jd, 'classes'), src], capture_output=True, text=True)
    if pj.returncode != 0: raise BuildError('javac failed on the constant probe: ' + (pj.stdout + pj.stderr)[-1500:])
    pr = subprocess.run(['java', '-XX:+UseSerialGC', '-XX:TieredStopAtLevel=1', '-cp', os.path.join(jd, 'classes'), 'XrlConsts'] + names, capture_output=True, text=True, timeout=300)
    if pr.returncode != 0: raise BuildError('the Java constant probe failed (class initialisation of Xraylib?): ' + (pr.stdout + pr.stderr)[-1500:])
    jv = {}
    for l in pr.stdout.splitlines():
        w = l.split()
        if len(w) == 3: jv[w[0]] = (w[1], int(w[2], 16))
    if set(jv) != set(names): raise BuildError('the Java constant probe answered for %s, asked for %s' % (sorted(jv), names))
    # the C headers' values of the same names, through the real compiler
    cn = [n for n in names if n in cnames]
    csrc = sc.path('c20_hdrvals.c')
    with open(csrc, 'w') as f:
        f.write('#include <stdio.h>\n#include <string.h>\n#include <stdint.h>\n#include "xraylib.h"\n'
                'static void pr(const char *n, double v) { uint64_t b; memcpy(&b, &v, 8); printf("%s %llx\\n", n, (unsigned long long)b); }\nint main(void) {\n')
        for n in cn: f.write('  pr("%s", (double)(%s));\n' % (n, n))
        f.write('  return 0;\n}\n')
    exe = sc.path('c20_hdrvals')
    cbuild.run(['clang-14'] + cbuild.cflags(REPO, sc.path('b')) + ['-O0', '-w', csrc, '-o', exe])
    pc = subprocess.run([exe], capture_output=True, text=True)
    if pc.returncode != 0: raise BuildError('the header-value program failed: ' + pc.stderr[-500:])
    cv = {l.split()[0]: int(l.split()[1], 16) for l in pc.stdout.splitlines() if len(l.split()) == 2}
    fl = lambda b: struct.unpack('<d', struct.pack('<Q', b))[0]
    diffs = []; obs = []
    for n, ty, ln in dynamic:
        jt, jb = jv[n]
        obs.append(dict(name=n, java_type=jt, java_value=repr(fl(jb)), c_header=repr(fl(cv[n])) if n in cv else None, identical=(n in cv and cv[n] == jb)))
        if n in cv and cv[n] != jb:
            diffs.append(dict(kind='constant-dynamic', binding='java', name=n, file='java/Xraylib.java', line=ln, found=repr(fl(jb)), expected=repr(fl(cv[n])), key='java/Xraylib.java %s' % n,
                              what='observed: after XRayInit() the running class has Xraylib.%s = %r (xraylib.dat written by java/pr_data_java.c of the working tree); the C headers have %s = %r' % (n, fl(jb), n, fl(cv[n]))))
    ctx.tick('java_dynamic', t)
    return diffs, obs


def run(tier, seed, replay=None):
    return l4.guarded(ID, 'proof', _run, tier, seed, replay)


def _run(ctx, replay):
    problems = []; tie = []; proof_broken = []; proof_log = ''
    exported, n_exp = build_exports(ctx)
    with l4.Lock():
        rc, err = l4.run_tool(ctx, 'gen_c20.py', [ctx.sc.path('b'), l4.GEN_DIR, ctx.aux, exported, ctx.sc.path('built_sources.txt')], 'extract')
        tie_info = None
        if rc == 3:
            tie_info = json.load(open(os.path.join(ctx.aux, 'c20_tie.json')))
            tie.append('extractor aborted (broken tie): %s:%s: %s: %r' % (tie_info['file'], tie_info['line'], tie_info['why'], tie_info['text']))
            ok_build, blog = False, 'tables not regenerated: ' + tie[0]
        else:
            ok_build, blog = l4.lake_build(ctx, [MODULE])
    if rc != 3 and not ok_build:
        proof_broken = l4.failing_theorems(blog, PROPS) or ['(module %s does not build)' % MODULE]
        proof_log = l4.first_errors(blog)
    theorems, axioms, n_dis = l4.audit(ctx, MODULE, PROPS, NAMESPACE, ['C20.lean'], ok_build, problems)
    if ctx.tier == 'thorough' and ok_build: l4.leanchecker(ctx, MODULE, problems)

    js = None
    if rc != 3:
        js = json.load(open(os.path.join(ctx.aux, 'c20.json')))
        if getattr(ctx, 'source_list_differs', None):
            tie.append('src/meson.build builds libxrl from a different source list than vlib/cbuild.py LIBXRL (which every other check links): %s' % ctx.source_list_differs)
    diffs = js['diffs'] if js else []
    if js: tie += js.get('soft_tie', [])
    # ---- the Java constants without literal, observed in the running class (complements the static table `const_java_dynamic`)
    java_obs = None
    if js:
        try:
            dd, java_obs = java_dynamic_run(ctx, [tuple(x) for x in js['java_dynamic']], set(js['c']['constants']))
            fk = {k for k, _ in l4.load_findings(ID)}
            for d in dd:
                old = next((x for x in diffs if x['key'] == d['key'] and x['kind'] == d['kind']), None)
                if old: old['what'] += '  |  ' + d['what']
                else: diffs.append(dict(d, known=d['key'] in fk))
        except (BuildError, OSError, subprocess.SubprocessError) as e:
            tie.append('the run-time loaded Java constants (%s) could not be observed - java/pr_data_java.c + javac + java on the working tree failed: %s' % (
                       ', '.join(x[0] for x in js['java_dynamic']), str(e)[:1500]))
    if replay:
        want = {l.split(' ', 1)[1].strip() for l in open(replay) if l.startswith('entry ')}
        diffs = [d for d in diffs if d['key'] in want]
    known = [d for d in diffs if d.get('known')]
    new = [d for d in diffs if not d.get('known')]
    what_of = dict(l4.load_findings(ID))
    for d in known:
        print('KNOWN-FINDING: property=%s %s: %s' % (ID, d['key'], what_of.get(d['key']) or d['what']))
    stale = [k for k in what_of if js and k not in {d['key'] for d in js['diffs']}]
    if stale: ctx.notes.append('finding entries that no longer reproduce (suppress nothing): ' + '; '.join(stale))

    exit_code = 0
    broken = proof_broken or tie or problems
    if new:
        body = '# C20 violated: the entries below differ from the C headers (re-check with ./check C20 --replay <this file>)\n'
        for d in new[:200]:
            tk = THEOREM_OF.get(d['kind'], '(no theorem indexed for kind %s)' % d['kind'])
            th = tk % d['binding'] if '%s' in tk else tk
            if d['kind'] == 'struct' and d['binding'] == 'cython': th = 'struct_members_agree_cython'
            short = {t.rsplit('.', 1)[-1] for t in theorems}
            if th not in short and th + '_partial' in short: th += '_partial'
            body += '# %s:%s  %s\n#   found:    %s\n#   expected: %s\n#   theorem:  %s\nentry %s\n' % (d['file'], d['line'], d['what'], d['found'], d['expected'], th, d['key'])
        if broken:
            body += '\n# broken obligations: %s\n' % json.dumps(dict(proof=proof_broken, tie=tie, other=problems))[:3000]
        path = core.write_replay(ctx, body)
        print('VIOLATION property=%s replay=%s' % (ID, path)); exit_code = 1
    elif broken:
        body = '# C20 is no longer shown to hold; the entry-level comparison found no differing entry (%d entries compared)\n' % (js['counts']['c_constants'] if js else 0)
        if proof_broken: body += '# theorems that no longer check: %s\n# %s\n' % (', '.join(proof_broken), proof_log.replace('\n', '\n# '))
        for x in tie: body += '# broken tie: %s\n' % x
        for x in problems: body += '# %s\n' % x
        path = core.write_replay(ctx, body)
        print('VIOLATION property=%s replay=%s no-failing-input-found' % (ID, path)); exit_code = 1

    # ---- evidence ----------------------------------------------------------------------------------------
    cnt = js['counts'] if js else {}
    compared = 0; nontriv = 0; samples = []
    if js:
        cn = js['c']['constants']
        for b, tab in js['bindings'].items():
            ci = b in ('fortran', 'pascal', 'idl')
            for c in tab:
                compared += 1
                k = c['name'].upper() if ci else c['name']
                if k in cn: nontriv += 1
            pick = [c for c in tab if (c['name'].upper() if ci else c['name']) in cn]
            for c in (pick[ctx.rng.randrange(len(pick))],) if pick else ():
                samples.append(dict(binding=b, file=c['file'], line=c['line'], name=c['name'], declares=c['shown'], c_header=cn[c['name'].upper() if ci else c['name']]['shown']))
        for s, ps in js['protos'].items():
            compared += len(ps); nontriv += len({p['cname'] for p in ps})
            p = ps[ctx.rng.randrange(len(ps))]
            samples.append(dict(set=s, file=p['file'], line=p['line'], declares=p['text'], c_prototype=js['c']['prototypes'].get(p['cname'], {}).get('text')))
        compared += len(js['cpp_types']); nontriv += len({p['cname'] for p in js['cpp_types']})
        if js['cpp_types']:
            p = js['cpp_types'][ctx.rng.randrange(len(js['cpp_types']))]
            samples.append(dict(set='cpp wrapper types', file=p['file'], line=p['line'], declares=p['text'], c_prototype=js['c']['prototypes'].get(p['cname'], {}).get('text')))
        compared += len(js.get('cpp_members', [])); nontriv += len({(r['struct'], r['field']) for r in js.get('cpp_members', [])})
        if js.get('cpp_members'):
            r = js['cpp_members'][ctx.rng.randrange(len(js['cpp_members']))]
            samples.append(dict(set='cpp value class members', file=r['file'], line=r['line'], declares='%s %s::%s' % (r['declared'], r['cls'], r['member']), c_struct=r['struct'], c_field=r['field'],
                                c_field_type=next((t for n, t in next((st['fields'] for st in js['structs']['c'] if st['name'] == r['struct']), []) if n == r['field']), None)))
        compared += len(js['swig']['refs']) + len(js['cpp']['refs']) + len(js['versions']) + len(js['c']['public_functions'])
        nontriv += len(js['swig']['refs']) + len({r['text'] for r in js['cpp']['refs']}) + len(js['versions']) + len(js['c']['public_functions'])
        samples += [dict(version_statement=v) for v in js['versions'][:3]]
        # the clause-audit tables: wrapper↔symbol pairs, public Pascal declarations, iface/impl pairs, IDL routines (two sets), records,
        # library sources (two build definitions + this build), libtool statements, SWIG invocations
        extra = (sum(cnt.get('calls_' + k, 0) for k in ('fortran', 'pascal', 'idl')) + cnt.get('pascal_public', 0) + cnt.get('pascal_iface', 0) + cnt.get('idl_dlm', 0) + cnt.get('idl_sysfun', 0)
                 + sum(cnt.get('struct_' + k, 0) for k in ('fortran', 'pascal', 'cython')) + 3 * cnt.get('lib_sources', 0) + cnt.get('libtool', 0) + cnt.get('swig_invocations', 0))
        compared += extra; nontriv += extra
        for k in ('fortran', 'pascal', 'cython'):
            for st in js['structs'][k][:1]: samples.append(dict(record=st['name'], file=st['file'], line=st['line'], c_struct=st['cname'], fields=st['fields']))
        e = js['idl_routines']['dlm'][ctx.rng.randrange(len(js['idl_routines']['dlm']))]
        samples.append(dict(idl_routine=e['text'], file=e['file'], line=e['line'], c_prototype=js['c']['prototypes'].get(e['name'], {}).get('text')))
    cov = dict(obligations=max(len(theorems), 1), discharged=n_dis,
               checker_cmd='cd lean-l4 && lake build %s   (tables: tools/gen_c20.py; then `#print axioms` on each theorem)' % MODULE,
               trusted_base=l4.TRUSTED_BASE,
               theorems=[dict(name=t, axioms=axioms.get(t)) for t in theorems],
               traces_validated_against_impl=(cnt.get('c_constants', 0) + cnt.get('c_prototypes', 0)) if js else 0,
               evaluations=compared, distinct_nontrivial=nontriv, exhaustive=True,
               rule='every constant / foreign declaration / wrapper↔symbol pair / IDL routine / record type / hand-written reference / version and libtool statement / library source / SWIG invocation found by the extractors in the binding interface and build files is compared with the C headers (or, for build files, with each other) '
                    '(no sampling; the seed only selects the samples shown here); non-trivial = the binding entry carries a C name (a comparison really takes place), distinct by (set, C name). '
                    'traces_validated_against_impl = C constants whose value the compiled program printed identically + C prototypes the compiler accepted',
               samples=samples, counts=cnt, exported_symbols=n_exp,
               differences=[dict(key=d['key'], what=d['what'], known=bool(d.get('known'))) for d in diffs][:100],
               known_findings_reproduced=len(known), new_violations=len(new),
               broken=dict(proof=proof_broken, tie=tie, other=problems),
               idl_common=js['idl'] if js else None, java_loaded_at_runtime=dict(fields=js['java_dynamic'], feed=js.get('java_dynamic_feed'), observed_in_the_running_class=java_obs) if js else None,
               wrappers=js['wrappers'] if js else None, idl_glue_defined_but_not_registered=js['idl_routines']['defined_not_registered'] if js else None,
               library_build=dict(meson=len(js['build']['meson']), automake=len(js['build']['automake']), built=js['build']['built'], facts=js['build']['facts']) if js else None,
               cpp_wrapper_types=js.get('cpp_types_info') if js else None, cpp_value_classes=js.get('cpp_members_info') if js else None, libtool=js['libtool'] if js else None, swig_invocations=js['swig_invocations'] if js else None)
    core.write_evidence(ctx, 'proof', cov, len(new) + (1 if broken and not new else 0),
                        ['the bindings\' run-time behaviour (Fortran/Pascal/Python/Java/IDL compilers, SWIG) is not modelled: declarations are compared, not executed',
                         'Java constants without initialiser (ZMAX … R_E) are read at class-load time from the head of xraylib.dat, written by java/pr_data_java.c: covered statically (both ends lexed, table const_java_dynamic, '
                         'little-endian x86 byte order assumed on both sides) and by observation (the generator and the classes are built and a Java program prints the fields; needs javac/java on PATH, else a broken tie)',
                         'Fortran real literals are compared as exact decimals (the default-kind rounding of an unsuffixed literal is not modelled)',
                         'record layouts are compared as field sequences under each language\'s type map (Fortran BIND(C) and Pascal {$PACKRECORDS C} are taken to lay out equal sequences equally); '
                         'a Pascal `array of T` field and `PAnsiChar` count as pointers, a Pascal enumeration as int',
                         'windows/dotNetSrc (the separately maintained .NET wrapper) is outside the binding interfaces the property lists: neither its constants nor its assembly version are read',
                         'IDL structure tags built in idl/xraylib_idl.c (IDL_STRUCT_TAG_DEF) are not compared with the C structs'])
    log('%s %s: exit %d  (%.1fs; theorems %d/%d; %d entries compared, %d known findings, %d new)' % (ID, ctx.tier, exit_code, time.time() - ctx.t0, n_dis, len(theorems), compared, len(known), len(new)))
    return exit_code


class _Check:
    id = ID
    def run(self, tier, seed, replay=None): return run(tier, seed, replay)


CHECK = _Check()
