"""C08 — Kissel XRF cross sections equal the cascade model built from the primitives."""
import json, math, os, re
from vlib.runner import Check
from vlib import core
from vlib.core import hx, unhx

SH = ['K', 'L1', 'L2', 'L3', 'M1', 'M2', 'M3', 'M4', 'M5']
VAR = {'no_Cascade': 'none', 'Radiative_Cascade': 'rad', 'Nonradiative_Cascade': 'auger', 'Cascade': 'full'}
CONSTF = ['P%s_get_cross_sections_constant_%s' % (s, v) for s in SH[1:] for v in ('auger_only', 'full')]

def val(ans):
    p = core.parse_answer(ans)
    if p['kind'] != 'ok': return 'bad'
    if p['slot'] in ('E', 'N'): return p['vals'][0] if p['slot'] == 'E' or p['vals'][0] != 0 else (p['vals'][0] if p['slot'] == 'E' else None)
    if p['slot'].startswith('F') and p['vals'][0] == 0: return None
    return 'bad'

def r11(x): return float('%.10E' % x)

class C08(Check):
    id = 'C08'
    module = 'Xrl.Props.C08'
    namespace = 'Xrl.C08'
    extra_modules = [('Xrl.Props.C08%s' % x, 'Xrl.C08') for x in 'bcdefgh']
    functions = CONSTF + ['CS_FluorShell_Kissel_%s' % v for v in VAR] + ['CS_FluorLine_Kissel_%s' % v for v in VAR]
    assumptions = ['the Kissel photo-ionisation table is EMPTY in this tree (data/kissel_pe.dat): in the shipped configuration every Kissel call must fail cleanly; '
                   'the code is exercised with values in a second configuration whose Kissel table is synthetic (tools/synth_kissel.py: well-formed, not physical)',
                   'constants theorems for L1/L2 sources assume CKZero (Coster-Kronig-type Auger rates are 0), which C11.auger_rate_spec proves for the tables prdata writes and the search checks on the run-time table']

    # ---------------------------------------------------------------- name-derived structure (independent of the Lean side: from hdr_vals.json)
    def names(self, ctx):
        if hasattr(ctx, '_c08n'): return ctx._c08n
        vals = json.load(open(ctx.sc.path('aux', 'hdr_vals.json')))
        ints = {n: v['value'] for n, v in vals.items() if v['kind'] == 'I'}
        sh = {n[:-6]: v for n, v in ints.items() if n.endswith('_SHELL')}
        feed = {}; ckaug = set()
        for n, a in ints.items():
            m = re.fullmatch(r'(K|[LMNOPQ]\d)_(K|[LMNOPQ]\d)(K|[LMNOPQ]\d)_AUGER', n)
            if not m: continue
            i, h1, h2 = m.groups()
            if h1[0] == i[0] or h2[0] == i[0]: ckaug.add(a)
            for t in {h1, h2}:
                feed.setdefault((sh[t], sh[i]), []).append(([h1, h2].count(t), a))
        lines = {n[:-5]: v for n, v in ints.items() if n.endswith('_LINE')}
        ck = {}
        for n, v in ints.items():
            m = re.fullmatch(r'F([LM])P?(\d)(\d)_TRANS', n)
            if m: ck.setdefault((sh[m.group(1) + m.group(3)], sh[m.group(1) + m.group(2)]), []).append(v)   # (target, source) -> transitions
        ctx._c08n = dict(sh=sh, feed=feed, ckaug=ckaug, lines=lines, ck=ck, ints=ints)
        return ctx._c08n

    # ---------------------------------------------------------------- build-time constants (prdata phase)
    def extra_steps(self, ctx, rep):
        ctx.build_prdrv()
        lines = ['%s %d %d' % (f, Z, s) for f in CONSTF for Z in list(range(0, 122, 1 if ctx.tier == 'thorough' else 3)) for s in range(-1, 6)]
        c = ctx.run_prdrv(lines); m = ctx.run_model(lines, dump='pdump')
        mism = [(l, a, b) for l, a, b in zip(lines, c, m) if not core.answers_agree(a + ' E', b + ' E')]
        ctx.notes.append('constants: prdrv vs model on raw tables: %d lines, %d mismatches' % (len(lines), len(mism)))
        if mism:
            rep['tie_broken'].append('vacancy-transfer constants: model and xrf_cross_sections_aux-private.c disagree on %d of %d lines; first: %s | impl %s | model %s' % (len(mism), len(lines), *mism[0]))
        self._const = dict(zip(lines, c))
        # run-time tables = %.10E of the derivation functions: every cell xrf_cross_sections_constants_{full,auger_only}[Z][t][s] of the tables
        # compiled into the library against what the real derivation function returns in the prdata process for (Z, s)
        req = []; want = []
        for l, a in zip(lines, c):
            f, Z, s_ = l.split(); Z = int(Z); s_ = int(s_); t = SH.index(f[1:3])
            if not (1 <= Z <= 120 and 0 <= s_ <= 3): continue
            pa = core.parse_answer(a + ' E')
            if pa['kind'] != 'ok': continue
            tab = 'xrf_cross_sections_constants_' + ('auger_only' if 'auger_only' in f else 'full')
            req.append('cell %s %d' % (tab, (Z * 9 + t) * 4 + s_)); want.append((l, pa['vals'][0]))
        bad_cells = []
        for r_, (l, v), g in zip(req, want, ctx.run_model(req)):
            gv = unhx(g.split(' ')[1]); w = float('%.10E' % v)
            if gv != w: bad_cells.append('%s = %r, %s returns %r (-> %r)' % (r_, gv, l, v, w))
        ctx.notes.append('run-time constant tables vs derivation functions: %d cells, %d differ' % (len(req), len(bad_cells)))
        ctx.coverage['constant_cells_checked'] = len(req)
        if bad_cells: rep['tie_broken'].append('run-time vacancy-transfer constants are not the 11-digit print of the derivation functions: ' + '; '.join(bad_cells[:3]))
        # specification (name-derived lists) vs the real functions
        sl = []
        for l in lines:
            f, Z, s = l.split(); t = SH.index(f[1:3])
            sl.append('spec.%s %s %d %s' % ('constAuger' if 'auger_only' in f else 'constFull', Z, t, s))
        e = ctx.run_model(sl, dump='pdump')
        self._cviol = []; self._cn = 0
        for l, a, b in zip(lines, c, e):
            f, Z, s = l.split(); t = SH.index(f[1:3]); s = int(s)
            valid_src = (s == 0) if t <= 3 else (0 <= s <= 3)
            exp = unhx(b.split()[1]) if valid_src else 0.0
            got = core.parse_answer(a + ' E')
            self._cn += 1
            if got['kind'] != 'ok' or not core.close(got['vals'][0], exp, 1e-12):
                self._cviol.append(dict(key=l, got=a, expected='value %r (name-derived Auger/line lists)' % exp, what='vacancy-transfer constant'))
        # CKZero on the run-time table + run-time constant tables = %.10E of the functions
        n = self.names(ctx)
        ck = sorted(n['ckaug'])
        q = ['AugerRate %d %d N' % (Z, a) for Z in range(1, 121) for a in ck]
        bad = [l for l, o in zip(q, ctx.run_c(q)) if core.parse_answer(o)['vals'][0] != 0]
        if bad: self._cviol.append(dict(key=bad[0], got='non-zero', expected='0 (Coster-Kronig-type)', what='CKZero data invariant fails on the run-time table'))

    # ---------------------------------------------------------------- run-time functions
    def energies(self, ctx, Z):
        """energies bracketing every K/L/M edge of the element (just below, just above), the geometric mean of each pair of
        neighbouring edges (the windows in which a sub-shell is excited and the next is not) and fixed energies spanning the tables"""
        if not hasattr(ctx, '_c08edges'):
            q = ['EdgeEnergy %d %d N' % (z, s) for z in range(1, 121) for s in range(9)]
            ctx._c08edges = {}
            for l, o in zip(q, ctx.run_c(q)):
                v = core.parse_answer(o)['vals'][0]
                if v > 0: ctx._c08edges.setdefault(int(l.split()[1]), []).append(v)
        ed = sorted(set(ctx._c08edges.get(Z, [])))
        mids = [(a * b) ** 0.5 for a, b in zip(ed, ed[1:])]
        brack = [e * f for e in ed for f in (1 - 1e-5, 1 + 1e-5)]
        fixed = [0.5, 1.0, 3.0, 8.0, 15.0, 40.0, 100.0, 150.0]
        if ctx.tier == 'thorough': return sorted(set(mids + brack + fixed))
        r = ctx.rng
        return sorted(set(mids + r.sample(brack, min(4, len(brack))) + r.sample(fixed, 3)))

    def kissel_lines(self, ctx):
        if hasattr(ctx, '_c08kl'): return ctx._c08kl
        out = []
        step = 1 if ctx.tier == 'thorough' else 4
        off = ctx.rng.randrange(step)
        n = self.names(ctx)
        line_vals = sorted(set(v for k, v in n['lines'].items()))
        for Z in range(1 + off, 99, step):
            Es_ = self.energies(ctx, Z)
            for E in Es_:
                for sh in range(-1, 11):
                    for v in list(VAR) + ['']:
                        for pre in ('CS', 'CSb'):
                            fn = '%s_FluorShell_Kissel%s' % (pre, '_' + v if v else '')
                            out.append('%s %d %d %s E' % (fn, Z, sh, hx(E)))
                    out.append('CS_Photo_Partial %d %d %s E' % (Z, sh, hx(E))); out.append('CSb_Photo_Partial %d %d %s E' % (Z, sh, hx(E)))
                base_ln = [0, 1, 2, 3, 4, -1, -2, -3, -5, -29, -30, -58, -59, -63, -85, -86, -89, -90, -95, -113, -114, -116, -118, -137, -150, -159, -181, -200, -219, -383, -384]
                for ln in (list(range(4, -386, -1)) if ctx.tier == 'thorough' and E == Es_[len(Es_) // 2] else base_ln + ctx.rng.sample(range(-383, 0), 6)):
                    for v in list(VAR) + ['']:
                        for pre in ('CS', 'CSb'):
                            out.append('%s_FluorLine_Kissel%s %d %d %s E' % (pre, '_' + v if v else '', Z, ln, hx(E)))
                for fn in ('CS_Total_Kissel', 'CSb_Total_Kissel', 'CS_Photo_Total', 'CSb_Photo_Total'):
                    out.append('%s %d %s E' % (fn, Z, hx(E)))
        # every line macro of the header (all 383 lines + the group macros + one value on either side) for EVERY element, at the highest
        # energy of the element's grid (above all its edges), full-cascade variant: the line -> sub-shell map of the code (line_mappings)
        # is a table of macro ranges; a range that loses its first or last macro shows only for that one macro, and only for the
        # elements that have a rate for it (seeded change C08-7: M3Q1_LINE, Z = 93..98)
        if ctx.tier != 'thorough':
            for Z in range(1, 99):
                E = max(self.energies(ctx, Z))
                for sh in range(0, 9): out.append('CS_FluorShell_Kissel_Cascade %d %d %s E' % (Z, sh, hx(E)))     # the oracle's shell values at this (Z, E)
                for ln in range(4, -386, -1):
                    out.append('CS_FluorLine_Kissel_Cascade %d %d %s E' % (Z, ln, hx(E)))
        ctx._c08kl = out
        return out

    def corr_lines(self, ctx):
        ls = self.kissel_lines(ctx)
        return ls[::7] + [l[:-1] + 'N' for l in ls[3::41]]      # shipped (empty) configuration: a thinner sample

    def search(self, ctx):
        viol = list(getattr(self, '_cviol', [])); ntot = getattr(self, '_cn', 0)
        # (1) shipped configuration: every Kissel call fails cleanly
        ls = self.kissel_lines(ctx)[::5]
        c = ctx.run_c(ls)
        for l, o in zip(ls, c):
            p = core.parse_answer(o)
            if not (p['kind'] == 'ok' and p['vals'][0] == 0 and p['slot'].startswith('F')):
                viol.append(dict(key=l, got=o, expected='fails (Kissel table is empty in this tree)', what='empty-table configuration'))
        ntot += len(ls)
        # (2) regenerated configurations (real Kissel from data/kissel, and a synthetic stress table): model vs
        #     implementation, and the cascade oracle
        kl = self.kissel_lines(ctx)
        nontriv = 0; per_cfg = {}; hyp_exec = {}
        for kind in ('real', 'synth'):
            suf = ctx.build_kissel_config(kind)
            ck = ctx.run_c(kl, exe=ctx.sc.path('cdrv' + suf))
            try:
                mk = ctx.run_model(kl, dump='dump' + suf)
                stats = {}
                mm = [(l, a, b) for l, a, b in zip(kl, ck, mk) if not core.answers_agree(a, b, stats)]
                if mm:
                    viol.append(dict(key=mm[0][0] + '  @' + kind, got=mm[0][1], expected='model: ' + mm[0][2], what='%s-Kissel configuration: generated model and implementation disagree on %d of %d lines' % (kind, len(mm), len(kl))))
            except core.BuildError:
                pass
            ntot += len(kl)
            # the data hypotheses of C08h.ownOK_of_shape (KisselShaped, WeightDefined), executed on the tables of THIS configuration
            try:
                sh2 = ctx.run_model(['spec.shapeFailures2', 'spec.weightFailures'], dump='dump' + suf)
                for o, nm in zip(sh2, ('shapeFailures2', 'weightFailures')):
                    bad = [x for x in o[len('shape ['):-1].split(', ') if x and (nm != 'shapeFailures2' or x.startswith('Kissel'))]
                    for b in bad[:5]:
                        viol.append(dict(key='%s:%s  @%s' % (nm, b, kind), got='false', expected='Kissel sub-shell table well-formed / atomic weight present wherever a Kissel table is',
                                         what='data hypothesis of C08h.ownOK_of_shape (Part 1 -> Part 2) fails on the %s-Kissel tables built from the working tree' % kind))
                hyp_exec[kind] = [len([x for x in o[len('shape ['):-1].split(', ') if x]) for o in sh2]
            except core.BuildError:
                pass
            ov, on, nt = self.oracle(ctx, kl, ck, suf)
            for v in ov: v['key'] = v['key'] if v['key'].startswith('kissel_pe.c') else v['key'] + '  @' + kind
            viol += ov; ntot += on; nontriv += nt
            per_cfg[kind] = dict(lines=len(kl), oracle_cases=on, nontrivial=nt, succeeded=sum(1 for o in ck if core.parse_answer(o).get('slot') == 'E'))
        stats = dict(rule='(a) all 16 constant functions x Z x source shells vs name-derived lists, on the raw tables in the prdata process; (b) shipped configuration: every Kissel entry point fails; '
                          '(c) two regenerated configurations (Kissel table rebuilt from data/kissel by tools/regen_kissel.py; synthetic stress table): 9 shells x 26 line macros x 5 variants x {cm2/g, barn} x 8 energies x Z (every %s) compared with the generated model and with the reference recursion '
                          'over the public primitives (Auger terms selected by parsing macro names); non-trivial = shell/line values reproduced by the oracle' % ('Z' if ctx.tier == 'thorough' else '4th Z, seeded offset'),
                     distinct_nontrivial=nontriv, kissel_config_lines=len(kl), kissel_configs=per_cfg, ownOK_hypotheses_failures=hyp_exec,
                     samples=[dict(call=kl[i], impl=ck[i]) for i in (5, len(kl) // 2, len(kl) - 3)])
        return ntot, viol, stats

    def oracle(self, ctx, kl, ck, suf='K'):
        """reference recursion over the public primitives of the real library (regenerated configuration)"""
        n = self.names(ctx)
        exe = ctx.sc.path('cdrv' + suf)
        Zs = sorted({int(l.split()[1]) for l in kl})
        EsZ = {}
        for l in kl:
            if 'FluorShell' in l: EsZ.setdefault(int(l.split()[1]), set()).add(unhx(l.split()[-2]))
        prim = []
        for Z in Zs:
            for s in range(9):
                prim += ['FluorYield %d %d N' % (Z, s), 'AugerYield %d %d N' % (Z, s)]
                for E in sorted(EsZ.get(Z, ())): prim.append('CS_Photo_Partial %d %d %s N' % (Z, s, hx(E)))
            for a in range(996): prim.append('AugerRate %d %d N' % (Z, a))
            for v in sorted(set(n['lines'].values())): prim.append('RadRate %d %d N' % (Z, v))
            for t in range(1, 15): prim.append('CosKronTransProb %d %d N' % (Z, t))
            prim.append('AtomicWeight %d N' % Z)
        pv = {}
        for l, o in zip(prim, ctx.run_c(prim, exe=exe)):
            p = core.parse_answer(o); pv[l[:-2]] = p['vals'][0] if p['kind'] == 'ok' else 0.0
        g = lambda *a: pv.get(' '.join(str(x) for x in a), 0.0)
        def consts(Z, t, s):
            aug = g('AugerYield', Z, s) * sum(m * g('AugerRate', Z, a) for m, a in n['feed'].get((t, s), []))
            ln = n['lines'].get(SH[s] + SH[t])
            rad = g('FluorYield', Z, s) * g('RadRate', Z, ln) if ln is not None else 0.0
            return rad, aug
        def P(Z, E, variant):
            Pv = [0.0] * 9
            for t in range(9):
                own = g('CS_Photo_Partial', Z, t, hx(E))
                if own == 0.0: Pv[t] = 0.0; continue
                rv = own
                for s in range(t):
                    if Pv[s] <= 0: continue
                    if SH[s][0] == SH[t][0]:
                        rv += sum(g('CosKronTransProb', Z, tr) for tr in n['ck'].get((t, s), [])) * Pv[s]
                    else:
                        rad, aug = consts(Z, t, s)
                        if variant == 'rad': rv += Pv[s] * rad
                        elif variant == 'auger': rv += Pv[s] * r11(aug)
                        elif variant == 'full': rv += Pv[s] * r11(rad + aug)
                Pv[t] = rv
            return Pv
        viol = []; cnt = 0; nontriv = 0
        cache = {}
        for l, o in zip(kl, ck):
            t = l.split()
            m = re.fullmatch(r'(CSb?)_FluorShell_Kissel(?:_(\w+))?', t[0])
            if not m: continue
            Z, sh, E = int(t[1]), int(t[2]), unhx(t[3])
            variant = VAR[m.group(2)] if m.group(2) else 'full'
            cnt += 1
            got = val(o)
            if not (0 <= sh <= 8) or not (1 <= Z <= 120):
                if got is not None: viol.append(dict(key=l, got=o, expected='fails', what='invalid shell'))
                continue
            key = (Z, E, variant)
            if key not in cache: cache[key] = P(Z, E, variant)
            Pt = cache[key][sh]; w = g('FluorYield', Z, sh)
            exp = Pt * w if (Pt != 0 and w != 0) else None
            if exp is not None and m.group(1) == 'CSb': exp = exp * g('AtomicWeight', Z) / 0.602214129
            if exp is None:
                if got is not None and got != 'bad': viol.append(dict(key=l, got=o, expected='fails (below the edge / no yield)', what='cascade oracle'))
            else:
                nontriv += 1
                if got in (None, 'bad') or not core.close(got, exp, 1e-9):
                    viol.append(dict(key=l, got=o, expected='value %r = yield x vacancy production (%s)' % (exp, variant), what='cascade oracle over public primitives'))
        # line cross sections: shell value x radiative rate, shell taken from the line macro's NAME
        shell_of = {}
        for nm, v in n['lines'].items():
            m = re.match(r'(K|[LM]\d)[LMNOPQ]\d', nm)
            if m and v < 0: shell_of.setdefault(v, SH.index(m.group(1)))
        shellval = {}
        for l, o in zip(kl, ck):
            t = l.split()
            if re.fullmatch(r'CSb?_FluorShell_Kissel(?:_(\w+))?', t[0]): shellval[(t[0].replace('Shell', 'Line'), t[1], int(t[2]), t[3])] = val(o)
        for l, o in zip(kl, ck):
            t = l.split()
            if not re.fullmatch(r'CSb?_FluorLine_Kissel(?:_(\w+))?', t[0]): continue
            ln = int(t[2])
            if ln not in shell_of or shell_of[ln] > 8: continue
            sv = shellval.get((t[0], t[1], shell_of[ln], t[3]))
            rr = g('RadRate', int(t[1]), ln)
            if sv in (None, 'bad') or sv is None: continue
            cnt += 1
            got = val(o)
            if rr > 0 and sv:
                nontriv += 1
                if got in (None, 'bad') or not core.close(got, sv * rr, 1e-9):
                    intra = SH[shell_of[ln]][0] == 'M' and [k for k, v in n['lines'].items() if v == ln and re.fullmatch(r'M\dM\d', k)]
                    viol.append(dict(key='kissel_pe.c:337 line_mappings excludes the intra-M lines' if intra else l, got=o,
                                     expected='value %r = shell value x RadRate' % (sv * rr), what='Kissel line cross section (%s)' % l))
        # grouped lines (KA, KB, LA, LB macros 0..3): the sum over the member lines of shell value x radiative rate, in the SAME
        # variant and unit; members from the macro NAMES (KL*, K[MNOP]*, L3M4/L3M5, the Siegbahn L-beta aliases + L3N6, L3N7)
        L = n['lines']
        members = {L['KA']: [v for k, v in L.items() if re.fullmatch(r'KL\d', k)],
                   L['KB']: [v for k, v in L.items() if re.fullmatch(r'K[MNOP]\d', k)],
                   L['LA']: [L['L3M4'], L['L3M5']],
                   L['LB']: [L[k] for k in ('LB1', 'LB2', 'LB3', 'LB4', 'LB5', 'LB6', 'LB7', 'LB9', 'LB10', 'LB15', 'LB17', 'L3N6', 'L3N7')]}
        for l, o in zip(kl, ck):
            t = l.split()
            if not re.fullmatch(r'CSb?_FluorLine_Kissel(?:_(\w+))?', t[0]): continue
            ln = int(t[2])
            if ln not in members: continue
            tot = 0.0; ok = True
            if ln in (L['KA'], L['KB'], L['LA']):
                # one shell: shell value x the GROUP's radiative rate (C10: K-alpha / L-alpha rate = sum of the members, K-beta = complement to one)
                sv = shellval.get((t[0], t[1], 0 if ln != L['LA'] else 3, t[3]), 'bad')      # no shell value asked at this (Z, E): no claim
                if sv == 'bad': continue
                tot = (sv or 0.0) * g('RadRate', int(t[1]), ln)
                mem = []
            else: mem = sorted(set(members[ln]))
            for mv in mem:
                if mv not in shell_of: ok = False; break
                sv = shellval.get((t[0], t[1], shell_of[mv], t[3]), 'bad')
                if sv == 'bad': ok = False; break
                tot += (sv or 0.0) * g('RadRate', int(t[1]), mv)
            if not ok: continue
            cnt += 1
            got = val(o)
            if tot > 0:
                nontriv += 1
                if got in (None, 'bad') or not core.close(got, tot, 1e-9):
                    viol.append(dict(key=l, got=o, expected='value %r = sum over the member lines of shell value x RadRate (same variant)' % tot, what='Kissel GROUP line cross section'))
            elif got not in (None,):
                viol.append(dict(key=l, got=o, expected='fails (no member line has a cross section)', what='Kissel GROUP line cross section'))
        # ordering: none <= radiative <= full and none <= non-radiative <= full; the un-suffixed functions are the full-cascade ones
        byarg = {}
        for l, o in zip(kl, ck):
            t = l.split()
            m = re.fullmatch(r'(CSb?_Fluor(?:Shell|Line)_Kissel)(?:_(\w+))?', t[0])
            if m: byarg.setdefault((m.group(1), t[1], t[2], t[3]), {})[m.group(2) or ''] = (val(o), l, o)
        for key_, d_ in byarg.items():
            vs = {k: v[0] for k, v in d_.items()}
            if any(v == 'bad' for v in vs.values()): continue
            cnt += 1
            num = {k: (v or 0.0) for k, v in vs.items()}
            def le(a_, b_): return a_ in num and b_ in num and num[a_] <= num[b_] * (1 + 1e-12) + 1e-300
            for a_, b_ in (('no_Cascade', 'Radiative_Cascade'), ('no_Cascade', 'Nonradiative_Cascade'), ('Radiative_Cascade', 'Cascade'), ('Nonradiative_Cascade', 'Cascade')):
                if a_ in num and b_ in num and not le(a_, b_):
                    viol.append(dict(key=d_[b_][1], got='%s = %r > %s = %r' % (a_, num[a_], b_, num[b_]), expected='%s <= %s' % (a_, b_), what='ordering of the cascade variants'))
            if '' in vs and 'Cascade' in vs and vs[''] != vs['Cascade']:
                viol.append(dict(key=d_[''][1], got=d_[''][2], expected='the value of the _Cascade variant: ' + d_['Cascade'][2], what='the un-suffixed function is the full-cascade one'))
        seen = set(); out = []
        for v in viol:
            if v['key'] in seen: continue
            seen.add(v['key']); out.append(v)
        return out[:200], cnt, nontriv

CHECK = C08()
