"""C06 — compound quantities follow the mass-fraction mixture rule.

Flow (DESIGN 2.7): build the library + harness/c06drv.c from the working tree (ASan+UBSan, allocation counter, lookup
wrappers), re-extract the shape of the 21 `_CP` functions and of the refractive-index functions from the clang AST into
lean-c06/XrlC06/Gen/Table.lean, `lake build` the theorems (lean-c06/XrlC06/Props/C06.lean) and the model driver, audit,
correspondence (hand model run with the lookups and elemental values the real library reports vs the real `_CP` /
refractive results), violation search (mixture rule from the public elemental functions vs the real functions), evidence."""
import os, sys, re, json, time, subprocess, random, hashlib, fcntl, math
from concurrent.futures import ThreadPoolExecutor
from vlib import core, cbuild
from vlib.core import hx, unhx
from vlib.cbuild import VERIF, REPO, BuildError
sys.path.insert(0, os.path.join(VERIF, 'tools'))
import c07gen as G

ID = 'C06'
LEAN_DIR = os.path.join(VERIF, 'lean-c06')
MODULE = 'XrlC06.Props.C06'
NAMESPACE = 'XrlC06.C06'
PROPS_FILE = os.path.join(LEAN_DIR, 'XrlC06', 'Props', 'C06.lean')
TABLE_FILE = os.path.join(LEAN_DIR, 'XrlC06', 'Gen', 'Table.lean')
WRAP = ['-Wl,--wrap=malloc,--wrap=calloc,--wrap=realloc,--wrap=free,--wrap=strdup,--wrap=strndup,--wrap=vasprintf',
        '-Wl,--wrap=CompoundParser,--wrap=GetCompoundDataNISTByName,--wrap=Fi,--wrap=CS_Total']

REQUIRED_THEOREMS = ['cp_table_conforms', 'cp_template_conforms', 'refr_template_conforms',
                     'cp_value', 'cp_element_fails', 'cp_unknown_compound', 'cp_formula_precedence', 'cp_nist_fallback',
                     'cp_zero_product_witness', 'cp_mixture_full_fails', 'cp_fails_full_fails', 'cp_zero_product', 'cp_spec', 'cp_temporaries_released',
                     'cp_mixture_full_fixed', 'cp_element_fails_fixed', 'cp_fails_full_fixed', 'cp_temporaries_released_fixed',
                     'refr_guard_errors', 'refr_nist_density', 'refr_re_spec', 'refr_re_element_stops', 'refr_re_element_fails',
                     'refr_re_zero_witness', 'refr_im_spec', 'refr_im_element_stops', 'refr_im_element_fails', 'refr_im_zero_witness',
                     'refr_complex_spec', 'refr_complex_element_stops', 'refr2_eq', 'refr_temporaries_released']
MIN_EXAMPLES = 14
# known-finding site (matched by this exact key; the classification below decides, per call, whether a failure IS this site's behaviour)
K_MASK = 'cs_cp.c:48-51 zero elemental value ends the loop before a failing element'

F1 = ['CS_Total', 'CS_Photo', 'CS_Rayl', 'CS_Compt', 'CSb_Total', 'CSb_Photo', 'CSb_Rayl', 'CSb_Compt', 'CS_Energy',
      'CS_Photo_Total', 'CSb_Photo_Total', 'CS_Total_Kissel', 'CSb_Total_Kissel']
F2 = ['DCS_Rayl', 'DCS_Compt', 'DCSb_Rayl', 'DCSb_Compt']
F3 = ['DCSP_Rayl', 'DCSP_Compt', 'DCSPb_Rayl', 'DCSPb_Compt']
CPF = F1 + F2 + F3
REFR = {'Refractive_Index_Re': 're', 'Refractive_Index_Im': 'im', 'Refractive_Index': 'cx', 'Refractive_Index2': 'cx2'}
ARITY = dict([(f, 1) for f in F1] + [(f, 2) for f in F2] + [(f, 3) for f in F3] + [(f, 2) for f in REFR])
K_RE = 4.15179082788e-4          # "K" of the property text (r_e N_A (hc)^2 / 2 pi in keV, g/cm3)
K_IM = 9.8663479e-9              # hc / 4 pi in keV cm
UNKNOWN_COMPOUND = 'Compound is not a valid chemical formula and is not present in the NIST compound database'

def log(*a): core.log(*a)

def esc(s):
    if isinstance(s, str): s = s.encode('latin1')
    if not s: return '%'
    ok = set(b'ABCDEFGHIJKLMNOPQRSTUVWXYZabcdefghijklmnopqrstuvwxyz0123456789.()_-')
    return ''.join(chr(c) if c in ok else '%%%02X' % c for c in s)

def unesc(t): return G.unesc(t).decode('latin1')

def bad_range(fn):
    """elements for which the elemental function(s) of `fn` have no data (DESIGN §3 C06)"""
    if fn == 'CS_Energy': return (93, 103)
    if fn == 'Refractive_Index_Re': return (101, 103)
    return (99, 103)

# ------------------------------------------------------------------------------------------------
# answers of the harness

def parse_els(s):
    if not s: return []
    out = []
    for it in s.split(','):
        z, w = it.split(':'); out.append((int(z), unhx(w)))
    return out

def parse_out(o):
    """-> ('v', x) | ('e', code, msg) | ('bad', text)"""
    if o.startswith('x') and len(o) == 17: return ('v', unhx(o))
    m = re.fullmatch(r'e(\d+):([^!]*)', o)
    if m: return ('e', int(m.group(1)), m.group(2))
    return ('bad', o)

def parse_c(ans):
    """`ok v [v2] slot live=d | P=.. N=.. V=.. L=n` -> dict or None (died / malformed)"""
    if ' | ' not in ans or not ans.startswith('ok '): return None
    res, par = ans.split(' | ', 1)
    t = res.split(' ')
    vals = []; i = 1
    while i < len(t) and re.fullmatch(r'x[0-9a-f]{16}', t[i]): vals.append(unhx(t[i])); i += 1
    if i + 2 != len(t) or not t[i + 1].startswith('live='): return None
    d = dict(res=res, par=par, vals=vals, slot=t[i], live=int(t[i + 1][5:]))
    pt = par.split(' ')
    if len(pt) != 4 or not (pt[0].startswith('P=') and pt[1].startswith('N=') and pt[2].startswith('V=') and pt[3].startswith('L=')): return None
    P, N, V = pt[0][2:], pt[1][2:], pt[2][2:]
    d['P'] = None if P == '-' else parse_els(P.split(';', 1)[1])
    if N == '-': d['N'] = None
    else:
        b, rho, els = N.split(';', 2); d['N'] = (unhx(rho), parse_els(els))
    d['V'] = {}
    if V != '-':
        for it in V.split(','):
            z, o = it.split(':', 1); d['V'][int(z)] = [parse_out(x) for x in o.split('/')]
    d['L'] = int(pt[3][2:])
    d['model_par'] = ' '.join(pt[:3])
    return d

def split_line(line):
    """harness line -> (prefix tokens (`zero a b` and/or `inj P N`), fn, mode, compound token, [double args])"""
    t = line.split(' ')
    o = 0
    if t[o] == 'zero': o += 3
    if t[o] == 'inj': o += 3
    return t[:o], t[o], t[o + 1], t[o + 2], [unhx(x) for x in t[o + 3:]]

def synthetic(line):
    """lines on which a wrapper of the harness answers instead of the real lookup / elemental function"""
    return line.startswith('inj ') or line.startswith('zero ')

def model_line(line, pc):
    inj, fn, mode, comp, args = split_line(line)
    kind = REFR.get(fn, 'cp')
    E, rho = (args[0], args[1]) if fn in REFR else (0.0, 0.0)
    return '%s %s %s %s %s' % (kind, mode, hx(E), hx(rho), pc['model_par'])

def agree(c_res, m, stats):
    """real result part vs model answer"""
    if c_res == m: return True
    tc, tm = c_res.split(' '), m.split(' ')
    if len(tc) != len(tm) or tc[0] != 'ok' or tm[0] != 'ok': return False
    for a, b in zip(tc[1:], tm[1:]):
        if re.fullmatch(r'x[0-9a-f]{16}', a) and re.fullmatch(r'x[0-9a-f]{16}', b):
            x, y = unhx(a), unhx(b)
            if not core.close(x, y, 1e-13): return False
            if x != y: stats['max_rel_dev'] = max(stats.get('max_rel_dev', 0.0), abs(x - y) / max(abs(x), abs(y)))
        elif a != b: return False
    return True

# ------------------------------------------------------------------------------------------------
# the oracle: the property text evaluated from the PUBLIC elemental functions and the composition the real lookups return

_SYMS = None; _AW = None
def _tables():
    """element symbols (src/xrayglob.c MendelArray) and atomic weights (data/atomicweight.dat), read independently of the library"""
    global _SYMS, _AW
    if _SYMS is None:
        txt = open(os.path.join(REPO, 'src', 'xrayglob.c')).read()
        m = re.search(r'MendelArray\s*\[[^\]]*\]\s*=\s*\{(.*?)\};', txt, re.S)
        _SYMS = {sym: int(z) for z, sym in re.findall(r'\{\s*(\d+)\s*,\s*"(\w+)"\s*\}', m.group(1))} if m else {}
        _AW = {}
        for l in open(os.path.join(REPO, 'data', 'atomicweight.dat')):
            t = l.split()
            if len(t) == 2:
                try: _AW[int(t[0])] = float(t[1])
                except ValueError: pass
    return _SYMS, _AW

def formula_fractions(text):
    """mass fractions of a plain chemical formula by the textbook rule (element counts by algebraic expansion of the groups, w = n·A / Σ n·A),
    ascending Z; None when the text is not a plain well-formed formula of known, weighted elements (then no independent claim is made)"""
    syms, aw = _tables()
    pos = 0; n = len(text)
    def number():
        nonlocal pos
        m = re.match(r'\d+(?:\.\d+)?|\.\d+', text[pos:])
        if not m: return 1.0
        pos += m.end(); return float(m.group(0))
    def group(depth):
        nonlocal pos
        acc = {}
        while pos < n:
            c = text[pos]
            if c == '(':
                pos += 1; inner = group(depth + 1)
                if inner is None or pos >= n or text[pos] != ')': return None
                pos += 1; k = number()
                for z, v in inner.items(): acc[z] = acc.get(z, 0.0) + v * k
            elif c == ')':
                return acc if depth > 0 else None
            elif c.isupper():
                m = re.match(r'[A-Z][a-z]{0,2}', text[pos:])
                sym = m.group(0)
                while sym not in syms and len(sym) > 1: sym = sym[:-1]
                if sym not in syms: return None
                pos += len(sym); k = number()
                acc[syms[sym]] = acc.get(syms[sym], 0.0) + k
            else:
                return None
        return acc if depth == 0 else None
    if not text or not re.fullmatch(r'[A-Za-z0-9().]+', text): return None
    acc = group(0)
    if not acc or pos != n or any(v <= 0 for v in acc.values()) or any(z not in aw or aw[z] <= 0 for z in acc): return None
    tot = sum(v * aw[z] for z, v in acc.items())
    return [(z, acc[z] * aw[z] / tot) for z in sorted(acc)]

def oracle(line, pc):
    """-> (kind, payload): ('fails', why, [acceptable (code,msg) or None]) | ('value', [floats]) | ('corner', why) """
    inj, fn, mode, comp, args = split_line(line)
    refr = fn in REFR
    if pc['P'] is not None:
        els, nist_rho = pc['P'], None          # formula resolution takes precedence
        if not inj:
            # the mixture rule speaks of the FORMULA's elements and mass fractions: where the text is a plain formula they are recomputed here,
            # independently of the library's parser (whose own property is C07), and used in the expectation
            own = formula_fractions(unesc(comp))
            if own is not None and [z for z, _ in own] == [z for z, _ in els] and all(abs(a - b) <= 1e-9 * max(a, b) for (_, a), (_, b) in zip(own, els)): pass
            elif own is not None: els = own
    elif pc['N'] is not None: nist_rho, els = pc['N']
    else: return ('fails', 'unknown compound', [(1, esc(UNKNOWN_COMPOUND))])
    V = pc['V']
    if not refr:
        errs = [V[z][0] for z, w in els if V[z][0][0] == 'e']
        if errs: return ('fails', 'element without data', [(e[1], e[2]) for e in errs])
        if any(V[z][0][0] == 'bad' for z, w in els): return ('corner', 'elemental function broke its own contract')
        terms = [w * V[z][0][1] for z, w in els]
        s = math.fsum(terms)
        if any(t == 0.0 for t in terms) and s != 0.0: return ('corner', 'zero product among non-zero ones')
        return ('value', [s])
    E, rho = args
    if nist_rho is not None and rho <= 0: rho = nist_rho              # a NIST compound then supplies its own density
    if not rho > 0: return ('fails', 'non-positive density', None)
    if not E > 0: return ('fails', 'non-positive energy', None)
    need = {'Refractive_Index_Re': (0, 1), 'Refractive_Index_Im': (2,)}.get(fn, (0, 1, 2))
    errs = [V[z][k] for z, w in els for k in need if V[z][k][0] == 'e']
    if errs: return ('fails', 'element without data', [(e[1], e[2]) for e in errs])
    if any(V[z][k][0] == 'bad' for z, w in els for k in need): return ('corner', 'elemental function broke its own contract')
    if any(V[z][k][1] == 0.0 for z, w in els for k in need): return ('corner', 'an elemental value is exactly 0')
    out = []
    if 0 in need: out.append(1.0 - rho * math.fsum(w * K_RE * (z + V[z][0][1]) / V[z][1][1] for z, w in els) / (E * E))
    if 2 in need: out.append(rho * math.fsum(w * V[z][2][1] for z, w in els) * K_IM / E)
    return ('value', out)

def masked_failure(line, pc):
    """the behaviour of the known site cs_cp.c:48-51, exactly: a `_CP` call that had to fail (an element without data) returned 0 with no
    error and nothing left allocated, and an element BEFORE the first failing one in loop order has a successful elemental value of
    exactly 0 (so `tmp == 0.0` ended the loop before the failing element was asked).  -> the masking element or None"""
    inj, fn, mode, comp, args = split_line(line)
    if fn in REFR or pc['live'] != 0 or any(v != 0.0 for v in pc['vals']) or pc['slot'] not in ('E', 'N'): return None
    els = pc['P'] if pc['P'] is not None else (pc['N'][1] if pc['N'] is not None else None)
    if els is None: return None
    for z, w in els:
        o = pc['V'][z][0]
        if o[0] == 'e': return None
        if o[0] == 'v' and o[1] * w == 0.0: return z
    return None

def load_known():
    """the ONLY file that can suppress a violation is /verif/known_findings.txt"""
    return list(core.load_known_findings().get(ID, []))

def judge(line, pc):
    """-> list of failure texts of the property on this call (empty = holds)"""
    ex = oracle(line, pc)
    inj, fn, mode, comp, args = split_line(line)
    out = []
    if pc['live'] != 0: out.append('%d heap block(s) still allocated after the call' % pc['live'])
    if ex[0] == 'corner': return out, ex
    if ex[0] == 'fails':
        if any(v != 0.0 for v in pc['vals']): out.append('must fail (%s) but returned %s' % (ex[1], pc['vals']))
        if mode == 'E':
            m = re.fullmatch(r'F(\d+):(.+)', pc['slot'])
            if not m: out.append('must fail (%s) but stored no error' % ex[1])
            elif int(m.group(1)) > 5: out.append('invalid error code')
            elif ex[2] is not None and (int(m.group(1)), m.group(2)) not in ex[2]:
                out.append('failed with %s, expected one of %s' % (pc['slot'], ex[2][:3]))
    else:
        if pc['slot'] not in ('E', 'N'): out.append('every element has data, yet the call stored the error %s' % unesc(pc['slot']))
        elif len(pc['vals']) != len(ex[1]): out.append('result arity')
        else:
            for a, b in zip(pc['vals'], ex[1]):
                if not (math.isfinite(a) and core.close(a, b, 1e-12)):
                    out.append('returned %r, the rule gives %r' % (a, b)); break
    return out, ex

# ------------------------------------------------------------------------------------------------

class Run:
    def __init__(self, tier, seed):
        self.ctx = core.Ctx(ID, tier, seed)
        self.tier = tier; self.seed = seed
        self.rng = random.Random(seed * 1000003 + 6)
        self.sc = self.ctx.sc
        self.stderr_lines = 0; self.died = 0; self.stderr_sample = ''

    def cenv(self):
        return dict(os.environ, ASAN_OPTIONS='detect_leaks=0:abort_on_error=0:halt_on_error=1', UBSAN_OPTIONS='print_stacktrace=0')

    def build_c(self):
        t = time.time()
        cbuild.build_prdata(self.sc, REPO)
        objs, fl = cbuild.build_lib(self.sc, REPO)
        self.cdrv = self.sc.path('c06drv')
        cbuild.link(self.sc, objs, [os.path.join(VERIF, 'harness', 'c06drv.c')], self.cdrv, fl + WRAP)
        self.ctx.tick('c_build', t)
        p = subprocess.run([self.cdrv], input='tables\n', capture_output=True, text=True, env=self.cenv())
        l = p.stdout.splitlines()
        if p.returncode != 0 or len(l) != 2: raise BuildError('c06drv tables failed: ' + p.stderr[-2000:])
        self.sym = {int(x.split(':')[0]): x.split(':')[1] for x in l[0].split(' ')[1:]}
        self.nist = l[1].split(' ')[1:]

    def extract(self):
        """shape table from the clang AST -> lean-c06/XrlC06/Gen/Table.lean + meta (caller holds the lock)"""
        t = time.time()
        self.meta_path = self.sc.path('c06meta.json')
        p = subprocess.run([sys.executable, os.path.join(VERIF, 'tools', 'c06extract.py'), self.sc.path('b'), TABLE_FILE, self.meta_path],
                           capture_output=True, text=True, env=dict(os.environ, VERIF_REPO=REPO))
        self.ctx.tick('extract', t)
        if p.returncode != 0: raise BuildError('c06extract failed: ' + (p.stdout + p.stderr)[-2000:])
        self.meta = json.load(open(self.meta_path))
        # which of the two `_CP` bodies the working tree has (as shipped / after the proposed repair C06-1): read off the AST, proved by cp_template_conforms
        self.variant = 'fixed' if any('tmp_error != NULL' in l for tpl in self.meta['templates'][:1] for l in tpl) else ''
        return [l[8:] for l in p.stdout.splitlines() if l.startswith('PROBLEM ')]

    def lake(self, targets):
        t = time.time()
        p = subprocess.run(['lake', 'build'] + targets, cwd=LEAN_DIR, capture_output=True, text=True)
        self.ctx.timings['lake_build'] = round(self.ctx.timings.get('lake_build', 0) + time.time() - t, 2)
        return p.returncode == 0, p.stdout + p.stderr

    def model_exe(self): return os.path.join(LEAN_DIR, '.lake', 'build', 'bin', 'c06-model')

    def _chunks(self, lines, fn, chunk=2500):
        if len(lines) <= chunk: return fn(lines)
        parts = [lines[i:i + chunk] for i in range(0, len(lines), chunk)]
        with ThreadPoolExecutor(max_workers=14) as ex:
            res = list(ex.map(fn, parts))
        return [x for r in res for x in r]

    def run_c(self, lines):
        env = self.cenv()
        def one(ls):
            out = []; i = 0
            while i < len(ls):
                p = subprocess.run([self.cdrv], input='\n'.join(ls[i:]) + '\n', capture_output=True, text=True, env=env)
                got = p.stdout.splitlines()[:len(ls) - i]
                out += got; i += len(got)
                if i < len(ls):
                    if p.returncode == 0: raise BuildError('c06drv stopped early without diagnostic at: ' + ls[i])
                    m = re.search(r'(runtime error: [^\n]*|ERROR: AddressSanitizer: [^\n]*|SUMMARY: [^\n]*)', p.stderr)
                    out.append('died ' + (m.group(1)[:160] if m else 'exit %d' % p.returncode)); i += 1
                    self.died += 1
                elif p.stderr.strip():
                    self.stderr_lines += len(p.stderr.strip().splitlines()); self.stderr_sample = p.stderr[:300]
            return out
        return self._chunks(lines, one)

    def run_model(self, lines):
        def one(ls):
            p = subprocess.run([self.model_exe()] + ([self.variant] if getattr(self, 'variant', '') else []), input='\n'.join(ls) + '\n', capture_output=True, text=True)
            out = p.stdout.splitlines()
            if p.returncode != 0 or len(out) != len(ls):
                raise BuildError('c06-model failed (%d answers for %d lines): %s' % (len(out), len(ls), p.stderr[-1000:]))
            return out
        return self._chunks(lines, one, chunk=4000)

    def coverage(self, lines):
        """thorough tier: line/branch coverage of src/cs_cp.c and src/refractive_indices.c reached by the run, measured on a second,
        coverage-instrumented build of the working tree (observer only)"""
        t = time.time()
        covfl = ('-fprofile-instr-generate', '-fcoverage-mapping')
        objs, fl = cbuild.build_lib(self.sc, REPO, san=None, extra=covfl, tag='cov')
        exe = self.sc.path('c06drv_cov')
        cbuild.link(self.sc, objs, [os.path.join(VERIF, 'harness', 'c06drv.c')], exe, fl + WRAP)
        pdir = self.sc.path('prof'); os.makedirs(pdir, exist_ok=True)
        env = dict(os.environ, LLVM_PROFILE_FILE=os.path.join(pdir, 'c06-%p.profraw'))
        def one(ls):
            subprocess.run([exe], input='\n'.join(ls) + '\n', capture_output=True, text=True, env=env); return []
        self._chunks(lines, one, chunk=20000)
        raws = [os.path.join(pdir, f) for f in os.listdir(pdir)]
        merged = self.sc.path('c06.profdata')
        p = subprocess.run(['llvm-profdata-14', 'merge', '-sparse'] + raws + ['-o', merged], capture_output=True, text=True)
        if p.returncode != 0: return dict(error=p.stderr[-300:])
        out = {}
        for f in ('cs_cp.c', 'refractive_indices.c'):
            src = os.path.join(REPO, 'src', f)
            p = subprocess.run(['llvm-cov-14', 'export', '-summary-only', '-instr-profile=' + merged, exe, src], capture_output=True, text=True)
            try:
                d = json.loads(p.stdout)['data'][0]['files'][0]['summary']
                out[f] = {k: dict(covered=d[k]['covered'], count=d[k]['count'], percent=round(d[k]['percent'], 2)) for k in ('lines', 'branches', 'functions', 'regions') if k in d}
            except Exception as e:
                out[f] = dict(error=str(e)[:200] + p.stderr[-200:])
        self.ctx.tick('coverage', t)
        return out

    # ---- generators -----------------------------------------------------------------------------
    def compounds(self, fn):
        """-> list of (family, compound bytes/str, meta) for function `fn`"""
        r = self.rng; thorough = self.tier == 'thorough'
        lo, hi = bad_range(fn)
        good = [self.sym[z] for z in sorted(self.sym) if z < lo]
        bad = [self.sym[z] for z in sorted(self.sym) if lo <= z <= hi]
        g = G.Gen(r, good)
        out = []
        n = (400 if thorough else 30)
        for k in range(n):
            f = g.formula(maxdepth=3, maxlen=48)
            out.append(('formula', G.show(f), dict(depth=G.depth(f), items=G.n_items(f))))
        # formulas in which an element of a bracket group (multiplier != 1) also occurs outside the group or in an earlier group
        for fml in ('Ca5(PO4)3OH', 'CuSO4(H2O)5', 'Fe4(Fe(CN)6)3', 'C3H4OH(COOH)3', 'CH3(CH2)4CH3', 'Mg3Si4O10(OH)2', 'H2O(H2O)0.5', 'Al2(SO4)3(H2O)18', 'K4Fe(CN)6(H2O)3'):
            out.append(('formula-repeat', fml, dict(depth=G.depth([]) if False else 1, items=fml.count('(') + 1)))
        # a third of the generated compounds (one per two good ones) carries an element without data, in first / middle / last position
        for k in range((n + 1) // 2):
            f = g.formula(maxdepth=2, maxlen=40)
            pos = ('first', 'middle', 'last')[k % 3]
            it = ('a', r.choice(bad), g.sub())
            i = 0 if pos == 'first' else (len(f) if pos == 'last' else max(1, len(f) // 2))
            if pos == 'middle' and len(f) < 2: f = f + [('a', r.choice(good), '')]
            f2 = f[:i] + [it] + f[i:]
            out.append(('formula-bad-' + pos, G.show(f2), dict(depth=G.depth(f2), items=G.n_items(f2))))
        # heavy-only compounds: the element without data is the first one the loop meets
        for k in range(8 if thorough else 3):
            zs = sorted(r.sample(range(lo, hi + 1), r.choice([1, 2, 2, 3])))
            out.append(('formula-bad-only', ''.join(self.sym[z] + r.choice(['', '2', '0.5']) for z in zs), dict(depth=0, items=len(zs))))
        return out

    def garbage(self):
        r = self.rng
        fixed = ['', ' ', 'h2o', 'H2O)', '(H2O', 'H2O ', ' H2O', 'Uu', 'H2Oq', 'H-2O', 'water', 'Water, liquid', 'WATER, LIQUID', 'Water,Liquid',
                 'Kapton', 'Kapton Polyimide Film ', 'H0', 'H2O0', '()', '2H', 'Fe2O3;', 'NaCl\n', 'é', 'H2\x01O', 'Rf', 'RfO2', 'Og', 'D2O', 'T', 'H.', '.5H']
        out = [('garbage', s, None) for s in fixed]
        for k in range(8 if self.tier == 'quick' else 60):
            n = r.randint(1, 12)
            out.append(('garbage', ''.join(chr(r.choice([r.randint(32, 126), r.randint(65, 90), r.randint(97, 122), r.randint(1, 255)])) for _ in range(n)), None))
        for k in range(6 if self.tier == 'quick' else 40):
            s = unesc(r.choice(self.nist)); i = r.randrange(len(s))
            m = r.choice(['del', 'case', 'ins'])
            s2 = s[:i] + s[i + 1:] if m == 'del' else (s[:i] + s[i].swapcase() + s[i + 1:] if m == 'case' else s[:i] + r.choice(' x,') + s[i:])
            if esc(s2) not in self.nist: out.append(('garbage-nist-mutant', s2, None))
        return out

    def injections(self, fn):
        """compositions the real lookups never produce together (the lookup wrappers of the harness return them)"""
        r = self.rng
        lo, hi = bad_range(fn)
        def comp(n, with_bad=None, zero=False):
            zs = r.sample(range(1, lo), n)
            if with_bad is not None: zs.insert(with_bad if with_bad >= 0 else len(zs), r.randint(lo, hi))
            ws = [r.uniform(0.05, 1.0) for _ in zs]; s = sum(ws); ws = [w / s for w in ws]
            if zero: ws[r.randrange(len(ws))] = 0.0
            return ','.join('%d:%s' % (z, hx(w)) for z, w in zip(zs, ws))
        rho = lambda: hx(r.choice([1.0, 2.7, 0.0012, 19.3]))
        out = []
        out.append(('inj-both', 'inj %s %s;%s' % (comp(2), rho(), comp(3)), 'Inj1'))              # precedence: both lookups succeed, differently
        out.append(('inj-both', 'inj - %s;%s' % (rho(), comp(2)), r.choice(['H2O', 'SiO2', 'CaCO3'])))   # real parser + injected catalogue entry
        out.append(('inj-nist', 'inj 0 %s;%s' % (rho(), comp(3)), 'Inj2'))
        for k in range(3):       # the loop order of the real parser is ascending Z, and the elements without data are the heaviest: only here can they come first
            out.append(('inj-bad-first', 'inj %s 0' % comp(2 + k, with_bad=0), 'Inj3'))            # failing element BEFORE good ones
            out.append(('inj-bad-middle', 'inj 0 %s;%s' % (rho(), comp(3 + k, with_bad=1 + k // 2)), 'Inj4'))
            out.append(('inj-bad-last', 'inj %s 0' % comp(2 + k, with_bad=-1), 'Inj5'))
        out.append(('inj-none', 'inj 0 0', 'H2O'))                                                 # both lookups fail on a name that is a formula
        out.append(('inj-zero-fraction', 'inj %s 0' % comp(3, zero=True), 'Inj6'))                 # the corner of cp_zero_product_witness
        return out

    def energies(self, fn, k):
        r = self.rng
        lo, hi = (1.0, 100.0) if fn == 'CS_Energy' else (1.0, 800.0)
        out = [math.exp(r.uniform(math.log(lo * 1.001), math.log(hi * 0.999))) for _ in range(k)]
        return out

    def gen_lines(self):
        r = self.rng; thorough = self.tier == 'thorough'
        thetas = [0.0, 0.3, math.pi / 2, math.pi, -0.7, 7.0]
        phis = [0.0, 1.0, math.pi / 2]
        dens = [-1.0, 0.0, 1e-3, 1.0, 22.6]
        special_E = [0.0, -1.0, 0.05, 5000.0]
        lines = []; fam = []; meta = []
        garbage = self.garbage()
        nist_all = [('nist', unesc(n), None) for n in self.nist]
        def emit(family, fn, comp, args, m=None, inj=None, mode='E'):
            l = ('%s ' % inj if inj else '') + ' '.join([fn, mode, esc(comp)] + [hx(a) for a in args])
            lines.append(l); fam.append(family); meta.append(m)
        for fn in CPF + list(REFR):
            comps = self.compounds(fn)
            nE = 6 if thorough else 2
            def argsets(kind):
                """argument tuples for one compound"""
                Es = self.energies(fn, nE)
                if kind == 'special': Es = [r.choice(special_E)]
                out = []
                for E in Es:
                    if fn in REFR: out.append((E, r.choice(dens)))
                    elif ARITY[fn] == 1: out.append((E,))
                    elif ARITY[fn] == 2: out.append((E, r.choice(thetas)))
                    else: out.append((E, r.choice(thetas), r.choice(phis)))
                return out
            for family, c, m in comps:
                for a in argsets('std'): emit(family, fn, c, a, m)
            # NIST names: all 180 for every function, plus (refractive) x all densities
            names = nist_all
            for family, c, m in names:
                for a in argsets('std'): emit(family, fn, c, a)
            if fn in REFR:
                for family, c, m in (nist_all if thorough else r.sample(nist_all, 60)):
                    E = self.energies(fn, 1)[0]
                    for d in dens: emit('nist-density', fn, c, (E, d))
                for family, c, m in r.sample(comps, min(len(comps), 30 if thorough else 10)):
                    E = self.energies(fn, 1)[0]
                    for d in dens: emit('formula-density', fn, c, (E, d))
            for family, c, m in r.sample(nist_all, 30 if thorough else 8) + r.sample(comps, min(len(comps), 30 if thorough else 8)):
                for a in argsets('special'): emit(family + '-specialE', fn, c, a)
            for family, c, m in (garbage if thorough else r.sample(garbage, 25)):
                for a in argsets('std')[:1]: emit(family, fn, c, a)
            for family, pre, key in self.injections(fn):
                for a in argsets('std')[:1]: emit(family, fn, key, a, inj=pre)
            # paths no real catalogue entry reaches: an entry without a positive density (the density guard with `cdn` live), an entry
            # without elements (the loop does not run: only the guards and the final expression decide)
            rr = self.rng
            for a in argsets('std')[:1]: emit('inj-empty', fn, 'Inj7', a, inj='inj 0 %s;' % hx(rr.choice([1.0, 2.7])))
            if fn in REFR:
                comp = ','.join('%d:%s' % (z, hx(w)) for z, w in zip(rr.sample(range(1, 93), 2), (0.25, 0.75)))
                E = self.energies(fn, 1)[0]
                for rho_n, rho_u in ((0.0, 0.0), (-1.0, -1.0), (0.0, 1.0), (-2.0, 0.0)):
                    emit('inj-nist-nodensity', fn, 'Inj8', (E, rho_u), inj='inj 0 %s;%s' % (hx(rho_n), comp))
                for E0 in (0.0, -1.0):
                    emit('inj-empty', fn, 'Inj7', (E0, 1.0), inj='inj 0 %s;' % hx(1.0))
            # the corner "a successful value of exactly 0" on the real functions: Fi / CS_Total answer 0.0 for one element of a real compound
            if fn in REFR or fn == 'CS_Total':
                for c, zs in (('H2O', (1, 8)), ('CaCO3', (6, 8, 20)), ('Water, Liquid', (1, 8)), ('Pb(C2H3O2)2', (1, 82))):
                    z = r.choice(zs)
                    pre = 'zero %d 0' % z if fn in ('Refractive_Index_Re',) else ('zero 0 %d' % z if fn in ('Refractive_Index_Im', 'CS_Total') else r.choice(['zero %d 0', 'zero 0 %d']) % z)
                    for a in argsets('std')[:1]: emit('zero-elemental', fn, c, a, inj=pre)
        # NULL slot on every 7th line
        extra = []
        for i in range(0, len(lines), 7):
            t = lines[i].split(' '); o = len(split_line(lines[i])[0])
            t[o + 1] = 'N'; extra.append((' '.join(t), fam[i], meta[i]))
        for l, f, m in extra: lines.append(l); fam.append(f); meta.append(m)
        return lines, fam, meta

    def corpus(self):
        d = os.path.join(VERIF, 'corpus'); out = []
        if os.path.isdir(d):
            for f in sorted(os.listdir(d)):
                if f.startswith(ID + '-') and f.endswith('.lines'):
                    out += [l.strip() for l in open(os.path.join(d, f)) if l.strip() and not l.startswith('#')]
        return out

# ------------------------------------------------------------------------------------------------

def lean_sources():
    out = []
    for root, dirs, files in os.walk(os.path.join(LEAN_DIR, 'XrlC06')):
        for f in files:
            if f.endswith('.lean'): out.append(os.path.join(root, f))
    out.append(os.path.join(LEAN_DIR, 'Driver.lean'))
    return sorted(out)

def print_axioms(run, names):
    src = 'import %s\n' % MODULE + ''.join('#print axioms %s\n' % n for n in names)
    path = run.sc.path('Audit.lean'); open(path, 'w').write(src)
    p = subprocess.run(['lake', 'env', 'lean', path], cwd=LEAN_DIR, capture_output=True, text=True)
    res = {}; txt = p.stdout + p.stderr
    for m in re.finditer(r"'([^']+)' depends on axioms: \[([^\]]*)\]|'([^']+)' does not depend on any axioms", txt):
        if m.group(1): res[m.group(1)] = [a.strip() for a in m.group(2).replace('\n', ' ').split(',') if a.strip()]
        else: res[m.group(3)] = []
    return res, txt

def failing_theorems(build_log):
    names = []
    for m in re.finditer(r'error: (XrlC06/[\w/]+\.lean):(\d+):\d+', build_log):
        rel, ln = m.group(1), int(m.group(2))
        try: src = open(os.path.join(LEAN_DIR, rel)).read().splitlines()
        except OSError: continue
        for i in range(min(ln, len(src)) - 1, -1, -1):
            mm = re.match(r'\s*(?:theorem|example|def)\s*([\w\.\']*)', src[i])
            if mm:
                n = (mm.group(1) or 'example@%d' % (i + 1)) if rel.endswith('Props/C06.lean') else '%s:%s' % (rel[len('XrlC06/'):-5], mm.group(1))
                if n not in names: names.append(n)
                break
    return names

def shape_diff(meta):
    """human-readable account of what the AST extraction found differing from the expected shape (for the replay text)"""
    out = []
    for e in meta['entries']:
        if e['callee'] + '_CP' != e['name']: out.append('%s calls %s' % (e['name'], e['callee']))
        exp = ['Elements[i]'] + e['pnames'][1:-1] + ['error']
        if e['args'] != exp: out.append('%s passes (%s), expected (%s)' % (e['name'], ', '.join(e['args']), ', '.join(exp)))
        if e['weight'] != 'massFractions[i]': out.append('%s multiplies by %s' % (e['name'], e['weight']))
        if e['tmpl'] != 0: out.append('%s has a body different from that of %s' % (e['name'], meta['entries'][0]['name']))
    if len(meta['templates']) != 1: out.append('%d different normalised bodies among the %d functions' % (len(meta['templates']), len(meta['entries'])))
    got = [e['callee'] for e in meta['entries']]
    if got != CPF and sorted(got) != sorted(CPF):
        out.append('functions defined: missing %s, unexpected %s' % (sorted(set(CPF) - set(got)), sorted(set(got) - set(CPF))))
    return out

def _errs(txt, n=6):
    errs = re.findall(r'error: [^\n]*(?:\n(?!error:|info:|trace:|✖|✔)[^\n]*){0,6}', txt)
    return '\n'.join(errs[:n])[:4000]

def _sha(p):
    try: return hashlib.sha256(open(p, 'rb').read()).hexdigest()[:16]
    except OSError: return None

class C06:
    id = ID

    def run(self, tier, seed, replay=None):
        R = Run(tier, seed)
        try:
            return self._run(R, replay)
        except BuildError as e:
            log('BUILD ERROR', str(e)[:3000])
            body = 'check %s could not build the working tree or its own harness:\n%s\n' % (ID, str(e)[:4000])
            path = core.write_replay(R.ctx, body, 'txt')
            print('VIOLATION property=%s replay=%s no-failing-input-found' % (ID, path))
            core.write_evidence(R.ctx, 'proof', dict(obligations=len(REQUIRED_THEOREMS), discharged=0, checker_cmd='cd lean-c06 && lake build ' + MODULE,
                                trusted_base=TRUSTED, explanation='build failed: ' + str(e)[:500], evaluations=1, distinct_nontrivial=0), 1)
            return 1
        finally:
            R.ctx.close()

    def _run(self, R, replay):
        ctx = R.ctx
        rep = dict(proof_broken=[], tie_broken=[], problems=[])
        known = {k: txt for k, txt in load_known()}
        # ---- 1. C artefacts, shape table; 2. lake -------------------------------------------------------
        R.build_c()
        with open(os.path.join(LEAN_DIR, '.verif.lock'), 'w') as lf:
            fcntl.flock(lf, fcntl.LOCK_EX)
            try:
                for pb in R.extract(): rep['tie_broken'].append('shape extraction: ' + pb)
                ok_exe, log_exe = R.lake(['c06-model'])
                if not ok_exe: raise BuildError('model driver does not build: ' + _errs(log_exe))
                ok_props, log_props = R.lake([MODULE])
                # the compiled driver and the theorems were built from the same Hand/CP.lean: keep a private copy of the binary
                exe = R.sc.path('c06-model'); open(exe, 'wb').write(open(R.model_exe(), 'rb').read()); os.chmod(exe, 0o755)
                R.model_exe = lambda: exe
                theorems = core.theorems_of(PROPS_FILE, NAMESPACE) if os.path.exists(PROPS_FILE) else []
                if not ok_props:
                    rep['proof_broken'] = failing_theorems(log_props) or ['(module %s does not build)' % MODULE]
                    rep['proof_log'] = _errs(log_props, 10)
                    sd = shape_diff(R.meta)
                    if sd: rep['shape_diff'] = sd
                # ---- 3. audit ---------------------------------------------------------------------------
                axioms = {}
                if ok_props and theorems:
                    t = time.time()
                    axioms, txt = print_axioms(R, theorems)
                    ctx.tick('axiom_audit', t)
                if R.tier == 'thorough' and ok_props:
                    t = time.time()
                    p = subprocess.run(['lake', 'env', 'leanchecker', MODULE], cwd=LEAN_DIR, capture_output=True, text=True)
                    ctx.tick('leanchecker', t)
                    if p.returncode != 0: rep['problems'].append('leanchecker rejected %s: %s' % (MODULE, (p.stdout + p.stderr)[-400:]))
                    else: ctx.notes.append('leanchecker re-checked %s' % MODULE)
            finally:
                fcntl.flock(lf, fcntl.LOCK_UN)
        bad = core.audit_sources(lean_sources())
        if bad: rep['problems'].append('forbidden construct in Lean sources: ' + '; '.join(bad[:5]))
        for th in REQUIRED_THEOREMS:
            if NAMESPACE + '.' + th not in theorems: rep['problems'].append('property theorem %s missing from %s' % (th, MODULE))
        if ok_props:
            for th in theorems:
                if th not in axioms: rep['problems'].append('axiom audit: no report for %s' % th)
                elif set(axioms[th]) - core.ALLOWED_AXIOMS: rep['problems'].append('axiom audit: %s depends on %s' % (th, sorted(set(axioms[th]) - core.ALLOWED_AXIOMS)))
        if os.path.exists(PROPS_FILE):
            src = core.strip_comments(open(PROPS_FILE).read())
            n_ex = len(re.findall(r'^\s*example\b', src, flags=re.M))
            if n_ex < MIN_EXAMPLES: rep['problems'].append('non-vacuity examples missing from %s (%d found, %d expected)' % (MODULE, n_ex, MIN_EXAMPLES))
        # ---- 5. correspondence ---------------------------------------------------------------------------
        t = time.time()
        if replay:
            lines = [l.strip() for l in open(replay) if l.strip() and not l.startswith('#')]
            fam = ['replay'] * len(lines); meta = [None] * len(lines)
        else:
            corpus = R.corpus()
            lines, fam, meta = R.gen_lines()
            lines = corpus + lines; fam = ['corpus'] * len(corpus) + fam; meta = [None] * len(corpus) + meta
        ctx.tick('generate', t); t = time.time()
        c_out = R.run_c(lines)
        ctx.tick('run_library', t); t = time.time()
        pcs = [parse_c(c) for c in c_out]
        idx = [i for i, pc in enumerate(pcs) if pc is not None and not any(o[0] == 'bad' for os_ in pc['V'].values() for o in os_)]
        m_out = R.run_model([model_line(lines[i], pcs[i]) for i in idx])
        ctx.tick('run_model', t); t = time.time()
        stats = {}; mism = []
        for i, m in zip(idx, m_out):
            if not agree(pcs[i]['res'], m, stats): mism.append((lines[i], pcs[i]['res'], m))
        unparsed = [(lines[i], c_out[i]) for i, pc in enumerate(pcs) if pc is None]
        contract_broken = len(lines) - len(idx) - len(unparsed)
        if mism:
            rep['tie_broken'].append('model and implementation disagree on %d of %d calls; first: %s | impl: %s | model: %s' % (
                len(mism), len(idx), mism[0][0], mism[0][1][:300], mism[0][2][:300]))
        if R.stderr_lines:
            rep['tie_broken'].append('library wrote %d diagnostic line(s) to stderr (error stored over an error?): %s' % (R.stderr_lines, R.stderr_sample))
        if contract_broken: ctx.notes.append('%d calls skipped in the tie: an elemental function returned a non-zero value together with an error (C03)' % contract_broken)
        ctx.tick('compare', t); t = time.time()
        # ---- violation search: the rule from the public elemental functions vs the real functions (always) ------------
        viol = []; kinds = {}; nontriv = set(); corners = {}; sstats = {}
        for l, c in unparsed:
            viol.append((l, 'library died or answered nothing: ' + c[:200], c, '', None))
        for i, pc in enumerate(pcs):
            if pc is None: continue
            probs, ex = judge(lines[i], pc)
            k = ex[0] + (':' + ex[1] if ex[0] != 'value' else '')
            kinds[k] = kinds.get(k, 0) + 1
            if ex[0] == 'value':
                if any(v != 0.0 for v in ex[1]): nontriv.add(lines[i])
                for a, b in zip(pc['vals'], ex[1]):
                    if a != b and math.isfinite(a) and (a or b):
                        sstats['max_rel_dev'] = max(sstats.get('max_rel_dev', 0.0), abs(a - b) / max(abs(a), abs(b)))
            if ex[0] == 'corner':
                f = fam[i]; corners.setdefault(f, []).append(lines[i])
                if not synthetic(lines[i]):
                    probs = probs + ['%s on an input the real lookups produce: the call returned %s %s' % (ex[1], pc['vals'], pc['slot'])]
            site = None
            if probs and ex[0] == 'fails' and ex[1] == 'element without data':
                mz = masked_failure(lines[i], pc)
                if mz is not None:
                    site = K_MASK
                    probs = ['must fail (an element has no data) but returned 0 without an error: the elemental value of Z=%d is exactly 0, which ends the loop before the failing element' % mz]
            for pb in probs: viol.append((lines[i], pb, pc['res'], '%s %s' % (ex[0], ex[1]), site))
        ctx.tick('search', t)
        cov_c = R.coverage(lines) if (R.tier == 'thorough' and not replay) else None
        # ---- classify ----------------------------------------------------------------------------------------
        new = []; hits = {}
        for v in viol:
            if v[4] is not None and v[4] in known:
                h = hits.setdefault(v[4], dict(n=0, witness=v[0], what=v[1])); h['n'] += 1
                if len(v[0]) < len(h['witness']): h['witness'] = v[0]
            else: new.append(v)
        for k, h in hits.items():
            print('KNOWN-FINDING: property=%s %s: %s' % (ID, k, known[k]))
            log('   %d call(s) of this run reproduce it; shortest: %s' % (h['n'], self.describe(h['witness'])))
        exit_code = 0
        broken = rep['proof_broken'] or rep['tie_broken'] or rep['problems']
        if new:
            w = self.shrink(R, new, K_MASK in known) if not replay else min(new, key=lambda v: len(v[0]))
            body = '# violation of %s: the library contradicts the mixture rule on this call\n' % ID
            body += '# %s\n# library:  %s\n# expected: %s\n# call: %s\n%s\n' % (w[1], w[2][:400], w[3][:400], self.describe(w[0]), w[0])
            seen = {w[0]}
            for v in sorted(new, key=lambda v: len(v[0])):
                if v[0] in seen: continue
                seen.add(v[0])
                if len(seen) > 20: break
                body += '# also: %s  (%s)\n' % (v[0], v[1])
            if broken: body += '\n# broken obligations: %s\n' % json.dumps(rep)[:3000]
            path = core.write_replay(ctx, body)
            print('VIOLATION property=%s replay=%s' % (ID, path))
            exit_code = 1
        elif broken:
            body = '# %s is no longer shown to hold; the search found no failing input (%d calls)\n' % (ID, len(lines))
            if rep['proof_broken']:
                body += '# theorems that no longer check: %s\n# %s\n' % (', '.join(rep['proof_broken']), rep.get('proof_log', '').replace('\n', '\n# '))
            for sd in rep.get('shape_diff', []): body += '# shape of the C source: %s\n' % sd
            if any('cp_template_conforms' in x for x in rep['proof_broken']) and R.meta['templates']:
                body += '# normalised body of %s as extracted from the AST (compare CP.expectedCpTemplate in lean-c06/XrlC06/Hand/CP.lean):\n' % R.meta['entries'][0]['name']
                body += ''.join('#   %s\n' % l for l in R.meta['templates'][0])
            if any('refr_template_conforms' in x for x in rep['proof_broken']):
                for fdef in R.meta['refr']:
                    body += '# body of %s as extracted from the AST (compare CP.expectedRe/Im/Cx/Cx2):\n' % fdef['name'] + ''.join('#   %s\n' % l for l in fdef['body'])
            for tb in rep['tie_broken']: body += '# correspondence broken: %s\n' % tb
            for pb in rep['problems']: body += '# %s\n' % pb
            for l, c, m in mism[:50]: body += '%s\n' % l
            path = core.write_replay(ctx, body)
            print('VIOLATION property=%s replay=%s no-failing-input-found' % (ID, path))
            exit_code = 1
        # ---- evidence ----------------------------------------------------------------------------------------
        n_dis = 0 if not ok_props else sum(1 for th in theorems if th in axioms and not (set(axioms[th]) - core.ALLOWED_AXIOMS))
        dist = self.distribution(R, lines, fam, meta, pcs, kinds)
        dist['corner_cases_replayed'] = {f: dict(n=len(v), first=v[0]) for f, v in corners.items()}
        smp = sorted(R.rng.sample(range(len(lines)), min(8, len(lines))))
        mo = dict(zip(idx, m_out))
        cov = dict(obligations=max(len(theorems), len(REQUIRED_THEOREMS)), discharged=n_dis,
                   checker_cmd='cd lean-c06 && lake build %s  (then `#print axioms` on each theorem; thorough: leanchecker)' % MODULE,
                   trusted_base=TRUSTED,
                   theorems=[dict(name=th, axioms=axioms.get(th)) for th in theorems],
                   traces_validated_against_impl=len(idx), correspondence_mismatches=len(mism),
                   search_cases=len(lines), search_violations=len(new),
                   known_findings_reproduced={k: dict(instances=h['n'], witness=h['witness'], what=h['what']) for k, h in hits.items()},
                   evaluations=len(lines) + len(idx), distinct_nontrivial=len(nontriv),
                   rule='every one of the 21 _CP functions and the 4 refractive-index entry points x {grammar-generated formulas over the %d weighable elements (nesting <= 3, '
                        'integer and fractional subscripts), a third of them with an element without data for that function (Z %s) in first / middle / last position, heavy-only compounds, '
                        'the %d NIST names, garbage and mutated NIST names, compositions injected through the lookup wrappers (both lookups succeed; failing element first; zero fraction)} x '
                        'seeded log-uniform energies over the tabulated range, energies 0 / negative / outside the tables, angle grid theta in {0,0.3,pi/2,pi,-0.7,7} phi in {0,1,pi/2}, densities {-1,0,1e-3,1,22.6}; '
                        'slot E and NULL. non-trivial = distinct calls for which the oracle expects a non-zero value (all elements have data)' % (
                            len(R.sym), 'CS_Energy 93-103, cross sections 99-103, Fi 101-103', len(R.nist)),
                   samples=[dict(line=lines[i], impl=c_out[i][:400], model=mo.get(i, '')[:200]) for i in smp],
                   max_rel_dev_model_vs_impl=stats.get('max_rel_dev', 0.0), max_rel_dev_oracle_vs_impl=sstats.get('max_rel_dev', 0.0),
                   distribution=dist, c_coverage=cov_c, shape_table=dict(functions=len(R.meta['entries']), templates=len(R.meta['templates']), problems=R.meta['problems'], sha=R.meta['sha']),
                   model_variant=('after proposed repair C06-1 (cpOfFixed)' if R.variant else 'as shipped (cpOf)'),
                   provenance=dict(repo=REPO, cs_cp_c=_sha(os.path.join(REPO, 'src', 'cs_cp.c')), refractive_indices_c=_sha(os.path.join(REPO, 'src', 'refractive_indices.c')),
                                   hand_model=_sha(os.path.join(LEAN_DIR, 'XrlC06', 'Hand', 'CP.lean'))),
                   broken=rep)
        core.write_evidence(ctx, 'proof', cov, len(new) + (1 if broken and not new else 0), ASSUMPTIONS)
        log('%s %s: exit %d (%.1fs; theorems %d/%d; tie %d calls, %d mismatches; search %d, %d violations; expectations %s)' % (
            ID, R.tier, exit_code, time.time() - ctx.t0, n_dis, len(theorems), len(idx), len(mism), len(lines), len(new), kinds))
        return exit_code

    # ---- reporting helpers -----------------------------------------------------------------------------
    def describe(self, line):
        inj, fn, mode, comp, args = split_line(line)
        name = fn if fn in REFR else fn + '_CP'
        s = '%s("%s", %s, %s)' % (name, unesc(comp).replace('\n', '\\n'), ', '.join(repr(a) for a in args), '&error' if mode == 'E' else 'NULL')
        if inj and inj[0] == 'zero':
            s += '   with ' + ' and '.join(x for x in ('Fi(%s, .)' % inj[1] if inj[1] != '0' else '', 'CS_Total(%s, .)' % inj[2] if inj[2] != '0' else '') if x) + ' answering 0.0 without an error'
            inj = inj[3:]
        if inj: s += '   with the lookups answering  CompoundParser -> %s,  GetCompoundDataNISTByName -> %s' % (
            self._show_inj(inj[1]), self._show_inj(inj[2], True))
        return s

    def _show_inj(self, spec, nist=False):
        if spec == '-': return '(the real function)'
        if spec == '0': return 'NULL'
        rho = ''
        if nist: r_, spec = spec.split(';', 1); rho = 'density %r, ' % unhx(r_)
        return '{' + rho + ', '.join('Z=%d w=%r' % (z, w) for z, w in parse_els(spec)) + '}'

    def shrink(self, R, new, known_site=False):
        """smallest failing call: shortest found, then substring deletion in the compound, then rounder arguments"""
        best = min(new, key=lambda v: (synthetic(v[0]), len(v[0])))
        def failing(cands):
            co = R.run_c(cands); res = []
            for l, c in zip(cands, co):
                pc = parse_c(c)
                if pc is None: res.append((l, 'library died or answered nothing: ' + c[:200], c, '', None)); continue
                probs, ex = judge(l, pc)
                if ex[0] == 'corner' and not synthetic(l): probs = probs + [ex[1]]
                if probs and known_site and ex[0] == 'fails' and masked_failure(l, pc) is not None: probs = []
                res.append((l, probs[0], pc['res'], '%s %s' % (ex[0], ex[1]), None) if probs else None)
            return res
        for _ in range(30):
            inj, fn, mode, comp, args = split_line(best[0])
            cur = unesc(comp); cands = []
            if not inj:
                for i in range(len(cur)):
                    for j in range(i + 1, min(len(cur), i + 10) + 1):
                        s = cur[:i] + cur[j:]
                        if s: cands.append(' '.join([fn, mode, esc(s)] + [hx(a) for a in args]))
            for k, a in enumerate(args):
                for rnd in (10.0, 1.0, 20.0, 0.5, round(a, 1), round(a)):
                    if rnd != a and (rnd > 0 or a <= 0):
                        a2 = list(args); a2[k] = float(rnd)
                        cands.append(' '.join(inj + [fn, mode, comp] + [hx(x) for x in a2]))
            cands = [c for c in dict.fromkeys(cands) if c != best[0]]
            if not cands: break
            hit = [x for x in failing(cands) if x]
            if not hit: break
            nb = min(hit, key=lambda v: (len(unesc(split_line(v[0])[3])), sum(len(repr(a)) for a in split_line(v[0])[4])))
            key = lambda v: (len(unesc(split_line(v[0])[3])), sum(len(repr(a)) for a in split_line(v[0])[4]))
            if key(nb) >= key(best): break
            best = nb
        return best

    def distribution(self, R, lines, fam, meta, pcs, kinds):
        d = dict(families={}, functions={}, slot_modes={}, oracle_expectations=kinds, outcomes={}, formula_depth={}, formula_items={}, compound_length={},
                 elements_per_compound={}, failing_element_position_in_loop={}, energies={}, densities={}, resolved_by={}, error_messages={})
        def inc(h, k): h[k] = h.get(k, 0) + 1
        for l, f, m, pc in zip(lines, fam, meta, pcs):
            inj, fn, mode, comp, args = split_line(l)
            inc(d['families'], f); inc(d['functions'], fn); inc(d['slot_modes'], mode)
            n = len(unesc(comp)); inc(d['compound_length'], '%d-%d' % (n // 10 * 10, n // 10 * 10 + 9))
            if m: inc(d['formula_depth'], str(m['depth'])); inc(d['formula_items'], str(m['items']))
            E = args[0]
            inc(d['energies'], '<=0' if E <= 0 else ('<1' if E < 1 else ('1-10' if E < 10 else ('10-100' if E < 100 else ('100-800' if E <= 800 else '>800')))))
            if fn in REFR: inc(d['densities'], repr(args[1]))
            if pc is None: inc(d['outcomes'], 'died'); continue
            inc(d['resolved_by'], 'formula' if pc['P'] is not None else ('nist' if pc['N'] is not None else 'none'))
            if pc['P'] is not None and pc['N'] is not None: inc(d['resolved_by'], 'both (injected)')
            els = pc['P'] if pc['P'] is not None else (pc['N'][1] if pc['N'] is not None else None)
            if els is not None:
                inc(d['elements_per_compound'], str(len(els)))
                need = {'Refractive_Index_Re': (0, 1), 'Refractive_Index_Im': (2,)}.get(fn, (0, 1, 2) if fn in REFR else (0,))
                badpos = [i for i, (z, w) in enumerate(els) if any(pc['V'][z][k][0] == 'e' for k in need)]
                if badpos:
                    i = badpos[0]
                    inc(d['failing_element_position_in_loop'], 'only' if len(els) == 1 else ('first' if i == 0 else ('last' if i == len(els) - 1 else 'middle')))
            if pc['slot'].startswith('F'):
                inc(d['outcomes'], 'error'); inc(d['error_messages'], unesc(pc['slot'].split(':', 1)[1])[:80])
            elif all(v == 0.0 for v in pc['vals']): inc(d['outcomes'], 'zero without error' if mode == 'E' else 'zero (NULL slot)')
            else: inc(d['outcomes'], 'value')
        return d

TRUSTED = [
    'Lean 4.33 kernel (lake build; thorough tier: leanchecker re-check of XrlC06.Props.C06)',
    'axioms allowed in property theorems: propext, Classical.choice, Quot.sound (audited by #print axioms on every run)',
    'hand model lean-c06/XrlC06/Hand/CP.lean of src/cs_cp.c and src/refractive_indices.c: trusted as far as (a) the shape table re-extracted from the clang-14 AST on every run '
    '(cp_table_conforms, cp_template_conforms, refr_template_conforms: every statement of the expanded bodies, rendered as text, equals the lines the model cites) and (b) the correspondence '
    'run exercise it (value bits to 1e-13, error code and message, live heap blocks after the call; the model is run with the lookups and elemental values the real library reports)',
    'tools/c06extract.py (AST renderer, about 200 lines of Python) and clang-14',
    'parameters, not verified here: CompoundParser (C07), GetCompoundDataNISTByName (C15), the elemental functions (C01-C05) — constrained only by the contract stated in the theorems',
    'IEEE-754 rounding/overflow not modelled (theorems over the reals; the Float reading of the same definitions agrees with the library to the printed max_rel_dev)',
    'Mathlib (module-wise, proofs only)',
    'allocation counter (-Wl,--wrap), lookup wrappers (-Wl,--wrap=CompoundParser,--wrap=GetCompoundDataNISTByName, pass-through except on `inj` lines) and ASan/UBSan: observers of the correspondence run only',
]
ASSUMPTIONS = [
    'the theorems hold for all lookups and all elemental functions meeting the stated contract; the run instantiates them with what the library built from the working tree answers',
    'the slot passed by the caller holds no error on entry (NULL or empty), as in every property of the suite',
    'data/kissel_pe.dat is empty in this tree: the four Kissel _CP functions fail for every element; they are checked to fail cleanly',
]

CHECK = C06()
