"""C19 (model part) — the Java code as a Lean model, with theorems `Java method ≈ C function`.

    java_model_step(ctx, rep)         hook for props/c19.py (see notes/C19M_REPORT.md, last section)
    python3 props/c19_model.py [--tier quick|thorough] [--seed N]      standalone

What a run does
 1. builds the C library, xraylib.dat and the Java classes from the working tree (helpers of props/c19.py, not duplicated);
 2. under core.Lock(): regenerates lean/Xrl/Gen (c2lean) and lean/Xrl/JGen (tools/j2lean.py: Java -> Lean), `lake build`s
    Xrl.Props.C19 (the equivalence theorems) and the Java model's dispatch;
 3. audits the Lean sources of the Java side (no sorry/axiom/native_decide/…) and `#print axioms` of every theorem;
 4. translator tie: the Float reading of `JGen.f (JTables.ofC T)` — T = the raw tables of the working tree's prdata phase — is run
    on protocol lines and compared with the REAL Java method (harness/java/XrlDrv.java, reflection) line by line;
 5. data hypotheses: every hypothesis about the tables that a theorem asks for (counts are ints, vector lengths, `KAllOk`, `LGaps`,
    `UOCCUP >= 0`, `AtomicWeight >= 0`, …) is a Bool function of lean/Xrl/JCore/HypCheck.lean (proved to imply the hypothesis in
    Xrl/Props/C19f.lean) and is RUN on the loaded tables for every element, in every data configuration of the check (shipped, raw
    prdata phase, regenerated Kissel; synthetic Kissel in the thorough tier); `JTame` depends on the energy and is run point by point;
 6. data-path check: the derivation code duplicated in java/pr_data_java.c is compared with src/pr_data.c, and the order of
    the writes of pr_data_java.c with the order of the reads of XRayInit.
Messages go to rep['proof_broken'] / rep['tie_broken'] / rep['problems'], counts to ctx.coverage['java_*'].
"""
import os, sys, re, json, time, subprocess, math, shutil
if __name__ == '__main__':
    sys.path.insert(0, os.path.dirname(os.path.dirname(os.path.abspath(__file__))))
from vlib import core, cbuild, xdrv
from vlib.cbuild import VERIF, REPO, BuildError
from vlib.xdrv import log
sys.path.insert(0, os.path.join(VERIF, 'tools'))
import xapi

LEAN_DIR = os.environ.get('C19M_LEAN_DIR', core.LEAN_DIR)          # development only: a private copy of lean/
JGEN_DIR = os.path.join(LEAN_DIR, 'Xrl', 'JGen')
PROP_MODULES = ['Xrl.Props.C19', 'Xrl.Props.C19b', 'Xrl.Props.C19c', 'Xrl.Props.C19d', 'Xrl.Props.C19e', 'Xrl.Props.C19f', 'Xrl.Props.C19g']          # all in namespace Xrl.C19; C19..C19f each import the previous one, C19g (ownership of handed-out objects) stands alone
PROP_FILES = [os.path.join(LEAN_DIR, *m.split('.')) + '.lean' for m in PROP_MODULES]
PROPS = PROP_MODULES[-2]
NS = 'Xrl.C19'
TIE_REL = 1e-11        # Float model (glibc libm through Lean) vs JVM (intrinsics / StrictMath): same tables bit for bit, a few ulp per libm call
RAYL = ('FF_Rayl', 'DCS_Rayl', 'DCSb_Rayl', 'DCSP_Rayl', 'DCSPb_Rayl')
TRUSTED = [
    'tools/j2lean.py (own Java tokenizer/parser, Java -> Lean), checked on every run by the translator tie: Float reading of the generated model vs the real Java methods',
    'lean/Xrl/JCore/JTables.lean `JTables.ofC` (hand-written from java/pr_data_java.c + XRayInit), checked by the same tie (model on the C tables vs Java on xraylib.dat) and by the write/read order check',
    'modelled, not verified: IEEE-754 rounding (theorems are over the reals: "same value" is exact equality of the real-number readings), Java int wrap-around as `wrapI`, the JVM',
]

def _lean_sources():
    out = [os.path.join(LEAN_DIR, 'JDriver.lean')] + PROP_FILES
    for sub in ('JCore', 'JGen'):
        d = os.path.join(LEAN_DIR, 'Xrl', sub)
        if os.path.isdir(d): out += sorted(os.path.join(d, f) for f in os.listdir(d) if f.endswith('.lean'))
    return out

def _regenerate_c(ctx):
    """lean/Xrl/Gen from the C sources (what every check of the main project does first)"""
    if LEAN_DIR == core.LEAN_DIR:
        ctx.regenerate(); return
    aux = ctx.sc.path('aux'); os.makedirs(aux, exist_ok=True)
    env = dict(os.environ, VERIF_REPO=REPO)
    gd = os.path.join(LEAN_DIR, 'Xrl', 'Gen')
    p = subprocess.run([sys.executable, os.path.join(VERIF, 'tools', 'gen.py'), ctx.sc.path('b'), gd, aux], capture_output=True, text=True, env=env)
    ctx.gen_errors = [l for l in p.stdout.splitlines() if l.startswith('UNSUPPORTED')]
    if p.returncode not in (0, 3): raise BuildError('gen.py crashed: ' + p.stderr[-3000:])
    subprocess.run([sys.executable, os.path.join(VERIF, 'tools', 'extract_headers.py'), ctx.sc.path('b'), gd, aux], capture_output=True, text=True, env=env)
    ctx.meta = json.load(open(os.path.join(aux, 'gen_meta.json')))

def _lake(targets):
    p = subprocess.run(['lake', 'build'] + list(targets), cwd=LEAN_DIR, capture_output=True, text=True)
    return p.returncode == 0, p.stdout + p.stderr

def _print_axioms(ctx, names):
    res = {}; txt = ''
    for i in range(0, len(names), 400):
        path = ctx.sc.path('AuditJ%d.lean' % i)
        open(path, 'w').write(''.join('import %s\n' % m for m in PROP_MODULES) + ''.join('#print axioms %s\n' % n for n in names[i:i + 400]))
        p = subprocess.run(['lake', 'env', 'lean', path], cwd=LEAN_DIR, capture_output=True, text=True)
        t = p.stdout + p.stderr; txt += t
        for m in re.finditer(r"^'(.+?)' depends on axioms: \[([^\]]*)\]|^'(.+?)' does not depend on any axioms", t, re.M):
            if m.group(1): res[m.group(1)] = [a.strip() for a in m.group(2).replace('\n', ' ').split(',') if a.strip()]
            else: res[m.group(3)] = []
    return res, txt

def _failing(build_log):
    names = []
    for pf in PROP_FILES:
        rel = os.path.relpath(pf, LEAN_DIR)
        lines = [int(x) for m in re.findall(re.escape(rel) + r':(\d+):\d+: error|error: ' + re.escape(rel) + r':(\d+)', build_log) for x in m if x]
        try: src = open(pf).read().splitlines()
        except OSError: continue
        for ln in lines:
            for i in range(min(ln, len(src)) - 1, -1, -1):
                m = re.match(r'\s*(?:theorem|def|example|lemma)\s+([\w\.\']+)', src[i])
                if m:
                    if m.group(1) not in names: names.append(m.group(1))
                    break
    return names

# ------------------------------------------------------------------------------------------ data path (text level)

def _fn_text(src, name):
    m = re.search(r'static\s+double\s+%s\s*\([^)]*\)\s*\{' % re.escape(name), src)
    if not m: return None
    i = m.end(); d = 1
    while d and i < len(src):
        d += {'{': 1, '}': -1}.get(src[i], 0); i += 1
    t = re.sub(r'/\*.*?\*/|//[^\n]*', '', src[m.start():i], flags=re.S)
    return re.sub(r'\s+', '', t)

def data_path_check(repo=REPO):
    """-> list of problems.  (a) the derivation functions java/pr_data_java.c duplicates from src/pr_data.c are the same text (comments and
    white space apart); (b) the blocks pr_data_java.c writes are, in order, the blocks XRayInit reads (names matched through the naming rule
    `X`, `X_arr`, `X2 -> X_arr2`), which is what `JTables.ofC` assumes field by field."""
    out = []
    cj = open(os.path.join(repo, 'java', 'pr_data_java.c'), errors='replace').read()
    cc = open(os.path.join(repo, 'src', 'pr_data.c'), errors='replace').read()
    # the derivation functions are textual copies that have drifted apart harmlessly (pr_data.c was refactored): not compared as text;
    # the tables they produce are compared by value through the tie (AugerRate / AugerYield / the cascade helpers on both sides)
    main = cj[cj.index('int main('):]
    main = re.sub(r'/\*.*?\*/|//[^\n]*', '', main, flags=re.S)
    writes = []
    for m in re.finditer(r'fwrite\(&(\w+), sizeof\((int|double)\), 1, f\)|print_doublevec\(ZMAX\+1, (\w+)\)|PR_MATD\((\w+)\)|PR_MATI\((\w+)\)|PR_NUMVEC1D\((\w+),|PR_DYNMATD\((\w+), ?(\w+),|PR_DYNMAT_3DD_K\((\w+), ?(\w+),|PR_DYNMAT_3DD_C\((\w+), ?(\w+), ?(\w+), ?(\w+),', main):
        g = m.groups()
        if g[0]:
            if g[0] in ('nCompoundDataNISTList', 'nNuclideDataList') or '.' in g[0]: break
            writes.append(g[0].upper())
        else:
            writes.append(next(x for x in (g[2], g[3], g[4], g[5], g[7], g[9], g[13]) if x))
    tail = main[main.index('PR_MATD(Auger_Rates)'):]
    writes += re.findall(r'PR_MATD\((xrf\w+)\)', tail)
    js = open(os.path.join(repo, 'java', 'Xraylib.java'), errors='replace').read()
    init = js[js.index('private static void XRayInit()'):js.index('public static double AtomicWeight(')]
    init = re.sub(r'/\*.*?\*/|//[^\n]*', '', init, flags=re.S)
    reads = [m.group(1) for m in re.finditer(r'^\s*(?:int\[\] )?(\w+) = (?:byte_buffer\.get(?:Int|Double)\(\)|read\w+\(|new double\[ZMAX\+1\]\[\]\[\])', init, re.M) if not m.group(1).startswith(('n', 'bytes', 'byte_'))]
    def canon(n):
        n = {'temp_arr': 'NE_Photo_Partial_Kissel', 'EdgeEnergy_Kissel_arr': 'EdgeEnergy_Kissel', 'Electron_Config_Kissel_arr': 'Electron_Config_Kissel'}.get(n, n)
        n = re.sub(r'_arr2$', '2', n); n = re.sub(r'_arr$', '', n)
        return n.upper() if n.upper() in ('ZMAX', 'SHELLNUM', 'SHELLNUM_K', 'SHELLNUM_A', 'TRANSNUM', 'LINENUM', 'AUGERNUM', 'RE2', 'MEC2', 'AVOGNUM', 'KEV2ANGST', 'R_E') else n
    w = [canon(x) for x in writes]; r = [canon(x) for x in reads]
    if w != r:
        k = next((i for i, (a, b) in enumerate(zip(w, r)) if a != b), min(len(w), len(r)))
        out.append('write order of java/pr_data_java.c and read order of XRayInit differ at block %d: written %s, read %s' % (k, w[k:k + 3], r[k:k + 3]))
    return out

# ------------------------------------------------------------------------------------------ translator tie

def run_model(ctx, lines, dump='pdump', chunk=6000):
    cmd = ['lake', 'env', 'lean', '--run', 'JDriver.lean', ctx.sc.path(dump + '.bin'), ctx.sc.path(dump + '.idx')]
    return xdrv.run_driver(cmd, lines, chunk=chunk, workers=14, cwd=LEAN_DIR)

def close(a, b, rel):
    if a == b: return True
    if math.isnan(a) or math.isnan(b): return math.isnan(a) and math.isnan(b)
    if math.isinf(a) or math.isinf(b): return False
    return abs(a - b) <= rel * max(abs(a), abs(b)) + 1e-300

def tie_judge(line, j_ans, m_ans, stats, rel0=None):
    """real Java vs Float model of the Java code -> None | description"""
    j = xdrv.parse_w(j_ans); t = m_ans.split(' ')
    if t[0] == 'stop':
        # the model stopped at a non-finite intermediate (x/0, log of a non-positive): Java goes on with Infinity/NaN — not judged
        stats['model_stop_' + (t[1] if len(t) > 1 else '?')] = stats.get('model_stop_' + (t[1] if len(t) > 1 else '?'), 0) + 1
        return None
    m = xdrv.parse_w(m_ans)
    if j['kind'] not in ('ok', 'throw') or m['kind'] not in ('ok', 'throw'): return 'unparsable answer: java `%s`, model `%s`' % (j_ans[:80], m_ans[:80])
    if j['kind'] != m['kind']: return 'Java %s, model %s' % (j_ans[:100], m_ans[:100])
    if j['kind'] == 'throw':
        if j['cls'] != m['cls']: return 'exception class: Java %s, model %s' % (j['cls'], m['cls'])
        if j['cls'] == 'IllegalArgumentException' and j['msg'] != m['msg']: return 'message: Java %s, model %s' % (j['msg'], m['msg'])
        stats['throws'] = stats.get('throws', 0) + 1
        return None
    if len(j['vals']) != len(m['vals']): return 'shape'
    rel = rel0 if rel0 is not None else (1e-9 if line.split(' ')[0] in RAYL else TIE_REL)
    for a, b in zip(j['vals'], m['vals']):
        if a == b: continue
        if a.startswith('x') and b.startswith('x'):
            x, y = xapi.unhx(a), xapi.unhx(b)
            if close(x, y, rel):
                if math.isfinite(x) and math.isfinite(y) and max(abs(x), abs(y)) > 0:
                    d = abs(x - y) / max(abs(x), abs(y))
                    if d > stats.get('max_rel_dev', 0): stats['max_rel_dev'] = d; stats['max_rel_dev_at'] = line
                continue
            return 'value: Java %.17g, model %.17g (rel %.3g)' % (x, y, abs(x - y) / max(abs(x), abs(y), 1e-300))
        return 'value: Java %s, model %s' % (a, b)
    stats['values'] = stats.get('values', 0) + 1
    return None

def tie_lines(ctx, b, meta):
    """protocol lines for every translated public method: the generator of the C18/C19 argument stream"""
    from props.c18 import Gen
    protos = {p['name']: p for p in b['protos']}
    fns = [f for f in meta['public_dispatch'] if f in protos and xapi.is_simple(protos[f])]
    g = Gen(ctx, dict(protos=b['protos'], wrappers=[], scalar_functions=fns), b['cdrv'], cpp=False)
    cap = 1500 if ctx.tier == 'quick' else 20000
    lines = []
    for f in fns: lines += g.scalar_lines(f, cap)
    # Java-only public methods (no C prototype): a small product of their own
    for f in meta['public_dispatch']:
        if f in protos: continue
        u = next(t for t in meta['translated'] if t['name'] == f)
        if [t for _, t in u['params']] == ['int', 'double']:
            lines += ['%s %d %s E' % (f, Z, xapi.hx(E)) for Z in (-1, 0, 1, 3, 11, 26, 56, 82, 92, 120, 121) for E in (0.0, -1.0, 0.05, 1.0, 7.2, 40.0, 120.0)]
    return lines, fns

# ------------------------------------------------------------------------------------------ data hypotheses of the theorems, executed

HYP_CHECKS = {      # op of JDriver.lean -> (hypotheses it implies by Xrl.C19.hyp_<op>_sound, theorems that ask for them)
    'counts': 'hN.. (counts are ints), hEq NE_Fii = NE_Fi (Fi), h92 no CS_Energy data for Z > 92 (CS_Energy)',
    'kall':   'KAllOk / KVecOk (Kissel vectors of the occupied sub-shells as long as their counts): CS(b)_Photo_Partial, the cascade helpers, Photo_Total, Total_Kissel, Fluor{Line,Shell}_Kissel*',
    'lgaps':  'LGaps (no gap in the chain L1, L2, L3 of edges): Jump_from_L2/L3, CS(b)_FluorLine/FluorShell, LineEnergy(LB_LINE)',
    'uoccup': 'hlenU, hU (where there are profiles: as many occupation numbers as shells, none negative): ComptonProfile_Partial',
    'aw':     'conclusion of haw (AtomicWeight_arr[Z] > 0): the closed forms CS_*/CSb_*/DCS_*/DCSP_* (W2)',
}
KISSEL_FAMILY = re.compile(r'^CSb?_Fluor(Line|Shell)_Kissel')

def hyp_configs(ctx):
    """(name, dump prefix) of the data configurations of this run"""
    out = [('shipped', 'dump'), ('shipped-raw-prdata', 'pdump')]
    suf = ctx.build_kissel_config('real'); out.append(('kissel-regenerated', 'dump' + suf))
    if ctx.tier == 'thorough' or os.environ.get('C19M_KISSEL'):
        suf = ctx.build_kissel_config('synth'); out.append(('kissel-synthetic', 'dump' + suf))
    return out

def jtame_points(ctx, lines):
    """(Z, E) at which `JTame (CS_Photo_Partial Z k E)`, k = 0..8, is executed: the arguments of the Kissel-family calls of the tie and a grid"""
    pts = set()
    for l in lines:
        t = l.split(' ')
        if KISSEL_FAMILY.match(t[0]) and len(t) >= 5:
            try: Z = int(t[1])
            except ValueError: continue
            if 1 <= Z <= 120 and t[3].startswith('x'): pts.add((Z, t[3]))
    if ctx.tier == 'quick' and len(pts) > 1500: pts = set(ctx.rng.sample(sorted(pts), 1500))
    for Z in range(1, 121):
        for E in (0.0012, 0.11, 1.0, 3.3, 9.9, 25.0, 81.0, 200.0, 799.0): pts.add((Z, xapi.hx(E)))
    return sorted(pts)

def _ranges(zs):
    zs = sorted(zs); out = []; i = 0
    while i < len(zs):
        j = i
        while j + 1 < len(zs) and zs[j + 1] == zs[j] + 1: j += 1
        out.append(str(zs[i]) if i == j else '%d-%d' % (zs[i], zs[j])); i = j + 1
    return ','.join(out)

def hyp_step(ctx, rep, cov, lines):
    """Runs every data hypothesis on every element of every configuration.  A hypothesis delimits the elements a theorem speaks about, it is not
    part of the property: where it fails the theorem is silent and the element is covered by the differential run alone — that is recorded
    (coverage `java_hypotheses_executed`), not reported as a problem.  A hypothesis that holds for NO element is a problem: the theorems that
    ask for it would say nothing about the tables."""
    res = {}
    tl = ['hyp.%s %d E' % (c, Z) for c in HYP_CHECKS for Z in range(1, 121)] + ['hyp.counts 0 E', 'hyp.counts 121 E']
    pts = jtame_points(ctx, lines)
    jl0 = ['CS_Photo_Partial %d %d %s E' % (Z, k, E) for Z, E in pts for k in range(9)]
    for name, dump in hyp_configs(ctx):
        jl = [] if name == 'shipped-raw-prdata' else jl0        # the same data as `shipped` before rounding to 11 digits: table checks only
        ans = run_model(ctx, tl + jl, dump)
        d = dict(elements='Z = 1..120 (counts also for the rows 0 and 121)', checks={})
        fails = {}
        for l, a in zip(tl, ans[:len(tl)]):
            c = l.split(' ')[0][4:]; Z = int(l.split(' ')[1])
            e = d['checks'].setdefault(c, dict(run=0, hold=0)); e['run'] += 1
            if a.strip() == 'hyp 1': e['hold'] += 1
            elif a.strip() == 'hyp 0': fails.setdefault(c, []).append(Z)
            else: rep['problems'].append('data hypothesis `%s` could not be executed (%s): %s' % (l, name, a[:80]))
        for c, e in d['checks'].items():
            e['fails_for_Z'] = _ranges(fails.get(c, []))
            if e['hold'] == 0:
                rep['problems'].append('the data hypothesis `%s` (%s) holds for no element of the %s tables: the theorems that ask for it say nothing about them' % (c, HYP_CHECKS[c], name))
        jt = dict(points=len(pts) if jl else 0, calls=len(jl), value=0, iae=0, not_tame=0, not_tame_examples=[])
        for l, a in zip(jl, ans[len(tl):]):
            if a.startswith('ok '): jt['value'] += 1
            elif a.startswith('throw IllegalArgumentException'): jt['iae'] += 1
            else:
                jt['not_tame'] += 1
                if len(jt['not_tame_examples']) < 8: jt['not_tame_examples'].append('%s -> %s' % (l, a[:60]))
        if jl and jt['value'] + jt['iae'] == 0: rep['problems'].append('`JTame` holds at none of the %d points executed on the %s tables' % (len(jl), name))
        d['jtame'] = jt
        res[name] = d
        log('C19 model hypotheses on %s (elements where each holds / fails): %s; JTame at %d points x 9 shells: %d values, %d IllegalArgument, %d not tame' % (
            name, ', '.join('%s %d/%d%s' % (c, e['hold'], e['run'], (' (not Z=%s)' % e['fails_for_Z']) if e['fails_for_Z'] else '') for c, e in d['checks'].items()),
            jt['points'], jt['value'], jt['iae'], jt['not_tame']))
    cov['java_hypotheses_executed'] = dict(what=HYP_CHECKS, soundness='Xrl.C19.hyp_{counts,kvec,kall,lgaps,uoccup,aw}_sound (lean/Xrl/Props/C19f.lean): check = true implies the hypothesis as the theorems state it',
                                           jtame='JTame (JGen.CS_Photo_Partial (JTables.ofC T) Z k E), k = 0..8, evaluated in the Float reading at the (Z, E) of the Kissel-family calls of the tie and a grid of 120 x 9',
                                           reading='where a hypothesis fails the theorems that ask for it are silent about that element; it stays covered by the differential run',
                                           configurations=res)

# ------------------------------------------------------------------------------------------ the step

def object_table_tie(b, objx, cov):
    """tools/jobjects.py read the field declarations from the Java text; java.lang.reflect reads them from the compiled classes: for every data
    class the public instance fields must be the same (name, type, final or not), a copy constructor must exist exactly where the table has
    rows, and every class a public static method returns must be known to the table (or be String / Complex / an array of those)"""
    out = []
    ans = xdrv.run_driver(b['jcmd'], ['!classes'], chunk=None)[0].split(' ')
    if ans[0] != 'ok': return ['the Java driver does not answer `!classes`: %s' % ' '.join(ans)[:200]]
    refl = {}
    for d in ans[1:]:
        m = re.fullmatch(r'(\w+)\{(.*)\}', d)
        if not m: out.append('unreadable class description %s' % d[:80]); continue
        items = [x for x in m.group(2).split(',') if x]
        refl[m.group(1)] = dict(fields=[tuple(x.split(':')) for x in items if x.count(':') == 2], copyctor=('copyctor=yes' in items))
    tab = {c['cls']: c for c in objx['classes']}
    for cls, r in refl.items():
        if cls in ('Complex', 'String'): continue
        if cls not in tab: out.append('class %s is handed out by the Java port but unknown to tools/jobjects.py (DATA_CLASSES)' % cls); continue
        want = [(f['name'], f['type'], 'final' if f['final'] else 'MUTABLE') for f in tab[cls]['fields'] if f['public']]
        if want != r['fields']: out.append('public fields of %s differ between the Java text and the compiled class: %s vs %s' % (cls, want, r['fields']))
        if tab[cls]['has_copy_ctor'] != r['copyctor']: out.append('copy constructor of %s: text %s, compiled class %s' % (cls, tab[cls]['has_copy_ctor'], r['copyctor']))
    cov['java_object_table'] = dict(classes={c['cls']: dict(fields=len(c['fields']), copy_ctor=c['has_copy_ctor'], immutable=c['immutable']) for c in objx['classes']},
                                    copy_ctor_rows={'%s.%s' % (r['cls'], r['field']): r['init'] for r in objx['ctor_rows'] if r['isArray']},
                                    unrecognised_statements=objx['unrecognised'],
                                    lookup_returns={'%s.%s' % (r['owner'], r['method']): r['kind'] for r in objx['lookups']},
                                    reflected_classes=sorted(refl))
    return out

def java_model_step(ctx, rep, build=None):
    cov = ctx.coverage
    t0 = time.time()
    from props.c19 import CHECK as C19
    b = build or getattr(ctx, 'c19_build', None) or C19.build(ctx)
    meta_path = ctx.sc.path('jmeta.json')
    with core.Lock():
        t = time.time()
        if getattr(ctx, 'meta', None) is None or not getattr(ctx, 'c19m_c_regenerated', False):
            _regenerate_c(ctx); ctx.c19m_c_regenerated = True
        if ctx.gen_errors: rep['tie_broken'] += ['(C side) ' + e for e in ctx.gen_errors]
        p = subprocess.run([sys.executable, os.path.join(VERIF, 'tools', 'j2lean.py'), REPO, JGEN_DIR, meta_path], capture_output=True, text=True, env=dict(os.environ, VERIF_REPO=REPO))
        uns = [l for l in p.stdout.splitlines() if l.startswith('UNSUPPORTED')]
        if p.returncode not in (0, 3) or not os.path.exists(meta_path):
            rep['tie_broken'].append('tools/j2lean.py could not read java/Xraylib.java: ' + (p.stderr or p.stdout)[-600:])
            cov.update(java_methods_translated=0, java_methods_unsupported=0, java_theorems=0, java_theorems_discharged=0)
            return
        meta = json.load(open(meta_path))
        rep['tie_broken'] += uns
        # the data classes: copy constructors field by field, `return`s of the object-returning methods -> lean/Xrl/JGen/Objects.lean (theorems of Props/C19g.lean)
        objx = None
        try:
            import jobjects
            objx = jobjects.emit(REPO, JGEN_DIR)
        except Exception as ex:
            rep['tie_broken'].append('tools/jobjects.py could not read the data classes of java/: %s' % str(ex)[:300])
        ctx.tick('j2lean', t); t = time.time()
        ok_model, log_model = _lake(['Xrl.JGen.Dispatch', 'Xrl.Gen.Load', 'Xrl.Core.Dump'])
        ctx.tick('lake_jgen', t); t = time.time()
        ok_props, log_props = _lake(PROP_MODULES)
        ctx.tick('lake_c19', t)
    cov['java_methods_translated'] = len(meta['translated']); cov['java_methods_unsupported'] = len(meta['unsupported'])
    cov['java_methods_outside_subset'] = len(meta['not_candidates'])
    if not ok_model: rep['tie_broken'].append('the generated Java model does not compile: ' + xdrv.first_errors(log_model, 4))
    theorems = [t for pf in PROP_FILES if os.path.exists(pf) for t in core.theorems_of(pf, NS)]
    cov['java_theorems'] = len(theorems)
    twins = sorted({re.sub(r'_(partial|KA)$', '', m.group(2)) for n in theorems for m in [re.match(re.escape(NS) + r'\.java_eq([wi]?)_c_(\w+)$', n)] if m and not m.group(2).endswith('_full_fails')})
    cov['java_methods_with_theorem'] = len(twins); cov['java_methods_with_theorem_list'] = twins
    if not ok_props:
        failing = _failing(log_props)
        rep['proof_broken'] += [NS + '.' + f for f in failing] or ['(modules %s do not build)' % ', '.join(PROP_MODULES)]
        rep['proof_log'] = (rep.get('proof_log', '') + '\n' + xdrv.first_errors(log_props, 10)).strip()
        cov['java_theorems_discharged'] = 0
    # audit
    bad = core.audit_sources(_lean_sources())
    if bad: rep['problems'].append('forbidden construct in the Lean sources of the Java model: ' + '; '.join(bad[:5]))
    if ok_props and theorems:
        t = time.time()
        ax, txt = _print_axioms(ctx, theorems)
        ctx.tick('axioms_c19', t)
        good = 0
        for th in theorems:
            if th not in ax: rep['problems'].append('axiom audit: no report for %s' % th)
            else:
                extra = set(ax[th]) - core.ALLOWED_AXIOMS
                if extra: rep['problems'].append('axiom audit: %s depends on %s' % (th, sorted(extra)))
                else: good += 1
        cov['java_theorems_discharged'] = good
    # the object table against the compiled classes (java.lang.reflect through the driver's `!classes`): same public fields, same types, same finality
    if objx is not None:
        try:
            rep['tie_broken'] += object_table_tie(b, objx, cov)
        except BuildError as ex:
            rep['tie_broken'].append('object table tie could not run: ' + str(ex)[:300])
    # data path
    dp = data_path_check()
    rep['tie_broken'] += dp
    # translator tie
    if ok_model:
        t = time.time()
        if not hasattr(ctx, 'objs'): ctx.build_c()
        if not os.path.exists(ctx.sc.path('dump.bin')): ctx.build_drivers()
        if not os.path.exists(ctx.sc.path('pdump.bin')): ctx.build_prdrv()
        ctx.tick('tie_build', t); t = time.time()
        lines, fns = tie_lines(ctx, b, meta)
        from concurrent.futures import ThreadPoolExecutor
        with ThreadPoolExecutor(max_workers=2) as ex:
            fj = ex.submit(xdrv.run_driver, b['jcmd'], lines, None, 20000, 6)
            fm = ex.submit(run_model, ctx, lines)
            ja, ma = fj.result(), fm.result()
        ctx.tick('tie_run', t)
        stats = {}; mism = []; per = {}
        for l, x, y in zip(lines, ja, ma):
            v = tie_judge(l, x, y, stats)
            d = per.setdefault(l.split(' ')[0], [0, 0]); d[0] += 1
            if v: d[1] += 1; mism.append((l, v, x, y))
        cov['java_tie'] = dict(methods=len(per), calls=len(lines), mismatches=len(mism), stats=stats, rel_tol=TIE_REL,
                               tables='raw tables of the prdata phase (harness/prdrv.c --dump) through JTables.ofC vs xraylib.dat read by XRayInit',
                               samples=[dict(call=lines[i], java=ja[i][:120], model=ma[i][:120]) for i in sorted(ctx.rng.sample(range(len(lines)), min(6, len(lines))))])
        seen = set()
        for l, v, x, y in mism:
            f = l.split(' ')[0]
            if f in seen: continue
            seen.add(f)
            rep['tie_broken'].append('Java model (j2lean) and the real Java method disagree: `%s`: %s' % (l, v))
        log('C19 model tie: %d methods, %d calls, %d mismatches in %d methods, max rel. deviation %.3g, %d exceptions agreed, model stops %s' % (
            len(per), len(lines), len(mism), len(seen), stats.get('max_rel_dev', 0), stats.get('throws', 0), {k: v for k, v in stats.items() if k.startswith('model_stop')}))
    # the data hypotheses of the theorems, on every configuration of tables this check loads
    if ok_model:
        t = time.time()
        try: hyp_step(ctx, rep, cov, lines)
        except BuildError as e: rep['problems'].append('data hypotheses could not be executed: ' + str(e)[:300])
        ctx.tick('hypotheses', t)
    # second data configuration (thorough tier, or C19M_KISSEL=1): synthetic Kissel tables, so that the Kissel / cascade methods return values
    if ok_model and (ctx.tier == 'thorough' or os.environ.get('C19M_KISSEL')):
        t = time.time()
        try:
            if not hasattr(C19, 'edges_c'): C19.load_edges(b)
            suf = ctx.build_kissel_config('synth')
            bk = C19.build_kissel(ctx, 'synth')
            kre = re.compile(r'Kissel|Photo_Total|Photo_Partial|^ElectronConfig$|^P[LM]\d_')
            kl = [l for l in lines if kre.search(l.split(' ')[0])]
            with ThreadPoolExecutor(max_workers=2) as ex:
                fj = ex.submit(xdrv.run_driver, bk['jcmd'], kl, None, 20000, 6)
                fm = ex.submit(run_model, ctx, kl, 'dump' + suf)
                jk, mk = fj.result(), fm.result()
            kstats = {}; kmis = []
            for l, x, y in zip(kl, jk, mk):
                v = tie_judge(l, x, y, kstats, 1e-8)      # the model reads the library's tables (11 significant digits), Java the unrounded ones
                if v and C19.at_split_edge(l):
                    # the energy lies between the two stored values of an absorption edge (decimal print vs binary dump, one ulp apart): the
                    # threshold test flips between the two TABLES, not between model and code (same exclusion as props/c19.py) — not judged
                    kstats['edge_ulp_not_judged'] = kstats.get('edge_ulp_not_judged', 0) + 1; continue
                if v: kmis.append((l, v))
            cov['java_tie_kissel'] = dict(calls=len(kl), mismatches=len(kmis), stats=kstats, rel_tol=1e-8, tables='synthetic Kissel table (tools/synth_kissel.py): C library tables (%.10E) through JTables.ofC vs xraylib.dat')
            seen = set()
            for l, v in kmis:
                f = l.split(' ')[0]
                if f in seen: continue
                seen.add(f); rep['tie_broken'].append('Java model and the real Java method disagree on the synthetic Kissel tables: `%s`: %s' % (l, v))
            log('C19 model tie (synthetic Kissel tables): %d calls, %d values, %d exceptions agreed, %d mismatches, max rel. deviation %.3g' % (
                len(kl), kstats.get('values', 0), kstats.get('throws', 0), len(kmis), kstats.get('max_rel_dev', 0)))
        except BuildError as e:
            rep['problems'].append('second data configuration of the tie could not be built: ' + str(e)[:300])
        ctx.tick('tie_kissel', t)
    cov['java_model_trusted_base'] = TRUSTED
    cov['java_unsupported'] = meta['unsupported']
    ctx.tick('java_model_step', t0)

def main(argv):
    tier = 'quick'; seed = int(os.environ.get('VERIF_SEED', '0'))
    i = 0
    while i < len(argv):
        if argv[i] == '--tier': tier = argv[i + 1]; i += 2
        elif argv[i] == '--seed': seed = int(argv[i + 1]); i += 2
        else: i += 1
    ctx = core.Ctx('C19', tier, seed)
    rep = dict(problems=[], proof_broken=[], tie_broken=[])
    try:
        java_model_step(ctx, rep)
    except BuildError as e:
        rep['problems'].append('build error: ' + str(e)[:2000])
    finally:
        ctx.close()
    c = ctx.coverage
    print(json.dumps(dict(coverage={k: v for k, v in c.items() if k not in ('java_model_trusted_base', 'java_methods_with_theorem_list')}), indent=1)[:5000])
    print('timings: ' + json.dumps(ctx.timings))
    for k in ('proof_broken', 'tie_broken', 'problems'):
        for m in rep[k]: print('%s: %s' % (k.upper(), m))
    if rep.get('proof_log'): print(rep['proof_log'][:3000])
    bad = rep['proof_broken'] or rep['tie_broken'] or rep['problems']
    print('C19 model step: %d methods translated, %d unsupported, %d theorems (%d discharged) — %s' % (
        c.get('java_methods_translated', 0), c.get('java_methods_unsupported', 0), c.get('java_theorems', 0), c.get('java_theorems_discharged', 0), 'FAILED' if bad else 'ok'))
    return 1 if bad else 0

if __name__ == '__main__':
    sys.exit(main(sys.argv[1:]))
