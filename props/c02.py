"""C02 — interpolated quantities follow the shipped spline and never extrapolate."""
import math
from vlib.runner import Check
from vlib import core
from vlib.core import hx, unhx

# site -> (abscissa table, argument from abscissa, Z range)
SITES = {
    'CS_Photo': ('E_Photo_arr', lambda x: math.exp(x) / 1000.0),
    'CS_Rayl': ('E_Rayl_arr', lambda x: math.exp(x) / 1000.0),
    'CS_Compt': ('E_Compt_arr', lambda x: math.exp(x) / 1000.0),
    'CS_Energy': ('E_Energy_arr', lambda x: math.exp(x)),
    'Fi': ('E_Fi_arr', lambda x: x),
    'Fii': ('E_Fii_arr', lambda x: x),
    'FF_Rayl': ('q_Rayl_arr', lambda x: x),
    'SF_Compt': ('q_Compt_arr', lambda x: x),
    'ComptonProfile': ('pz_ComptonProfiles', lambda x: math.exp(x) - 1.0),
}
EXTRA = ['ComptonProfile_Partial', 'CSb_Photo_Partial']     # site theorems in Props/C02b.lean; searched in search2()
FRACS = (0.0, 0.137, 0.5, 0.863)
ENDS = (1e-12, 1e-9, 0.9e-7, 1.1e-7, 1e-6, 1e-3)
KNOWN_SHAPE = {'Photo:96'}

class C02(Check):
    id = 'C02'
    module = 'Xrl.Props.C02'
    namespace = 'Xrl.C02'
    extra_modules = [('Xrl.Props.C02b', 'Xrl.C02')]
    functions = sorted(SITES) + EXTRA + ['splint']
    nonvacuity = ['no_extrapolation_full_fails', 'wit']
    assumptions = ['site theorems assume the shape predicate vecOkB of the table triple (non-decreasing knots, count inside the vectors); '
                   'it is executed on the dumped tables on every run (compiled Lean, not kernel)',
                   'theorems are over the reals: rounding of the cubic is absorbed by the comparison tolerance of the correspondence run']

    def knots(self, ctx):
        if hasattr(ctx, '_knots'): return ctx._knots
        req = []
        for fn, (tab, inv) in SITES.items():
            for Z in range(1, 121): req.append('vec %s %d' % (tab, Z))
        out = ctx.run_model(req)
        ctx._knots = {}
        i = 0
        for fn, (tab, inv) in SITES.items():
            for Z in range(1, 121):
                ctx._knots[(fn, Z)] = [unhx(t) for t in out[i].split(' ')[1:] if t]
                i += 1
        return ctx._knots

    def points(self, ctx):
        """(fn, Z, argument, class) with class in knot|interior|low|high|sliver|nonpos|huge"""
        step = 1 if ctx.tier == 'thorough' else 8
        off = ctx.rng.randrange(step)
        pts = []
        for (fn, Z), xs in self.knots(ctx).items():
            inv = SITES[fn][1]
            if len(xs) < 2:
                for a in (-1.0, 0.0, 1.0, 10.0): pts.append((fn, Z, a, 'nodata'))
                continue
            for k in range(len(xs) - 1):
                if (k + off) % step and k not in (0, len(xs) - 2): continue
                for f in FRACS:
                    x = xs[k] + f * (xs[k + 1] - xs[k])
                    pts.append((fn, Z, inv(x), 'knot' if f == 0.0 else 'interior'))
            pts.append((fn, Z, inv(xs[-1]), 'knot'))
            lo, hi = inv(xs[0]), inv(xs[-1])
            for e in ENDS:
                pts.append((fn, Z, lo * (1 - e) if lo > 0 else lo - e, 'low'))
                pts.append((fn, Z, lo * (1 + e) if lo > 0 else lo + e, 'interior'))
                pts.append((fn, Z, hi * (1 - e), 'interior'))
                pts.append((fn, Z, hi * (1 + e), 'high'))
            for a in (0.0, -1.0, -1e-300, 1e6, 1e300): pts.append((fn, Z, a, 'nonpos' if a <= 0 else 'huge'))
        for fn in SITES:
            for Z in (-3, -1, 0, 121, 125):
                for a in (1.0, 10.0): pts.append((fn, Z, a, 'badZ'))
        return pts

    def corr_lines(self, ctx):
        lines = []
        for fn, Z, a, cls in self.points(ctx):
            lines.append('%s %d %s E' % (fn, Z, hx(a)))
        # sub-shell profiles and Kissel partial photo cross sections: correspondence over a grid
        for Z in range(0, 122, 1 if ctx.tier == 'thorough' else 7):
            for sh in range(-1, 32, 1 if ctx.tier == 'thorough' else 3):
                for a in (0.0, 0.5, 1.5, 10.0, 99.0, 100.0, 101.0, -1.0):
                    lines.append('ComptonProfile_Partial %d %d %s E' % (Z, sh, hx(a)))
                for a in (0.01, 1.0, 8.0, 30.0, 100.0, 1000.0, 0.0):
                    lines.append('CSb_Photo_Partial %d %d %s E' % (Z, sh, hx(a)))
        return lines + [l[:-1] + 'N' for l in lines[::5]]

    def search(self, ctx):
        pts = self.points(ctx)
        clines = ['%s %d %s E' % (fn, Z, hx(a)) for fn, Z, a, cls in pts]
        slines = ['spec.%s %d %s' % (fn, Z, hx(a)) for fn, Z, a, cls in pts]
        c = ctx.run_c(clines)
        try:
            e = ctx.run_model(slines + ['spec.shapeFailures'])
        except core.BuildError:
            return 0, [], {'rule': 'specification driver unavailable'}
        shape = e[-1]
        viol = []; stats = {}; classes = {}
        nontriv = set()
        bad_shape = set(x for x in shape[len('shape ['):-1].split(', ') if x)
        for s in sorted(bad_shape):
            viol.append(dict(key='shape:' + s, got='vecOkB false', expected='knots non-decreasing, count inside the vectors',
                             what='data invariant assumed by the site theorems fails on the tables built from the working tree'))
        for (fn, Z, a, cls), cl, co, eo in zip(pts, clines, c, e):
            classes[cls] = classes.get(cls, 0) + 1
            if eo.startswith('value'): nontriv.add(cl)
            if not core.expect_agrees(co, eo, rel=1e-10, stats=stats):
                tab = {'CS_Photo': 'Photo'}.get(fn)
                key = cl
                if tab and ('%s:%d' % (tab, Z)) in bad_shape:
                    # a table with out-of-order knots is the known data defect ONLY where the disorder is: inside the span of the offending
                    # knot pair(s) (where bracketing is undefined); a disagreement anywhere else on that element is a new violation
                    xs = self.knots(ctx).get((fn, Z), [])
                    x = math.log(a * 1000.0) if a > 0 else None
                    spans = [(min(xs[k], xs[k + 1], xs[max(k - 1, 0)]), max(xs[k], xs[k + 1], xs[min(k + 2, len(xs) - 1)])) for k in range(len(xs) - 1) if xs[k + 1] < xs[k]]
                    if x is not None and any(lo - 1e-9 <= x <= hi + 1e-9 for lo, hi in spans): key = 'shape:%s:%d' % (tab, Z)
                viol.append(dict(key=key, got=co, expected=eo, what='spline site: library vs specification (%s point)' % cls))
            # the property's own reading of "never extrapolates": beyond the last knot the call must fail
            if cls == 'high' and core.parse_answer(co)['kind'] == 'ok' and core.parse_answer(co)['slot'] == 'E':
                viol.append(dict(key='splint-slack', got=co, expected='fails', what='%s: accepted and extrapolated beyond the last knot (x - x_n <= 1e-7 in transformed space)' % cl))
        n2, v2, st2 = self.search2(ctx)
        viol += v2; stats.update(st2)
        # de-duplicate class-keyed violations
        seen = set(); out = []
        for v in viol:
            if v['key'] in seen: continue
            seen.add(v['key']); out.append(v)
        stats.update(rule='per site x Z: every %s knot interval at fractions %s, both ends at relative offsets %s, non-positive and huge arguments, invalid Z; '
                          'non-trivial = distinct calls for which the specification expects a value' % ('' if ctx.tier == 'thorough' else '8th (seeded offset)', FRACS, ENDS),
                     distinct_nontrivial=len(nontriv), point_classes=classes, shape_failures=sorted(bad_shape),
                     samples=[dict(call=clines[i], impl=c[i], expected=e[i]) for i in (0, len(clines) // 2, len(clines) - 1)])
        return len(clines) + n2, out, stats

    # ---- the two sub-shell sites (Props/C02b.lean): per-shell Compton profiles (shipped tables) and the Kissel partial photo-
    #      ionisation cross sections (Kissel table regenerated from data/kissel: in the shipped configuration it is empty)
    def search2(self, ctx):
        viol = []; stats = {}; n = 0
        step = 1 if ctx.tier == 'thorough' else 6
        off = ctx.rng.randrange(step)
        def cmp(site, clines, slines, classes, exe=None, dump='dump', tag=''):
            c = ctx.run_c(clines, exe=exe) if exe else ctx.run_c(clines)
            e = ctx.run_model(slines, dump=dump)
            nt = 0
            for cl, co, eo, cls in zip(clines, c, e, classes):
                if eo.startswith('value'): nt += 1
                if not core.expect_agrees(co, eo, rel=1e-10, stats=stats):
                    viol.append(dict(key=cl + tag, got=co, expected=eo, what='%s site: library vs specification (%s point)' % (site, cls)))
                if cls == 'high' and core.parse_answer(co)['kind'] == 'ok' and core.parse_answer(co)['slot'] == 'E':
                    viol.append(dict(key='splint-slack', got=co, expected='fails', what='%s: accepted and extrapolated beyond the last knot' % cl))
            return nt
        # (a) ComptonProfile_Partial: knots pz (transformed ln(pz+1)), every shell column incl. invalid ones
        req = ['vec pz_ComptonProfiles %d' % Z for Z in range(1, 121)]
        kn = [[unhx(t) for t in o.split(' ')[1:] if t] for o in ctx.run_model(req)]
        cl = []; sl = []; cs = []
        for Z, xs in zip(range(1, 121), kn):
            if len(xs) < 2: xs = [0.0, 1.0]
            args = []
            for k in range(len(xs) - 1):
                if (k + off) % step and k not in (0, len(xs) - 2): continue
                for f in FRACS: args.append((math.exp(xs[k] + f * (xs[k + 1] - xs[k])) - 1.0, 'knot' if f == 0.0 else 'interior'))
            hi = math.exp(xs[-1]) - 1.0
            args += [(hi, 'knot'), (hi * (1 + 1e-6), 'high'), (hi * (1 - 1e-9), 'interior'), (0.0, 'knot'), (-1e-9, 'low'), (-1.0, 'nonpos'), (1e6, 'huge')]
            for sh in list(range(-1, 31)) if (Z + off) % step == 0 else [0, 1, 3, ctx.rng.randrange(4, 29)]:
                for a, c_ in (args if sh >= 0 else args[:3]):
                    cl.append('ComptonProfile_Partial %d %d %s E' % (Z, sh, hx(a))); sl.append('spec.ComptonProfile_Partial %d %d %s' % (Z, sh, hx(a))); cs.append(c_)
        for Z in (-1, 0, 121):
            cl.append('ComptonProfile_Partial %d 0 %s E' % (Z, hx(1.0))); sl.append('spec.ComptonProfile_Partial %d 0 %s' % (Z, hx(1.0))); cs.append('badZ')
        nt_a = cmp('ComptonProfile_Partial', cl, sl, cs); n += len(cl)
        # (b) CSb_Photo_Partial on the regenerated Kissel table: below the edge, edge..first knot (the log-log extension), every
        #     knot interval, beyond the last knot
        suf = ctx.build_kissel_config('real')
        exe = ctx.sc.path('cdrv' + suf); dump = 'dump' + suf
        sh2 = ctx.run_model(['spec.shapeFailures2', 'spec.weightFailures'], dump=dump) + ctx.run_model(['spec.shapeFailures2', 'spec.weightFailures'])
        for o, nm in zip(sh2, ('shapeFailures2@real', 'weightFailures@real', 'shapeFailures2', 'weightFailures')):
            bad = [x for x in o[len('shape ['):-1].split(', ') if x]
            for b in bad[:5]:
                viol.append(dict(key='%s:%s' % (nm, b), got='false', expected='sub-shell table well-formed / atomic weight present wherever a structure table is',
                                 what='data invariant assumed by the C02b / C05b theorems fails on the tables built from the working tree'))
        Zs = [Z for Z in range(1, 101) if (Z + off) % step == 0] + [0, 101, 121]
        req = ['vec E_Photo_Partial_Kissel %d' % (Z * 31 + sh) for Z in Zs if 1 <= Z <= 120 for sh in range(31)]
        out = iter(ctx.run_model(req, dump=dump))
        edges = {}
        q = ['EdgeEnergy %d %d N' % (Z, sh) for Z in Zs if 1 <= Z <= 120 for sh in range(28)]
        for l, o in zip(q, ctx.run_c(q)):
            _, Z, sh, _ = l.split(); edges[(int(Z), int(sh))] = core.parse_answer(o)['vals'][0]
        cl = []; sl = []; cs = []
        def add(Z, sh, E, c_):
            cl.append('CSb_Photo_Partial %d %d %s E' % (Z, sh, hx(E))); sl.append('spec.CSb_Photo_Partial %d %d %s' % (Z, sh, hx(E))); cs.append(c_)
        for Z in Zs:
            for sh in range(-1, 32):
                xs = []
                if 1 <= Z <= 120 and 0 <= sh < 31: xs = [unhx(t) for t in next(out).split(' ')[1:] if t]
                ed = edges.get((Z, sh), 0.0)
                for E in (1.0, 30.0): add(Z, sh, E, 'grid')
                if ed > 0:
                    add(Z, sh, ed * (1 - 1e-9), 'below-edge'); add(Z, sh, ed, 'edge'); add(Z, sh, ed * (1 + 1e-9), 'above-edge')
                if len(xs) >= 2:
                    lo = math.exp(xs[0]); hi = math.exp(xs[-1])
                    if ed > 0 and ed < lo:
                        for f in (0.25, 0.5, 0.9): add(Z, sh, ed + f * (lo - ed), 'extension')
                    add(Z, sh, lo, 'knot'); add(Z, sh, hi, 'knot'); add(Z, sh, hi * (1 + 1e-6), 'high'); add(Z, sh, hi * (1 - 1e-9), 'interior')
                    ks = sorted(set([0, len(xs) - 2] + ctx.rng.sample(range(len(xs) - 1), min(4 if ctx.tier == 'quick' else 40, len(xs) - 1))))
                    for k in ks:
                        for f in FRACS: add(Z, sh, math.exp(xs[k] + f * (xs[k + 1] - xs[k])), 'knot' if f == 0.0 else 'interior')
        # a point right at a knot can fall on either side of the edge/knot comparison after exp/log rounding: classes 'edge' and
        # 'knot' at the FIRST knot are compared only when both sides agree on success
        nt_b = cmp('CSb_Photo_Partial', cl, sl, cs, exe=exe, dump=dump, tag='  @real'); n += len(cl)
        cls_count = {}
        for c_ in cs: cls_count[c_] = cls_count.get(c_, 0) + 1
        stats.update(subshell_sites=dict(ComptonProfile_Partial=dict(nontrivial=nt_a), CSb_Photo_Partial=dict(calls=len(cl), nontrivial=nt_b, classes=cls_count)))
        return n, viol, stats

CHECK = C02()
