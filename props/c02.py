"""C02 — interpolated quantities follow the shipped spline and never extrapolate."""
import math
from vlib.runner import Check
from vlib import core
from vlib.core import hx, unhx

# site -> (abscissa table, argument from abscissa, Z range)
SITES = {
    'CS_Photo': ('E_Photo_arr', lambda x: math.exp(x) / 1000.0),
    'CS_Rayl': ('E_Rayl_arr', lambda x: math.exp(x) / 1000.0),
    'CS_Compt': ('E_Compt_arr', lambda x: math.exp(x) / 1000.0),
    'CS_Energy': ('E_Energy_arr', lambda x: math.exp(x)),
    'Fi': ('E_Fi_arr', lambda x: x),
    'Fii': ('E_Fii_arr', lambda x: x),
    'FF_Rayl': ('q_Rayl_arr', lambda x: x),
    'SF_Compt': ('q_Compt_arr', lambda x: x),
    'ComptonProfile': ('pz_ComptonProfiles', lambda x: math.exp(x) - 1.0),
}
# site -> (ordinate table, value from ordinate): for the raw-ordinate oracle at the knots (theorems knot_<site>, Props/C02c.lean)
ORD = {'CS_Photo': ('CS_Photo_arr', math.exp), 'CS_Rayl': ('CS_Rayl_arr', math.exp), 'CS_Compt': ('CS_Compt_arr', math.exp),
       'CS_Energy': ('CS_Energy_arr', math.exp), 'Fi': ('Fi_arr', float), 'Fii': ('Fii_arr', float), 'FF_Rayl': ('FF_Rayl_arr', float),
       'SF_Compt': ('SF_Compt_arr', float), 'ComptonProfile': ('Total_ComptonProfiles', math.exp)}
EXTRA = ['ComptonProfile_Partial', 'CSb_Photo_Partial']     # site theorems in Props/C02b.lean; searched in search2()
FRACS = (0.0, 0.137, 0.5, 0.863)
ENDS = (1e-12, 1e-9, 0.9e-7, 1.1e-7, 1e-6, 1e-3)
KNOWN_SHAPE = {'Photo:96'}

class C02(Check):
    id = 'C02'
    module = 'Xrl.Props.C02'
    namespace = 'Xrl.C02'
    # C02b: the two sub-shell sites; C02c: the cubic characterised by its defining properties (values at both knots, second derivative =
    # linear interpolation of the tabulated ones, uniqueness), the value at every knot for the ten non-Kissel sites, knots at argument 0
    extra_modules = [('Xrl.Props.C02b', 'Xrl.C02'), ('Xrl.Props.C02c', 'Xrl.C02')]
    functions = sorted(SITES) + EXTRA + ['splint']
    nonvacuity = ['no_extrapolation_full_fails', 'wit']
    assumptions = ['site theorems assume the shape predicate vecOkB of the table triple (non-decreasing knots, count inside the vectors); '
                   'it is executed on the dumped tables on every run (compiled Lean, not kernel)',
                   'theorems are over the reals: rounding of the cubic is absorbed by the comparison tolerance of the correspondence run',
                   'SF_Compt(Z, 0) is an error also where q = 0 is a tabulated knot (hydrogen): the tabulated value there is 0, the error sentinel (sf_compt_zero_knot); '
                   'FF_Rayl(Z, 0) = Z by definition; both agree with the tables under the executed conditions spec.zeroKnotBad = [] (knots at 0: FF_Rayl:1, SF_Compt:1)']

    def knots(self, ctx):
        if hasattr(ctx, '_knots'): return ctx._knots
        req = []
        for fn, (tab, inv) in SITES.items():
            for Z in range(1, 121): req.append('vec %s %d' % (tab, Z))
        out = ctx.run_model(req)
        ctx._knots = {}
        i = 0
        for fn, (tab, inv) in SITES.items():
            for Z in range(1, 121):
                ctx._knots[(fn, Z)] = [unhx(t) for t in out[i].split(' ')[1:] if t]
                i += 1
        return ctx._knots

    def points(self, ctx):
        """(fn, Z, argument, class) with class in knot|interior|low|high|sliver|nonpos|huge"""
        step = 1 if ctx.tier == 'thorough' else 8
        off = ctx.rng.randrange(step)
        pts = []
        for (fn, Z), xs in self.knots(ctx).items():
            inv = SITES[fn][1]
            if len(xs) < 2:
                for a in (-1.0, 0.0, 1.0, 10.0): pts.append((fn, Z, a, 'nodata'))
                continue
            for k in range(len(xs) - 1):
                if (k + off) % step and k not in (0, len(xs) - 2): continue
                for f in FRACS:
                    x = xs[k] + f * (xs[k + 1] - xs[k])
                    pts.append((fn, Z, inv(x), 'knot' if f == 0.0 else 'interior'))
            pts.append((fn, Z, inv(xs[-1]), 'knot'))
            lo, hi = inv(xs[0]), inv(xs[-1])
            for e in ENDS:
                pts.append((fn, Z, lo * (1 - e) if lo > 0 else lo - e, 'low'))
                pts.append((fn, Z, lo * (1 + e) if lo > 0 else lo + e, 'interior'))
                pts.append((fn, Z, hi * (1 - e), 'interior'))
                pts.append((fn, Z, hi * (1 + e), 'high'))
            for a in (0.0, -1.0, -1e-300, 1e6, 1e300): pts.append((fn, Z, a, 'nonpos' if a <= 0 else 'huge'))
        for fn in SITES:
            for Z in (-3, -1, 0, 121, 125):
                for a in (1.0, 10.0): pts.append((fn, Z, a, 'badZ'))
        return pts

    def corr_lines(self, ctx):
        lines = []
        for fn, Z, a, cls in self.points(ctx):
            lines.append('%s %d %s E' % (fn, Z, hx(a)))
        # sub-shell profiles and Kissel partial photo cross sections: correspondence over a grid
        for Z in range(0, 122, 1 if ctx.tier == 'thorough' else 7):
            for sh in range(-1, 32, 1 if ctx.tier == 'thorough' else 3):
                for a in (0.0, 0.5, 1.5, 10.0, 99.0, 100.0, 101.0, -1.0):
                    lines.append('ComptonProfile_Partial %d %d %s E' % (Z, sh, hx(a)))
                for a in (0.01, 1.0, 8.0, 30.0, 100.0, 1000.0, 0.0):
                    lines.append('CSb_Photo_Partial %d %d %s E' % (Z, sh, hx(a)))
        return lines + [l[:-1] + 'N' for l in lines[::5]]

    def search(self, ctx):
        pts = self.points(ctx)
        clines = ['%s %d %s E' % (fn, Z, hx(a)) for fn, Z, a, cls in pts]
        slines = ['spec.%s %d %s' % (fn, Z, hx(a)) for fn, Z, a, cls in pts]
        c = ctx.run_c(clines)
        try:
            e = ctx.run_model(slines + ['spec.shapeFailures'])
        except core.BuildError:
            return 0, [], {'rule': 'specification driver unavailable'}
        shape = e[-1]
        viol = []; stats = {}; classes = {}
        nontriv = set()
        bad_shape = set(x for x in shape[len('shape ['):-1].split(', ') if x)
        for s in sorted(bad_shape):
            viol.append(dict(key='shape:' + s, got='vecOkB false', expected='knots non-decreasing, count inside the vectors',
                             what='data invariant assumed by the site theorems fails on the tables built from the working tree'))
        for (fn, Z, a, cls), cl, co, eo in zip(pts, clines, c, e):
            classes[cls] = classes.get(cls, 0) + 1
            if eo.startswith('value'): nontriv.add(cl)
            if not core.expect_agrees(co, eo, rel=1e-10, stats=stats):
                tab = {'CS_Photo': 'Photo'}.get(fn)
                key = cl
                if tab and ('%s:%d' % (tab, Z)) in bad_shape:
                    # a table with out-of-order knots is the known data defect ONLY where the disorder is: inside the span of the offending
                    # knot pair(s) (where bracketing is undefined); a disagreement anywhere else on that element is a new violation
                    xs = self.knots(ctx).get((fn, Z), [])
                    x = math.log(a * 1000.0) if a > 0 else None
                    # (the inverted pair itself: for x below xs[k+1] or above xs[k] the downward scan of the specification and the bisection of splint agree)
                    spans = [(xs[k + 1], xs[k]) for k in range(len(xs) - 1) if xs[k + 1] < xs[k]]
                    if x is not None and any(lo - 1e-9 <= x <= hi + 1e-9 for lo, hi in spans): key = 'shape:%s:%d' % (tab, Z)
                viol.append(dict(key=key, got=co, expected=eo, what='spline site: library vs specification (%s point)' % cls))
            # the property's own reading of "never extrapolates": beyond the last knot the call must fail
            if cls == 'high' and core.parse_answer(co)['kind'] == 'ok' and core.parse_answer(co)['slot'] == 'E':
                viol.append(dict(key='splint-slack', got=co, expected='fails', what='%s: accepted and extrapolated beyond the last knot (x - x_n <= 1e-7 in transformed space)' % cl))
        nk, vk, stk = self.knot_oracle(ctx)
        viol += vk; stats.update(stk)
        nd, vd, std = self.datafile_oracle(ctx)
        viol += vd; stats.update(std); nk += nd
        n2, v2, st2 = self.search2(ctx)
        n2 += nk
        viol += v2; stats.update(st2)
        # de-duplicate class-keyed violations
        seen = set(); out = []
        for v in viol:
            if v['key'] in seen: continue
            seen.add(v['key']); out.append(v)
        stats.update(rule='per site x Z: every %s knot interval at fractions %s, both ends at relative offsets %s, non-positive and huge arguments, invalid Z; '
                          'non-trivial = distinct calls for which the specification expects a value' % ('' if ctx.tier == 'thorough' else '8th (seeded offset)', FRACS, ENDS),
                     distinct_nontrivial=len(nontriv), point_classes=classes, shape_failures=sorted(bad_shape),
                     samples=[dict(call=clines[i], impl=c[i], expected=e[i]) for i in (0, len(clines) // 2, len(clines) - 1)])
        return len(clines) + n2, out, stats

    # ---- "equals the tabulated value at every knot", read literally: at every knot with distinct neighbours on both sides (and the last
    #      knot) of every table the library must return the inverse transform of the TABULATED ORDINATE itself (not the specification's
    #      cubic evaluated there) — the executable form of the theorems knot_<site> (Props/C02c.lean).  Every knot, both tiers.
    def knot_oracle(self, ctx):
        kn = self.knots(ctx)
        req = ['vec %s %d' % (ORD[fn][0], Z) for fn in SITES for Z in range(1, 121)]
        out = ctx.run_model(req)
        lines = []; want = []
        i = 0
        for fn in SITES:
            inv = SITES[fn][1]; fy = ORD[fn][1]
            for Z in range(1, 121):
                ys = [unhx(t) for t in out[i].split(' ')[1:] if t]; i += 1
                xs = kn.get((fn, Z), [])
                if len(xs) < 3 or len(ys) < len(xs): continue
                for k in range(1, len(xs)):
                    if not (xs[k - 1] < xs[k] and (k == len(xs) - 1 or xs[k] < xs[k + 1])): continue
                    a = inv(xs[k])
                    if not (a > 0 or (fn == 'ComptonProfile' and a >= 0)): continue
                    try: w = fy(ys[k])
                    except OverflowError: continue
                    if w == 0.0: continue            # a tabulated 0 is the error sentinel (SF_Compt at q = 0: sf_compt_zero_knot)
                    lines.append('%s %d %s E' % (fn, Z, hx(a))); want.append(w)
        viol = []
        for l, w, o in zip(lines, want, ctx.run_c(lines)):
            pa = core.parse_answer(o)
            if not (pa['kind'] == 'ok' and pa['slot'] == 'E' and core.close(pa['vals'][0], w, 1e-9)):
                viol.append(dict(key=l, got=o, expected='value %r (the tabulated ordinate of this knot, inverse-transformed)' % w,
                                 what='the interpolated quantity at a knot is not the tabulated value'))
        return len(lines), viol[:100], dict(knot_oracle=dict(knots=len(lines), rule='every knot with distinct neighbours and the last knot of each of the 9 x 120 tables: library vs the tabulated ordinate, rel 1e-9'))

    # ---- "the cubic-spline interpolant through the SHIPPED knots and second derivatives": the seven spline files of data/ read here,
    #      independently of the build-time generator and the loaders (the specification above is evaluated on the tables compiled into the
    #      library, which a generator that prints fewer digits changes together with the library).  For every element and a seeded slice
    #      of the knot intervals (all of them at thorough tier) the library is compared, at 1/4, 1/2, 3/4 of the interval, with the textbook
    #      cubic through (x, y, y'') exactly as shipped.  The library is allowed the rounding it has always had: prdata prints the tables
    #      with 11 significant digits, which costs at most ~5e-11 of the size S of the spline's terms (measured: 4.3e-11); a call fails when
    #      it deviates by more than 5e-10 x S (in the transformed space of the site).
    def datafile_oracle(self, ctx):
        import os
        from vlib.core import REPO
        FILES = {'FF_Rayl': ('FF.dat', None), 'SF_Compt': ('SF.dat', None), 'Fi': ('fi.dat', None), 'Fii': ('fii.dat', None),
                 'CS_Photo': ('CS_Photo.dat', 'loglog'), 'CS_Rayl': ('CS_Rayl.dat', 'loglog'), 'CS_Compt': ('CS_Compt.dat', 'loglog')}
        step = 1 if ctx.tier == 'thorough' else 6
        off = ctx.rng.randrange(step)
        lines = []; want = []
        for fn, (fname, tr) in FILES.items():
            try: toks = open(os.path.join(REPO, 'data', fname)).read().split()
            except OSError: continue
            i = 0; Z = 0
            while i < len(toks):
                try: n = int(toks[i])
                except ValueError: break
                i += 1; Z += 1
                if n <= 0 or i + 3 * n > len(toks): 
                    if n > 0: break
                    continue
                rows = [(float(toks[i + 3 * k]), float(toks[i + 3 * k + 1]), float(toks[i + 3 * k + 2])) for k in range(n)]
                i += 3 * n
                for k in range(n - 1):
                    if (k + Z + off) % step: continue
                    (x0, y0, d0), (x1, y1, d1) = rows[k], rows[k + 1]
                    h = x1 - x0
                    if not h > 0: continue
                    for fr in (0.25, 0.5, 0.75):
                        x = x0 + fr * h
                        if not (x0 < x < x1): continue
                        a = (x1 - x) / h; b = (x - x0) / h
                        t = [a * y0, b * y1, (a ** 3 - a) * d0 * h * h / 6.0, (b ** 3 - b) * d1 * h * h / 6.0]
                        S = sum(abs(v) for v in t)
                        if S == 0: continue
                        arg = math.exp(x) / 1000.0 if tr else x
                        if not arg > 0: continue
                        lines.append('%s %d %s E' % (fn, Z, hx(arg))); want.append((sum(t), S, tr, x))
        viol = []; worst = 0.0
        for l, (w, S, tr, x), o in zip(lines, want, ctx.run_c(lines)):
            pa = core.parse_answer(o)
            if not (pa['kind'] == 'ok' and pa['slot'] == 'E'):
                viol.append(dict(key=l, got=o, expected='a value: the argument lies strictly inside a knot interval of the shipped table', what='shipped data file vs library')); continue
            g = pa['vals'][0]
            if tr:
                if not g > 0: viol.append(dict(key=l, got=o, expected='positive', what='shipped data file vs library')); continue
                # the argument handed over is exp(x)/1000 rounded; its effect on the spline is below the tolerance for the slopes in these tables
                g = math.log(g)
            dev = abs(g - w) / S; worst = max(worst, dev)
            if dev > 5e-10:
                viol.append(dict(key=l, got=o, expected='%s %r (cubic through the knots and second derivatives shipped in data/, at x = %r of the transformed space)' % ('ln of the value =' if tr else 'value', w, x),
                                 what='the library does not reproduce the spline through the SHIPPED knots and second derivatives (deviation %.3g of the size of the spline terms; the 11-digit printing of the tables explains 5e-11)' % dev))
        return len(lines), viol[:100], dict(datafile_oracle=dict(points=len(lines), worst_deviation=worst, rule='7 spline files of data/ parsed independently; every %s knot interval x 3 interior points; tolerance 5e-10 of the spline terms' % ('' if step == 1 else '%dth (seeded offset)' % step)))

    # ---- the two sub-shell sites (Props/C02b.lean): per-shell Compton profiles (shipped tables) and the Kissel partial photo-
    #      ionisation cross sections (Kissel table regenerated from data/kissel: in the shipped configuration it is empty)
    def search2(self, ctx):
        viol = []; stats = {}; n = 0
        step = 1 if ctx.tier == 'thorough' else 6
        off = ctx.rng.randrange(step)
        def cmp(site, clines, slines, classes, exe=None, dump='dump', tag=''):
            c = ctx.run_c(clines, exe=exe) if exe else ctx.run_c(clines)
            e = ctx.run_model(slines, dump=dump)
            nt = 0
            for cl, co, eo, cls in zip(clines, c, e, classes):
                if eo.startswith('value'): nt += 1
                if not core.expect_agrees(co, eo, rel=1e-10, stats=stats):
                    viol.append(dict(key=cl + tag, got=co, expected=eo, what='%s site: library vs specification (%s point)' % (site, cls)))
                if cls == 'high' and core.parse_answer(co)['kind'] == 'ok' and core.parse_answer(co)['slot'] == 'E':
                    viol.append(dict(key='splint-slack', got=co, expected='fails', what='%s: accepted and extrapolated beyond the last knot' % cl))
            return nt
        # (a) ComptonProfile_Partial: knots pz (transformed ln(pz+1)), every shell column incl. invalid ones
        req = ['vec pz_ComptonProfiles %d' % Z for Z in range(1, 121)]
        kn = [[unhx(t) for t in o.split(' ')[1:] if t] for o in ctx.run_model(req)]
        cl = []; sl = []; cs = []
        for Z, xs in zip(range(1, 121), kn):
            if len(xs) < 2: xs = [0.0, 1.0]
            args = []
            for k in range(len(xs) - 1):
                if (k + off) % step and k not in (0, len(xs) - 2): continue
                for f in FRACS: args.append((math.exp(xs[k] + f * (xs[k + 1] - xs[k])) - 1.0, 'knot' if f == 0.0 else 'interior'))
            hi = math.exp(xs[-1]) - 1.0
            args += [(hi, 'knot'), (hi * (1 + 1e-6), 'high'), (hi * (1 - 1e-9), 'interior'), (0.0, 'knot'), (-1e-9, 'low'), (-1.0, 'nonpos'), (1e6, 'huge')]
            for sh in list(range(-1, 31)) if (Z + off) % step == 0 else [0, 1, 3, ctx.rng.randrange(4, 29)]:
                for a, c_ in (args if sh >= 0 else args[:3]):
                    cl.append('ComptonProfile_Partial %d %d %s E' % (Z, sh, hx(a))); sl.append('spec.ComptonProfile_Partial %d %d %s' % (Z, sh, hx(a))); cs.append(c_)
        for Z in (-1, 0, 121):
            cl.append('ComptonProfile_Partial %d 0 %s E' % (Z, hx(1.0))); sl.append('spec.ComptonProfile_Partial %d 0 %s' % (Z, hx(1.0))); cs.append('badZ')
        nt_a = cmp('ComptonProfile_Partial', cl, sl, cs); n += len(cl)
        # (b) CSb_Photo_Partial: below the edge, edge..first knot (the log-log extension, by the branch of its slope limit), EVERY knot
        #     interval of every sub-shell table of the elements visited, beyond the last knot — on the Kissel table regenerated from
        #     data/kissel ("real": the configuration the property names) and on the synthetic table ("synth", tools/synth_kissel.py:
        #     first-interval slopes above 1, inside [-1, 1] and below -1 by construction).  Thorough tier: every element; quick
        #     tier: the elements Z = -off (mod 6), a slice that rotates with the seed.
        cfgs = {}
        for kind in ('real', 'synth'):
            suf = ctx.build_kissel_config(kind)
            exe = ctx.sc.path('cdrv' + suf); dump = 'dump' + suf
            sh2 = ctx.run_model(['spec.shapeFailures2', 'spec.weightFailures'], dump=dump)
            for o, nm in zip(sh2, ('shapeFailures2@' + kind, 'weightFailures@' + kind)):
                bad = [x for x in o[len('shape ['):-1].split(', ') if x]
                for b in bad[:5]:
                    viol.append(dict(key='%s:%s' % (nm, b), got='false', expected='sub-shell table well-formed / atomic weight present wherever a structure table is',
                                     what='data invariant assumed by the C02b / C05b theorems fails on the tables built from the working tree'))
            cl, sl, cs, info = self.kissel_points(ctx, dump, step, off)
            nt = cmp('CSb_Photo_Partial', cl, sl, cs, exe=exe, dump=dump, tag='  @' + kind); n += len(cl)
            cls_count = {}
            for c_ in cs: cls_count[c_] = cls_count.get(c_, 0) + 1
            cfgs[kind] = dict(calls=len(cl), nontrivial=nt, classes=cls_count, **info)
        sh2 = ctx.run_model(['spec.shapeFailures2', 'spec.weightFailures', 'spec.zeroKnotBad', 'spec.zeroKnotTables'])
        for o, nm in zip(sh2[:3], ('shapeFailures2', 'weightFailures', 'zeroKnotBad')):
            bad = [x for x in o[len('shape ['):-1].split(', ') if x]
            for b in bad[:5]:
                viol.append(dict(key='%s:%s' % (nm, b), got='false', expected='sub-shell table well-formed / atomic weight present wherever a structure table is / a knot at argument 0 holds the value the function is defined to have there (FF: Z, SF: 0)',
                                 what='data invariant assumed by the C02b / C02c / C05b theorems fails on the tables built from the working tree'))
        # the synthetic table must reach the three branches of the slope limit (it is built to); the regenerated one is counted
        ext = cfgs['synth'].get('extension_slope_classes', {})
        for br in ('above_1', 'inside', 'below_-1'):
            if not ext.get(br):
                viol.append(dict(key='synthetic-table:extension:' + br, got='no sub-shell of the synthetic Kissel table has a first-interval slope %s' % br, expected='at least one (tools/synth_kissel.py slope_class)',
                                 what='the synthetic configuration no longer exercises this branch of the edge-to-first-knot extension'))
        stats.update(subshell_sites=dict(ComptonProfile_Partial=dict(nontrivial=nt_a), CSb_Photo_Partial=cfgs, zero_knot_tables=sh2[3],
                                         rule='Kissel sub-shell tables: %s; every knot interval of every visited table at fractions %s' % (
                                             'every element' if step == 1 else 'elements Z = %d (mod %d), a seeded rotating slice' % ((-off) % step, step), FRACS)))
        return n, viol, stats

    def kissel_points(self, ctx, dump, step, off):
        """CSb_Photo_Partial inputs for one data configuration -> (C lines, spec lines, classes, info)"""
        Zs = [Z for Z in range(1, 101) if (Z + off) % step == 0] + [0, 101, 121]
        req = []
        for Z in Zs:
            if 1 <= Z <= 120:
                for sh in range(31): req += ['vec E_Photo_Partial_Kissel %d' % (Z * 31 + sh), 'vec Photo_Partial_Kissel %d' % (Z * 31 + sh)]
        out = iter(ctx.run_model(req, dump=dump))
        edges = {}
        q = ['EdgeEnergy %d %d N' % (Z, sh) for Z in Zs if 1 <= Z <= 120 for sh in range(28)]
        for l, o in zip(q, ctx.run_c(q)):
            _, Z, sh, _ = l.split(); edges[(int(Z), int(sh))] = core.parse_answer(o)['vals'][0]
        cl = []; sl = []; cs = []
        ext = {'above_1': 0, 'inside': 0, 'below_-1': 0}; ntab = 0; nint = 0
        def add(Z, sh, E, c_):
            cl.append('CSb_Photo_Partial %d %d %s E' % (Z, sh, hx(E))); sl.append('spec.CSb_Photo_Partial %d %d %s' % (Z, sh, hx(E))); cs.append(c_)
        for Z in Zs:
            for sh in range(-1, 32):
                xs = []; ys = []
                if 1 <= Z <= 120 and 0 <= sh < 31:
                    xs = [unhx(t) for t in next(out).split(' ')[1:] if t]; ys = [unhx(t) for t in next(out).split(' ')[1:] if t]
                ed = edges.get((Z, sh), 0.0)
                for E in (1.0, 30.0): add(Z, sh, E, 'grid')
                if ed > 0:
                    add(Z, sh, ed * (1 - 1e-9), 'below-edge'); add(Z, sh, ed, 'edge'); add(Z, sh, ed * (1 + 1e-9), 'above-edge')
                if len(xs) >= 2:
                    ntab += 1; nint += len(xs) - 1
                    lo = math.exp(xs[0]); hi = math.exp(xs[-1])
                    if ed > 0 and ed < lo:
                        m = (ys[1] - ys[0]) / (xs[1] - xs[0]) if len(ys) >= 2 and xs[1] != xs[0] else 0.0
                        br = 'above_1' if m > 1.0 else 'below_-1' if m < -1.0 else 'inside'
                        ext[br] += 1
                        for f in (0.0, 0.25, 0.5, 0.9, 1 - 1e-9): add(Z, sh, ed + f * (lo - ed), 'extension:' + br)
                    add(Z, sh, lo, 'knot'); add(Z, sh, hi, 'knot'); add(Z, sh, hi * (1 + 1e-6), 'high'); add(Z, sh, hi * (1 - 1e-9), 'interior')
                    for k in range(len(xs) - 1):
                        for f in FRACS: add(Z, sh, math.exp(xs[k] + f * (xs[k + 1] - xs[k])), 'knot' if f == 0.0 else 'interior')
        return cl, sl, cs, dict(elements=len([Z for Z in Zs if 1 <= Z <= 100]), subshell_tables=ntab, knot_intervals=nint, extension_slope_classes=ext)

CHECK = C02()
