"""C15 — built-in databases are self-consistent and addressable in every documented way.

Tables are extracted from the sources on every run (tools/gen_c15.py) into lean-l4/XrlL4/Gen/C15.lean; the theorems of
lean-l4/XrlL4/Props/C15.lean are decided by the kernel; the generic lookup model (XrlL4/Catalogue.lean, executable
CatDriver.lean) is compared with the real library (harness/c15_drv.c, ASan+UBSan build of the working tree) on every name,
every index in [-3, n+3], every index macro, the list functions, malformed names (systematic near-misses of every
catalogue name, NULL names, random ones), and deep-copy histories (every index of every catalogue x all 24 free orders).
Two checks beside the theorems: the compiled crystal table against data/Crystals.dat through an independent parser
(crystals_vs_data_file) and Z_xray against the main decay mode of each radionuclide (daughter_elements)."""
import os, sys, re, json, time, subprocess, itertools, math, struct
from decimal import Decimal
from fractions import Fraction as F
from vlib import core, l4, cbuild
from vlib.cbuild import REPO, VERIF, BuildError
from vlib.core import log

ID = 'C15'
MODULE = 'XrlL4.Props.C15'
NAMESPACE = 'XrlL4.C15'
PROPS = os.path.join(l4.L4_DIR, 'XrlL4', 'Props', 'C15.lean')
DRV = os.path.join(VERIF, 'harness', 'c15_drv.c')
ASAN = dict(ASAN_OPTIONS='detect_leaks=1:abort_on_error=0:halt_on_error=1', UBSAN_OPTIONS='print_stacktrace=0:halt_on_error=1')


def macro_of(prefix, name):
    out = []
    for ch in name:
        if ch.isascii() and ch.isalnum(): out.append(ch.upper())
        elif ch in ' -': out.append('_')
    return prefix + ''.join(out)


def run_drv(exe, lines):
    """one process per call (histories are short); a sanitizer abort becomes `died …` for the line it happened on"""
    out = []; i = 0
    while i < len(lines):
        p = subprocess.run([exe], input='\n'.join(lines[i:]) + '\n', capture_output=True, text=True, env=dict(os.environ, **ASAN))
        got = p.stdout.splitlines()[:len(lines) - i]
        out += got; i += len(got)
        if i < len(lines):
            m = re.search(r'(runtime error: [^\n]*|ERROR: (?:Address|Leak)Sanitizer: [^\n]*|SUMMARY: [^\n]*)', p.stderr)
            if p.returncode == 0 and not m: raise BuildError('c15_drv stopped early without a diagnostic at: ' + lines[i])
            out.append('died ' + (m.group(1)[:200] if m else 'exit %d' % p.returncode)); i += 1
        elif p.returncode != 0:
            m = re.search(r'(ERROR: (?:Address|Leak)Sanitizer: [^\n]*|SUMMARY: [^\n]*)', p.stderr)
            out[-1] = out[-1] + ' ; process exit %d %s' % (p.returncode, m.group(1)[:160] if m else '')
    return out


def entry_level(js):
    """the clauses of Props/C15.lean, entry by entry, in exact rational arithmetic -> list of (theorem, key, what)"""
    bad = []
    c = js['counts']
    mend = js['mendel']
    if [z for z, _ in mend] != list(range(1, len(mend) + 1)): bad.append(('mendel_bijection', 'mendel order', 'Zatom of MendelArray[i] is not i+1 everywhere'))
    syms = [s for _, s in mend]
    for s in {s for s in syms if syms.count(s) > 1}: bad.append(('mendel_bijection', 'mendel_z\t' + s, 'symbol %s occurs twice in MendelArray' % s))
    if sorted(map(tuple, js['mendel_sorted'])) != sorted(map(tuple, mend)) or [s for _, s in js['mendel_sorted']] != sorted(s for _, s in js['mendel_sorted']):
        bad.append(('mendel_sorted_twin', 'mendel sorted', 'MendelArraySorted is not the strcmp-sorted permutation of MendelArray'))
    names = [e['name'] for e in js['nist']]
    if c['nist'] != c['nist_declared']: bad.append(('nist_wellformed', 'nist_list', 'nCompoundDataNISTList = %d but the array has %d entries' % (c['nist_declared'], c['nist'])))
    nm = dict(js['nist_macros'])
    for i, e in enumerate(js['nist']):
        k = 'nist_idx\t%d' % i; w = []
        if names.count(e['name']) > 1: w.append('name occurs %d times' % names.count(e['name']))
        if not (e['n'] == len(e['elements']) == len(e['fractions'])) or e['n'] == 0: w.append('nElements %d, %d elements, %d fractions' % (e['n'], len(e['elements']), len(e['fractions'])))
        if any(a >= b for a, b in zip(e['elements'], e['elements'][1:])): w.append('elements not strictly ascending: %s' % e['elements'])
        if any(not (1 <= z <= 120) for z in e['elements']): w.append('element outside 1..ZMAX')
        if any(F(x) <= 0 for x in e['fractions']): w.append('mass fraction <= 0')
        s = sum(F(x) for x in e['fractions'])
        if abs(s - 1) > F(2, 10 ** 6): w.append('mass fractions sum to %s (|sum-1| > 2e-6)' % float(s))
        if F(e['density']) <= 0: w.append('density %s <= 0' % e['density'])
        for x in w: bad.append(('nist_wellformed', k, '%s: %s' % (e['name'], x)))
        m = macro_of('NIST_COMPOUND_', e['name'])
        if nm.get(m) != i: bad.append(('nist_macros_match_order', k, '%s is entry %d but %s is %s' % (e['name'], i, m, nm.get(m, 'not defined'))))
    if len(nm) != len(names): bad.append(('nist_macros_match_order', 'nist_list', '%d NIST_COMPOUND_* macros for %d entries' % (len(nm), len(names))))
    rm = dict(js['nuclide_macros']); sym = {z: s for z, s in mend}
    rnames = [e['name'] for e in js['nuclides']]
    if c['nuclides'] != c['nuclides_declared']: bad.append(('nuclide_wellformed', 'nuclide_list', 'nNuclideDataList = %d but the array has %d entries' % (c['nuclides_declared'], c['nuclides'])))
    for i, e in enumerate(js['nuclides']):
        k = 'nuclide_idx\t%d' % i; w = []
        if rnames.count(e['name']) > 1: w.append('name occurs twice')
        if e['A'] != e['Z'] + e['N']: w.append('A=%d but Z+N=%d' % (e['A'], e['Z'] + e['N']))
        if e['name'] != '%d%s' % (e['A'], sym.get(e['Z'], '?')): w.append('name should be %d%s' % (e['A'], sym.get(e['Z'], '?')))
        if not (e['nXrays'] == len(e['lines']) == len(e['xint'])): w.append('nXrays %d, %d lines, %d intensities' % (e['nXrays'], len(e['lines']), len(e['xint'])))
        if not (e['nGammas'] == len(e['genergies']) == len(e['gint'])): w.append('nGammas %d, %d energies, %d intensities' % (e['nGammas'], len(e['genergies']), len(e['gint'])))
        for nm_, v in e['lines']:
            le = js.get('line_energy', {}).get('%d %d' % (e['Z_xray'], v))
            if v >= 0 or le in (None, 'err'): w.append('X-ray line %s (%d) has no energy for Z_xray=%d' % (nm_, v, e['Z_xray']))
        if any(F(x) <= 0 for x in e['xint'] + e['genergies'] + e['gint']): w.append('non-positive intensity/energy')
        for x in w: bad.append(('nuclide_wellformed', k, '%s: %s' % (e['name'], x)))
        m = macro_of('RADIO_NUCLIDE_', e['name'])
        if rm.get(m) != i: bad.append(('nuclide_macros', k, '%s is entry %d but %s is %s' % (e['name'], i, m, rm.get(m, 'not defined'))))
    if len(rm) != len(rnames): bad.append(('nuclide_macros', 'nuclide_list', '%d RADIO_NUCLIDE_* macros for %d entries' % (len(rm), len(rnames))))
    cn = [x['name'] for x in js['crystals']]
    if cn != sorted(cn) or len(set(cn)) != len(cn): bad.append(('crystal_atoms_valid', 'crystal_list', 'crystal names not in strictly ascending strcmp order'))
    for x in js['crystals_full']:
        w = []
        if not (x['n_atom'] == x['atoms_decl'] == len(x['atoms'])) or x['n_atom'] == 0: w.append('n_atom %d, array of %d, %d atoms' % (x['n_atom'], x['atoms_decl'], len(x['atoms'])))
        for a in x['atoms']:
            if not (1 <= int(a[0]) <= 120): w.append('atom with Z=%s' % a[0])
            if not (0 < F(a[1]) <= 1): w.append('atom with occupancy %s' % a[1])
        for y in w: bad.append(('crystal_atoms_valid', 'crystal_name\t' + x['name'], '%s: %s' % (x['name'], y)))
    return bad


def parse_crystals_dat(path):
    """independent reader of data/Crystals.dat (nothing of pr_data / Crystal_ReadFile is used): `#S <num> <name>` opens an entry,
    `#UCELL a b c alpha beta gamma` gives the cell, the atom lines `Z fraction x y z [Biso]` follow `#L` up to the next line that
    starts with '#'.  -> (entries, anomalies); every token is kept as the text of the file"""
    ents = []; odd = []; cur = None; in_atoms = False
    with open(path, errors='replace') as f:
        for ln, l in enumerate(f, 1):
            if l.startswith('#S'):
                t = l.split()
                if len(t) < 3: odd.append((None, 'line %d: malformed #S line %r' % (ln, l.strip()))); cur = None; continue
                cur = dict(name=t[2], cell=None, atoms=[], line=ln); ents.append(cur); in_atoms = False
            elif cur is None: continue
            elif l.startswith('#UCELL'):
                if cur['cell'] is not None: odd.append((cur['name'], 'line %d: second #UCELL line' % ln))
                cur['cell'] = l.split()[1:7]
            elif l.startswith('#L'): in_atoms = True
            elif l.startswith('#'): in_atoms = False
            elif in_atoms:
                t = l.split()
                if len(t) < 5 or not re.fullmatch(r'[1-9]\d*', t[0]): odd.append((cur['name'], 'line %d: atom line not understood: %r' % (ln, l.strip())))
                else: cur['atoms'].append(t[:5])
    return ents, odd


def f32(x): return struct.unpack('f', struct.pack('f', float(x)))[0]


def crystals_vs_data_file(js, path):
    """the crystal table compiled into the library (text of xrayglob_inline.c, js['crystals_full']) against data/Crystals.dat.
    Tightest comparison that holds on the shipped data: every table literal is the file value printed with 6 decimals
    ('%f' of the correctly rounded double, which is what pr_data does), hence |table - file| <= 5e-7; float32 equality does NOT hold
    for values the file gives with more than 6 decimals.  -> (violations [(theorem, key, what)], statistics)"""
    TH = 'crystal_catalogue_matches_data_file'
    bad = []; st = dict(file='data/Crystals.dat', entries_in_file=0, entries_in_table=len(js['crystals_full']), entries_compared=0, atoms_compared=0, values_compared=0,
                        max_abs_deviation=0.0, max_rel_volume_deviation=0.0, float32_equal=0, float32_unequal=[],
                        comparison="table literal == '%f' % float(file token) (6 decimals, implies |table - file| <= 5e-7, also asserted in exact decimal arithmetic); "
                                   "volume literal within 1e-6 relative of a*b*c*sqrt(1-cos^2(alpha)-cos^2(beta)-cos^2(gamma)+2cos(alpha)cos(beta)cos(gamma)) of the file's cell; "
                                   "same names (table = strcmp-sorted file names), same atom count and atom order, same Z")
    ents, odd = parse_crystals_dat(path)
    st['entries_in_file'] = len(ents)
    key = lambda n: 'crystal_name\t%s' % n
    for n, what in odd: bad.append((TH, key(n) if n else 'crystal_list', 'data/Crystals.dat ' + what))
    tab = {c['name']: c for c in js['crystals_full']}
    fnames = [e['name'] for e in ents]
    for n in sorted({n for n in fnames if fnames.count(n) > 1}): bad.append((TH, key(n), '%s is defined %d times in data/Crystals.dat' % (n, fnames.count(n))))
    for n in sorted(set(tab) - {n[:20] for n in fnames}): bad.append((TH, key(n), '%s is in the compiled crystal table but not in data/Crystals.dat' % n))
    if [c['name'] for c in js['crystals_full']] != sorted(set(n[:20] for n in fnames)) and not bad:
        bad.append((TH, 'crystal_list', 'the compiled table is not the strcmp-sorted list of the names of data/Crystals.dat'))
    dmax = Decimal(0)
    for e in ents:
        n = e['name'][:20]          # the reader keeps 20 characters of a name
        t = tab.get(n); w = []
        if t is None: bad.append((TH, key(n), '%s (data/Crystals.dat line %d) is missing from the compiled crystal table' % (e['name'], e['line']))); continue
        if e['cell'] is None or len(e['cell']) != 6: bad.append((TH, key(n), '%s: no complete #UCELL line in data/Crystals.dat' % n)); continue
        st['entries_compared'] += 1
        pairs = [('cell.' + k, x, y) for k, x, y in zip(('a', 'b', 'c', 'alpha', 'beta', 'gamma'), e['cell'], t['cell'])]
        if len(e['atoms']) != t['n_atom'] or len(e['atoms']) != len(t['atoms']):
            w.append('%d atom lines in the file, n_atom %d and %d atoms in the table' % (len(e['atoms']), t['n_atom'], len(t['atoms'])))
        for i, (a, b) in enumerate(zip(e['atoms'], t['atoms'])):
            st['atoms_compared'] += 1
            if int(a[0]) != int(b[0]): w.append('atom %d: Z %s in the file, %s in the table' % (i, a[0], b[0]))
            pairs += [('atom[%d].%s' % (i, k), x, y) for k, x, y in zip(('fraction', 'x', 'y', 'z'), a[1:5], b[1:5])]
        for what, x, y in pairs:
            try: fx = float(x); dx = Decimal(x)
            except Exception: w.append('%s: %r in the file is not a number' % (what, x)); continue
            st['values_compared'] += 1
            d = abs(dx - Decimal(y)); dmax = max(dmax, d)
            if '%f' % fx != y or d > Decimal('0.0000005'): w.append('%s: file %s, table %sf (expected %ff)' % (what, x, y, fx))
            if f32(x) == f32(y): st['float32_equal'] += 1
            else: st['float32_unequal'].append('%s %s: file %s -> float32 %.9g, table %sf -> %.9g' % (n, what, x, f32(x), y, f32(y)))
        try:
            a, b, c, al, be, ga = [float(v) for v in e['cell']]
            ca, cb, cg = [math.cos(math.radians(v)) for v in (al, be, ga)]
            vol = a * b * c * math.sqrt(1 - ca * ca - cb * cb - cg * cg + 2 * ca * cb * cg)
            rel = abs(vol - float(t['volume'])) / abs(vol)
            st['max_rel_volume_deviation'] = max(st['max_rel_volume_deviation'], rel)
            if not rel <= 1e-6: w.append('volume %sf in the table, unit-cell formula on the file\'s cell gives %.9g' % (t['volume'], vol))
        except (ValueError, ZeroDivisionError) as ex: w.append('unit-cell volume of the file\'s cell cannot be computed (%s)' % ex)
        for x in w[:8]: bad.append((TH, key(n), '%s: %s' % (n, x)))
    st['max_abs_deviation'] = float(dmax); st['float32_unequal'] = st['float32_unequal'][:20]
    return bad, st


# main decay mode per nuclide name (standard nuclear data — ENSDF / Table of Radioactive Isotopes —, main decay mode) and the change of Z it causes:
# electron capture / beta+ : Z-1,  beta- : Z+1,  alpha : Z-2,  isomeric transition / internal conversion : Z
DECAY_DZ = dict(EC=-1, BETA_PLUS=-1, BETA_MINUS=+1, ALPHA=-2, IT=0)
MAIN_DECAY = {'55Fe': 'EC', '57Co': 'EC', '109Cd': 'EC', '125I': 'EC', '137Cs': 'BETA_MINUS', '133Ba': 'EC', '153Gd': 'EC',
              '238Pu': 'ALPHA', '241Am': 'ALPHA', '244Cm': 'ALPHA'}


def daughter_elements(js):
    """clause 10, "X-ray lines of the DAUGHTER element": Z_xray against decay physics -> (violations, table, disagreements)"""
    sym = {z: s for z, s in js['mendel']}
    bad = []; rows = []; dis = []
    for i, e in enumerate(js['nuclides']):
        mode = MAIN_DECAY.get(e['name']); dz = e['Z_xray'] - e['Z']
        row = dict(idx=i, name=e['name'], Z=e['Z'], A=e['A'], Z_xray=e['Z_xray'], dZ=dz, element_xray=sym.get(e['Z_xray'], '?'), mode=mode or 'not tabulated',
                   expected_Z_xray=(e['Z'] + DECAY_DZ[mode]) if mode else None)
        rows.append(row)
        if mode is not None and dz != DECAY_DZ[mode]:
            what = '%s (Z=%d) decays by %s to Z=%d (%s) but Z_xray is %d (%s)' % (e['name'], e['Z'], mode, e['Z'] + DECAY_DZ[mode], sym.get(e['Z'] + DECAY_DZ[mode], '?'), e['Z_xray'], sym.get(e['Z_xray'], '?'))
        elif mode is None and abs(dz) > 2:
            what = '%s (Z=%d, no decay mode tabulated in props/c15.py): Z_xray %d is not within 2 of Z' % (e['name'], e['Z'], e['Z_xray'])
        else: continue
        dis.append(what); bad.append(('nuclide_daughter_element', 'nuclide_idx\t%d' % i, what))
    return bad, rows, dis


def systematic_mutations(name):
    """near misses of one catalogue name: truncated at either end, one character appended / prepended, one character replaced at the
    first, middle and last position (by 'x' and by the next character code: the closest strcmp neighbours), case variants, doubled"""
    out = [name[:-1], name[1:], name + 'x', name + ' ', ' ' + name, name.swapcase(), name.lower(), name.upper(), name + name]
    for i in sorted({0, len(name) // 2, len(name) - 1}):
        if not 0 <= i < len(name): continue
        ch = name[i]
        for r in ('y' if ch == 'x' else 'x', chr(ord(ch) + 1) if 32 <= ord(ch) < 126 else '!'):
            out.append(name[:i] + r + name[i + 1:])
    return out


NULL_TOKEN = '%NULL%'       # harness/c15_drv.c passes a NULL pointer, lean-l4/CatDriver.lean answers err


COPY_MODEL = os.path.join(l4.L4_DIR, 'XrlL4', 'CopyModel.lean')

def copy_level(cj):
    """the clause `every lookup returns an independent deep copy`, member by member, on what tools/c15_copy.py transliterated:
    names the member and the function when `nist_lookups_copy_every_member` / `nuclide_lookups_copy_every_member` fail"""
    out = []
    for tag, r in cj.items():
        fields = dict(r['fields'])
        for which, fn in (('byIndex', r['functions'][0]), ('byName', r['functions'][1])):
            st = [x.split(' ', 1) for x in r[which]]
            if not st or st[0][0] != 'allocSelf': out.append('%s does not start by allocating the struct it returns' % fn); continue
            for k, rest in st[1:]:
                if k == 'other': out.append('%s: statement not understood on the success path: %s' % (fn, rest))
            for f, ty in r['fields']:
                mine = [(k, json.loads('[' + ','.join(rest.split(' ')) + ']')) for k, rest in st[1:] if k != 'other' and json.loads(rest.split(' ')[0]) == f]
                kinds = [k for k, _ in mine]
                if not mine: out.append('%s never sets member %s of struct %s' % (fn, f, r['struct']))
                elif ty in ('str',) or ty.startswith('arr'):
                    if kinds == ['assign']: out.append('%s assigns the POINTER %s of the static entry to the copy (key->%s = src.%s): the copy shares memory with the catalogue' % (fn, f, f, mine[0][1][1]))
                    elif ty == 'str' and kinds != ['strdup']: out.append('%s: member %s is not duplicated with xrl_strdup (%s)' % (fn, f, kinds))
                    elif ty.startswith('arr'):
                        if kinds != ['malloc', 'memcpy']: out.append('%s: member %s is not allocated and copied (%s)' % (fn, f, kinds))
                        else:
                            (_, a), (_, b) = mine
                            el = ty[4:]
                            if a[1] != el or b[2] != el or a[2] != b[3] or b[1] != f or fields.get(a[2]) != 'int':
                                out.append('%s: member %s (%s*) is allocated as %s[%s] and copied as %s[%s] from %s' % (fn, f, el, a[1], a[2], b[2], b[3], b[1]))
                elif kinds != ['assign'] or mine[0][1][1] != f: out.append('%s: scalar member %s is not assigned from the same member (%s)' % (fn, f, mine))
        want = ['field ' + json.dumps(f) for f, ty in r['fields'] if ty == 'str' or ty.startswith('arr')] + ['self']
        if r['free'] != want: out.append('%s releases %s, the pointer members are %s' % (r['functions'][2], r['free'], want))
    return out


def mutate_name(rng, name):
    k = rng.randrange(8)
    if k == 0: return name.swapcase()
    if k == 1: return name + ' '
    if k == 2: return ' ' + name
    if k == 3: return name[:-1]
    if k == 4: return name + name
    if k == 5: return name.lower() if name != name.lower() else name.upper()
    if k == 6:
        i = rng.randrange(len(name)); return name[:i] + rng.choice('xQ7_-,') + name[i + 1:]
    return ''.join(rng.choice('abcXYZ019 ,-/()') for _ in range(rng.randrange(1, 40)))


def gen_lines(ctx, js, thorough, stats=None):
    rng = ctx.rng; L = []
    st = stats if stats is not None else {}
    mx = len(js['mendel'])
    L += ['mendel_sym\t%d' % z for z in range(-3, mx + 4)]
    L += ['mendel_z\t%s' % s for _, s in js['mendel']]
    L += ['mendel_z\t%s' % s for s in ['', 'h', 'HE', 'Xx', 'Uu', 'H ', ' H', 'Hee', 'Bh ', 'Mt', 'Ds']]
    cats = [('nist', [e['name'] for e in js['nist']], [v for _, v in js['nist_macros']]),
            ('nuclide', [e['name'] for e in js['nuclides']], [v for _, v in js['nuclide_macros']]),
            ('crystal', [c['name'] for c in js['crystals']], [])]
    perms = [''.join(p) for p in itertools.permutations('0123')]
    def unknown_names(cmd, names):
        """SYSTEMATIC: every near miss of every name that is not itself a name of the catalogue (those are asked above), the empty
        string and the NULL pointer; each must be answered with an error"""
        known = set(names); seen = set(); out = []
        for m in [''] + [m for x in names for m in systematic_mutations(x)] + [NULL_TOKEN]:
            if m in known or m in seen or '\t' in m or '\n' in m or '\r' in m: continue
            seen.add(m); out.append('%s\t%s' % (cmd, m))
        st['unknown_' + cmd] = len(out)
        return out
    L += unknown_names('mendel_z', [s for _, s in js['mendel']])
    for kind, names, macros in cats:
        n = len(names)
        L += ['%s_name\t%s' % (kind, x) for x in names]
        if kind != 'crystal':
            L += ['%s_idx\t%d' % (kind, i) for i in range(-3, n + 4)]
            L += ['%s_idx\t%d' % (kind, v) for v in macros]
            L += ['%s_idx\t%d' % (kind, v) for v in (-2147483648, 2147483647, 1000000)]
        L.append('%s_list' % kind)
        L += unknown_names('%s_name' % kind, names)
        k = 400 if thorough else 60
        for _ in range(k):          # seeded: random mutations and random strings on top of the systematic ones
            m = mutate_name(rng, rng.choice(names))
            if '\t' in m or '\n' in m: continue
            L.append('%s_name\t%s' % (kind, m))
        # deep-copy histories: EVERY index of the catalogue (and -1, n) x all 24 orders of freeing the four copies, in both tiers
        for i in list(range(n)) + [-1, n]:
            for p in perms: L.append('copy_%s\t%d\t%s' % (kind, i, p))
        st['copy_' + kind] = (n + 2) * len(perms)
        for p in ('01', '10'): L.append('copy_list\t%s\t%s' % (kind, p))
    L = list(dict.fromkeys(L))        # duplicates (a random mutation that repeats a systematic one) are dropped
    return L


def corpus():
    d = os.path.join(VERIF, 'corpus'); out = []
    if os.path.isdir(d):
        for f in sorted(os.listdir(d)):
            if f.startswith(ID) and f.endswith('.lines'):
                out += [l.rstrip('\n') for l in open(os.path.join(d, f)) if l.strip() and not l.startswith('#')]
    return out


def run(tier, seed, replay=None):
    return l4.guarded(ID, 'proof', _run, tier, seed, replay)


def _run(ctx, replay):
    problems = []; tie = []; proof_broken = []; proof_log = ''
    t = time.time()
    cbuild.build_prdata(ctx.sc, REPO)
    objs, fl = cbuild.build_lib(ctx.sc, REPO)
    drv = cbuild.link(ctx.sc, objs, [DRV], ctx.sc.path('c15_drv'), fl)
    ctx.tick('c_build', t)
    env = dict(os.environ, **ASAN)
    p = subprocess.run([drv, '--nuclide-zxray'], capture_output=True, text=True, env=env)
    if p.returncode != 0: raise BuildError('c15_drv --nuclide-zxray failed: ' + p.stderr[-1500:])
    zx = sorted(set(p.stdout.split()), key=int)
    p = subprocess.run([drv, '--lineenergies'] + zx, capture_output=True, text=True, env=env)
    if p.returncode != 0: raise BuildError('c15_drv --lineenergies failed: ' + p.stderr[-1500:])
    le_path = ctx.sc.path('le.txt'); open(le_path, 'w').write(p.stdout)
    with l4.Lock():
        rc, err = l4.run_tool(ctx, 'gen_c15.py', [ctx.sc.path('b'), l4.GEN_DIR, ctx.aux, le_path], 'extract')
        if rc == 3:
            ti = json.load(open(os.path.join(ctx.aux, 'c15_tie.json')))
            tie.append('extractor aborted (broken tie): %s:%s: %s: %r' % (ti['file'], ti['line'], ti['why'], ti['text']))
            ok_build, blog = False, tie[0]
        # the statements with which the lookup functions build their result, from the clang AST of the working tree
        copy_js = None
        t2 = time.time()
        pc = subprocess.run([sys.executable, os.path.join(VERIF, 'tools', 'c15_copy.py'), ctx.sc.path('b'), os.path.join(l4.GEN_DIR, 'C15Copy.lean'), '--json', os.path.join(ctx.aux, 'c15_copy.json')],
                            capture_output=True, text=True, env=dict(os.environ, VERIF_REPO=REPO))
        ctx.tick('extract_copy', t2)
        if pc.returncode == 3: tie.append('tools/c15_copy.py does not understand the lookup / free functions any more (broken tie): ' + pc.stderr.strip()[-500:])
        elif pc.returncode != 0: raise BuildError('tools/c15_copy.py crashed: ' + pc.stderr[-2000:])
        else: copy_js = json.load(open(os.path.join(ctx.aux, 'c15_copy.json')))
        if rc == 3 or pc.returncode == 3: ok_build, blog = False, tie[0]
        else:
            ok_build, blog = l4.lake_build(ctx, [MODULE])
        ok_exe, elog = l4.lake_build(ctx, ['cat-model'])
    if rc != 3 and pc.returncode != 3 and not ok_build:
        proof_broken = l4.failing_theorems(blog, PROPS) or ['(module %s does not build)' % MODULE]
        proof_log = l4.first_errors(blog)
    bad_src = core.audit_sources([COPY_MODEL])
    if bad_src: problems.append('forbidden construct in Lean sources: ' + '; '.join(bad_src[:5]))
    if copy_js:
        for what in copy_level(copy_js): problems.append(what)
    if not ok_exe: tie.append('model executable does not build: ' + l4.first_errors(elog))
    theorems, axioms, n_dis = l4.audit(ctx, MODULE, PROPS, NAMESPACE, ['C15.lean'], ok_build, problems)
    cat_thms = ['XrlL4.Catalogue.' + n for n in ('byIndex_out_of_range', 'byIndex_in_range', 'byName_byIndex', 'byName_some', 'byName_none_iff', 'names_get', 'deep_copy_independent')] + ['XrlL4.C15.addressable'] + \
               ['XrlL4.Copy.' + n for n in ('copy_frame', 'copy_fresh', 'free_releases', 'write_above', 'free_above', 'shared_member_breaks')]
    if ok_build:
        ax2, _ = l4.print_axioms(ctx, MODULE, cat_thms)
        for th in cat_thms:
            if th not in ax2: problems.append('axiom audit: no report for %s' % th)
            elif set(ax2[th]) - core.ALLOWED_AXIOMS: problems.append('axiom audit: %s depends on %s' % (th, ax2[th]))
        axioms.update(ax2); theorems = theorems + cat_thms
        n_dis += sum(1 for th in cat_thms if th in ax2 and not (set(ax2[th]) - core.ALLOWED_AXIOMS))
    if ctx.tier == 'thorough' and ok_build: l4.leanchecker(ctx, MODULE, problems)

    # ---- entry-level re-check (names the offending entry when a `decide` fails) -----------------------------
    viol = []; js = None; cryst_stats = {}; daughter_rows = []; daughter_dis = []; gen_stats = {}
    if rc != 3:
        js = json.load(open(os.path.join(ctx.aux, 'c15.json')))
        js['line_energy'] = {}
        for l in open(le_path):
            f = l.split(); js['line_energy']['%s %s' % (f[0], f[1])] = f[2]
        for th, key, what in entry_level(js):
            viol.append(dict(key=key, what=what, theorem=th, got=None, expected='clause of %s' % th))
        # the compiled crystal table against the anchor file data/Crystals.dat, through a reader of its own
        cbad, cryst_stats = crystals_vs_data_file(js, os.path.join(REPO, 'data', 'Crystals.dat'))
        for th, key, what in cbad:
            viol.append(dict(key=key, what=what, theorem=th, got=None, expected='the compiled crystal table holds what data/Crystals.dat says (6 decimals)'))
        # "X-ray lines of the daughter element": Z_xray against the main decay mode
        dbad, daughter_rows, daughter_dis = daughter_elements(js)
        for th, key, what in dbad:
            viol.append(dict(key=key, what=what, theorem=th, got=None, expected='Z_xray = Z + dZ(main decay mode): EC/beta+ -1, beta- +1, alpha -2, IT 0'))
        keyed = [v for v in viol if '\t' in v['key'] or v['key'].endswith('_list')]
        if keyed:      # what the library itself answers for the offending entry
            for v, a in zip(keyed, run_drv(drv, [v['key'] for v in keyed])): v['got'] = 'library answers: ' + a[:400]
    # ---- correspondence: model (over the extracted tables) vs the library ------------------------------------
    n_corr = 0; mism = []; samples = []; dist = {}; nontriv = set()
    if js and ok_exe:
        lines = list(dict.fromkeys(corpus() + gen_lines(ctx, js, ctx.tier == 'thorough', gen_stats)))
        if replay: lines = [l.rstrip('\n') for l in open(replay) if l.strip() and not l.startswith('#')]
        t = time.time()
        # copy_* histories run in their own processes (chunks), lookups in one
        chunks = [lines[i:i + 600] for i in range(0, len(lines), 600)]
        from concurrent.futures import ThreadPoolExecutor
        with ThreadPoolExecutor(max_workers=8) as ex:
            c_out = [y for x in ex.map(lambda ch: run_drv(drv, ch), chunks) for y in x]
        pm = subprocess.run([os.path.join(l4.L4_DIR, '.lake', 'build', 'bin', 'cat-model'), ctx.aux], input='\n'.join(lines) + '\n', capture_output=True, text=True)
        if pm.returncode != 0: raise BuildError('cat-model failed: ' + pm.stderr[-1500:])
        m_out = pm.stdout.splitlines()
        ctx.tick('correspondence', t)
        n_corr = len(lines)
        for l, c, m in zip(lines, c_out, m_out):
            cmd = l.split('\t')[0]
            d = dist.setdefault(cmd, dict(calls=0, ok=0, err=0))
            d['calls'] += 1; d['ok' if m.startswith('ok') else 'err'] += 1
            if m.startswith('ok'): nontriv.add(l if not cmd.startswith('copy_') else l)
            if c != m: mism.append((l, c, m))
        # an unknown (or NULL) name must be an error in the model too: the model is the judge of the run, this pins it to the clause
        cat_names = dict(mendel_z={x for _, x in js['mendel']}, nist_name={e['name'] for e in js['nist']}, nuclide_name={e['name'] for e in js['nuclides']},
                         crystal_name={c['name'] for c in js['crystals']})
        n_unknown = 0
        for l, m in zip(lines, m_out):
            cmd, _, arg = l.partition('\t')
            if cmd in cat_names and arg not in cat_names[cmd]:
                n_unknown += 1
                if m != 'err': tie.append('the model answers %r for the unknown name in %r' % (m[:80], l))
        gen_stats['unknown_or_null_name_lines'] = n_unknown
        if len(c_out) != len(lines) or len(m_out) != len(lines): tie.append('driver answered %d / model %d of %d lines' % (len(c_out), len(m_out), len(lines)))
        pick = sorted(ctx.rng.sample(range(len(lines)), min(6, len(lines))))
        samples = [dict(line=lines[i], impl=c_out[i][:200], model=m_out[i][:200]) for i in pick]
        # a disagreement is a concrete failing input: the library contradicts the lookup specification on the extracted catalogue
        for l, c, m in mism[:200]:
            viol.append(dict(key=l, what='library answer differs from the catalogue model over the tables extracted from the sources', got=c[:300], expected=m[:300], theorem='lookups_agree_* / deep_copy_independent'))
    known = l4.load_findings(ID)
    kn = []; new = []
    for v in viol:
        hit = [k for k in known if k[0] == v['key']]
        (kn if hit else new).append((v, hit[0] if hit else None))
    for v, k in kn: print('KNOWN-FINDING: property=%s %s: %s' % (ID, k[0], k[1]))

    exit_code = 0
    broken = proof_broken or tie or problems
    if new:
        body = '# C15 violated (replay: ./check C15 --replay <this file> runs these lines on the library and on the model)\n'
        for v, _ in new[:100]:
            body += '# %s\n#   theorem:  %s\n#   expected: %s\n#   got:      %s\n%s\n' % (v['what'], v['theorem'], v['expected'], v['got'], v['key'])
        if broken: body += '\n# broken obligations: %s\n' % json.dumps(dict(proof=proof_broken, tie=tie, other=problems))[:3000]
        path = core.write_replay(ctx, body)
        print('VIOLATION property=%s replay=%s' % (ID, path)); exit_code = 1
    elif broken:
        body = '# C15 is no longer shown to hold; neither the entry-level re-check nor the correspondence run (%d lines) found a failing input\n' % n_corr
        if proof_broken: body += '# theorems that no longer check: %s\n# %s\n' % (', '.join(proof_broken), proof_log.replace('\n', '\n# '))
        for x in tie: body += '# broken tie: %s\n' % x
        for x in problems: body += '# %s\n' % x
        path = core.write_replay(ctx, body)
        print('VIOLATION property=%s replay=%s no-failing-input-found' % (ID, path)); exit_code = 1

    cnt = js['counts'] if js else {}
    cov = dict(obligations=max(len(theorems), 1), discharged=n_dis,
               checker_cmd='cd lean-l4 && lake build %s cat-model   (tables: tools/gen_c15.py; then `#print axioms` on each theorem)' % MODULE,
               trusted_base=l4.TRUSTED_BASE + ['harness/c15_drv.c and the ASan/UBSan/LSan run-time: observers of the correspondence run only',
                                               'the lookup model of XrlL4/Catalogue.lean is tied to the C functions by the exhaustive correspondence run, not by translation',
                                               'tools/c15_copy.py (transliteration of assignment / xrl_strdup / malloc / memcpy / free statements from the clang JSON AST; any other statement on the success path becomes `other` and breaks the obligation) '
                                               'and Copy.classify / Copy.copyRec of XrlL4/CopyModel.lean as the meaning of those statements'],
               theorems=[dict(name=t, axioms=axioms.get(t)) for t in theorems],
               traces_validated_against_impl=n_corr, correspondence_mismatches=len(mism),
               evaluations=n_corr + (sum(cnt.get(k, 0) for k in ('nist', 'nuclides', 'crystals', 'mendel', 'atoms')) if js else 0),
               distinct_nontrivial=len(nontriv), exhaustive=True,
               rule='exhaustive part (both tiers, independent of the seed): every symbol and Z in [-3, MENDEL_MAX+3]; every catalogue name; every index in [-3, n+3], INT_MIN/INT_MAX, every index macro value; '
                    'the three list functions; unknown names SYSTEMATICALLY: for every name of every catalogue and every Mendeleev symbol the name without its last / first character, with x / space appended, '
                    'with a leading space, with the first, middle and last character replaced (by x and by the next character code), swapcase, lower, upper, doubled, plus the empty string and the NULL pointer '
                    '(%s lines that are not a catalogue name: mendel_z %s, nist %s, nuclide %s, crystal %s; each must be an error with a message, in the library and in the model); '
                    'deep-copy histories for EVERY index of every catalogue (and -1, n) x all 24 orders of freeing: nist %s, nuclide %s, crystal %s lines '
                    '(3 copies by index / by name / by index or MakeCopy, every field of one overwritten, a fresh copy compared field by field with the siblings, freed in the given order) under ASan+UBSan+LSan. '
                    'Seeded part (VERIF_SEED through one PRNG): %d random name mutations / random strings per catalogue. '
                    'non-trivial = distinct protocol lines on which the model expects a successful lookup / an independent copy (errors are the trivial ones)' % (
                        gen_stats.get('unknown_or_null_name_lines'), gen_stats.get('unknown_mendel_z'), gen_stats.get('unknown_nist_name'), gen_stats.get('unknown_nuclide_name'), gen_stats.get('unknown_crystal_name'),
                        gen_stats.get('copy_nist'), gen_stats.get('copy_nuclide'), gen_stats.get('copy_crystal'), 400 if ctx.tier == 'thorough' else 60),
               line_kinds=gen_stats, crystal_file_check=cryst_stats, daughter_element_table=daughter_rows, daughter_element_disagreements=daughter_dis,
               daughter_element_source='main decay mode per nuclide name from standard nuclear data (hard-coded in props/c15.py MAIN_DECAY): EC/beta+ -> Z-1, beta- -> Z+1, alpha -> Z-2, IT -> Z; a name not tabulated: |Z_xray - Z| <= 2',
               deep_copy_clause='NIST compounds and radionuclides: pointer-level theorem catalogue_copies_independent (XrlL4/CopyModel.lean: heap of separate cells in which a shared member CAN be expressed - shared_member_breaks) over the '
                                'member-by-member classification of the statements of the four lookup and two Free functions, transliterated from the clang AST of the working tree on every run (tools/c15_copy.py -> Gen/C15Copy.lean; '
                                'nist_lookups_copy_every_member / nuclide_lookups_copy_every_member are decided by the kernel: a member that is pointer-assigned instead of copied classifies as `shared` and breaks them); '
                                'in addition the exhaustive mutate-and-free histories above (every index x 24 release orders).  Crystals: pointer-level model and refinement proof are property C14 (Crystal_MakeCopy); here the search only. '
                                'The older deep_copy_independent of XrlL4/Catalogue.lean holds by construction of its one-cell model and is kept for the lookup theorems only',
               copy_statements=({k: dict(struct=v['struct'], members=v['fields'], byIndex=v['byIndex'], byName=v['byName'], free=v['free']) for k, v in copy_js.items()} if copy_js else None),
               samples=samples, distribution=dist, counts=cnt, entry_level_violations=len([v for v in viol if v['theorem'] != 'lookups_agree_* / deep_copy_independent']),
               known_findings_reproduced=len(kn), new_violations=len(new), broken=dict(proof=proof_broken, tie=tie, other=problems),
               nist_sum_tolerance='|sum of mass fractions - 1| <= 2e-6 holds for all 180 shipped entries (worst: Glass, Pyrex 1.000002); stated as nistTol in Props/C15.lean')
    core.write_evidence(ctx, 'proof', cov, len(new) + (1 if broken and not new else 0),
                        ['line energies enter the kernel as floor(E[keV]*1e9) of what LineEnergy() of the freshly built library returns (positivity is all the statement needs)',
                         'the Mendeleev table is read from the xrayglob_inline.c that pr_data, rebuilt from the working tree, writes from src/xrayglob.c (that is the text compiled into the library)',
                         'the crystal table is read from the same file and compared with data/Crystals.dat by a parser of its own (props/c15.py parse_crystals_dat): names, atom counts, Z, and every value to the 6 decimals pr_data prints '
                         '(float32 equality does not hold for the few file values with more than 6 decimals; they are listed in coverage.crystal_file_check.float32_unequal)',
                         'Z_xray is checked against a hard-coded table of main decay modes (10 nuclides), not against a nuclear data file',
                         'allocation failure paths of the lookup functions are not exercised'])
    log('%s %s: exit %d  (%.1fs; theorems %d/%d; corr %d lines, %d mismatches; entry-level %d; %d known, %d new)' % (
        ID, ctx.tier, exit_code, time.time() - ctx.t0, n_dis, len(theorems), n_corr, len(mism), len(viol) - len(mism[:200]), len(kn), len(new)))
    return exit_code


class _Check:
    id = ID
    def run(self, tier, seed, replay=None): return run(tier, seed, replay)


CHECK = _Check()
