"""C15 — built-in databases are self-consistent and addressable in every documented way.

Tables are extracted from the sources on every run (tools/gen_c15.py) into lean-l4/XrlL4/Gen/C15.lean; the theorems of
lean-l4/XrlL4/Props/C15.lean are decided by the kernel; the generic lookup model (XrlL4/Catalogue.lean, executable
CatDriver.lean) is compared with the real library (harness/c15_drv.c, ASan+UBSan build of the working tree) on every name,
every index in [-3, n+3], every index macro, the list functions, malformed names, and deep-copy histories."""
import os, sys, re, json, time, subprocess, itertools
from fractions import Fraction as F
from vlib import core, l4, cbuild
from vlib.cbuild import REPO, VERIF, BuildError
from vlib.core import log

ID = 'C15'
MODULE = 'XrlL4.Props.C15'
NAMESPACE = 'XrlL4.C15'
PROPS = os.path.join(l4.L4_DIR, 'XrlL4', 'Props', 'C15.lean')
DRV = os.path.join(VERIF, 'harness', 'c15_drv.c')
ASAN = dict(ASAN_OPTIONS='detect_leaks=1:abort_on_error=0:halt_on_error=1', UBSAN_OPTIONS='print_stacktrace=0:halt_on_error=1')


def macro_of(prefix, name):
    out = []
    for ch in name:
        if ch.isascii() and ch.isalnum(): out.append(ch.upper())
        elif ch in ' -': out.append('_')
    return prefix + ''.join(out)


def run_drv(exe, lines):
    """one process per call (histories are short); a sanitizer abort becomes `died …` for the line it happened on"""
    out = []; i = 0
    while i < len(lines):
        p = subprocess.run([exe], input='\n'.join(lines[i:]) + '\n', capture_output=True, text=True, env=dict(os.environ, **ASAN))
        got = p.stdout.splitlines()[:len(lines) - i]
        out += got; i += len(got)
        if i < len(lines):
            m = re.search(r'(runtime error: [^\n]*|ERROR: (?:Address|Leak)Sanitizer: [^\n]*|SUMMARY: [^\n]*)', p.stderr)
            if p.returncode == 0 and not m: raise BuildError('c15_drv stopped early without a diagnostic at: ' + lines[i])
            out.append('died ' + (m.group(1)[:200] if m else 'exit %d' % p.returncode)); i += 1
        elif p.returncode != 0:
            m = re.search(r'(ERROR: (?:Address|Leak)Sanitizer: [^\n]*|SUMMARY: [^\n]*)', p.stderr)
            out[-1] = out[-1] + ' ; process exit %d %s' % (p.returncode, m.group(1)[:160] if m else '')
    return out


def entry_level(js):
    """the clauses of Props/C15.lean, entry by entry, in exact rational arithmetic -> list of (theorem, key, what)"""
    bad = []
    c = js['counts']
    mend = js['mendel']
    if [z for z, _ in mend] != list(range(1, len(mend) + 1)): bad.append(('mendel_bijection', 'mendel order', 'Zatom of MendelArray[i] is not i+1 everywhere'))
    syms = [s for _, s in mend]
    for s in {s for s in syms if syms.count(s) > 1}: bad.append(('mendel_bijection', 'mendel_z\t' + s, 'symbol %s occurs twice in MendelArray' % s))
    if sorted(map(tuple, js['mendel_sorted'])) != sorted(map(tuple, mend)) or [s for _, s in js['mendel_sorted']] != sorted(s for _, s in js['mendel_sorted']):
        bad.append(('mendel_sorted_twin', 'mendel sorted', 'MendelArraySorted is not the strcmp-sorted permutation of MendelArray'))
    names = [e['name'] for e in js['nist']]
    if c['nist'] != c['nist_declared']: bad.append(('nist_wellformed', 'nist_list', 'nCompoundDataNISTList = %d but the array has %d entries' % (c['nist_declared'], c['nist'])))
    nm = dict(js['nist_macros'])
    for i, e in enumerate(js['nist']):
        k = 'nist_idx\t%d' % i; w = []
        if names.count(e['name']) > 1: w.append('name occurs %d times' % names.count(e['name']))
        if not (e['n'] == len(e['elements']) == len(e['fractions'])) or e['n'] == 0: w.append('nElements %d, %d elements, %d fractions' % (e['n'], len(e['elements']), len(e['fractions'])))
        if any(a >= b for a, b in zip(e['elements'], e['elements'][1:])): w.append('elements not strictly ascending: %s' % e['elements'])
        if any(not (1 <= z <= 120) for z in e['elements']): w.append('element outside 1..ZMAX')
        if any(F(x) <= 0 for x in e['fractions']): w.append('mass fraction <= 0')
        s = sum(F(x) for x in e['fractions'])
        if abs(s - 1) > F(2, 10 ** 6): w.append('mass fractions sum to %s (|sum-1| > 2e-6)' % float(s))
        if F(e['density']) <= 0: w.append('density %s <= 0' % e['density'])
        for x in w: bad.append(('nist_wellformed', k, '%s: %s' % (e['name'], x)))
        m = macro_of('NIST_COMPOUND_', e['name'])
        if nm.get(m) != i: bad.append(('nist_macros_match_order', k, '%s is entry %d but %s is %s' % (e['name'], i, m, nm.get(m, 'not defined'))))
    if len(nm) != len(names): bad.append(('nist_macros_match_order', 'nist_list', '%d NIST_COMPOUND_* macros for %d entries' % (len(nm), len(names))))
    rm = dict(js['nuclide_macros']); sym = {z: s for z, s in mend}
    rnames = [e['name'] for e in js['nuclides']]
    if c['nuclides'] != c['nuclides_declared']: bad.append(('nuclide_wellformed', 'nuclide_list', 'nNuclideDataList = %d but the array has %d entries' % (c['nuclides_declared'], c['nuclides'])))
    for i, e in enumerate(js['nuclides']):
        k = 'nuclide_idx\t%d' % i; w = []
        if rnames.count(e['name']) > 1: w.append('name occurs twice')
        if e['A'] != e['Z'] + e['N']: w.append('A=%d but Z+N=%d' % (e['A'], e['Z'] + e['N']))
        if e['name'] != '%d%s' % (e['A'], sym.get(e['Z'], '?')): w.append('name should be %d%s' % (e['A'], sym.get(e['Z'], '?')))
        if not (e['nXrays'] == len(e['lines']) == len(e['xint'])): w.append('nXrays %d, %d lines, %d intensities' % (e['nXrays'], len(e['lines']), len(e['xint'])))
        if not (e['nGammas'] == len(e['genergies']) == len(e['gint'])): w.append('nGammas %d, %d energies, %d intensities' % (e['nGammas'], len(e['genergies']), len(e['gint'])))
        for nm_, v in e['lines']:
            le = js.get('line_energy', {}).get('%d %d' % (e['Z_xray'], v))
            if v >= 0 or le in (None, 'err'): w.append('X-ray line %s (%d) has no energy for Z_xray=%d' % (nm_, v, e['Z_xray']))
        if any(F(x) <= 0 for x in e['xint'] + e['genergies'] + e['gint']): w.append('non-positive intensity/energy')
        for x in w: bad.append(('nuclide_wellformed', k, '%s: %s' % (e['name'], x)))
        m = macro_of('RADIO_NUCLIDE_', e['name'])
        if rm.get(m) != i: bad.append(('nuclide_macros', k, '%s is entry %d but %s is %s' % (e['name'], i, m, rm.get(m, 'not defined'))))
    if len(rm) != len(rnames): bad.append(('nuclide_macros', 'nuclide_list', '%d RADIO_NUCLIDE_* macros for %d entries' % (len(rm), len(rnames))))
    cn = [x['name'] for x in js['crystals']]
    if cn != sorted(cn) or len(set(cn)) != len(cn): bad.append(('crystal_atoms_valid', 'crystal_list', 'crystal names not in strictly ascending strcmp order'))
    for x in js['crystals_full']:
        w = []
        if not (x['n_atom'] == x['atoms_decl'] == len(x['atoms'])) or x['n_atom'] == 0: w.append('n_atom %d, array of %d, %d atoms' % (x['n_atom'], x['atoms_decl'], len(x['atoms'])))
        for a in x['atoms']:
            if not (1 <= int(a[0]) <= 120): w.append('atom with Z=%s' % a[0])
            if not (0 < F(a[1]) <= 1): w.append('atom with occupancy %s' % a[1])
        for y in w: bad.append(('crystal_atoms_valid', 'crystal_name\t' + x['name'], '%s: %s' % (x['name'], y)))
    return bad


def mutate_name(rng, name):
    k = rng.randrange(8)
    if k == 0: return name.swapcase()
    if k == 1: return name + ' '
    if k == 2: return ' ' + name
    if k == 3: return name[:-1]
    if k == 4: return name + name
    if k == 5: return name.lower() if name != name.lower() else name.upper()
    if k == 6:
        i = rng.randrange(len(name)); return name[:i] + rng.choice('xQ7_-,') + name[i + 1:]
    return ''.join(rng.choice('abcXYZ019 ,-/()') for _ in range(rng.randrange(1, 40)))


def gen_lines(ctx, js, thorough):
    rng = ctx.rng; L = []
    mx = len(js['mendel'])
    L += ['mendel_sym\t%d' % z for z in range(-3, mx + 4)]
    L += ['mendel_z\t%s' % s for _, s in js['mendel']]
    L += ['mendel_z\t%s' % s for s in ['', 'h', 'HE', 'Xx', 'Uu', 'H ', ' H', 'Hee', 'Bh ', 'Mt', 'Ds']]
    cats = [('nist', [e['name'] for e in js['nist']], [v for _, v in js['nist_macros']]),
            ('nuclide', [e['name'] for e in js['nuclides']], [v for _, v in js['nuclide_macros']]),
            ('crystal', [c['name'] for c in js['crystals']], [])]
    perms = [''.join(p) for p in itertools.permutations('0123')]
    for kind, names, macros in cats:
        n = len(names)
        L += ['%s_name\t%s' % (kind, x) for x in names]
        if kind != 'crystal':
            L += ['%s_idx\t%d' % (kind, i) for i in range(-3, n + 4)]
            L += ['%s_idx\t%d' % (kind, v) for v in macros]
            L += ['%s_idx\t%d' % (kind, v) for v in (-2147483648, 2147483647, 1000000)]
        L.append('%s_list' % kind)
        k = 400 if thorough else 60
        for _ in range(k):
            m = mutate_name(rng, rng.choice(names))
            if '\t' in m or '\n' in m: continue
            L.append('%s_name\t%s' % (kind, m))
        idxs = list(range(n)) if thorough else sorted(rng.sample(range(n), min(n, 10)))
        for i in idxs + [-1, n]:
            for p in (perms if thorough or i in idxs[:4] else rng.sample(perms, 6)):
                L.append('copy_%s\t%d\t%s' % (kind, i, p))
        for p in ('01', '10'): L.append('copy_list\t%s\t%s' % (kind, p))
    return L


def corpus():
    d = os.path.join(VERIF, 'corpus'); out = []
    if os.path.isdir(d):
        for f in sorted(os.listdir(d)):
            if f.startswith(ID) and f.endswith('.lines'):
                out += [l.rstrip('\n') for l in open(os.path.join(d, f)) if l.strip() and not l.startswith('#')]
    return out


def run(tier, seed, replay=None):
    return l4.guarded(ID, 'proof', _run, tier, seed, replay)


def _run(ctx, replay):
    problems = []; tie = []; proof_broken = []; proof_log = ''
    t = time.time()
    cbuild.build_prdata(ctx.sc, REPO)
    objs, fl = cbuild.build_lib(ctx.sc, REPO)
    drv = cbuild.link(ctx.sc, objs, [DRV], ctx.sc.path('c15_drv'), fl)
    ctx.tick('c_build', t)
    env = dict(os.environ, **ASAN)
    p = subprocess.run([drv, '--nuclide-zxray'], capture_output=True, text=True, env=env)
    if p.returncode != 0: raise BuildError('c15_drv --nuclide-zxray failed: ' + p.stderr[-1500:])
    zx = sorted(set(p.stdout.split()), key=int)
    p = subprocess.run([drv, '--lineenergies'] + zx, capture_output=True, text=True, env=env)
    if p.returncode != 0: raise BuildError('c15_drv --lineenergies failed: ' + p.stderr[-1500:])
    le_path = ctx.sc.path('le.txt'); open(le_path, 'w').write(p.stdout)
    with l4.Lock():
        rc, err = l4.run_tool(ctx, 'gen_c15.py', [ctx.sc.path('b'), l4.GEN_DIR, ctx.aux, le_path], 'extract')
        if rc == 3:
            ti = json.load(open(os.path.join(ctx.aux, 'c15_tie.json')))
            tie.append('extractor aborted (broken tie): %s:%s: %s: %r' % (ti['file'], ti['line'], ti['why'], ti['text']))
            ok_build, blog = False, tie[0]
        else:
            ok_build, blog = l4.lake_build(ctx, [MODULE])
        ok_exe, elog = l4.lake_build(ctx, ['cat-model'])
    if rc != 3 and not ok_build:
        proof_broken = l4.failing_theorems(blog, PROPS) or ['(module %s does not build)' % MODULE]
        proof_log = l4.first_errors(blog)
    if not ok_exe: tie.append('model executable does not build: ' + l4.first_errors(elog))
    theorems, axioms, n_dis = l4.audit(ctx, MODULE, PROPS, NAMESPACE, ['C15.lean'], ok_build, problems)
    cat_thms = ['XrlL4.Catalogue.' + n for n in ('byIndex_out_of_range', 'byIndex_in_range', 'byName_byIndex', 'byName_some', 'byName_none_iff', 'names_get', 'deep_copy_independent')] + ['XrlL4.C15.addressable']
    if ok_build:
        ax2, _ = l4.print_axioms(ctx, MODULE, cat_thms)
        for th in cat_thms:
            if th not in ax2: problems.append('axiom audit: no report for %s' % th)
            elif set(ax2[th]) - core.ALLOWED_AXIOMS: problems.append('axiom audit: %s depends on %s' % (th, ax2[th]))
        axioms.update(ax2); theorems = theorems + cat_thms
        n_dis += sum(1 for th in cat_thms if th in ax2 and not (set(ax2[th]) - core.ALLOWED_AXIOMS))
    if ctx.tier == 'thorough' and ok_build: l4.leanchecker(ctx, MODULE, problems)

    # ---- entry-level re-check (names the offending entry when a `decide` fails) -----------------------------
    viol = []; js = None
    if rc != 3:
        js = json.load(open(os.path.join(ctx.aux, 'c15.json')))
        js['line_energy'] = {}
        for l in open(le_path):
            f = l.split(); js['line_energy']['%s %s' % (f[0], f[1])] = f[2]
        for th, key, what in entry_level(js):
            viol.append(dict(key=key, what=what, theorem=th, got=None, expected='clause of %s' % th))
        keyed = [v for v in viol if '\t' in v['key'] or v['key'].endswith('_list')]
        if keyed:      # what the library itself answers for the offending entry
            for v, a in zip(keyed, run_drv(drv, [v['key'] for v in keyed])): v['got'] = 'library answers: ' + a[:400]
    # ---- correspondence: model (over the extracted tables) vs the library ------------------------------------
    n_corr = 0; mism = []; samples = []; dist = {}; nontriv = set()
    if js and ok_exe:
        lines = corpus() + gen_lines(ctx, js, ctx.tier == 'thorough')
        if replay: lines = [l.rstrip('\n') for l in open(replay) if l.strip() and not l.startswith('#')]
        t = time.time()
        # copy_* histories run in their own processes (chunks), lookups in one
        chunks = [lines[i:i + 600] for i in range(0, len(lines), 600)]
        from concurrent.futures import ThreadPoolExecutor
        with ThreadPoolExecutor(max_workers=8) as ex:
            c_out = [y for x in ex.map(lambda ch: run_drv(drv, ch), chunks) for y in x]
        pm = subprocess.run([os.path.join(l4.L4_DIR, '.lake', 'build', 'bin', 'cat-model'), ctx.aux], input='\n'.join(lines) + '\n', capture_output=True, text=True)
        if pm.returncode != 0: raise BuildError('cat-model failed: ' + pm.stderr[-1500:])
        m_out = pm.stdout.splitlines()
        ctx.tick('correspondence', t)
        n_corr = len(lines)
        for l, c, m in zip(lines, c_out, m_out):
            cmd = l.split('\t')[0]
            d = dist.setdefault(cmd, dict(calls=0, ok=0, err=0))
            d['calls'] += 1; d['ok' if m.startswith('ok') else 'err'] += 1
            if m.startswith('ok'): nontriv.add(l if not cmd.startswith('copy_') else l)
            if c != m: mism.append((l, c, m))
        if len(c_out) != len(lines) or len(m_out) != len(lines): tie.append('driver answered %d / model %d of %d lines' % (len(c_out), len(m_out), len(lines)))
        pick = sorted(ctx.rng.sample(range(len(lines)), min(6, len(lines))))
        samples = [dict(line=lines[i], impl=c_out[i][:200], model=m_out[i][:200]) for i in pick]
        # a disagreement is a concrete failing input: the library contradicts the lookup specification on the extracted catalogue
        for l, c, m in mism[:200]:
            viol.append(dict(key=l, what='library answer differs from the catalogue model over the tables extracted from the sources', got=c[:300], expected=m[:300], theorem='lookups_agree_* / deep_copy_independent'))
    known = l4.load_findings(ID)
    kn = []; new = []
    for v in viol:
        hit = [k for k in known if k[0] == v['key']]
        (kn if hit else new).append((v, hit[0] if hit else None))
    for v, k in kn: print('KNOWN-FINDING: property=%s %s: %s' % (ID, k[0], k[1]))

    exit_code = 0
    broken = proof_broken or tie or problems
    if new:
        body = '# C15 violated (replay: ./check C15 --replay <this file> runs these lines on the library and on the model)\n'
        for v, _ in new[:100]:
            body += '# %s\n#   theorem:  %s\n#   expected: %s\n#   got:      %s\n%s\n' % (v['what'], v['theorem'], v['expected'], v['got'], v['key'])
        if broken: body += '\n# broken obligations: %s\n' % json.dumps(dict(proof=proof_broken, tie=tie, other=problems))[:3000]
        path = core.write_replay(ctx, body)
        print('VIOLATION property=%s replay=%s' % (ID, path)); exit_code = 1
    elif broken:
        body = '# C15 is no longer shown to hold; neither the entry-level re-check nor the correspondence run (%d lines) found a failing input\n' % n_corr
        if proof_broken: body += '# theorems that no longer check: %s\n# %s\n' % (', '.join(proof_broken), proof_log.replace('\n', '\n# '))
        for x in tie: body += '# broken tie: %s\n' % x
        for x in problems: body += '# %s\n' % x
        path = core.write_replay(ctx, body)
        print('VIOLATION property=%s replay=%s no-failing-input-found' % (ID, path)); exit_code = 1

    cnt = js['counts'] if js else {}
    cov = dict(obligations=max(len(theorems), 1), discharged=n_dis,
               checker_cmd='cd lean-l4 && lake build %s cat-model   (tables: tools/gen_c15.py; then `#print axioms` on each theorem)' % MODULE,
               trusted_base=l4.TRUSTED_BASE + ['harness/c15_drv.c and the ASan/UBSan/LSan run-time: observers of the correspondence run only',
                                               'the lookup model of XrlL4/Catalogue.lean is tied to the C functions by the exhaustive correspondence run, not by translation'],
               theorems=[dict(name=t, axioms=axioms.get(t)) for t in theorems],
               traces_validated_against_impl=n_corr, correspondence_mismatches=len(mism),
               evaluations=n_corr + (sum(cnt.get(k, 0) for k in ('nist', 'nuclides', 'crystals', 'mendel', 'atoms')) if js else 0),
               distinct_nontrivial=len(nontriv), exhaustive=True,
               rule='exhaustive part: every symbol and Z in [-3, MENDEL_MAX+3]; every catalogue name; every index in [-3, n+3], INT_MIN/INT_MAX, every index macro value; the three list functions. '
                    'Seeded part (VERIF_SEED through one PRNG): malformed names (case flips, padding, truncation, doubled, one character replaced, random strings) and deep-copy histories '
                    '(3 copies + mutation of one + a fresh copy, freed in a permutation of 0123; all 24 permutations for some indices, all indices in the thorough tier) under ASan+UBSan+LSan. '
                    'non-trivial = distinct protocol lines on which the model expects a successful lookup / an independent copy (errors are the trivial ones)',
               samples=samples, distribution=dist, counts=cnt, entry_level_violations=len([v for v in viol if v['theorem'] != 'lookups_agree_* / deep_copy_independent']),
               known_findings_reproduced=len(kn), new_violations=len(new), broken=dict(proof=proof_broken, tie=tie, other=problems),
               nist_sum_tolerance='|sum of mass fractions - 1| <= 2e-6 holds for all 180 shipped entries (worst: Glass, Pyrex 1.000002); stated as nistTol in Props/C15.lean')
    core.write_evidence(ctx, 'proof', cov, len(new) + (1 if broken and not new else 0),
                        ['line energies enter the kernel as floor(E[keV]*1e9) of what LineEnergy() of the freshly built library returns (positivity is all the statement needs)',
                         'crystal and Mendeleev tables are read from the xrayglob_inline.c that pr_data, rebuilt from the working tree, writes from data/Crystals.dat and src/xrayglob.c (that is the text compiled into the library)',
                         'allocation failure paths of the lookup functions are not exercised'])
    log('%s %s: exit %d  (%.1fs; theorems %d/%d; corr %d lines, %d mismatches; entry-level %d; %d known, %d new)' % (
        ID, ctx.tier, exit_code, time.time() - ctx.t0, n_dis, len(theorems), n_corr, len(mism), len(viol) - len(mism[:200]), len(kn), len(new)))
    return exit_code


class _Check:
    id = ID
    def run(self, tier, seed, replay=None): return run(tier, seed, replay)


CHECK = _Check()
