"""C07 — the formula parser computes the true composition of every well-formed formula.

Flow (DESIGN 2.7): build the library + harness/c07drv.c from the working tree (ASan+UBSan, allocation counter),
extract the element tables from the built library, `lake build` the theorems (lean-parser/XrlParser/Props/C07.lean)
and the model driver, audit, correspondence (hand model vs library on generated + mutated formulas), violation
search (specification oracle vs library), evidence."""
import os, sys, re, json, time, subprocess, random, hashlib, fcntl, math
from fractions import Fraction
from concurrent.futures import ThreadPoolExecutor
from vlib import core, cbuild
from vlib.cbuild import VERIF, REPO, BuildError
sys.path.insert(0, os.path.join(VERIF, 'tools'))
import c07gen as G

ID = 'C07'
LEAN_DIR = os.path.join(VERIF, 'lean-parser')
MODULE = 'XrlParser.Props.C07'
NAMESPACE = 'XrlParser.C07'
PROPS_FILE = os.path.join(LEAN_DIR, 'XrlParser', 'Props', 'C07.lean')
WRAP = ['-Wl,--wrap=malloc,--wrap=calloc,--wrap=realloc,--wrap=free,--wrap=strdup,--wrap=strndup,--wrap=vasprintf,--wrap=strtod']

# known-finding sites (the file is matched by these exact keys)
K_LOCALE = 'CompoundParser setlocale(LC_NUMERIC) xraylib-parser.c:338-344'
K_WEIGHT = 'CompoundParser AtomicWeight(Z,NULL) failure ignored xraylib-parser.c:353-360'
K_LEAK_ERR = 'CompoundParserSimple return 0 without free xraylib-parser.c:45-319'
K_LEAK_GRP = 'CompoundParserSimple tempBracketAtoms not freed when ca is empty xraylib-parser.c:283-289'
K_STRICT = 'CompoundParserSimple scanner skips characters xraylib-parser.c:66-110'
K_RANGE = 'CompoundParserSimple strtod result not checked xraylib-parser.c:152-279'

# theorems that must exist (and be axiom-clean) in Props/C07.lean, and the non-vacuity witnesses checked by name
REQUIRED_THEOREMS = ['parse_print_counts', 'parse_print', 'parse_elements_ascending', 'parse_reorder', 'parse_expand_group',
                     'parse_rejects_outside_alphabet', 'parse_rejects_unbalanced', 'parse_rejects_invalid',
                     'parse_accepts_weightless', 'parse_rejects_full_fails', 'parse_rejects_full_fixed', 'parse_weightless_nan',
                     'locale_after_call', 'locale_restored_partial', 'locale_restored_full_fails', 'locale_restored_fixed',
                     'heap_balanced_full_fails', 'heap_leak_error_path', 'heap_leak_leading_group', 'heap_leak_count', 'heap_balanced_partial',
                     'heap_balanced_fixed', 'add_compound_spec', 'symbol_lookup_agrees',
                     'parse_rejects_unconvertible', 'parse_rejects_nonformula_full_fails', 'parse_rejects_nonformula_fixed',
                     'parse_finite_full_fails', 'parse_finite_fixed', 'parse_rejects_out_of_range', 'parse_rejects_all_fixed',
                     'oracle_recogniser_exact', 'parse_rejects_unreadable_fixed']

SEEDS = ['H2O', 'Mg(OH)2', 'Fe2.5O', 'He', 'U', '(H)', 'Ca5(PO4)3F', 'C6H12O6', '(NH4)2SO4', 'K4(Fe(CN)6)', 'H.5O',
         'Al2(SO4)3', 'CuSO4(H2O)5', 'Rf', '((H2)3O)0.5', 'NaCl', 'Pb(C2H3O2)2', 'UO2(NO3)2(H2O)6', 'SiO2', 'La1.85Sr.15CuO4']
QUICK_FULL_SEEDS = ['H2O', 'Mg(OH)2', 'Fe2.5O', 'He', 'U', '(H)', 'Ca5(PO4)3F', 'H.5O', 'Rf', '((H2)3O)0.5']

def log(*a): core.log(*a)

# ------------------------------------------------------------------------------------------------
# answers

def unhx(s): return core.unhx(s)

def rat(s):
    if s == 'nan': return float('nan')
    a, b = s.split('/')
    return Fraction(int(a), int(b))

def parse_answer(line, numf):
    """-> dict(kind, ...) ; numf converts a number token"""
    try: return _parse_answer(line, numf)
    except (ValueError, IndexError): return dict(kind='other', text=line)      # a mangled answer line is an answer of no known kind, never a crash of the check

def _parse_answer(line, numf):
    t = line.split(' ')
    if t[0] == 'ok' and len(t) >= 2 and t[1].startswith('n='):
        d = dict(kind='ok', n=int(t[1][2:]), els=[], ns=[], fr=[], extra=[])
        for x in t[2:]:
            if x.startswith('all='): d['all'] = numf(x[4:])
            elif x.startswith('mm='): d['mm'] = numf(x[3:])
            elif x.startswith('live='): d['live'] = tuple(int(v) for v in x[5:].split(','))
            elif x.startswith('loc='): d['loc'] = tuple(x[4:].split(','))
            elif x.startswith('lcall='): d['lcall'] = x[6:]
            elif x.startswith('convloc='): d['convloc'] = x[8:]
            elif x.startswith('conv='): d['conv'] = int(x[5:])
            elif x.startswith('ovf='): d['ovf'] = x[4:]
            elif ':' in x:
                z, n, f = x.split(':'); d['els'].append(int(z)); d['ns'].append(numf(n)); d['fr'].append(numf(f))
            else: d['extra'].append(x)
        return d
    if t[0] == 'ok':
        d = dict(kind='okv', val=t[1], extra=[])
        for x in t[2:]:
            if x.startswith('live='): d['live'] = tuple(int(v) for v in x[5:].split(','))
            else: d['extra'].append(x)
        return d
    if t[0] == 'err':
        d = dict(kind='err', extra=[])
        rest = t[1:]
        if rest and re.fullmatch(r'\d+|none', rest[0]): d['code'] = rest[0]; rest = rest[1:]
        d['msg'] = rest[0] if rest else ''
        for x in rest[1:]:
            if x.startswith('live='): d['live'] = tuple(int(v) for v in x[5:].split(','))
            elif x.startswith('loc='): d['loc'] = tuple(x[4:].split(','))
            elif x.startswith('lcall='): d['lcall'] = x[6:]
            elif x.startswith('convloc='): d['convloc'] = x[8:]
            elif x.startswith('conv='): d['conv'] = int(x[5:])
            else: d['extra'].append(x)
        return d
    return dict(kind='other', text=line)

def cnum(s): return unhx(s)
def mnum(s): return rat(s)

def fl(q):
    try: return float(q)
    except OverflowError: return float('inf') if q > 0 else float('-inf')

def num_close(c, m, rel, stats=None):
    """c: float from the library, m: Fraction/NaN from the model or oracle"""
    if isinstance(m, float):
        return math.isnan(m) and not math.isfinite(c)       # model `nan` = non-finite C value
    if not math.isfinite(c): return False
    mf = fl(m)
    if c == mf: return True
    ok = abs(c - mf) <= rel * max(abs(c), abs(mf)) + 1e-300
    if ok and stats is not None:
        stats['max_rel_dev'] = max(stats.get('max_rel_dev', 0.0), abs(c - mf) / max(abs(c), abs(mf)))
    return ok

def agree(line, c, m, stats):
    """correspondence: library answer vs model answer"""
    pc, pm = parse_answer(c, cnum), parse_answer(m, mnum)
    if pc['kind'] != pm['kind'] or pc['extra'] or pm['extra']: return False
    if pc.get('live') != pm.get('live') or pc.get('loc') != pm.get('loc'): return False
    if pc.get('convloc'): return False          # the model converts every subscript after the switch to the "C" locale
    if pc['kind'] == 'err':
        return pc['msg'] == pm['msg'] and pc.get('code') in ('1', None)
    if pc['kind'] == 'okv': return pc['val'] == pm['val']
    if pc['kind'] == 'ok':
        if pc['n'] != pm['n'] or pc['els'] != pm['els']: return False
        if pm.get('ovf') == '1':
            # the model flags a subscript strtod converts to +inf: its exact numbers are not those of the C code, which must be non-finite
            return any(not math.isfinite(x) for x in pc['ns'])
        exact = line.startswith('parse ') and '.' not in line.split(' ')[2]
        for a, b in zip(pc['ns'], pm['ns']):
            # integer subscripts below 2^53: the double arithmetic is exact, so is the comparison
            if exact and isinstance(b, Fraction) and b.denominator == 1 and b < 2 ** 53 and Fraction(a) != b: return False
            if not num_close(a, b, 1e-13, stats): return False
        for a, b in zip(pc['fr'] + [pc['all'], pc['mm']], pm['fr'] + [pm['all'], pm['mm']]):
            if not num_close(a, b, 1e-13, stats): return False
        return True
    return False

# ------------------------------------------------------------------------------------------------

class Run:
    def __init__(self, tier, seed):
        self.ctx = core.Ctx(ID, tier, seed)
        self.tier = tier; self.seed = seed
        self.rng = random.Random(seed * 1000003 + 7)
        self.sc = self.ctx.sc
        self.stderr_lines = 0
        self.died = 0

    # ---- build ----------------------------------------------------------------------------------
    def build_c(self):
        t = time.time()
        cbuild.build_prdata(self.sc, REPO)
        objs, fl = cbuild.build_lib(self.sc, REPO)
        self.cdrv = self.sc.path('c07drv')
        cbuild.link(self.sc, objs, [os.path.join(VERIF, 'harness', 'c07drv.c')], self.cdrv, fl + WRAP)
        self.ctx.tick('c_build', t)
        # tables of the built library -> tables.txt for the model (doubles as exact rationals)
        p = subprocess.run([self.cdrv], input='tables\n', capture_output=True, text=True, env=self.cenv())
        if p.returncode != 0 or len(p.stdout.splitlines()) != 3:
            raise BuildError('c07drv tables failed: ' + p.stderr[-2000:])
        l = p.stdout.splitlines()
        w = l[2].split(' ')
        wl = ['%d/%d' % Fraction(unhx(x)).as_integer_ratio() for x in w[2:]]
        self.tables_path = self.sc.path('tables.txt')
        open(self.tables_path, 'w').write(l[0] + '\n' + l[1] + '\n' + 'weights %s %s\n' % (w[1], ' '.join(wl)))
        self.mendel = [(int(x.split(':')[0]), x.split(':')[1]) for x in l[0].split(' ')[2:]]
        self.weights = [unhx(x) for x in w[2:]]
        self.syms = [n for z, n in self.mendel]
        self.syms_w = [n for z, n in self.mendel if 1 <= z < len(self.weights) and self.weights[z] > 0]
        self.syms_now = [n for n in self.syms if n not in self.syms_w]
        self.tables_sha = hashlib.sha256(p.stdout.encode()).hexdigest()[:16]

    def cenv(self):
        return dict(os.environ, ASAN_OPTIONS='detect_leaks=0:abort_on_error=0:halt_on_error=1', UBSAN_OPTIONS='print_stacktrace=0')

    def lake(self, targets):
        t = time.time()
        with open(os.path.join(LEAN_DIR, '.verif.lock'), 'w') as lf:
            fcntl.flock(lf, fcntl.LOCK_EX)
            p = subprocess.run(['lake', 'build'] + targets, cwd=LEAN_DIR, capture_output=True, text=True)
            fcntl.flock(lf, fcntl.LOCK_UN)
        self.ctx.timings['lake_build'] = round(self.ctx.timings.get('lake_build', 0) + time.time() - t, 2)
        return p.returncode == 0, p.stdout + p.stderr

    def model_exe(self): return os.path.join(LEAN_DIR, '.lake', 'build', 'bin', 'parser-model')

    # ---- drivers --------------------------------------------------------------------------------
    def _chunks(self, lines, fn, chunk=3000):
        if len(lines) <= chunk: return fn(lines)
        parts = [lines[i:i + chunk] for i in range(0, len(lines), chunk)]
        with ThreadPoolExecutor(max_workers=14) as ex:
            res = list(ex.map(fn, parts))
        return [x for r in res for x in r]

    def run_c(self, lines):
        env = self.cenv()
        def one(ls):
            out = []; i = 0
            while i < len(ls):
                p = subprocess.run([self.cdrv], input='\n'.join(ls[i:]) + '\n', capture_output=True, text=True, env=env)
                got = p.stdout.splitlines()
                if got and not p.stdout.endswith('\n'): got = got[:-1]          # the process died while writing an answer: that line is the `died` one
                got = got[:len(ls) - i]
                out += got; i += len(got)
                if i < len(ls):
                    if p.returncode == 0: raise BuildError('c07drv stopped early without diagnostic at: ' + ls[i])
                    m = re.search(r'(runtime error: [^\n]*|ERROR: AddressSanitizer: [^\n]*|SUMMARY: [^\n]*)', p.stderr)
                    out.append('died ' + (m.group(1)[:160] if m else 'exit %d' % p.returncode)); i += 1
                    self.died += 1
                elif p.stderr.strip():
                    self.stderr_lines += len(p.stderr.strip().splitlines()); self.stderr_sample = p.stderr[:300]
            return out
        return self._chunks(lines, one)

    def probe_variant(self):
        """which of the proposed repairs C07-1..5 the working tree contains: observed on witnesses of the
        library just built (the choice is then validated by the whole correspondence run)"""
        o = self.run_c(['parse C.utf8 H2O', 'parse C Rf', 'parse C Uu', 'parse C (H)', 'parse C (H)a', 'parse C H1' + '0' * 309])
        a = [parse_answer(x, cnum) for x in o]
        locale_fix = a[0].get('loc') == ('C.utf8', 'C.utf8')
        weight_fix = a[1]['kind'] == 'err'
        leak_fix = a[2].get('live') == (0, 0) and a[3].get('live') == (4, 0)
        strict_fix = a[4]['kind'] == 'err'
        range_fix = a[5]['kind'] == 'err'
        self.variant = '%d%d%d%d%d' % (locale_fix, weight_fix, leak_fix, strict_fix, range_fix)
        return self.variant

    def run_model(self, lines):
        def one(ls):
            p = subprocess.run([self.model_exe(), self.tables_path, getattr(self, 'variant', '00000')], input='\n'.join(ls) + '\n', capture_output=True, text=True)
            out = p.stdout.splitlines()
            if p.returncode != 0 or len(out) != len(ls):
                raise BuildError('parser-model failed (%d answers for %d lines): %s' % (len(out), len(ls), p.stderr[-1000:]))
            return out
        return self._chunks(lines, one)

    def coverage(self, lines):
        """thorough tier: line/branch/function coverage of src/xraylib-parser.c reached by the correspondence lines, measured on
        a second, coverage-instrumented build of the working tree (observer only)"""
        t = time.time()
        covfl = ('-fprofile-instr-generate', '-fcoverage-mapping')
        objs, fl = cbuild.build_lib(self.sc, REPO, san=None, extra=covfl, tag='cov')
        exe = self.sc.path('c07drv_cov')
        cbuild.link(self.sc, objs, [os.path.join(VERIF, 'harness', 'c07drv.c')], exe, fl + WRAP)
        pdir = self.sc.path('prof'); os.makedirs(pdir, exist_ok=True)
        env = dict(os.environ, LLVM_PROFILE_FILE=os.path.join(pdir, 'c07-%p.profraw'))
        def one(ls):
            subprocess.run([exe], input='\n'.join(ls) + '\n', capture_output=True, text=True, env=env); return []
        self._chunks(lines, one, chunk=20000)
        raws = [os.path.join(pdir, f) for f in os.listdir(pdir)]
        merged = self.sc.path('c07.profdata')
        p = subprocess.run(['llvm-profdata-14', 'merge', '-sparse'] + raws + ['-o', merged], capture_output=True, text=True)
        if p.returncode != 0: return dict(error=p.stderr[-300:])
        src = os.path.join(REPO, 'src', 'xraylib-parser.c')
        p = subprocess.run(['llvm-cov-14', 'export', '-summary-only', '-instr-profile=' + merged, exe, src], capture_output=True, text=True)
        self.ctx.tick('coverage', t)
        try:
            d = json.loads(p.stdout)['data'][0]['files'][0]['summary']
            return {k: dict(covered=d[k]['covered'], count=d[k]['count'], percent=round(d[k]['percent'], 2)) for k in ('lines', 'branches', 'functions', 'regions') if k in d}
        except Exception as e:
            return dict(error=str(e)[:200] + p.stderr[-200:])

    # ---- generators -----------------------------------------------------------------------------
    def gen_inputs(self):
        """-> list of (family, bytes, meta)"""
        r = self.rng; thorough = self.tier == 'thorough'
        out = []
        for s in self.syms: out.append(('symbol', s.encode(), None))
        for a in self.syms:
            for b in self.syms: out.append(('pair', (a + b).encode(), None))
        g = G.Gen(r, self.syms_w)
        gall = G.Gen(r, self.syms)
        nform = 100000 if thorough else 4000
        self.rewrite_pairs = []      # (index of original, index of rewrite, kind)
        for k in range(nform):
            f = (gall if k % 10 == 9 else g).formula()
            i0 = len(out); out.append(('grammar', G.show(f).encode(), f))
            f2 = G.reorder(f, r); s2 = G.show(f2)
            if s2 != G.show(f): self.rewrite_pairs.append((i0, len(out), 'reorder')); out.append(('reorder', s2.encode(), f2))
            f3 = G.expand_one(f, r)
            if f3 is not None and len(G.show(f3)) <= 120:
                self.rewrite_pairs.append((i0, len(out), 'expand')); out.append(('expand', G.show(f3).encode(), f3))
        # malformed stream: single-character mutations
        seeds = [s.encode() for s in SEEDS] + [G.show(g.formula(maxdepth=3, maxlen=24)).encode() for _ in range(20 if thorough else 4)]
        self.mut_seeds = [s.decode() for s in seeds]
        if thorough:
            for s in seeds:
                for m in G.mutations(s): out.append(('mutation', m, None))
        else:
            for s in seeds:
                if s.decode() in QUICK_FULL_SEEDS:
                    for m in G.mutations(s): out.append(('mutation', m, None))
                else:
                    ms = list(G.mutations(s, bytes_range=[r.randrange(1, 256) for _ in range(6)] + [40, 41, 46, 48, 32, 101, 72]))
                    for m in r.sample(ms, min(len(ms), 600)): out.append(('mutation', m, None))
        # structural stream: EVERY string over the seven-letter alphabet `HO()20.` up to length 5 (6 in the thorough tier) and over
        # `HO()2` one longer — bracket order, empty groups, leading digits and points, zero subscripts, stray points, nested groups:
        # what no single-character edit of a valid formula reaches (e.g. `H)(O`: equal counts, wrong order; `.H2O`, `(H).`)
        import itertools
        seen_small = set(m for _, m, _ in out)
        for alphabet, nmax in (('HO()20.', 6 if thorough else 5), ('HO()2', 7 if thorough else 6)):
            for n in range(1, nmax + 1):
                for tup in itertools.product(alphabet, repeat=n):
                    b = ''.join(tup).encode()
                    if b not in seen_small: seen_small.add(b); out.append(('small-alphabet', b, None))
        # stray lower-case letters (audit clause 15): every string over `H(a)2.` up to length 5 that contains an `a`
        for n in range(1, 6):
            for tup in itertools.product('H()a2.', repeat=n):
                if 'a' not in tup: continue
                b = ''.join(tup).encode()
                if b not in seen_small: seen_small.add(b); out.append(('stray-lower', b, None))
        # subscripts at the edges of the range of double (audit clauses 2/5): fixed inputs
        for t in G.RANGE_INPUTS: out.append(('double-range', t.encode(), None))
        # "arbitrarily nested parentheses": nesting far beyond what the grammar stream reaches (depth <= 5) — every depth 6..40 with a
        # multiplier on each level, and a few much deeper ones without (seeded change C07-12: more than 16 open brackets rejected)
        for d in list(range(6, 41)) + [64, 100, 250, 1000]:
            out.append(('deep-nesting', ('(' * d + 'H2O' + ')' * d).encode(), None))
            if d <= 40:
                out.append(('deep-nesting', ('Ca' + '(' * d + 'OH' + ')2' * d).encode(), None))
                out.append(('deep-nesting', ('(' * d + 'Si' + ')' * (d - 1) + 'O2)3').encode(), None))
        # bracket transpositions / rotations of generated formulas (two-character edits that keep the bracket COUNT)
        for fam_, b, f in list(out[:400]):
            if fam_ != 'grammar' or b.count(b'(') == 0: continue
            t = b.decode(); i = t.find('('); j = t.rfind(')')
            for v in (t[:i] + ')' + t[i + 1:j] + '(' + t[j + 1:], t[j:] + t[:j], t.replace('(', '\0').replace(')', '(').replace('\0', ')')):
                if v and v != t: out.append(('bracket-swap', v.encode(), None))
        return out

    def corpus(self):
        d = os.path.join(VERIF, 'corpus'); out = []
        if os.path.isdir(d):
            for f in sorted(os.listdir(d)):
                if f.startswith(ID + '-') and f.endswith('.lines'):
                    out += [l.strip() for l in open(os.path.join(d, f)) if l.strip() and not l.startswith('#')]
        return out

    def other_lines(self):
        """add_compound_data, AtomicNumberToSymbol, SymbolToAtomicNumber, NULL"""
        r = self.rng; out = ['null', 's2znull']
        for z in range(-3, 126): out.append('z2s %d' % z)
        for s in self.syms:
            out.append('s2z ' + G.esc(s.encode()))
            out.append('s2z ' + G.esc(s.lower().encode())); out.append('s2z ' + G.esc(s.upper().encode()))
            out.append('s2z ' + G.esc((s + 'x').encode())); out.append('s2z ' + G.esc(s[:1].encode()))
        out += ['s2z %', 's2z %20', 's2z Uu', 's2z H%20', 's2z %E9']
        def dec(lo, hi, k):
            return G.dec_text(Fraction(r.randint(lo * 10 ** k, hi * 10 ** k), 10 ** k))
        def cd(asc=True):
            n = r.choice([0, 1, 1, 2, 2, 3, 4, 5, 8])
            zs = sorted(r.sample(range(1, 108), n))
            if not asc:
                zs = [r.randint(1, 12) for _ in range(n)]
            its = ','.join('%d:%s:%s' % (z, dec(0, 9, 2), dec(0, 1, 6)) for z in zs)
            return '%s;%s;%s' % (dec(0, 50, 1), dec(0, 500, 3), its)
        for k in range(10000 if self.tier == 'thorough' else 1000):
            asc = k % 7 != 6
            out.append('add %s %s %s %s' % (dec(0, 1, 4), dec(0, 1, 4), cd(asc), cd(asc)))
        return out

# ------------------------------------------------------------------------------------------------
# audit of the Lean side

def lean_sources():
    out = []
    for root, dirs, files in os.walk(os.path.join(LEAN_DIR, 'XrlParser')):
        for f in files:
            if f.endswith('.lean'): out.append(os.path.join(root, f))
    out.append(os.path.join(LEAN_DIR, 'Driver.lean'))
    return sorted(out)

def print_axioms(run, names):
    src = 'import %s\n' % MODULE + ''.join('#print axioms %s\n' % n for n in names)
    path = run.sc.path('Audit.lean'); open(path, 'w').write(src)
    p = subprocess.run(['lake', 'env', 'lean', path], cwd=LEAN_DIR, capture_output=True, text=True)
    res = {}; txt = p.stdout + p.stderr
    for m in re.finditer(r"'([^']+)' depends on axioms: \[([^\]]*)\]|'([^']+)' does not depend on any axioms", txt):
        if m.group(1): res[m.group(1)] = [a.strip() for a in m.group(2).replace('\n', ' ').split(',') if a.strip()]
        else: res[m.group(3)] = []
    return res, txt

def failing_theorems(build_log):
    """map every `error: <file>.lean:LINE` of the build log to the enclosing theorem of that file
    (property theorems of Props/C07.lean by name; lemmas as Lemmas/<file>:<name>, every property theorem depends on them)"""
    names = []
    for m in re.finditer(r'(XrlParser/[\w/]+\.lean):(\d+):\d+', build_log):
        rel, ln = m.group(1), int(m.group(2))
        try: src = open(os.path.join(LEAN_DIR, rel)).read().splitlines()
        except OSError: continue
        for i in range(min(ln, len(src)) - 1, -1, -1):
            mm = re.match(r'\s*theorem\s+([\w\.\']+)', src[i])
            if mm:
                n = mm.group(1) if rel.endswith('Props/C07.lean') else '%s:%s' % (rel[len('XrlParser/'):-5], mm.group(1))
                if n not in names: names.append(n)
                break
    return names

def load_known():
    """the ONLY file that can suppress a violation is /verif/known_findings.txt"""
    return list(core.load_known_findings().get(ID, []))

# ------------------------------------------------------------------------------------------------
# violation search: specification oracle vs the real library

def clean(t):
    """what the scanner of the UNREPAIRED CompoundParserSimple makes of a balanced string over the formula alphabet: at every level
    the items it consumes — an upper-case letter with one lower-case letter (when the character after that is not lower case) and the
    run of [0-9.] directly behind it; a bracket pair (cleaned recursively) and the run of [0-9.] directly behind it — in order, with
    every other character at that level (the skipped ones) removed.  None when the shape is one the library rejects anyway.
    Used only to decide whether an accepted non-formula shows exactly the behaviour of the known site K_STRICT."""
    out = []; i = 0; n = len(t)
    low = lambda ch: 'a' <= ch <= 'z'
    sub = lambda ch: ch in '0123456789.'
    while i < n:
        ch = t[i]
        if ch == '(':
            d = 1; j = i + 1
            while j < n and d > 0:
                d += (t[j] == '(') - (t[j] == ')'); j += 1
            if d: return None
            inner = clean(t[i + 1:j - 1])
            if inner is None: return None
            k = j
            while k < n and sub(t[k]): k += 1
            out.append('(' + inner + ')' + t[j:k]); i = k
        elif 'A' <= ch <= 'Z':
            j = i + 1
            if j < n and low(t[j]):
                if j + 1 < n and low(t[j + 1]): return None
                j += 1
            k = j
            while k < n and sub(t[k]): k += 1
            out.append(t[i:k]); i = k
        elif ch == ')': return None
        else: i += 1
    return ''.join(out)

def compare_composition(pc, pe, stats=None):
    """library result `pc` against an expected composition `pe`: list of differences"""
    out = []
    if pc['els'] != pe['els']: return ['elements %s, expected %s' % (pc['els'], pe['els'])]
    if any(a >= b for a, b in zip(pc['els'], pc['els'][1:])): out.append('elements not strictly ascending')
    for name, a, b in [('nAtoms', pc['ns'], pe['ns']), ('massFractions', pc['fr'], pe['fr']), ('nAtomsAll', [pc['all']], [pe['all']]), ('molarMass', [pc['mm']], [pe['mm']])]:
        for x, y in zip(a, b):
            if not num_close(x, y, 1e-12, stats): out.append('%s %r, expected %s' % (name, x, fl(y))); break
    if not (abs(sum(pc['fr']) - 1) <= 1e-12 and all(x > 0 for x in pc['fr'])): out.append('mass fractions not positive / not summing to 1')
    return out

def judge(line, c, e, stats=None, e_clean=None):
    """one `parse` line: library answer `c` against the oracle's expectation `e`.
    `e_clean`: the oracle's expectation for clean(<the string>) when `e` is `reject not-a-formula` and the library accepted.
    -> list of (site-or-None, what): property failures on this input; site = known-finding key candidate"""
    pc = parse_answer(c, cnum); out = []
    loc = pc.get('loc')
    if pc['kind'] == 'other':
        return [(None, 'library died or answered nothing: ' + c[:120])]
    if loc and loc[0] != loc[1]:
        out.append((K_LOCALE, 'LC_NUMERIC %s before the call, %s after' % loc))
    if pc.get('lcall') == '1':
        out.append((None, 'the process locale (setlocale(LC_ALL, NULL)) is not what it was before the call: a category other than LC_NUMERIC was changed and not restored'))
    if pc.get('convloc'):
        out.append((None, 'the parser converted a subscript (strtod) while LC_NUMERIC was %s: the switch to the "C" locale is missing or too late' % G.unesc(pc['convloc']).decode('latin1')))
    if pc['extra']: out.append((None, 'result and error both set'))
    t = e.split(' ')
    if t[1] == 'ok':
        pe = parse_answer(' '.join(t[1:]), mnum)
        if pc['kind'] != 'ok': return out + [(None, 'well-formed formula rejected: ' + G.unesc(pc.get('msg', '')).decode('latin1'))]
        out += [(None, w) for w in compare_composition(pc, pe, stats)]
        lead = int(t[-1].split('=')[1]) if t[-1].startswith('lead=') else 0
        if pc['live'][1] != 0:
            out.append((K_LEAK_GRP if lead == pc['live'][1] else None, '%d block(s) still allocated after FreeCompoundData' % pc['live'][1]))
    elif t[1] == 'reject':
        lead = int(t[-1].split('=')[1]) if t[-1].startswith('lead=') else None
        if pc['kind'] == 'ok':
            site = None; what = 'accepted (%s): elements %s nAtoms %s fractions %s molarMass %r' % (t[2], pc['els'], pc['ns'], pc['fr'], pc['mm'])
            if t[2] == 'no-atomic-weight': site = K_WEIGHT
            elif t[2] == 'not-a-formula':
                # the known site: characters that belong to no item are skipped.  Only when the result is exactly the composition
                # of the string with those characters removed (and that string is a formula the property accepts)
                if e_clean is not None and e_clean.startswith('expect ok'):
                    pe = parse_answer(' '.join(e_clean.split(' ')[1:]), mnum)
                    if not compare_composition(pc, pe):
                        site = K_STRICT; lead = int(e_clean.split(' ')[-1].split('=')[1])
                        what = 'accepted although it is not a formula of the grammar: part of the text is ignored, the result is the composition of the remaining text'
            elif t[2] == 'subscript-overflow':
                # the known site: strtod's +inf is not noticed.  Only when exactly the formula's elements come back with a non-finite count
                els = [int(x) for x in [y for y in t if y.startswith('els=')][0][4:].split(',') if x]
                if pc['els'] == els and any(math.isinf(x) for x in pc['ns']) and all(x > 0 for x in pc['ns']):
                    site = K_RANGE; what = 'accepted with a subscript a double cannot hold: nAtoms %s, nAtomsAll %r, fractions %s, no error' % (pc['ns'], pc['all'], pc['fr'])
            out.append((site, what))
            if pc['live'][1] != 0 and not (lead is not None and lead == pc['live'][1]):
                out.append((None, 'blocks still allocated after FreeCompoundData'))
            elif pc['live'][1] != 0:
                out.append((K_LEAK_GRP, '%d block(s) still allocated after FreeCompoundData' % pc['live'][1]))
        elif pc['kind'] == 'err':
            if pc.get('code') != '1' or not pc['msg']: out.append((None, 'rejected without exactly one error'))
            if pc['live'][0] != 0: out.append((K_LEAK_ERR, '%d block(s) leaked on the error return' % pc['live'][0]))
    else:   # (no such verdict any more: the oracle judges every string)
        out.append((None, 'the oracle gave no verdict: ' + e[:80]))
    return out

def needs_clean(c, e):
    """accepted by the library although the oracle says `reject not-a-formula`: the second question (what is left of the string) is due"""
    return e.startswith('expect reject not-a-formula') and c.startswith('ok ')

# ------------------------------------------------------------------------------------------------

class C07:
    id = ID

    def run(self, tier, seed, replay=None):
        R = Run(tier, seed)
        try:
            return self._run(R, replay)
        except BuildError as e:
            log('BUILD ERROR', str(e)[:3000])
            body = 'check %s could not build the working tree or its own harness:\n%s\n' % (ID, str(e)[:4000])
            path = core.write_replay(R.ctx, body, 'txt')
            print('VIOLATION property=%s replay=%s no-failing-input-found' % (ID, path))
            core.write_evidence(R.ctx, 'proof', dict(obligations=len(REQUIRED_THEOREMS), discharged=0, checker_cmd='cd lean-parser && lake build ' + MODULE,
                                trusted_base=TRUSTED, explanation='build failed: ' + str(e)[:500], evaluations=1, distinct_nontrivial=0), 1)
            return 1
        finally:
            R.ctx.close()

    def _run(self, R, replay):
        ctx = R.ctx
        rep = dict(proof_broken=[], tie_broken=[], problems=[])
        known = load_known()
        # ---- 1. C artefacts + tables, 2. lake ------------------------------------------------------
        R.build_c()
        ok_exe, log_exe = R.lake(['parser-model'])
        if not ok_exe: raise BuildError('model driver does not build: ' + _errs(log_exe))
        ok_props, log_props = R.lake([MODULE])
        if not ok_props:
            rep['proof_broken'] = failing_theorems(log_props) or ['(module %s does not build)' % MODULE]
            rep['proof_log'] = _errs(log_props, 10)
        # ---- 3. audit ----------------------------------------------------------------------------------
        bad = core.audit_sources(lean_sources())
        if bad: rep['problems'].append('forbidden construct in Lean sources: ' + '; '.join(bad[:5]))
        theorems = core.theorems_of(PROPS_FILE, NAMESPACE) if os.path.exists(PROPS_FILE) else []
        for th in REQUIRED_THEOREMS:
            if NAMESPACE + '.' + th not in theorems: rep['problems'].append('property theorem %s missing from %s' % (th, MODULE))
        axioms = {}
        if ok_props and theorems:
            t = time.time()
            axioms, txt = print_axioms(R, theorems)
            ctx.tick('axiom_audit', t)
            for th in theorems:
                if th not in axioms: rep['problems'].append('axiom audit: no report for %s' % th)
                elif set(axioms[th]) - core.ALLOWED_AXIOMS: rep['problems'].append('axiom audit: %s depends on %s' % (th, sorted(set(axioms[th]) - core.ALLOWED_AXIOMS)))
        if os.path.exists(PROPS_FILE):
            src = core.strip_comments(open(PROPS_FILE).read())
            n_ex = len(re.findall(r'^\s*example\b', src, flags=re.M))
            if n_ex < 5: rep['problems'].append('non-vacuity examples missing from %s (%d found)' % (MODULE, n_ex))
        if R.tier == 'thorough' and ok_props:
            t = time.time()
            p = subprocess.run(['lake', 'env', 'leanchecker', MODULE], cwd=LEAN_DIR, capture_output=True, text=True)
            ctx.tick('leanchecker', t)
            if p.returncode != 0: rep['problems'].append('leanchecker rejected %s: %s' % (MODULE, (p.stdout + p.stderr)[-400:]))
            else: ctx.notes.append('leanchecker re-checked %s' % MODULE)
        variant = R.probe_variant()
        if variant != '00000':
            ctx.notes.append('working tree contains proposed repairs (localeFix, weightFix, leakFix, strictFix, rangeFix) = %s; the model runs with the same switches' % variant)
        # table precondition of the bsearch contract, executed by the compiled model
        if R.run_model(['tablesok']) != ['true']:
            rep['tie_broken'].append('tablesOK false: MendelArraySorted is not strictly sorted by strcmp / not a permutation of MendelArray (bsearch contract unmet)')
        # ---- 5. correspondence ---------------------------------------------------------------------------
        t = time.time()
        if replay:
            rl = [l.strip() for l in open(replay) if l.strip() and not l.startswith('#')]
            inputs = []; lines = rl; fam = ['replay'] * len(rl)
        else:
            inputs = R.gen_inputs()
            corpus = R.corpus()
            lines = list(corpus); fam = ['corpus'] * len(corpus)
            for i, (f, b, meta) in enumerate(inputs):
                # the malformed streams run under C.utf8 (every failure path with a locale to restore) AND under C (below)
                locname = 'C.utf8' if (i % 7 == 3 or f in ('symbol', 'mutation', 'stray-lower', 'double-range', 'bracket-swap')) else 'C'
                lines.append('parse %s %s' % (locname, G.esc(b))); fam.append(f)
            ncorp = len(corpus)
            for f, b, meta in inputs:
                if f in ('mutation', 'double-range'): lines.append('parse C %s' % G.esc(b)); fam.append(f + '@C')
            other = R.other_lines()
            lines += other; fam += [l.split(' ')[0] for l in other]
        ctx.tick('generate', t)
        t = time.time()
        c_out = R.run_c(lines)
        ctx.tick('run_library', t); t = time.time()
        m_out = R.run_model(lines)
        ctx.tick('run_model', t); t = time.time()
        stats = {}
        mism = []
        for l, c, m in zip(lines, c_out, m_out):
            if not agree(l, c, m, stats): mism.append((l, c, m))
        ctx.tick('compare', t)
        if mism:
            rep['tie_broken'].append('model and implementation disagree on %d of %d lines; first: %s | impl: %s | model: %s' % (
                len(mism), len(lines), mism[0][0], mism[0][1][:300], mism[0][2][:300]))
        if R.stderr_lines:
            rep['tie_broken'].append('library wrote %d diagnostic line(s) to stderr (error stored over an error?): %s' % (R.stderr_lines, getattr(R, 'stderr_sample', '')))
        # ---- violation search: oracle vs library (always) ------------------------------------------------
        t = time.time()
        pidx = [i for i, l in enumerate(lines) if l.startswith('parse ')]
        s_out = R.run_model(['spec ' + lines[i].split(' ')[2] for i in pidx])
        e_clean = self.clean_expectations(R, [lines[i] for i in pidx], [c_out[i] for i in pidx], s_out)
        viol = []         # (line, site, what)
        sstats = {}
        expect_kinds = {}
        nontriv = set()
        conv_calls = 0; conv_lines = 0
        for i, e in zip(pidx, s_out):
            k = ' '.join(e.split(' ')[1:3]) if not e.startswith('expect ok') else 'ok'
            expect_kinds[k] = expect_kinds.get(k, 0) + 1
            if k == 'ok': nontriv.add(lines[i].split(' ')[2])
            for site, what in judge(lines[i], c_out[i], e, sstats, e_clean.get(lines[i])):
                viol.append((lines[i], site, what, c_out[i], e))
            m = re.search(r' conv=(\d+)', c_out[i])
            if m:
                conv_lines += 1; conv_calls += int(m.group(1))
        if pidx and not replay and conv_calls == 0:
            rep['tie_broken'].append('the strtod observer of harness/c07drv.c saw no conversion on %d parse lines: the locale in force at the conversions is not observed' % len(pidx))
        # rewrite invariance on the real library (reorder / expand group)
        n_rw = 0
        if not replay:
            for i0, i1, kind in R.rewrite_pairs:
                a = parse_answer(c_out[ncorp + i0], cnum); b = parse_answer(c_out[ncorp + i1], cnum)
                n_rw += 1
                if a['kind'] != b['kind']:
                    viol.append((lines[ncorp + i1], None, '%s changes acceptance w.r.t. %s' % (kind, lines[ncorp + i0]), c_out[ncorp + i1], c_out[ncorp + i0])); continue
                if a['kind'] == 'ok':
                    same = a['els'] == b['els'] and all(core.close(x, y, 1e-12) for x, y in zip(a['ns'] + a['fr'] + [a['all'], a['mm']], b['ns'] + b['fr'] + [b['all'], b['mm']]))
                    nanboth = any(math.isnan(x) for x in a['fr']) and any(math.isnan(x) for x in b['fr'])
                    if not same and not nanboth:
                        viol.append((lines[ncorp + i1], None, 'composition differs from its %s rewrite %s' % (kind, lines[ncorp + i0]), c_out[ncorp + i1], c_out[ncorp + i0]))
        # add_compound_data against an independent evaluation (union, wA*fA + wB*fB)
        n_add = 0
        for l, c in zip(lines, c_out):
            if l.startswith('add '):
                n_add += 1
                w = check_add(l, c)
                if w: viol.append((l, None, w, c, 'ascending union with fractions wA*fA + wB*fB'))
        ctx.tick('search', t)
        cov_c = R.coverage(lines) if (R.tier == 'thorough' and not replay) else None
        # ---- classify -----------------------------------------------------------------------------------
        knownkeys = {k: txt for k, txt in known}
        new = []; hits = {}
        for v in viol:
            if v[1] is not None and v[1] in knownkeys:
                h = hits.setdefault(v[1], dict(n=0, witness=v[0], what=v[2])); h['n'] += 1
                if len(v[0]) < len(h['witness']): h['witness'] = v[0]; h['what'] = v[2]
            else:
                new.append(v)
        for k, h in hits.items():
            print('KNOWN-FINDING: property=%s %s: %s' % (ID, k, knownkeys[k]))
        exit_code = 0
        broken = rep['proof_broken'] or rep['tie_broken'] or rep['problems']
        if new:
            new.sort(key=lambda v: len(v[0]))
            w = self.shrink(R, new[0]) if not replay else new[0]
            body = '# violation of %s: the library contradicts the specification on this input\n' % ID
            body += '# %s\n# library:  %s\n# expected: %s\n%s\n' % (w[2], w[3][:400], w[4][:400], w[0])
            for v in new[1:20]:
                body += '# also: %s  (%s)\n' % (v[0], v[2])
            if broken: body += '\n# broken obligations: %s\n' % json.dumps(rep)[:3000]
            path = core.write_replay(ctx, body)
            print('VIOLATION property=%s replay=%s' % (ID, path))
            exit_code = 1
        elif broken:
            body = '# %s is no longer shown to hold; the search found no failing input (%d cases)\n' % (ID, len(pidx))
            if rep['proof_broken']:
                body += '# theorems that no longer check: %s\n# %s\n' % (', '.join(rep['proof_broken']), rep.get('proof_log', '').replace('\n', '\n# '))
            for tb in rep['tie_broken']: body += '# correspondence broken: %s\n' % tb
            for pb in rep['problems']: body += '# %s\n' % pb
            if mism and not replay:
                small = self.shrink_mismatch(R, sorted(mism, key=lambda x: len(x[0]))[0][0])
                body += '# smallest disagreement found (shrunk): impl: %s | model: %s\n%s\n' % (small[1][:300], small[2][:300], small[0])
            for l, c, m in mism[:50]: body += '%s\n' % l
            path = core.write_replay(ctx, body)
            print('VIOLATION property=%s replay=%s no-failing-input-found' % (ID, path))
            exit_code = 1
        # ---- evidence -----------------------------------------------------------------------------------
        n_dis = 0 if not ok_props else sum(1 for th in theorems if th in axioms and not (set(axioms[th]) - core.ALLOWED_AXIOMS))
        dist = self.distribution(R, inputs, lines, fam, c_out)
        dist['oracle_expectations'] = expect_kinds
        smp_idx = sorted(R.rng.sample(range(len(lines)), min(8, len(lines))))
        cov = dict(obligations=max(len(theorems), len(REQUIRED_THEOREMS)), discharged=n_dis,
                   checker_cmd='cd lean-parser && lake build %s  (then `#print axioms` on each theorem; thorough: leanchecker)' % MODULE,
                   trusted_base=TRUSTED,
                   theorems=[dict(name=th, axioms=axioms.get(th)) for th in theorems],
                   traces_validated_against_impl=len(lines), correspondence_mismatches=len(mism),
                   search_cases=len(pidx) + n_rw + n_add, search_violations=len(new),
                   known_findings_reproduced={k: dict(instances=h['n'], shortest_witness=h['witness'], what=h['what']) for k, h in hits.items()},
                   evaluations=len(lines) + len(pidx) + n_rw + n_add,
                   distinct_nontrivial=len(nontriv),
                   rule='inputs: all %d symbols, all ordered pairs, grammar-generated formulas (depth<=5, length<=120, integer and fractional subscripts) with a reordered and a group-expanded rewrite each, '
                        'every single-byte deletion/substitution/insertion (bytes 1..255) of the seed set (thorough: all seeds; quick: %s in full + a seeded sample of the others), each under LC_ALL=C.utf8 and under C, '
                        'every string over `HO()20.` up to length 5 (thorough 6) and over `HO()2` up to 6 (7), every string over `H()a2.` up to length 5 with a stray lower-case letter, '
                        '12 fixed subscripts at the edges of the range of double (309..400 digits, 300..400 zeros after the point), '
                        'add_compound_data on random compositions, AtomicNumberToSymbol for Z in [-3,125], SymbolToAtomicNumber on symbols and variants. '
                        'non-trivial = distinct input strings for which the specification oracle expects a composition (a well-formed formula all of whose elements have weights)' % (len(R.syms), QUICK_FULL_SEEDS),
                   samples=[dict(line=lines[i], impl=c_out[i][:300], model=m_out[i][:300]) for i in smp_idx],
                   max_rel_dev_model_vs_impl=stats.get('max_rel_dev', 0.0), max_rel_dev_oracle_vs_impl=sstats.get('max_rel_dev', 0.0),
                   distribution=dist, c_coverage_xraylib_parser_c=cov_c, tables_sha=R.tables_sha, model_variant=dict(localeFix=variant[0] == '1', weightFix=variant[1] == '1', leakFix=variant[2] == '1', strictFix=variant[3] == '1', rangeFix=variant[4] == '1'),
                   strtod_observer=dict(parse_lines_observed=conv_lines, strtod_calls_seen=conv_calls, calls_outside_C_locale=sum(1 for v in viol if 'converted a subscript' in v[2])), mutation_seeds=getattr(R, 'mut_seeds', []),
                   provenance=dict(parser_c=_sha(os.path.join(REPO, 'src', 'xraylib-parser.c')), repo=REPO),
                   broken=rep)
        core.write_evidence(ctx, 'proof', cov, len(new) + (1 if broken and not new else 0), ASSUMPTIONS)
        log('%s %s: exit %d (%.1fs; theorems %d/%d; corr %d lines, %d mismatches; search %d, %d violations, known %s)' % (
            ID, R.tier, exit_code, time.time() - ctx.t0, n_dis, len(theorems), len(lines), len(mism), len(pidx) + n_rw + n_add, len(new),
            {k[:24]: h['n'] for k, h in hits.items()}))
        return exit_code

    def clean_expectations(self, R, plines, couts, souts):
        """for the lines the library accepts although the oracle says `not-a-formula`: the oracle's verdict on clean(string)"""
        todo = {}
        for l, c, e in zip(plines, couts, souts):
            if needs_clean(c, e):
                try: t = G.unesc(l.split(' ')[2]).decode('ascii')
                except UnicodeDecodeError: continue
                k = clean(t)
                if k and k != t: todo[l] = k
        if not todo: return {}
        ks = sorted(set(todo.values()))
        ans = dict(zip(ks, R.run_model(['spec ' + G.esc(k.encode()) for k in ks])))
        return {l: ans[k] for l, k in todo.items()}

    # ---- shrink a violating parse line -------------------------------------------------------------
    def shrink(self, R, v):
        line, site, what = v[0], v[1], v[2]
        if not line.startswith('parse '): return v
        locname = line.split(' ')[1]
        cur = G.unesc(line.split(' ')[2]); best = v
        known = {k for k, _ in load_known()}
        def bad(cands):
            ls = ['parse %s %s' % (locname, G.esc(b)) for b in cands]
            co = R.run_c(ls); so = R.run_model(['spec ' + G.esc(b) for b in cands])
            ec = self.clean_expectations(R, ls, co, so)
            res = []
            for l, c, e in zip(ls, co, so):
                js = [j for j in judge(l, c, e, None, ec.get(l)) if not (j[0] in known)]
                res.append((l, js[0][0], js[0][1], c, e) if js else None)
            return res
        for _ in range(40):
            cands = [cur[:i] + cur[j:] for i in range(len(cur)) for j in range(i + 1, min(len(cur), i + 12) + 1)]
            cands = [c for c in dict.fromkeys(cands) if c]
            if not cands: break
            res = bad(cands)
            hit = [r for r in res if r]
            if not hit: break
            best = min(hit, key=lambda r: len(r[0])); cur = G.unesc(best[0].split(' ')[2])
        return best

    def shrink_mismatch(self, R, line):
        """greedy substring deletion on a parse line while model and library still disagree"""
        c0 = R.run_c([line])[0]; m0 = R.run_model([line])[0]
        best = (line, c0, m0)
        if not line.startswith('parse '): return best
        locname = line.split(' ')[1]; cur = G.unesc(line.split(' ')[2])
        for _ in range(40):
            cands = [cur[:i] + cur[j:] for i in range(len(cur)) for j in range(i + 1, min(len(cur), i + 12) + 1)]
            cands = [c for c in dict.fromkeys(cands) if c]
            if not cands: break
            ls = ['parse %s %s' % (locname, G.esc(b)) for b in cands]
            co = R.run_c(ls); mo = R.run_model(ls)
            hit = [(l, c, m) for l, c, m in zip(ls, co, mo) if not agree(l, c, m, {})]
            if not hit: break
            best = min(hit, key=lambda r: len(r[0])); cur = G.unesc(best[0].split(' ')[2])
        return best

    def distribution(self, R, inputs, lines, fam, c_out):
        d = dict(families={}, lengths={}, depth={}, items={}, error_messages={}, outcomes={})
        for f in fam: d['families'][f] = d['families'].get(f, 0) + 1
        for l, c in zip(lines, c_out):
            if not l.startswith('parse '): continue
            n = len(G.unesc(l.split(' ')[2]))
            b = '%d-%d' % (n // 10 * 10, n // 10 * 10 + 9); d['lengths'][b] = d['lengths'].get(b, 0) + 1
            pc = parse_answer(c, cnum)
            d['outcomes'][pc['kind']] = d['outcomes'].get(pc['kind'], 0) + 1
            if pc['kind'] == 'err':
                msg = G.unesc(pc['msg']).decode('latin1')
                msg = re.sub(r'(unknown symbol|Invalid character|subscript) .* (detected|to a real number)', r'\1 <..> \2', msg)
                d['error_messages'][msg] = d['error_messages'].get(msg, 0) + 1
        for f, b, meta in inputs:
            if meta is not None:
                k = str(G.depth(meta)); d['depth'][k] = d['depth'].get(k, 0) + 1
                n = G.n_items(meta); k = '%d-%d' % (n // 5 * 5, n // 5 * 5 + 4); d['items'][k] = d['items'].get(k, 0) + 1
        return d

def check_add(line, c):
    """independent evaluation of add_compound_data (property text): ascending union, fractions wA*fA + wB*fB"""
    t = line.split(' ')
    wA, wB = Fraction(t[1]), Fraction(t[2])
    def rd(s):
        a, m, its = s.split(';')
        tr = [x.split(':') for x in its.split(',')] if its else []
        return [int(x[0]) for x in tr], [Fraction(x[2]) for x in tr]
    (ea, fa), (eb, fb) = rd(t[3]), rd(t[4])
    if any(x >= y for x, y in zip(ea, ea[1:])) or any(x >= y for x, y in zip(eb, eb[1:])): return None   # not compositions: no claim
    pc = parse_answer(c, cnum)
    if pc['kind'] != 'ok': return 'no result'
    els = sorted(set(ea) | set(eb))
    if pc['els'] != els: return 'elements %s, expected the ascending union %s' % (pc['els'], els)
    for z, f in zip(pc['els'], pc['fr']):
        ex = wA * (fa[ea.index(z)] if z in ea else 0) + wB * (fb[eb.index(z)] if z in eb else 0)
        if not num_close(f, ex, 1e-12): return 'fraction of Z=%d is %r, expected %r' % (z, f, float(ex))
    if pc['live'] != (4, 0): return 'allocation count %s' % (pc['live'],)
    return None

def _errs(txt, n=6):
    errs = re.findall(r'error: [^\n]*(?:\n(?!error:|info:|trace:|✖|✔)[^\n]*){0,6}', txt)
    return '\n'.join(errs[:n])[:4000]

def _sha(p):
    try: return hashlib.sha256(open(p, 'rb').read()).hexdigest()[:16]
    except OSError: return None

TRUSTED = [
    'Lean 4.33 kernel (lake build; thorough tier: leanchecker re-check of XrlParser.Props.C07)',
    'axioms allowed in property theorems: propext, Classical.choice, Quot.sound (audited by #print axioms on every run)',
    'hand model lean-parser/XrlParser/Hand/Parser.lean of src/xraylib-parser.c: trusted as far as the correspondence run exercises it (every run: all symbols, all ordered pairs, generated formulas and their rewrites, byte-level mutations; result fields, error text, live heap blocks, LC_NUMERIC before/after)',
    'libc by contract: bsearch/qsort (sorted array, distinct keys; precondition for MendelArraySorted executed on every run, for the atom array proved), strtod on [0-9.]* in the C locale as the exact decimal, isupper/islower/isdigit on bytes in the C locale, setlocale per POSIX (returns the locale set)',
    'IEEE-754 rounding of the C arithmetic is not modelled (theorems are over exact rationals); absorbed by the 1e-13 relative tolerance of the comparison.  The range of double is modelled at the conversion of a subscript only (lean-parser/XrlParser/Core/Double.lean: strtod gives +inf from 2^1024 - 2^970 on and 0.0 up to 2^-1075; correct rounding of glibc strtod trusted, exercised by fixed inputs on both sides of the upper edge)',
    'Mathlib (module-wise, proofs only)',
    'allocation counter (-Wl,--wrap) and ASan/UBSan: observers of the correspondence run only',
]
ASSUMPTIONS = [
    'element table and atomic weights are parameters of every theorem; the run instantiates them with MendelArray/MendelArraySorted/AtomicWeight_arr read from the library built from the working tree',
    'the harness sets the whole process locale (LC_ALL, then LC_NUMERIC) to the locale named on the line before each call; only `C` and `C.utf8` are installed, both classify bytes as the C locale does (isupper/islower/isdigit on ASCII) and both use `.` as radix character: that the parser switches LC_NUMERIC to "C" BEFORE its strtod calls is observed directly (a --wrap=strtod observer records the locale in force at each call), not through a wrong conversion',
    'a subscript a double cannot hold (>= 2^1024 - 2^970, or positive and <= 2^-1075) must be rejected: the counts of the result are doubles.  Subnormal subscripts (< 2^-1022) and overflow/underflow of the arithmetic on the counts (products of group multipliers, sums) are outside the model; they cannot occur within the quantifier of the property (length <= 120)',
]

CHECK = C07()
