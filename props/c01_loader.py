#!/usr/bin/env python3
"""C01, loader half: "the value recorded for that element and named quantity in the shipped data file".

The Lean project lean-loader/ holds a hand-written, executable model of XRayInitFromPath (src/xrayfiles.c), the
`%.10E` printer of src/pr_data.c as a function on exact decimals, and the theorems LoaderProps/C01L.lean
(`load_spec`, `load_unknown_name`, `load_bad_Z`, `names_distinct`, `names_match_macros`, …).  This module

  * regenerates LoaderGen/Names.lean from src/xrayvars.c + the public headers of the tree under verification
    (tools/loader_extract.py), rebuilds theorems and driver, audits sources and axioms;
  * TIE: runs the model (`loader-model load`) on the REAL data directory and compares EVERY cell
      - with the raw tables of the real loaders (harness/prdrv.c `--dump`, doubles as bit patterns):
        correctly-rounded(model's exact decimal) [then `/1000.0` where the C divides] == the C double, exactly;
      - with the tables compiled into the library (what `%.10E` + the C compiler left):
        correctly-rounded(print11(model decimal)) == compiled double, exactly (exact decimal ties, which only the
        binary value can resolve, are flagged by the model and must be one of the two neighbours);
  * thorough tier (a few also in quick): generated data directories (permuted, duplicated, truncated, renamed records,
    Z out of range, unknown / over-long names, glued and malformed tokens, short blocks, too many blocks) loaded by
    the real loaders (ASan+UBSan prdrv pointed at the directory) — the model must predict the tables or the failure.

`loader_tie(ctx, rep)` is the hook for props/c01.py; `python3 props/c01_loader.py [--tier quick|thorough]` runs it alone.
When something breaks the message names a concrete (file, record, cell)."""
import os, sys, re, json, time, subprocess, struct, array, fcntl, random, shutil, math

sys.path.insert(0, os.path.dirname(os.path.dirname(os.path.abspath(__file__))))
from vlib import core, cbuild
from vlib.cbuild import REPO, VERIF

LDIR = os.path.join(VERIF, 'lean-loader')
EXE = os.path.join(LDIR, '.lake', 'build', 'bin', 'loader-model')
PROPS = os.path.join(LDIR, 'LoaderProps', 'C01L.lean')
PROP_MODULES = ['LoaderProps.C01L']
NAMESPACE = 'Loader.C01L'
# named record files: file -> (table(s), fields per record, scale exponent, name table, family of the accessor macro)
NAMED = {
    'atomicweight.dat': (['AtomicWeight_arr'], 2), 'densities.dat': (['ElementDensity_arr'], 2),
    'edges.dat': (['EdgeEnergy_arr'], 3), 'fluor_lines.dat': (['LineEnergy_arr'], 3),
    'atomiclevelswidth.dat': (['AtomicLevelWidth_arr'], 3), 'fluor_yield.dat': (['FluorYield_arr'], 3),
    'jump.dat': (['JumpFactor_arr'], 3), 'coskron.dat': (['CosKron_arr'], 3), 'radrate.dat': (['RadRate_arr'], 3),
    'auger_rates.dat': (['Auger_Transition_Total', 'Auger_Transition_Individual'], 3),
}
TABLE_FILE = {t: f for f, (ts, _) in NAMED.items() for t in ts}
TABLE_NAMES = {'EdgeEnergy_arr': 'ShellName', 'AtomicLevelWidth_arr': 'ShellName', 'FluorYield_arr': 'ShellName', 'JumpFactor_arr': 'ShellName',
               'LineEnergy_arr': 'LineName', 'RadRate_arr': 'LineName', 'CosKron_arr': 'TransName',
               'Auger_Transition_Total': 'AugerNameTotal', 'Auger_Transition_Individual': 'AugerName'}
# the spline sites: public function, count table, abscissa / ordinate / second-derivative vectors, argument from abscissa,
# an argument inside every table of the family (used when only the count differs), columns per element (sub-shell sites)
def _hx(x): return 'x%016x' % struct.unpack('<Q', struct.pack('<d', float(x)))[0]
_E = lambda x: math.exp(min(x, 700.0)) / 1000.0
_X = lambda x: math.exp(min(x, 700.0))
_I = lambda x: x
_P = lambda x: math.exp(min(x, 700.0)) - 1.0
SITES = [('CS_Photo', 'NE_Photo', 'E_Photo_arr', 'CS_Photo_arr', 'CS_Photo_arr2', _E, 10.0, 1),
         ('CS_Rayl', 'NE_Rayl', 'E_Rayl_arr', 'CS_Rayl_arr', 'CS_Rayl_arr2', _E, 10.0, 1),
         ('CS_Compt', 'NE_Compt', 'E_Compt_arr', 'CS_Compt_arr', 'CS_Compt_arr2', _E, 10.0, 1),
         ('CS_Energy', 'NE_Energy', 'E_Energy_arr', 'CS_Energy_arr', 'CS_Energy_arr2', _X, 10.0, 1),
         ('Fi', 'NE_Fi', 'E_Fi_arr', 'Fi_arr', 'Fi_arr2', _I, 10.0, 1), ('Fii', 'NE_Fii', 'E_Fii_arr', 'Fii_arr', 'Fii_arr2', _I, 10.0, 1),
         ('FF_Rayl', 'Nq_Rayl', 'q_Rayl_arr', 'FF_Rayl_arr', 'FF_Rayl_arr2', _I, 1.0, 1),
         ('SF_Compt', 'Nq_Compt', 'q_Compt_arr', 'SF_Compt_arr', 'SF_Compt_arr2', _I, 1.0, 1),
         ('ComptonProfile', 'Npz_ComptonProfiles', 'pz_ComptonProfiles', 'Total_ComptonProfiles', 'Total_ComptonProfiles2', _P, 1.0, 1),
         ('ComptonProfile_Partial', None, 'pz_ComptonProfiles', 'Partial_ComptonProfiles', 'Partial_ComptonProfiles2', _P, 1.0, 29),
         ('CSb_Photo_Partial', 'NE_Photo_Partial_Kissel', 'E_Photo_Partial_Kissel', 'Photo_Partial_Kissel', 'Photo_Partial_Kissel2', _X, 30.0, 31)]
SITE_OF = {}
for _s in SITES:
    for _t, _role in ((_s[1], 'n'), (_s[2], 'x'), (_s[3], 'y'), (_s[4], 'y2')):
        if _t and _t not in SITE_OF: SITE_OF[_t] = (_s, _role)


def reader_call(name, j, k, tabs, names=None):
    """a call of the PUBLIC API that reads cell `k` of vector / row `j` of table `name` (None: no entry point reads that table —
    EdgeEnergy_Kissel and the total Kissel vectors are loaded but never used).  This is what turns a loader-tie failure
    into a failing input of the real library (C01's replay)."""
    def absc(xtab, jx, kk):
        t = tabs.get(xtab)
        if not t or t[0] != 'V' or jx >= len(t[2]) or not t[2][jx] or not (0 <= kk < len(t[2][jx])): return None
        c = t[2][jx][kk]
        try: return float(c[:c.index(' ')])
        except ValueError: return None
    if name in ACCESSOR:
        ncols = tabs[name][2] if name in tabs and tabs[name][0] == 'F' else 1
        Z, col = (j, k) if k is not None else (j // ncols, j % ncols)
        mac = '' if name in ('AtomicWeight_arr', 'ElementDensity_arr') else ' %d' % (-(col + 1) if name in ('LineEnergy_arr', 'RadRate_arr') else col)
        return '%s %d%s E' % (ACCESSOR[name], Z, mac)
    if name == 'Electron_Config_Kissel': return 'ElectronConfig %d %d E' % (j, k)
    if name == 'Auger_Transition_Individual': return 'AugerRate %d %d E' % (j, k)
    if name == 'Auger_Transition_Total':
        if names:
            try:
                pre = names['tables']['AugerNameTotal'][k].split('-')[0] + '-'
                return 'AugerRate %d %d E' % (j, next(i for i, n in enumerate(names['tables']['AugerName']) if n.startswith(pre)))
            except (StopIteration, IndexError, KeyError): pass
        return 'AugerYield %d %d E' % (j, k)
    if name == 'UOCCUP_ComptonProfiles': return 'ElectronConfig_Biggs %d %d E' % (j, k if k is not None else 0)
    if name == 'NShells_ComptonProfiles': return 'ElectronConfig_Biggs %d 0 E' % j
    if name == 'NE_Photo_Total_Kissel': return 'CSb_Photo_Total %d %s E' % (j, _hx(30.0))
    if name in SITE_OF:
        (fn, ntab, xtab, ytab, y2tab, inv, dflt, K), role = SITE_OF[name]
        Z, sh = (j // K, j % K) if K > 1 else (j, None)
        jx = j if (K == 1 or xtab == 'E_Photo_Partial_Kissel') else Z
        arg = dflt
        if role != 'n' and k is not None:
            x = absc(xtab, jx, k)
            if x is not None:
                if role == 'y2':                        # a second derivative shows between the knots only
                    x2 = absc(xtab, jx, k + 1)
                    if x2 is None: x2 = absc(xtab, jx, k - 1)
                    if x2 is not None: x = 0.5 * (x + x2)
                try: arg = inv(x)
                except OverflowError: arg = dflt
        return '%s %d%s %s E' % (fn, Z, '' if sh is None else ' %d' % sh, _hx(arg))
    return None


ACCESSOR = {'EdgeEnergy_arr': 'EdgeEnergy', 'AtomicLevelWidth_arr': 'AtomicLevelWidth', 'FluorYield_arr': 'FluorYield', 'JumpFactor_arr': 'JumpFactor',
            'LineEnergy_arr': 'LineEnergy', 'RadRate_arr': 'RadRate', 'CosKron_arr': 'CosKronTransProb',
            'AtomicWeight_arr': 'AtomicWeight', 'ElementDensity_arr': 'ElementDensity'}


class Lock:
    def __enter__(self):
        self.f = open(os.path.join(LDIR, '.verif.lock'), 'w'); fcntl.flock(self.f, fcntl.LOCK_EX); return self
    def __exit__(self, *a):
        fcntl.flock(self.f, fcntl.LOCK_UN); self.f.close()


# ------------------------------------------------------------------------------------------------ dumps
class Dump:
    """harness dump (tools/gen.py emit_runtime): idx lines `name F|I|V ndims dims… start count`, bin = 64-bit words"""
    def __init__(self, binp, idxp):
        raw = open(binp, 'rb').read()
        self.d = array.array('d'); self.d.frombytes(raw)
        self.q = array.array('q'); self.q.frombytes(raw)
        self.idx = {}
        for l in open(idxp):
            t = l.split()
            nd = int(t[2]); dims = list(map(int, t[3:3 + nd]))
            self.idx[t[0]] = (t[1], dims, int(t[3 + nd]), int(t[4 + nd]))
    def flt(self, name):
        k, dims, st, n = self.idx[name]; return self.d[st:st + n], dims
    def ints(self, name):
        k, dims, st, n = self.idx[name]; return self.q[st:st + n], dims
    def vecs(self, name):
        k, dims, st, n = self.idx[name]
        out = []; p = st
        while p < st + n:
            ln = self.q[p]; out.append(self.d[p + 1:p + 1 + ln]); p += 1 + ln
        return out, dims


class InlineTables:
    """the fixed-size double tables of a generated xrayglob_inline.c (what `%.10E` printed), same interface as Dump"""
    def __init__(self, path, wanted):
        txt = open(path).read()
        self.idx = {}; self._v = {}
        for name in wanted:
            m = re.search(r'double %s\[[^=]*=\s*\{' % re.escape(name), txt)
            if not m: continue
            e = txt.index('};', m.end())
            vals = array.array('d', map(float, re.findall(r'[-+]?\d\.\d+E[-+]\d+|[-+]?(?:inf|nan)', txt[m.end():e], re.I)))
            self.idx[name] = ('F', [len(vals)], 0, len(vals)); self._v[name] = vals
    def flt(self, name): return self._v[name], self.idx[name][1]


def parse_model(path):
    """-> ('OK', {name: ('F', scale, ncols, cells) | ('I', ncols, ints) | ('V', ncols, [None | cells])}) or ('FAIL', kind, why);
    a cell is the text triple (exact, print11, tie)"""
    with open(path) as f:
        lines = f.read().split('\n')
    if lines[0].startswith('FAIL'):
        t = lines[0].split(' ', 2)
        return ('FAIL', t[1], t[2] if len(t) > 2 else '')
    if lines[0] != 'OK':
        raise core.BuildError('loader-model: unexpected output: ' + lines[0][:200])
    tabs = {}; i = 1; n = len(lines)
    while i < n and lines[i]:
        h = lines[i].split(' '); i += 1
        if h[0] == 'F':
            cnt = int(h[3]); tabs[h[1]] = ('F', int(h[2]), int(h[4]), lines[i:i + cnt]); i += cnt
        elif h[0] == 'I':
            cnt = int(h[3]); tabs[h[1]] = ('I', int(h[2]), list(map(int, lines[i:i + cnt]))); i += cnt
        elif h[0] == 'V':
            cnt = int(h[3]); vs = []
            for _ in range(cnt):
                if lines[i] == 'N': vs.append(None); i += 1
                else:
                    ln = int(lines[i][2:]); vs.append(lines[i + 1:i + 1 + ln]); i += 1 + ln
            tabs[h[1]] = ('V', int(h[2]), vs)
        else:
            raise core.BuildError('loader-model: bad table header ' + lines[i - 1][:100])
    return ('OK', tabs)


def raw_of(exact, scale):
    """the double the C holds: strtod(token) and, where the C divides (`E /= 1000.0`), that IEEE quotient"""
    if scale == 0: return float(exact)
    m, e = exact.split('e')
    return float('%se%d' % (m, int(e) - scale)) / float(10 ** (-scale))


def run_model(root, out):
    p = subprocess.run([EXE, 'load', root, out], capture_output=True, text=True)
    if p.returncode != 0:
        raise core.BuildError('loader-model failed: ' + (p.stdout + p.stderr)[-1500:])
    return parse_model(out)


def model_records(path, k):
    p = subprocess.run([EXE, 'records', path, str(k)], capture_output=True, text=True)
    recs = []; tail = ''
    for l in p.stdout.splitlines():
        if l.startswith('R '):
            t = l.split(' ')
            recs.append((int(t[1]), t[2] if len(t) == 4 else '', t[-1]))
        elif l.startswith('T '): tail = l[2:]
    return recs, tail


def find_record(root, table, Z, col, names):
    """the (file, record) that feeds cell [Z][col] of a named table: the last record with that Z and that name"""
    fn = TABLE_FILE.get(table)
    if not fn: return ''
    nm = names['tables'][TABLE_NAMES[table]][col] if table in TABLE_NAMES else ''
    recs, _ = model_records(os.path.join(root, 'data', fn), NAMED[fn][1])
    hit = [r for r in recs if r[0] == Z and r[1] == nm]
    if hit: return ' [data/%s: last record "%d %s %s" of %d with that key]' % (fn, Z, nm, hit[-1][2], len(hit))
    return ' [data/%s: no record (%d, %r)]' % (fn, Z, nm)


# ------------------------------------------------------------------------------------------------ comparison
def compare(tabs, raw, comp, names, root, cov, what, replay=None, tag=''):
    """every cell of the model vs the raw dump of the real loaders and (comp is not None) the compiled tables"""
    bad = []
    def note(msg):
        if len(bad) < 6: bad.append(msg() if callable(msg) else msg)
        else: bad.append(None)
    n_raw = n_comp = n_ties = n_nonzero = 0
    def call(name, j, k=None):
        """the public call that reads this cell (C01's replay line; `tag` marks the data configuration it has to run on)"""
        if replay is None or len(replay) >= 24: return
        l = reader_call(name, j, k, tabs, names)
        if l is None: l = '# cell %s[%d]%s: no entry point of the library reads this table' % (name, j, '' if k is None else '[%d]' % k)
        else: l = l + tag
        if l not in replay: replay.append(l)
    for name, t in sorted(tabs.items(), key=lambda kv: 'FIV'.index(kv[1][0])):      # record tables first
        if t[0] == 'F':
            _, scale, ncols, cells = t
            if name in raw.idx:
                rv, dims = raw.flt(name)
                if len(rv) != len(cells): note('%s: %d cells in the real loader, %d in the model' % (name, len(rv), len(cells))); continue
            else: rv = None
            cv = comp.flt(name)[0] if comp is not None and name in comp.idx else None
            memo = {}
            for k, c in enumerate(cells):
                m_ = memo.get(c)
                if m_ is None:
                    ex, p11, tie = c.split(' ')
                    m_ = memo[c] = (ex, p11, tie, raw_of(ex, scale))
                ex, p11, tie, want = m_
                if rv is not None:
                    n_raw += 1
                    if want != rv[k]:
                        call(name, k // ncols, k % ncols)
                        note(lambda: '%s[%d][%d]: real loader holds %r, model %s -> %r%s' % (name, k // ncols, k % ncols, rv[k], ex, want, find_record(root, name, k // ncols, k % ncols, names)))
                    elif not (ex.startswith('0e') or ex.startswith('-9999e')): n_nonzero += 1
                if cv is not None and rv is not None:
                    n_comp += 1
                    got = cv[k]
                    if tie == '1':
                        n_ties += 1
                        cov[what + '_decimal_ties_in_record_tables'] = cov.get(what + '_decimal_ties_in_record_tables', 0) + 1
                        if got != float('%.10E' % rv[k]) or abs(got - float(p11)) > abs(float(p11)) * 2e-10:
                            call(name, k // ncols, k % ncols)
                            note('%s[%d][%d]: decimal tie, compiled %r is not the 11-digit neighbour of %s' % (name, k // ncols, k % ncols, got, ex))
                    elif float(p11) != got:
                        call(name, k // ncols, k % ncols)
                        note(lambda: '%s[%d][%d]: compiled table holds %r, model print11(%s) = %s (printf of the raw double: %s)%s' % (
                            name, k // ncols, k % ncols, got, ex, p11, '%.10E' % rv[k], find_record(root, name, k // ncols, k % ncols, names)))
        elif t[0] == 'I':
            _, ncols, vals = t
            for src, lab in ((raw, 'real loader'), (comp, 'compiled table')):
                if src is None or name not in src.idx: continue
                iv, _ = src.ints(name)
                if list(iv) != vals:
                    k = next((j for j in range(min(len(iv), len(vals))) if iv[j] != vals[j]), -1)
                    if k >= 0: call(name, k, None)
                    note('%s: %s and model differ (first at flat index %d: %s vs %s) [count line of element %d in its data file]' % (
                        name, lab, k, iv[k] if k >= 0 else len(iv), vals[k] if k >= 0 else len(vals), k // ncols if k >= 0 else -1))
                n_raw += len(vals)
        else:
            _, ncols, vs = t
            if name in raw.idx:
                rvs, _ = raw.vecs(name)
                if len(rvs) != len(vs): note('%s: %d vectors vs %d in the model' % (name, len(rvs), len(vs))); continue
            else: rvs = None
            cvs = comp.vecs(name)[0] if comp is not None and name in comp.idx else None
            for j, v in enumerate(vs):
                if rvs is not None:
                    r = rvs[j]
                    if not v:
                        if v is None and len(r) != 0: call(name, j, 0); note('%s[%d]: model says NULL, real loader has %d values' % (name, j, len(r)))
                    elif len(r) != len(v): call(name, j, min(len(r), len(v)) - 1 if min(len(r), len(v)) else 0); note('%s[%d]: %d values in the real loader, %d in the model' % (name, j, len(r), len(v)))
                    else:
                        for k, c in enumerate(v):
                            ex = c[:c.index(' ')]
                            n_raw += 1
                            if float(ex) != r[k]:
                                call(name, j, k)
                                note('%s[%d][%d]: real loader holds %r, model %s (row %d of element/block %d)' % (name, j, k, r[k], ex, k, j))
                                break
                if cvs is not None:
                    g = cvs[j]
                    if not v:
                        if len(g) > 1 or (len(g) == 1 and g[0] != 0.0): call(name, j, 0); note('%s[%d]: model has no data, compiled vector has %d values' % (name, j, len(g)))
                    elif len(g) != len(v): call(name, j, min(len(g), len(v)) - 1 if min(len(g), len(v)) else 0); note('%s[%d]: %d compiled values, %d in the model' % (name, j, len(g), len(v)))
                    else:
                        for k, c in enumerate(v):
                            ex, p11, tie = c.split(' ')
                            n_comp += 1
                            if tie == '1':
                                n_ties += 1
                                if abs(g[k] - float(p11)) > abs(float(p11)) * 2e-10 or (rvs is not None and g[k] != float('%.10E' % rvs[j][k])):
                                    call(name, j, k)
                                    note('%s[%d][%d]: decimal tie, compiled %r is not an 11-digit neighbour of %s' % (name, j, k, g[k], ex)); break
                            elif float(p11) != g[k]:
                                call(name, j, k)
                                note('%s[%d][%d]: compiled vector holds %r, model print11(%s) = %s' % (name, j, k, g[k], ex, p11)); break
    for name, (kind, dims, st, n) in raw.idx.items():
        if name not in tabs and name not in ('Auger_Rates', 'Auger_Yields', 'xrf_cross_sections_constants_full', 'xrf_cross_sections_constants_auger_only'):
            note('table %s of the real loader is not produced by the model' % name)
    cov[what + '_cells_vs_real_loader'] = cov.get(what + '_cells_vs_real_loader', 0) + n_raw
    cov[what + '_cells_vs_compiled_tables'] = cov.get(what + '_cells_vs_compiled_tables', 0) + n_comp
    cov[what + '_decimal_ties'] = cov.get(what + '_decimal_ties', 0) + n_ties
    cov[what + '_loaded_cells_nontrivial'] = cov.get(what + '_loaded_cells_nontrivial', 0) + n_nonzero
    more = sum(1 for b in bad if b is None)
    return [b for b in bad if b] + (['… and %d more' % more] if more else [])


# ------------------------------------------------------------------------------------------------ Lean side
def extract_names(ctx):
    out = os.path.join(LDIR, 'LoaderGen', 'Names.lean')
    jpath = ctx.sc.path('loader_names.json')
    p = subprocess.run([sys.executable, os.path.join(VERIF, 'tools', 'loader_extract.py'), ctx.sc.path('b'), out, jpath],
                       capture_output=True, text=True, env=dict(os.environ, VERIF_REPO=REPO))
    if p.returncode != 0:
        return None, (p.stderr or p.stdout)[-800:]
    return json.load(open(jpath)), None


def theorem_names():
    return core.theorems_of(PROPS, NAMESPACE)


def lean_sources():
    out = []
    for sub in ('Loader', 'LoaderProps', 'LoaderGen'):
        for root, _, files in os.walk(os.path.join(LDIR, sub)):
            out += [os.path.join(root, f) for f in files if f.endswith('.lean')]
    return sorted(out + [os.path.join(LDIR, f) for f in ('LoaderDriver.lean', 'Loader.lean', 'LoaderGen.lean', 'LoaderProps.lean')])


def lean_side(ctx, rep):
    """regenerate names, build, audit; returns (names json | None, exe_ok)"""
    t = time.time()
    with Lock():
        names, err = extract_names(ctx)
        if err:
            rep['tie_broken'].append('loader_extract: ' + err)
            return None, os.path.exists(EXE)
        p = subprocess.run(['lake', 'build', 'loader-model'], cwd=LDIR, capture_output=True, text=True)
        exe_ok = p.returncode == 0
        if not exe_ok:
            rep['tie_broken'].append('loader model does not build: ' + (p.stdout + p.stderr)[-1200:])
        p = subprocess.run(['lake', 'build'] + PROP_MODULES, cwd=LDIR, capture_output=True, text=True)
        log = p.stdout + p.stderr
        ths = theorem_names()
        ctx.coverage['loader_theorems'] = len(ths)
        if p.returncode != 0:
            failing = []
            for m in re.finditer(r'error: (LoaderProps/\w+\.lean):(\d+)', log):
                src = open(os.path.join(LDIR, m.group(1))).read().splitlines()
                for i in range(min(int(m.group(2)), len(src)) - 1, -1, -1):
                    mm = re.match(r'\s*theorem\s+([\w\.\']+)', src[i])
                    if mm:
                        if mm.group(1) not in failing: failing.append(mm.group(1))
                        break
            # a kernel-decided fact of LoaderProps/NamesDecided.lean that fails takes these property theorems with it
            dep = {'line_match': ['names_match_macros_line', 'every_line_has_macro'], 'shell_match': ['names_match_macros_shell', 'every_shell_has_macro'],
                   'shell_rest': ['names_match_macros_shell'], 'trans_match': ['names_match_macros_trans'],
                   'auger_match': ['names_match_macros_auger', 'every_auger_has_macro'], 'aliases_resolve': ['aliases_resolve'],
                   'lengths': ['lengths'], 'widths': ['lengths']}
            mapped = []
            for f in failing:
                for g in dep.get(f, ['names_distinct'] if f.endswith('_distinct') or f.endswith('_valid') else [f]):
                    if g not in mapped: mapped.append(g)
            rep['proof_broken'] += ['%s.%s' % (NAMESPACE, f) for f in mapped] or ['(LoaderProps.C01L does not build)']
            rep['proof_log'] = rep.get('proof_log', '') + '\n'.join(re.findall(r'error: [^\n]*', log)[:8])
            ctx.coverage['loader_theorems_discharged'] = 0
        else:
            src = ''.join('import %s\n' % m for m in PROP_MODULES) + ''.join('#print axioms %s\n' % n for n in ths)
            ap = ctx.sc.path('LoaderAudit.lean'); open(ap, 'w').write(src)
            q = subprocess.run(['lake', 'env', 'lean', ap], cwd=LDIR, capture_output=True, text=True)
            txt = q.stdout + q.stderr; ok = 0; axs = {}
            for m in re.finditer(r"^'(.+?)' depends on axioms: \[([^\]]*)\]|^'(.+?)' does not depend on any axioms", txt, re.M):
                if m.group(1): axs[m.group(1)] = [a.strip() for a in m.group(2).replace('\n', ' ').split(',') if a.strip()]
                else: axs[m.group(3)] = []
            for th in ths:
                if th not in axs: rep['problems'].append('axiom audit: no report for %s' % th)
                elif set(axs[th]) - core.ALLOWED_AXIOMS: rep['problems'].append('axiom audit: %s depends on %s' % (th, sorted(set(axs[th]) - core.ALLOWED_AXIOMS)))
                else: ok += 1
            ctx.coverage['loader_theorems_discharged'] = ok
            ctx.coverage['loader_axioms'] = sorted({a for v in axs.values() for a in v})
    badsrc = core.audit_sources(lean_sources())
    if badsrc: rep['problems'].append('forbidden construct in lean-loader: ' + '; '.join(badsrc[:5]))
    ctx.timings['loader_lean'] = round(time.time() - t, 2)
    return names, exe_ok


def names_vs_macros_search(names, root):
    """when `names_match_macros` no longer holds: a concrete record of a data file that lands in a slot other than the
    one its header macro designates (or nowhere), and the accessor call that shows it"""
    out = []
    fams = [('line', 'LineName', '_LINE', lambda v: -v - 1, lambda s: s, [('fluor_lines.dat', 'LineEnergy'), ('radrate.dat', 'RadRate')]),
            ('shell', 'ShellName', '_SHELL', lambda v: v, lambda s: s, [('edges.dat', 'EdgeEnergy'), ('fluor_yield.dat', 'FluorYield'), ('jump.dat', 'JumpFactor'), ('atomiclevelswidth.dat', 'AtomicLevelWidth')]),
            ('trans', 'TransName', '_TRANS', lambda v: v, lambda s: 'F' + s[2:] if s.startswith('FL') else s, [('coskron.dat', 'CosKronTransProb')]),
            ('auger', 'AugerName', '_AUGER', lambda v: v, lambda s: s.replace('_', '-', 1), [('auger_rates.dat', 'AugerRate')])]
    for fam, tab, suf, slot, rule, files in fams:
        tbl = names['tables'][tab]
        for mac, v in names['macros'][fam]:
            want = rule(mac[:-len(suf)]); s = slot(v)
            if fam == 'shell' and s >= len(tbl): continue
            have = tbl[s] if 0 <= s < len(tbl) else None
            if have == want: continue
            for fn, acc in files:
                recs, _ = model_records(os.path.join(root, 'data', fn), 3)
                hit = [r for r in recs if r[1] == want]
                where = tbl.index(want) if want in tbl else None
                if hit:
                    Z, nm, val = hit[-1]
                    out.append('%s %d %d E   # data/%s record "%d %s %s": %s=%d designates slot %d of %s, which the loader fills from records named %r; '
                               'records named %r go to %s' % (acc, Z, v, fn, Z, nm, val, mac, v, s, tab, have, want, 'slot %d' % where if where is not None else 'no slot'))
                    break
            if len(out) >= 4: return out
    return out


# ------------------------------------------------------------------------------------------------ generated directories
BLOCKED = ['CS_Photo.dat', 'CS_Rayl.dat', 'CS_Compt.dat', 'FF.dat', 'SF.dat', 'fi.dat', 'fii.dat']


def fmt_val(rng):
    k = rng.randrange(10)
    if k == 0: return '%d' % rng.randrange(0, 100000)
    if k == 1: return '%.3f' % (rng.random() * 1000)
    if k == 2: return '%.14E' % (rng.random() * 10 ** rng.randrange(-6, 6))
    if k == 3: return '%d.%010d5' % (rng.randrange(1, 10), rng.randrange(10 ** 10))          # 12 digits ending in 5: an exact decimal tie for %.10E
    if k == 4: return '.%d' % rng.randrange(1, 1000)
    if k == 5: return '%d.' % rng.randrange(1, 1000)
    if k == 6: return '%.6e' % (rng.random() * 10 ** rng.randrange(-20, 20))
    if k == 7: return '%dE+%04d' % (rng.randrange(1, 99), rng.randrange(0, 5))
    if k == 8: return '0.%012d' % rng.randrange(10 ** 12)
    return '%.8f' % (rng.random() * 100)


def spline_file(rng, nblocks, short=None, header=None):
    out = [] if header is None else [str(header)]
    for b in range(nblocks):
        n = rng.choice([0, 1, 2, 3, 5])
        out.append(str(n))
        rows = n if short != b else max(n - 1, 0)
        for r in range(rows):
            out.append(' '.join(fmt_val(rng) for _ in range(3)))
        if short == b and n > 0: out.append(fmt_val(rng))     # an incomplete row
    return '\n'.join(out) + '\n'


def compton_file(rng, nblocks, nslots):
    out = []
    for b in range(nblocks):
        ns = rng.randrange(1, 5); npz = rng.randrange(1, 4)
        out.append('%d %d' % (ns, npz))
        occ = [rng.choice([0, 1, 2, 0.5]) for _ in range(ns)]
        out.append(' '.join('%g' % o for o in occ))
        for _ in range(3): out.append(' '.join(fmt_val(rng) for _ in range(npz)))
        for _ in range(2):
            for o in occ:
                if o > 0: out.append(' '.join(fmt_val(rng) for _ in range(npz)))
    return '\n'.join(out) + '\n'


def kissel_file(rng, nblocks, K):
    out = []
    for b in range(nblocks):
        n = rng.randrange(1, 4); out.append(str(n))
        for _ in range(n): out.append(' '.join(fmt_val(rng) for _ in range(3)))
        out.append(' '.join(str(rng.choice([0, 1, 2, 4])) for _ in range(K)))
        for s in range(K):
            m = rng.choice([0, 0, 1, 2]); out.append(str(m))
            if m:
                out.append(fmt_val(rng))
                for _ in range(m): out.append(' '.join(fmt_val(rng) for _ in range(3)))
    return '\n'.join(out) + '\n'


def gen_named(rng, fn, names, real_lines, mode):
    """a variant of one record file; `mode` picks the family of perturbation"""
    nf = NAMED[fn][1]
    tabs = {'edges.dat': 'ShellName', 'atomiclevelswidth.dat': 'ShellName', 'fluor_yield.dat': 'ShellName', 'jump.dat': 'ShellName',
            'fluor_lines.dat': 'LineName', 'radrate.dat': 'LineName', 'coskron.dat': 'TransName'}
    pool = names['tables'][tabs[fn]] if fn in tabs else (names['tables']['AugerName'] + names['tables']['AugerNameTotal'] if nf == 3 else None)
    lines = rng.sample(real_lines, min(len(real_lines), rng.randrange(5, 120)))
    def rec(Z=None, nm=None, v=None):
        Z = rng.randrange(0, 121) if Z is None else Z
        v = fmt_val(rng) if v is None else v
        sep = rng.choice([' ', '\t', '  ', '\n', ' \r\n '])
        if nf == 2: return '%s%s%s' % (Z, sep, v)
        nm = rng.choice(pool) if nm is None else nm
        return '%s%s%s%s%s' % (Z, sep, nm, rng.choice([' ', '\t', '   ']), v)
    extra = [rec() for _ in range(rng.randrange(0, 30))]
    body = lines + extra
    if mode == 'permute': rng.shuffle(body)
    elif mode == 'duplicate':
        body += [rec(Z=int(l.split()[0]), nm=(l.split()[1] if nf == 3 else None)) for l in rng.sample(lines, min(10, len(lines)))]
        rng.shuffle(body)
    elif mode == 'truncate':
        txt = '\n'.join(body) + '\n'
        return txt[:rng.randrange(1, len(txt))]
    elif mode == 'unknown':
        for _ in range(rng.randrange(1, 4)): body.insert(rng.randrange(len(body) + 1), rec(nm=rng.choice(['XX', 'K9', 'Q1', 'L1L9', 'F99', 'K-XXX', 'k', 'KL1x'])))
    elif mode == 'unknown_last':
        body.append(rec(nm=rng.choice(['XX', 'Q1', 'ZZ9'])))
    elif mode == 'longname':
        ln = rng.choice([5, 6, 7, 9, 10, 11, 24, 25, 26, 40])
        body.insert(rng.randrange(len(body) + 1), rec(nm='N' * ln))
    elif mode == 'badZ':
        body.insert(rng.randrange(len(body) + 1), rec(Z=rng.choice([121, 122, 200, -1, -5, 4294967297, 4294967296 + 130, 99999999999999999999, -99999999999999999999, '+7', '007', 120, 0])))
    elif mode == 'badZ_unknown':
        body.insert(rng.randrange(len(body) + 1), rec(Z=rng.choice([121, -1, 5000]), nm='XX'))
    elif mode == 'malformed':
        bad = rng.choice(['12K 3.5', '3 K 1.2.3 4 K 1', '3 K 1e 4 K 2', '3 K 1e+ 5', '3 K .', '3 K + 4 K 1', '3.5 K 1', 'x', '3 K 1d5', '- 3 K 1', '3 K 1,5', '3 K -.5e-2x', '3 K', '3'])
        if nf == 2: bad = bad.replace(' K', '')
        body.insert(rng.randrange(len(body) + 1), bad)
    elif mode == 'glued':
        body = [re.sub(r'^(\s*\d+)\s+', r'\1', l) if (nf == 3 and rng.random() < 0.3 and not re.match(r'\s*\d+\s+\d', l)) else l for l in body]
    elif mode == 'empty':
        return rng.choice(['', '\n', '   \n\t'])
    sep = rng.choice(['\n', '\n', '\r\n', ' '])
    return sep.join(body) + rng.choice(['\n', '', '\n\n'])


MODES = ['permute', 'duplicate', 'truncate', 'unknown', 'unknown_last', 'longname', 'badZ', 'badZ_unknown', 'malformed', 'glued', 'empty', 'plain']


def gen_dir(rng, root, names, real, spec):
    """a synthetic data directory: small blocked files, record files sampled from the real ones and perturbed as `spec` says"""
    d = os.path.join(root, 'data'); os.makedirs(d)
    os.symlink(os.path.join(REPO, 'data', 'Crystals.dat'), os.path.join(d, 'Crystals.dat'))
    zmax = names['dims']['ZMAX']
    for fn in NAMED:
        mode = spec.get(fn, 'plain')
        open(os.path.join(d, fn), 'w').write(gen_named(rng, fn, names, real[fn], mode))
    for fn in BLOCKED:
        mode = spec.get(fn, 'plain')
        nb = {'plain': rng.randrange(0, 6), 'full': zmax, 'over': zmax + 2, 'short': 4}.get(mode, 3)
        open(os.path.join(d, fn), 'w').write(spline_file(rng, nb, short=2 if mode == 'short' else None))
    mode = spec.get('CS_Energy.dat', 'plain')
    nb = rng.randrange(0, 5)
    hdr = {'plain': nb, 'more': nb + 2, 'less': max(nb - 1, 0), 'over': zmax + 1}.get(mode, nb)
    if mode == 'over': nb = zmax + 1
    open(os.path.join(d, 'CS_Energy.dat'), 'w').write(spline_file(rng, nb, header=hdr, short=1 if mode == 'short' and nb > 1 else None))
    open(os.path.join(d, 'comptonprofiles.dat'), 'w').write(compton_file(rng, rng.randrange(0, 4), names['dims']['SHELLNUM_C']))
    open(os.path.join(d, 'kissel_pe.dat'), 'w').write('' if spec.get('kissel_pe.dat') != 'synthetic' else kissel_file(rng, rng.randrange(1, 3), names['dims']['SHELLNUM_K']))
    if spec.get('missing'): os.remove(os.path.join(d, spec['missing']))


def real_outcome(prdrv, root, lens, outbase):
    """run the real loaders (ASan+UBSan) on `root`: -> ('OK', Dump) | ('exit1'|'ub'|'abort'|'other', stderr tail)"""
    env = dict(os.environ, ASAN_OPTIONS='detect_leaks=0:abort_on_error=0:halt_on_error=1:handle_abort=0:allocator_may_return_null=1', UBSAN_OPTIONS='print_stacktrace=0')
    p = subprocess.run([prdrv, root, '--dump', outbase + '.bin', outbase + '.idx', lens], capture_output=True, text=True, errors='replace', env=env)
    err = p.stderr
    if re.search(r'runtime error:|ERROR: AddressSanitizer|SUMMARY: \w*Sanitizer', err): return 'ub', err[-300:].replace('\n', ' | ')
    if p.returncode == 0: return 'OK', Dump(outbase + '.bin', outbase + '.idx')
    if p.returncode in (-6, 134) or 'Assertion' in err: return 'abort', err[-200:].replace('\n', ' ')
    if p.returncode == 1: return 'exit1', err[-200:].replace('\n', ' ')
    return 'other', 'exit %d: %s' % (p.returncode, err[-200:].replace('\n', ' '))


def lens_of(tabs, path):
    with open(path, 'w') as f:
        for name, t in tabs.items():
            if t[0] != 'V': continue
            for j, v in enumerate(t[2]):
                if v: f.write('%s %d %d\n' % (name, j, len(v)))


def generated_dirs(ctx, rep, names, n):
    t0 = time.time()
    rng = random.Random(ctx.seed * 7919 + 17)
    real = {fn: [l for l in open(os.path.join(REPO, 'data', fn)).read().split('\n') if l.strip()] for fn in NAMED}
    base = ctx.sc.path('gendirs'); os.makedirs(base, exist_ok=True)
    specs = []
    # one directory per (record file, mode) first, then blocked-file cases, then random mixtures
    for fn in NAMED:
        for mode in MODES[:-1]:
            if NAMED[fn][1] == 2 and mode in ('unknown', 'unknown_last', 'longname', 'badZ_unknown', 'glued'): continue
            specs.append({fn: mode})
    for fn in BLOCKED[:3]:
        for mode in ('short', 'full', 'over'): specs.append({fn: mode})
    for mode in ('more', 'less', 'over', 'short'): specs.append({'CS_Energy.dat': mode})
    specs.append({'kissel_pe.dat': 'synthetic'})
    specs.append({'missing': 'jump.dat'}); specs.append({'missing': 'CS_Energy.dat'})
    rng.shuffle(specs)
    # the branches that distinguish the loaders from one another come first, so that the quick tier always runs them
    first = [{'atomiclevelswidth.dat': 'unknown'}, {'atomiclevelswidth.dat': 'unknown_last'}, {'fluor_lines.dat': 'unknown'}, {'edges.dat': 'unknown'},
             {'auger_rates.dat': 'unknown'}, {'coskron.dat': 'longname'}, {'radrate.dat': 'longname'}, {'edges.dat': 'badZ'}, {'atomicweight.dat': 'badZ'},
             {'jump.dat': 'badZ_unknown'}, {'fluor_yield.dat': 'duplicate'}, {'radrate.dat': 'truncate'}, {'coskron.dat': 'malformed'},
             {'CS_Photo.dat': 'full'}, {'CS_Rayl.dat': 'short'}, {'CS_Energy.dat': 'more'}, {'kissel_pe.dat': 'synthetic'}]
    specs = first + [x for x in specs if x not in first]
    while len(specs) < n:
        specs.append({fn: rng.choice(MODES) for fn in rng.sample(sorted(NAMED), rng.randrange(1, 4))})
    specs = specs[:n]
    outcomes = {}; msgs = []; cov = {}
    from concurrent.futures import ThreadPoolExecutor
    def one(i):
        r = random.Random(ctx.seed * 1000003 + i)
        root = os.path.join(base, 'd%03d' % i)
        gen_dir(r, root, names, real, specs[i])
        m = run_model(root, root + '.model')
        if m[0] == 'OK': lens_of(m[1], root + '.lens')
        else: open(root + '.lens', 'w').write('')
        c = real_outcome(ctx.prdrv, root, root + '.lens', root + '.pd')
        inl = None
        if m[0] == 'OK' and c[0] == 'OK' and os.path.exists(ctx.sc.path('prdata')):
            q = subprocess.run([ctx.sc.path('prdata'), root, root + '.inline.c'], capture_output=True, text=True, errors='replace')
            if q.returncode == 0:
                inl = InlineTables(root + '.inline.c', [t for t in TABLE_FILE if not t.startswith('Auger_')])
                os.remove(root + '.inline.c')
            else: inl = 'prdata failed (exit %d) where prdrv and the model load: %s' % (q.returncode, q.stderr[-200:])
        return i, m, c, inl
    with ThreadPoolExecutor(max_workers=12) as ex:
        results = list(ex.map(one, range(len(specs))))
    for i, m, c, inl in results:
        root = os.path.join(base, 'd%03d' % i)
        mk = 'OK' if m[0] == 'OK' else m[1]
        outcomes[mk] = outcomes.get(mk, 0) + 1
        if mk == 'unsupported': continue
        if mk != c[0]:
            keep = ctx.sc.path('failing_dir_%d' % i)
            msgs.append('generated directory %d (%s): model predicts %s%s, real loaders: %s %s' % (
                i, json.dumps(specs[i]), mk, '' if m[0] == 'OK' else ' (' + m[2] + ')', c[0], c[1] if c[0] != 'OK' else ''))
            continue
        if mk == 'OK':
            if isinstance(inl, str): msgs.append('generated directory %d: %s' % (i, inl)); continue
            b = compare(m[1], c[1], inl, names, root, cov, 'generated')
            if b: msgs.append('generated directory %d (%s): %s' % (i, json.dumps(specs[i]), '; '.join(b[:3])))
    ctx.coverage['generated_dirs'] = len(specs)
    ctx.coverage['generated_dir_outcomes'] = outcomes
    ctx.coverage.update(cov)
    ctx.timings['loader_generated_dirs'] = round(time.time() - t0, 2)
    if msgs:
        # keep the first failing directory's files in the message (small): the replay is the directory content
        rep['tie_broken'].append('loader model vs real loaders on generated data directories: ' + ' || '.join(msgs[:3]))
        rep.setdefault('loader_failing_specs', []).extend(msgs[:10])


def kissel_configuration(ctx, rep, names, kinds=('real', 'synth')):
    """the further data configurations of this tree (DESIGN §0; vlib/core.build_kissel_config): kissel_pe.dat regenerated
    from data/kissel ('real') and the synthetic one ('synth') — the nested-block loader of src/xrayfiles.c:590-627 on
    full-size files, raw and compiled"""
    for kind in kinds:
        t = time.time()
        try:
            suf = ctx.build_kissel_config(kind)
        except TypeError:
            if kind == 'real': continue
            ctx.build_kissel_config(); suf = ''          # older signature: one synthetic configuration in `kroot`
        except Exception as e:                            # the configuration is main's business; without it nothing to compare
            ctx.notes.append('loader tie: Kissel configuration %s not available (%s)' % (kind, str(e)[:160])); continue
        root = ctx.sc.path('kroot' + suf); lens = ctx.sc.path('lens%s.txt' % (suf or 'K')); dmp = 'dump%s' % (suf or 'K')
        m = run_model(root, ctx.sc.path('loader_model%s.out' % suf))
        c = real_outcome(ctx.prdrv, root, lens, ctx.sc.path('pdump_' + kind))
        if m[0] != 'OK' or c[0] != 'OK':
            rep['tie_broken'].append('Kissel configuration %s: model %s, real loaders %s' % (kind, m[1:] if m[0] != 'OK' else 'OK', c if c[0] != 'OK' else 'OK'))
        else:
            comp = Dump(ctx.sc.path(dmp + '.bin'), ctx.sc.path(dmp + '.idx'))
            bad = compare(m[1], c[1], comp, names, root, ctx.coverage, 'kissel_' + kind, rep.setdefault('loader_replay_lines', []), '  @' + kind)
            if bad: rep['tie_broken'].append('loader model vs real loaders, Kissel configuration %s: ' % kind + ' || '.join(bad[:4]))
        ctx.timings['loader_kissel_' + kind] = round(time.time() - t, 2)


# ------------------------------------------------------------------------------------------------ the hook
def loader_tie(ctx, rep):
    for k in ('problems', 'proof_broken', 'tie_broken'): rep.setdefault(k, [])
    names, exe_ok = lean_side(ctx, rep)
    if names is None or not exe_ok: return
    t = time.time()
    if not getattr(ctx, 'prdrv', None) or not os.path.exists(ctx.sc.path('pdump.bin')):
        ctx.build_prdrv()
    raw = Dump(ctx.sc.path('pdump.bin'), ctx.sc.path('pdump.idx'))
    comp = Dump(ctx.sc.path('dump.bin'), ctx.sc.path('dump.idx')) if os.path.exists(ctx.sc.path('dump.bin')) else None
    m = run_model(REPO, ctx.sc.path('loader_model.out'))
    if m[0] != 'OK':
        rep['tie_broken'].append('the loader model fails on the shipped data (%s: %s) while the real loaders succeed' % (m[1], m[2]))
    else:
        bad = compare(m[1], raw, comp, names, REPO, ctx.coverage, 'shipped', rep.setdefault('loader_replay_lines', []))
        if bad:
            rep['tie_broken'].append('loader model and real loaders / compiled tables disagree on the shipped data: ' + ' || '.join(bad[:4]))
    ctx.timings['loader_tie_shipped'] = round(time.time() - t, 2)
    if any(re.search(r'names_match_macros|names_distinct|lengths|every_\w+_has_macro|aliases_resolve', x) for x in rep['proof_broken']):
        hits = names_vs_macros_search(names, REPO)
        if hits:
            rep.setdefault('loader_replay_lines', []).extend(hits)
            rep['tie_broken'].append('name table vs header macros: ' + hits[0])
    # the nested-block loader of kissel_pe.dat (theorems kissel_config_spec / kissel_empty_file): the shipped file is EMPTY (part of
    # the shipped tie above: no block, every cell OUTD); the regenerated table in every tier, the synthetic one in the thorough tier
    kissel_configuration(ctx, rep, names, ('real', 'synth') if ctx.tier == 'thorough' else ('real',))
    generated_dirs(ctx, rep, names, 300 if ctx.tier == 'thorough' else 24)
    ctx.notes.append('loader tie: %d cells vs real loaders, %d vs compiled tables, %d decimal ties, %d generated directories %s' % (
        ctx.coverage.get('shipped_cells_vs_real_loader', 0), ctx.coverage.get('shipped_cells_vs_compiled_tables', 0),
        ctx.coverage.get('shipped_decimal_ties', 0), ctx.coverage.get('generated_dirs', 0), ctx.coverage.get('generated_dir_outcomes')))


# ------------------------------------------------------------------------------------------------ standalone
def main():
    import argparse
    ap = argparse.ArgumentParser()
    ap.add_argument('--tier', default='quick', choices=['quick', 'thorough'])
    a = ap.parse_args()
    seed = int(os.environ.get('VERIF_SEED', '0'))
    ctx = core.Ctx('C01', a.tier, seed)
    rep = dict(problems=[], proof_broken=[], tie_broken=[])
    try:
        # private copy of the generated Lean files: the standalone run never writes into /verif/lean
        core.GEN_DIR = ctx.sc.path('gen'); os.makedirs(core.GEN_DIR, exist_ok=True)
        ctx.build_c()
        ctx.regenerate()
        ctx.build_drivers()
        loader_tie(ctx, rep)
    except core.BuildError as e:
        rep['problems'].append('build error: ' + str(e)[:1500])
    finally:
        keep = os.environ.get('C01L_KEEP')
        if keep:
            shutil.copytree(ctx.sc.dir, keep, dirs_exist_ok=True, symlinks=True)
        ctx.close()
    print(json.dumps(dict(coverage=ctx.coverage, timings=ctx.timings, wall_s=round(time.time() - ctx.t0, 1)), indent=1))
    broken = rep['proof_broken'] or rep['tie_broken'] or rep['problems']
    for k in ('proof_broken', 'tie_broken', 'problems'):
        for x in rep[k]: print('%s: %s' % (k.upper(), x))
    for l in rep.get('loader_replay_lines', []): print('REPLAY: ' + l)
    print('C01 loader half (%s, seed %d): %s' % (a.tier, seed, 'FAILED' if broken else 'ok'))
    return 1 if broken else 0


if __name__ == '__main__':
    sys.exit(main())
