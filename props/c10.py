"""C10 — grouped line energies and rates are the stated averages of their member lines."""
from vlib.runner import Check
from vlib import core

GROUPS = [0, 1, 2, 3, -43, -49, -55, -81, -102, -108, -111, -16, -24]

class C10(Check):
    id = 'C10'
    module = 'Xrl.Props.C10'
    namespace = 'Xrl.C10'
    functions = ['LineEnergy', 'LineEnergyComposed', 'RadRate']
    assumptions = ['L-beta energy (cross-section weighted mean) is specified through C09; here no claim (Expect.any) — covered by correspondence only',
                   'group_energy_between assumes non-negative rates (data invariant, holds for the shipped tables: checked by the search)']

    def domain(self):
        for Z in range(-3, 126):
            for m in range(-390, 8):
                yield Z, m

    def corr_lines(self, ctx):
        out = []
        for Z, m in self.domain():
            out.append('LineEnergy %d %d E' % (Z, m)); out.append('RadRate %d %d E' % (Z, m))
        return out + [l[:-1] + 'N' for l in out if int(l.split()[2]) in GROUPS]

    def search(self, ctx):
        cl = []; sl = []
        for Z, m in self.domain():
            for fn in ('LineEnergy', 'RadRate'):
                cl.append('%s %d %d E' % (fn, Z, m)); sl.append('spec.%s %d %d' % (fn, Z, m))
        c = ctx.run_c(cl)
        try: e = ctx.run_model(sl)
        except core.BuildError: return 0, [], {'rule': 'specification driver unavailable'}
        viol = []; stats = {}; nontriv = set(); ngroup = 0
        val = {}
        for l, co, eo in zip(cl, c, e):
            t = l.split()
            if eo.startswith('value'):
                nontriv.add(l)
                if int(t[2]) in GROUPS: ngroup += 1
            if not core.expect_agrees(co, eo, rel=1e-12, stats=stats):
                viol.append(dict(key=l, got=co, expected=eo, what='line energy / rate: library vs name-derived group specification'))
            pc = core.parse_answer(co)
            if pc['kind'] == 'ok' and pc['slot'] == 'E': val[(t[0], int(t[1]), int(t[2]))] = pc['vals'][0]
        # the property's "between" clause, evaluated directly on the library's own numbers
        KA = [-1, -2, -3]; KB = list(range(-4, -30, -1))
        DBL = {-43: (-42, -44), -49: (-48, -50), -55: (-54, -56), -81: (-80, -82), -102: (-101, -103), -108: (-107, -109), -111: (-110, -112), 2: (-89, -90)}
        for Z in range(1, 121):
            for g, ms in [(0, KA), (1, KB)] + [(k, list(v)) for k, v in DBL.items()]:
                v = val.get(('LineEnergy', Z, g))
                if v is None: continue
                es = [val[('LineEnergy', Z, m)] for m in ms if ('LineEnergy', Z, m) in val]
                if not es or not (min(es) * (1 - 1e-12) <= v <= max(es) * (1 + 1e-12)):
                    viol.append(dict(key='LineEnergy %d %d E' % (Z, g), got=repr(v), expected='between %r' % ([min(es), max(es)] if es else 'no member has an energy'),
                                     what='group energy outside the range of its member energies'))
        stats.update(rule='exhaustive: Z in [-3,125] x every macro value in [-390,7] (all 383 lines, the 4 Siegbahn groups, 7 doublets, KO/KP, aliases share values) for LineEnergy and RadRate; '
                          'non-trivial = calls where a value is expected', distinct_nontrivial=len(nontriv), group_values=ngroup, exhaustive=True,
                     samples=[dict(call=cl[i], impl=c[i], expected=e[i]) for i in (0, len(cl) // 2 + 7, len(cl) - 1)])
        return len(cl), viol, stats

CHECK = C10()
