"""C10 — grouped line energies and rates are the stated averages of their member lines."""
from vlib.runner import Check
from vlib import core

GROUPS = [0, 1, 2, 3, -43, -49, -55, -81, -102, -108, -111, -16, -24]

class C10(Check):
    id = 'C10'
    module = 'Xrl.Props.C10'
    namespace = 'Xrl.C10'
    extra_modules = [('Xrl.Props.C10b', 'Xrl.C10'), ('Xrl.Props.C10c', 'Xrl.C10')]
    functions = ['LineEnergy', 'LineEnergyComposed', 'RadRate']
    assumptions = ['line_energy_between / line_energy_in_range assume non-negative rates (K-alpha, K-beta: Spec.ratesNegative = []) and non-negative L-beta weights '
                   '(Spec.lbWeightsNegative = []): data invariants, executed on the loaded tables by every run of this check',
                   'L-beta: the C09 shape hypotheses (hP, hO) of line_energy_lb_spec']

    def domain(self):
        for Z in range(-3, 126):
            for m in range(-390, 8):
                yield Z, m

    def corr_lines(self, ctx):
        out = []
        for Z, m in self.domain():
            out.append('LineEnergy %d %d E' % (Z, m)); out.append('RadRate %d %d E' % (Z, m))
        return out + [l[:-1] + 'N' for l in out if int(l.split()[2]) in GROUPS]

    def search(self, ctx):
        cl = []; sl = []
        for Z, m in self.domain():
            for fn in ('LineEnergy', 'RadRate'):
                cl.append('%s %d %d E' % (fn, Z, m)); sl.append('spec.%s %d %d' % (fn, Z, m))
        c = ctx.run_c(cl)
        try: e = ctx.run_model(sl)
        except core.BuildError: return 0, [], {'rule': 'specification driver unavailable'}
        viol = []; stats = {}; nontriv = set(); ngroup = 0
        val = {}
        for l, co, eo in zip(cl, c, e):
            t = l.split()
            if eo.startswith('value'):
                nontriv.add(l)
                if int(t[2]) in GROUPS: ngroup += 1
            if not core.expect_agrees(co, eo, rel=1e-12, stats=stats):
                viol.append(dict(key=l, got=co, expected=eo, what='line energy / rate: library vs name-derived group specification'))
            pc = core.parse_answer(co)
            if pc['kind'] == 'ok' and pc['slot'] == 'E': val[(t[0], int(t[1]), int(t[2]))] = pc['vals'][0]
        # the property's "between" clause, evaluated directly on the library's own numbers
        KA = [-1, -2, -3]; KB = list(range(-4, -30, -1))
        DBL = {-43: (-42, -44), -49: (-48, -50), -55: (-54, -56), -81: (-80, -82), -102: (-101, -103), -108: (-107, -109), -111: (-110, -112), 2: (-89, -90)}
        for Z in range(1, 121):
            for g, ms in [(0, KA), (1, KB)] + [(k, list(v)) for k, v in DBL.items()]:
                v = val.get(('LineEnergy', Z, g))
                if v is None: continue
                es = [val[('LineEnergy', Z, m)] for m in ms if ('LineEnergy', Z, m) in val]
                if not es or not (min(es) * (1 - 1e-12) <= v <= max(es) * (1 + 1e-12)):
                    viol.append(dict(key='LineEnergy %d %d E' % (Z, g), got=repr(v), expected='between %r' % ([min(es), max(es)] if es else 'no member has an energy'),
                                     what='group energy outside the range of its member energies'))
        # the same clause through the specification's own range (Spec.groupRange: smallest / largest positive member energy, for EVERY grouped
        # macro incl. L-beta), and the text's other half: a group with a member energy has an energy, a group without one is an error
        try:
            gl = [(Z, g) for Z in range(1, 121) for g in GROUPS if g not in (-16, -24)]
            ro = ctx.run_model(['spec.groupRange %d %d' % zg for zg in gl])
            nrange = 0
            for (Z, g), r_ in zip(gl, ro):
                v = val.get(('LineEnergy', Z, g))
                if r_.startswith('range'):
                    lo, hi = [core.unhx(t_) for t_ in r_.split(' ')[1:3]]; nrange += 1
                    if v is None:
                        viol.append(dict(key='LineEnergy %d %d E' % (Z, g), got='error', expected='a value in [%r, %r]' % (lo, hi), what='a member line has an energy, yet the group energy is an error ("falling back to the plain mean of the members that have an energy")'))
                    elif not (lo * (1 - 1e-12) <= v <= hi * (1 + 1e-12)):
                        viol.append(dict(key='LineEnergy %d %d E' % (Z, g), got=repr(v), expected='in [%r, %r]' % (lo, hi), what='group energy outside Spec.groupRange (smallest / largest member energy)'))
                elif r_ == 'none' and v is not None:
                    viol.append(dict(key='LineEnergy %d %d E' % (Z, g), got=repr(v), expected='error: no member has an energy', what='group energy without any member energy'))
            stats['group_ranges_checked'] = nrange
            inv = ctx.run_model(['spec.ratesNegative', 'spec.lbWeightsNegative', 'spec.rateWithoutEnergy', 'spec.fallbackCases'])
            for nm, o in zip(('ratesNegative', 'lbWeightsNegative'), inv):
                if o.strip() != 'list []':
                    viol.append(dict(key='spec.' + nm, got=o[:200], expected='list []', what='data hypothesis of C10.line_energy_between fails on the tables built from the working tree'))
            stats['rate_without_energy'] = inv[2][:200]; stats['fallback_cases'] = inv[3][:300]
        except core.BuildError:
            pass
        # ---- L-beta (macro 3): the cross-section-weighted mean of exactly its member lines — the Siegbahn aliases LB1..LB17 of the
        #      header plus L3N6, L3N7, each weighted by CS_FluorLine at 0.1 keV above the edge of the member's own shell (the shell is
        #      read off the member's NAME); the plain mean of the member energies when no member carries weight, an error when no member has an energy.  Computed from the library's own primitives.
        import json, re as _re
        from vlib.core import hx
        hv = json.load(open(ctx.sc.path('aux', 'hdr_vals.json')))
        ints = {n_: v_['value'] for n_, v_ in hv.items() if v_['kind'] == 'I'}
        name_of = {}
        for n_, v_ in ints.items():
            if n_.endswith('_LINE') and _re.fullmatch(r'L[123][MNOPQ]\d+_LINE', n_): name_of.setdefault(v_, n_[:-5])
        memb = [ints[k + '_LINE'] for k in ('LB1', 'LB2', 'LB3', 'LB4', 'LB5', 'LB6', 'LB7', 'LB9', 'LB10', 'LB15', 'LB17', 'L3N6', 'L3N7')]
        shell_of = {m: {'L1': 1, 'L2': 2, 'L3': 3}[name_of[m][:2]] for m in memb if m in name_of}
        nlb = 0
        if len(shell_of) == len(memb):
            q1 = ['EdgeEnergy %d %d N' % (Z, sh) for Z in range(1, 121) for sh in (1, 2, 3)]
            edge = {}
            for l, o in zip(q1, ctx.run_c(q1)):
                _, Z, sh, _ = l.split(); edge[(int(Z), int(sh))] = core.parse_answer(o)['vals'][0]
            q2 = []
            for Z in range(1, 121):
                for m in memb:
                    q2.append('CS_FluorLine %d %d %s N' % (Z, m, hx(edge[(Z, shell_of[m])] + 0.1)))
            w = dict(zip(q2, [core.parse_answer(o) for o in ctx.run_c(q2)]))
            for Z in range(1, 121):
                num = den = 0.0; ok_ = True; ems = []
                for m in memb:
                    pw = w['CS_FluorLine %d %d %s N' % (Z, m, hx(edge[(Z, shell_of[m])] + 0.1))]
                    if pw['kind'] != 'ok': ok_ = False; break
                    wt = pw['vals'][0]
                    em = val.get(('LineEnergy', Z, m), 0.0)
                    if em <= 0: continue                      # a member without a line energy does not enter the mean
                    den += wt; num += em * wt; ems.append(em)
                if not ok_: continue
                nlb += 1
                co = c[cl.index('LineEnergy %d 3 E' % Z)]
                # no weights at all: the plain mean of the members that have an energy; no member energy: an error
                exp = ('value ' + hx(num / den)) if den > 0 else ('value ' + hx(sum(ems) / len(ems))) if ems else 'fails'
                if not core.expect_agrees(co, exp, rel=1e-12, stats=stats):
                    viol.append(dict(key='LineEnergy %d 3 E' % Z, got=co, expected=(exp + (' = %r' % (num / den) if den > 0 else '')),
                                     what='L-beta energy: not the cross-section-weighted mean of its member lines (LB1-LB7, LB9, LB10, LB15, LB17, L3N6, L3N7; weights CS_FluorLine at edge + 0.1 keV)'))
        else:
            viol.append(dict(key='include/xraylib-lines.h', got=str(sorted(set(memb) - set(shell_of))), expected='every L-beta member alias resolves to an L-line macro', what='L-beta member list'))
        stats['lbeta_elements_checked'] = nlb
        # the executable specification of Props/C10b.lean (Spec.LineEnergyLB) against the library
        try:
            zl = list(range(-3, 126))
            eo = ctx.run_model(['spec.LineEnergyLB %d' % Z for Z in zl])
            et = ctx.run_model(['spec.LineEnergyLBText %d' % Z for Z in zl])
            for Z, e_, t_ in zip(zl, eo, et):
                co = c[cl.index('LineEnergy %d 3 E' % Z)]
                if not core.expect_agrees(co, e_, rel=1e-12, stats=stats):
                    viol.append(dict(key='LineEnergy %d 3 E' % Z, got=co, expected=e_, what='L-beta energy: library vs Spec.LineEnergyLB'))
                elif not core.expect_agrees(co, t_, rel=1e-12, stats=stats):
                    viol.append(dict(key='LineEnergy %d 3 E' % Z, got=co, expected=t_, what='L-beta energy: library vs the property text (Spec.LineEnergyLBText: weighted mean, plain-mean fallback)'))
            # every grouped macro against the specification written from the property text (Spec/GroupsText.lean)
            gl2 = [(Z, g) for Z in range(-3, 126) for g in GROUPS if g != 3]
            tx = ctx.run_model(['spec.LineEnergyText %d %d' % zg for zg in gl2])
            for (Z, g), t_ in zip(gl2, tx):
                co = c[cl.index('LineEnergy %d %d E' % (Z, g))]
                if not core.expect_agrees(co, t_, rel=1e-12, stats=stats):
                    viol.append(dict(key='LineEnergy %d %d E' % (Z, g), got=co, expected=t_, what='group energy: library vs the property text (Spec.LineEnergyText: weighted mean of the members with an energy, plain-mean fallback, error when no member has one)'))
        except core.BuildError:
            pass
        stats.update(rule='exhaustive: Z in [-3,125] x every macro value in [-390,7] (all 383 lines, the 4 Siegbahn groups, 7 doublets, KO/KP, aliases share values) for LineEnergy and RadRate; '
                          'non-trivial = calls where a value is expected', distinct_nontrivial=len(nontriv), group_values=ngroup, exhaustive=True,
                     samples=[dict(call=cl[i], impl=c[i], expected=e[i]) for i in (0, len(cl) // 2 + 7, len(cl) - 1)])
        return len(cl), viol, stats

CHECK = C10()
