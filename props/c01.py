"""C01 — scalar lookups return exactly the shipped table value, or an error."""
import re
from vlib.runner import Check
from vlib import core

# function -> (macro range lo, hi) of the second argument (None: one-argument accessor)
ACCESSORS = {
    'AtomicWeight': None, 'ElementDensity': None,
    'EdgeEnergy': (0, 27), 'FluorYield': (0, 27), 'JumpFactor': (0, 27), 'AtomicLevelWidth': (0, 27),
    'CosKronTransProb': (1, 14), 'ElectronConfig': (0, 30), 'ElectronConfig_Biggs': (0, 28),
    'AugerRate': (0, 995), 'AugerYield': (0, 8), 'LineEnergy': (-383, 0), 'RadRate': (-383, 0),
}
SPEC = ['AtomicWeight', 'ElementDensity', 'EdgeEnergy', 'FluorYield', 'JumpFactor', 'AtomicLevelWidth',
        'CosKronTransProb', 'ElectronConfig', 'ElectronConfig_Biggs', 'AugerRate', 'AugerYield', 'LineEnergy', 'RadRate']

class C01(Check):
    id = 'C01'
    module = 'Xrl.Props.C01'
    namespace = 'Xrl.C01'
    # Props/C01b.lean: LineEnergy / RadRate as the same `lookup2` as the other accessors (corollaries of the C10 theorems: a guard
    # change in fluor_lines.c / radrate.c is a broken obligation of THIS check too), Biggs occupancy as "positive record"
    extra_modules = [('Xrl.Props.C01b', 'Xrl.C01')]
    functions = sorted(ACCESSORS)
    nonvacuity = []
    assumptions = ['lookup_text_ElectronConfig_Biggs (Biggs occupancy: an error exactly when there is no POSITIVE record) assumes that no occupancy record is negative '
                   '(biggs_positive_full_fails: the code tests == 0.0 and would return a negative record as a number); executed on the tables of every run: spec.biggsNegative must be empty',
                   'positional files (kissel_pe.dat, comptonprofiles.dat): record -> cell is a theorem about the loader MODEL (lean-loader: kissel_config_spec, compton_uoccup_spec), '
                   'tied to src/xrayfiles.c by comparing every cell on the shipped and the regenerated data in every tier']
    # the specification each accessor is compared with in the search (Biggs: the text's "positive record", Spec/Text0129.lean)
    SPEC_OP = {'ElectronConfig_Biggs': 'ElectronConfig_BiggsPos'}

    def domain(self, fn):
        rng = ACCESSORS[fn]
        for Z in range(-3, 126):
            if rng is None:
                yield (Z,)
            else:
                for m in range(rng[0] - 3, rng[1] + 4):
                    yield (Z, m)

    # ---------------------------------------------------------------- data files -> table cells
    NAMED = [  # file, table, macro family suffix, scale, name -> macro stem
        ('edges.dat', 'EdgeEnergy_arr', '_SHELL', 1e-3, None), ('fluor_yield.dat', 'FluorYield_arr', '_SHELL', 1.0, None),
        ('jump.dat', 'JumpFactor_arr', '_SHELL', 1.0, None), ('atomiclevelswidth.dat', 'AtomicLevelWidth_arr', '_SHELL', 1e-3, None),
        ('fluor_lines.dat', 'LineEnergy_arr', '_LINE', 1e-3, None), ('radrate.dat', 'RadRate_arr', '_LINE', 1.0, None),
        ('coskron.dat', 'CosKron_arr', '_TRANS', 1.0, 'ck'),
    ]

    def extra_steps(self, ctx, rep):
        """the named quantity of a data-file record is the header macro of the same name: cell(Z, X_MACRO) of the table
        compiled into the library must be the 11-significant-digit printing of scale x value of the LAST record (Z, "X")
        of the file, and 0 where the file has none — checked for every cell of the 7 named tables and the 2 per-Z scalars,
        independently of the loader's own name tables (an oracle in Python; the loader itself is not modelled in Lean)."""
        import json, os, re
        from vlib.core import REPO, unhx
        vals = json.load(open(ctx.sc.path('aux', 'hdr_vals.json')))
        ints = {n: v['value'] for n, v in vals.items() if v['kind'] == 'I'}
        dims = {k: v['dims'] for k, v in ctx.meta['tables'].items()}
        req = []; exp = []
        bad = []
        for fn, table, suf, scale, rule in self.NAMED:
            recs = {}
            for l in open(os.path.join(REPO, 'data', fn)):
                t = l.split()
                if len(t) != 3: continue
                try: recs[(int(t[0]), t[1])] = float(t[2])
                except ValueError: continue
            fam = {}
            for n, v in ints.items():
                if not n.endswith(suf): continue
                stem = n[:-len(suf)]
                if rule == 'ck': stem = 'F' + stem[2:] if stem.startswith('FL') else stem       # FL12 -> "F12", FLP13 -> "FP13"
                col = v if suf != '_LINE' else -v - 1
                if suf == '_LINE' and v >= 0: continue
                fam.setdefault(col, set()).add(stem)
            ncol = dims[table][1]
            unknown = {nm for (_, nm) in recs} - {s_ for ss in fam.values() for s_ in ss}
            if fn in ('fluor_lines.dat', 'radrate.dat', 'atomiclevelswidth.dat') and unknown:
                bad.append('%s: record names without a macro: %s' % (fn, sorted(unknown)[:5]))
            for Z in range(0, 121):
                for col in range(ncol):
                    if col not in fam: continue          # a column no macro designates (e.g. the "F1" slot) is not reachable
                    v = None
                    for stem in fam.get(col, ()):        # aliases share a column: any alias name may carry the record
                        if (Z, stem) in recs: v = recs[(Z, stem)] * scale if scale == 1.0 else recs[(Z, stem)] / 1000.0
                    req.append('cell %s %d' % (table, Z * ncol + col)); exp.append((table, Z, col, v))
        for fn, table in (('atomicweight.dat', 'AtomicWeight_arr'), ('densities.dat', 'ElementDensity_arr')):
            recs = {}
            for l in open(os.path.join(REPO, 'data', fn)):
                t = l.split()
                if len(t) == 2:
                    try: recs[int(t[0])] = float(t[1])
                    except ValueError: pass
            for Z in range(0, 121):
                req.append('cell %s %d' % (table, Z)); exp.append((table, Z, 0, recs.get(Z)))
        got = ctx.run_model(req)
        n_bad = 0
        for r, (table, Z, col, v), g in zip(req, exp, got):
            gv = unhx(g.split(' ')[1])
            want = float('%.10E' % v) if v is not None else None
            if (want is None and gv > 0) or (want is not None and gv != want and not (want <= 0 and gv <= 0)):
                n_bad += 1
                ctx.__dict__.setdefault('_c01_badcells', []).append((table, Z, col, want))
                if n_bad <= 3: bad.append('table %s[%d][%d] = %r, data file says %r (-> %r)' % (table, Z, col, gv, v, want))
        ctx.coverage['datafile_cells_checked'] = len(req)
        ctx.notes.append('data files vs compiled tables: %d cells, %d differ' % (len(req), n_bad))
        if bad: rep['tie_broken'].append('data-file records and compiled table cells disagree: ' + '; '.join(bad[:4]))
        # ---- the loader half as a MODEL WITH THEOREMS (lean-loader/: load_spec, names_match_macros, print11 …), tied to the real
        #      loaders cell by cell; the Python oracle above stays as an independent second reading of the data files
        from props import c01_loader
        c01_loader.loader_tie(ctx, rep)
        # every cell on which loader model (theorems) and real loader / compiled table disagree has been turned into the public call
        # that reads it (c01_loader.reader_call): the search runs those calls and reports them as failing inputs
        ctx._loader_replay = list(rep.get('loader_replay_lines', []))
        ctx._loader_tie_msgs = [m for m in rep['tie_broken'] if 'loader' in m or 'name table' in m]

    def corr_lines(self, ctx):
        out = []
        for fn in ACCESSORS:
            for args in self.domain(fn):
                a = ' '.join(map(str, args))
                out.append('%s %s E' % (fn, a)); out.append('%s %s N' % (fn, a))
        return out

    def search(self, ctx):
        clines = []; slines = []
        for fn in SPEC:
            for args in self.domain(fn):
                a = ' '.join(map(str, args))
                for mode in 'EN':
                    clines.append('%s %s %s' % (fn, a, mode)); slines.append('spec.%s %s' % (self.SPEC_OP.get(fn, fn), a))
        c = ctx.run_c(clines)
        try:
            e = ctx.run_model(slines)
            inv = ctx.run_model(['spec.biggsNegative'])[0]
        except core.BuildError:
            return 0, [], {'rule': 'specification driver unavailable'}
        viol = []; nontriv = set(); stats = {}
        # data hypothesis of lookup_text_ElectronConfig_Biggs: no negative occupancy record (each one is a failing input: the library
        # returns the negative number where the text demands an error)
        if inv.strip() != 'list []':
            for Z, sh in re.findall(r'\((\d+), (\d+)\)', inv)[:20]:
                l = 'ElectronConfig_Biggs %s %s E' % (Z, sh)
                viol.append(dict(key=l, got=ctx.run_c([l])[0], expected='fails (the occupancy record is negative: no positive record)',
                                 what='negative Biggs occupancy record: data condition of lookup_text_ElectronConfig_Biggs fails (spec.biggsNegative = %s)' % inv[:200]))
        stats['biggs_negative_records'] = inv
        for cl, sl, co, eo in zip(clines, slines, c, e):
            if eo.startswith('value'): nontriv.add(sl)
            if not core.expect_agrees(co, eo, rel=0.0, stats=stats):
                viol.append(dict(key=cl, got=co, expected=eo, what='scalar lookup: library vs table cell / macro range'))
        # ---- cells that differ from the data files (found by extra_steps): turn each into the accessor call that reads it,
        #      so that the report carries a failing input of the real library, not only a table cell
        ACC = {'EdgeEnergy_arr': ('EdgeEnergy', lambda c: c), 'FluorYield_arr': ('FluorYield', lambda c: c), 'JumpFactor_arr': ('JumpFactor', lambda c: c),
               'AtomicLevelWidth_arr': ('AtomicLevelWidth', lambda c: c), 'LineEnergy_arr': ('LineEnergy', lambda c: -c - 1), 'RadRate_arr': ('RadRate', lambda c: -c - 1),
               'CosKron_arr': ('CosKronTransProb', lambda c: c), 'AtomicWeight_arr': ('AtomicWeight', None), 'ElementDensity_arr': ('ElementDensity', None)}
        cells = getattr(ctx, '_c01_badcells', [])[:400]
        if cells:
            q = ['%s %d%s E' % (ACC[t][0], Z, '' if ACC[t][1] is None else ' %d' % ACC[t][1](col)) for t, Z, col, w in cells]
            for l, (t, Z, col, w), o in zip(q, cells, ctx.run_c(q)):
                pa = core.parse_answer(o)
                ok = pa['kind'] == 'ok' and ((w is not None and w > 0 and pa['slot'] == 'E' and pa['vals'][0] == w) or ((w is None or w <= 0) and pa['slot'].startswith('F')))
                if not ok:
                    viol.append(dict(key=l, got=o, expected=('value %r (the record of the data file, 11 digits)' % w) if w else 'fails (the data file has no positive record)',
                                     what='the accessor returns something else than the data file records for this element and named quantity'))
        # ---- Biggs occupancy vs data/comptonprofiles.dat, read HERE (positional file: block Z = element Z; line 1 `NShells Npz`, then
        #      NShells occupancies, 3 x Npz numbers, 2 x Npz numbers per sub-shell with a positive occupancy), independently of the
        #      library and of the loader model: ElectronConfig_Biggs(Z, s) = s-th occupancy of block Z when positive, an error otherwise
        nb, vb, biggs = self.biggs_oracle(ctx)
        viol += vb; stats['biggs_datafile'] = biggs
        # ---- loader-tie failures as failing inputs
        nl = 0
        lr = [l for l in getattr(ctx, '_loader_replay', []) if not l.startswith('#')]
        if lr:
            why = '; '.join(getattr(ctx, '_loader_tie_msgs', []))[:600]
            for l in lr[:24]:
                call = l.split('   #')[0].strip(); tag = ''
                m = re.search(r'\s+@(real|synth)$', call)
                if m: tag = m.group(1); call = call[:m.start()]
                try:
                    exe = ctx.sc.path('cdrv' + ctx.build_kissel_config(tag)) if tag else None
                    o = ctx.run_c([call], exe=exe)[0] if exe else ctx.run_c([call])[0]
                except core.BuildError as ex: o = 'not run: ' + str(ex)[:100]
                nl += 1
                viol.append(dict(key=call + ('  @' + tag if tag else ''), got=o, expected='the value that follows from the data-file record by the loader theorems (lean-loader: load_spec / kissel_config_spec / compton_uoccup_spec)',
                                 what='this call reads a table cell on which the real loader / the compiled table and the loader model disagree: ' + why))
        # ---- second data configuration: the Kissel table regenerated from data/kissel (tools/regen_kissel.py) -------
        # (only ElectronConfig reads a Kissel-derived table among the scalar accessors; all are re-run, same code objects)
        n2 = 0; kis = {}
        try:
            suf = ctx.build_kissel_config('real')
            c2 = ctx.run_c(clines, exe=ctx.sc.path('cdrv' + suf))
            e2 = ctx.run_model(slines, dump='dump' + suf)
            n2 = len(clines)
            for cl, sl, co, eo in zip(clines, slines, c2, e2):
                if eo.startswith('value') and sl.startswith('spec.ElectronConfig'): nontriv.add(sl + '@real')
                if not core.expect_agrees(co, eo, rel=0.0, stats=stats):
                    viol.append(dict(key=cl + '  @real', got=co, expected=eo, what='scalar lookup in the regenerated-Kissel configuration: library vs table cell / macro range'))
            # the occupation numbers as the RAW files of data/kissel state them (parsed here, independently of regen_kissel.py's writer)
            import os, glob
            from vlib.core import REPO
            kappa = [-1, 1, -2, 2, -3, 3, -4]; base = {1: 0, 2: 1, 3: 4, 4: 9, 5: 16, 6: 23, 7: 28}
            want = {}
            for fn in sorted(glob.glob(os.path.join(REPO, 'data', 'kissel', '[0-9][0-9][0-9]_pe*'))):
                Z = int(os.path.basename(fn)[:3]); inb = False
                for l in open(fn):
                    if l.strip() == '*BLOCK:CONFIGURATION': inb = True; continue
                    if inb and l.startswith(' *** END OF DATA'): break
                    t = l.split()
                    if inb and len(t) == 8:
                        try: n, k, nel = int(t[0]), int(t[1]), float(t[4])
                        except ValueError: continue
                        want[(Z, base[n] + (0 if n == 1 else kappa.index(k)))] = nel
            q = ['ElectronConfig %d %d E' % (Z, sh) for Z in range(1, 121) for sh in range(31)]
            for l, o in zip(q, ctx.run_c(q, exe=ctx.sc.path('cdrv' + suf))):
                _, Z, sh, _ = l.split(); w = want.get((int(Z), int(sh)), 0.0)
                pa = core.parse_answer(o)
                ok = pa['kind'] == 'ok' and ((w > 0 and pa['slot'] == 'E' and pa['vals'][0] == w) or (w <= 0 and pa['slot'].startswith('F') and pa['vals'][0] == 0))
                if not ok:
                    viol.append(dict(key=l + '  @real', got=o, expected=('value %r' % w) if w > 0 else 'fails', what='ElectronConfig vs the CONFIGURATION block of data/kissel/%03d_pe*' % int(Z)))
            n2 += len(q); kis = dict(electron_config_records=len(want), cells_checked=len(q))
        except core.BuildError as ex:
            viol.append(dict(key='regenerated-Kissel configuration', got='does not build: ' + str(ex)[:300], expected='builds', what='data/kissel -> kissel_pe.dat -> prdata'))
        stats.update(rule='exhaustive: every accessor x Z in [-3,125] x every macro value in [min-3,max+3] x slot modes {E,N}, in both data configurations '
                          '(Kissel table empty as shipped; Kissel table regenerated from data/kissel); non-trivial = distinct (accessor, Z, macro) with a positive table cell (a value is expected)',
                     distinct_nontrivial=len(nontriv) + biggs.get('positive_records', 0), exhaustive=True, kissel_regenerated=kis, loader_tie_calls=nl,
                     samples=[dict(call=clines[i], impl=c[i], expected=e[i]) for i in (0, len(clines) // 3, len(clines) // 2)])
        return len(clines) + n2 + nb + nl, viol, stats

    def biggs_oracle(self, ctx):
        import os
        from vlib.core import REPO
        toks = open(os.path.join(REPO, 'data', 'comptonprofiles.dat')).read().split()
        occ = {}; i = 0; Z = 0; bad = None
        try:
            while i < len(toks) and Z < 120:
                ns, npz = int(toks[i]), int(toks[i + 1]); i += 2; Z += 1
                o = [float(t) for t in toks[i:i + ns]]; i += ns
                if len(o) != ns: raise ValueError('short occupancy record')
                i += 3 * npz + 2 * npz * sum(1 for x in o if x > 0)
                if i > len(toks): raise ValueError('short block')
                for s_, x in enumerate(o): occ[(Z, s_)] = x
        except (ValueError, IndexError) as ex:
            bad = 'data/comptonprofiles.dat: block %d unreadable (%s)' % (Z, ex)
        q = ['ElectronConfig_Biggs %d %d E' % (Z_, s_) for Z_ in range(-3, 126) for s_ in range(-3, 32)]
        viol = []; pos = 0
        for l, o in zip(q, ctx.run_c(q)):
            _, Z_, s_, _ = l.split(); w = occ.get((int(Z_), int(s_)))
            if w is not None and w > 0: pos += 1
            want = float('%.10E' % w) if w is not None and w > 0 else None
            pa = core.parse_answer(o)
            ok = pa['kind'] == 'ok' and ((want is not None and pa['slot'] == 'E' and pa['vals'][0] == want) or
                                         (want is None and pa['slot'].startswith('F') and pa['vals'][0] == 0))
            if not ok:
                viol.append(dict(key=l, got=o, expected=('value %r (occupancy record %d of block %s of data/comptonprofiles.dat)' % (want, int(s_), Z_)) if want is not None
                                 else 'fails (data/comptonprofiles.dat has no positive occupancy record for this element and sub-shell%s)' % ('' if w is None else ': the record is %r' % w),
                                 what='ElectronConfig_Biggs vs the occupancy records of data/comptonprofiles.dat'))
        if bad: viol.append(dict(key='data/comptonprofiles.dat', got=bad, expected='blocks of the documented layout', what='Biggs data-file oracle'))
        return len(q), viol[:60], dict(blocks=Z, records=len(occ), positive_records=pos, zero_records=sum(1 for x in occ.values() if x == 0),
                                        negative_records=sum(1 for x in occ.values() if x < 0), calls=len(q))

CHECK = C01()
