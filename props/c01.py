"""C01 — scalar lookups return exactly the shipped table value, or an error."""
from vlib.runner import Check
from vlib import core

# function -> (macro range lo, hi) of the second argument (None: one-argument accessor)
ACCESSORS = {
    'AtomicWeight': None, 'ElementDensity': None,
    'EdgeEnergy': (0, 27), 'FluorYield': (0, 27), 'JumpFactor': (0, 27), 'AtomicLevelWidth': (0, 27),
    'CosKronTransProb': (1, 14), 'ElectronConfig': (0, 30), 'ElectronConfig_Biggs': (0, 28),
    'AugerRate': (0, 995), 'AugerYield': (0, 8), 'LineEnergy': (-383, 0), 'RadRate': (-383, 0),
}
SPEC = ['AtomicWeight', 'ElementDensity', 'EdgeEnergy', 'FluorYield', 'JumpFactor', 'AtomicLevelWidth',
        'CosKronTransProb', 'ElectronConfig', 'AugerRate', 'AugerYield', 'LineEnergy', 'RadRate']

class C01(Check):
    id = 'C01'
    module = 'Xrl.Props.C01'
    namespace = 'Xrl.C01'
    functions = sorted(ACCESSORS)

    def domain(self, fn):
        rng = ACCESSORS[fn]
        for Z in range(-3, 126):
            if rng is None:
                yield (Z,)
            else:
                for m in range(rng[0] - 3, rng[1] + 4):
                    yield (Z, m)

    def corr_lines(self, ctx):
        out = []
        for fn in ACCESSORS:
            for args in self.domain(fn):
                a = ' '.join(map(str, args))
                out.append('%s %s E' % (fn, a)); out.append('%s %s N' % (fn, a))
        return out

    def search(self, ctx):
        clines = []; slines = []
        for fn in SPEC:
            for args in self.domain(fn):
                a = ' '.join(map(str, args))
                for mode in 'EN':
                    clines.append('%s %s %s' % (fn, a, mode)); slines.append('spec.%s %s' % (fn, a))
        c = ctx.run_c(clines)
        try:
            e = ctx.run_model(slines)
        except core.BuildError:
            return 0, [], {'rule': 'specification driver unavailable'}
        viol = []; nontriv = set(); stats = {}
        for cl, sl, co, eo in zip(clines, slines, c, e):
            if eo.startswith('value'): nontriv.add(sl)
            if not core.expect_agrees(co, eo, rel=0.0, stats=stats):
                viol.append(dict(key=cl, got=co, expected=eo, what='scalar lookup: library vs table cell / macro range'))
        stats.update(rule='exhaustive: every accessor x Z in [-3,125] x every macro value in [min-3,max+3] x slot modes {E,N}; '
                          'non-trivial = distinct (accessor, Z, macro) with a positive table cell (a value is expected)',
                     distinct_nontrivial=len(nontriv), exhaustive=True,
                     samples=[dict(call=clines[i], impl=c[i], expected=e[i]) for i in (0, len(clines) // 3, len(clines) // 2)])
        return len(clines), viol, stats

CHECK = C01()
