"""C19 — the pure-Java implementation is observationally equivalent to the C library.

Level: translation_validation.  No Lean theorem speaks about the Java code: the Java sources are compiled as they are
and run, method by method, against the C library built from the same working tree (which is the reference because the
other checks tie it to the Lean model).  xraylib.dat is produced by java/pr_data_java.c from the same data files."""
import os, sys, re, json, time, subprocess, math, shutil, glob
from concurrent.futures import ThreadPoolExecutor
from vlib import core, cbuild, xdrv
from vlib.cbuild import VERIF, REPO, BuildError
from vlib.xdrv import log
sys.path.insert(0, os.path.join(VERIF, 'tools'))
import xapi
from props.c18 import Gen, core_corpus, core_sessions

FINDINGS_FILE = None
JAVA_SRC = ['Xraylib.java', 'compoundData.java', 'compoundDataBase.java', 'compoundDataNIST.java', 'radioNuclideData.java', 'Crystal_Struct.java', 'Crystal_Atom.java']
REL_TOL = 1e-10
# methods compared with a looser tolerance, and why (each entry is justified in notes/C19_REPORT.md)
LOOSE = {}
CRYSTAL_FNS = ('Crystal_GetCrystal', 'Bragg_angle', 'Q_scattering_amplitude', 'Crystal_F_H_StructureFactor', 'Crystal_F_H_StructureFactor_Partial',
               'Crystal_UnitCellVolume', 'Crystal_dSpacing')
for f in CRYSTAL_FNS:
    LOOSE[f] = (1e-3, 'built-in crystal table of the C library: src/pr_data.c:1134,1143 writes it as float literals with 6 decimals (`%ff`), xraylib.dat carries the doubles '
                      'read from data/Crystals.dat; lattice constants differ by up to 6e-8 relative, atom positions by up to 5e-7 absolute, and a phase 2*pi*(hx+ky+lz) with |h|+|k|+|l| <= 18 '
                      'by up to 6e-5, before any computation.  The same calls are also compared at 1e-10 against the C functions working on a Crystal_Array read from data/Crystals.dat '
                      '(configuration `file`), which is the comparison of the code')
RAYL_WHY = ('the C tables (values and second derivatives) pass through the 11-significant-digit decimal print of src/pr_data.c:1062 (`%.10E`), xraylib.dat holds the unrounded doubles; '
            'the cubic spline through the steep high-q tail of the Rayleigh form factor amplifies that 5e-11 relative rounding, and the differential cross sections square it '
            '(largest deviation observed 9.1e-10 at DCSP_Rayl(94, 10 MeV, pi/4, -0.5); a change of the Java code moves results by far more)')
for f in ('FF_Rayl', 'DCS_Rayl', 'DCSb_Rayl', 'DCSP_Rayl', 'DCSPb_Rayl', 'DCS_Rayl_CP', 'DCSb_Rayl_CP', 'DCSP_Rayl_CP', 'DCSPb_Rayl_CP', 'Atomic_Factors'):
    LOOSE[f] = (1e-8, RAYL_WHY)
TRUSTED = [
    'the C library built from the working tree is the reference (tied to the Lean model by C01-C17); harness/xdrv.c drives it',
    'javac 17 / the JVM running the unmodified sources of /repo/java; harness/java/XrlDrv.java (reflection driver)',
    'harness/java/stub/.../Complex.java stands in for commons-math3 (constructor + two getters; any other use fails to compile)',
    'java/pr_data_java.c compiled against libprdata of the working tree writes xraylib.dat (the Java loader is part of what is compared)',
    'comparison: integers and strings exact, doubles to 1e-10 relative (2e-6 for crystal-dependent methods, reason in the report); exception <=> C error',
    'history sessions: the ops @k / !mut / !show / !copy / $k of harness/java/XrlDrv.java (what counts as "public mutable part" is decided by java.lang.reflect: public fields, '
    'array elements, arrays behind public zero-argument getters) and their C twins in harness/xdrv.c dispatch_hist (the caller-side edits of the malloc\'ed copies)',
]

def close(a, b, rel):
    if a == b: return True
    if math.isnan(a) or math.isnan(b): return math.isnan(a) and math.isnan(b)
    if math.isinf(a) or math.isinf(b): return False
    return abs(a - b) <= rel * max(abs(a), abs(b)) + 1e-300

def build_java_dat(sc, jd, data_root=None):
    """java/pr_data_java.c of the working tree, linked with the objects of the build-time generator (cbuild.build_prdata / ctx.build_c must have
    run in this scratch), executed as java/Makefile.am does -> <jd>/xraylib.dat, copied next to the classes (<jd>/classes).  Shared with C20."""
    os.makedirs(os.path.join(jd, 'classes'), exist_ok=True)
    pobjs = [o for o in glob.glob(sc.path('o_prdata', '*.o')) if not o.endswith('pr_data.c.o')]
    fl = cbuild.cflags(REPO, sc.path('b')) + ['-O1', '-g0', '-w']
    cbuild.run(['clang-14'] + fl + [os.path.join(REPO, 'java', 'pr_data_java.c')] + pobjs + ['-lm', '-o', os.path.join(jd, 'prdata_java')])
    p = subprocess.run([os.path.join(jd, 'prdata_java'), data_root or REPO], cwd=jd, capture_output=True, text=True)
    dat = os.path.join(jd, 'xraylib.dat')
    if p.returncode != 0 or not os.path.exists(dat) or os.path.getsize(dat) < 1000:
        raise BuildError('java/pr_data_java.c did not produce xraylib.dat: exit %d %s' % (p.returncode, (p.stdout + p.stderr)[-1500:]))
    shutil.copy(dat, os.path.join(jd, 'classes', 'xraylib.dat'))
    return dat

def build_java_classes(jd):
    """javac of the working tree's java/*.java (commons-math3 is not installed: `Complex`, of which only the constructor is used, is the harness'
    stub) -> <jd>/classes; returns (listed sources, further sources found).  Shared with C20."""
    srcs = [os.path.join(REPO, 'java', f) for f in JAVA_SRC]
    extra = sorted(set(glob.glob(os.path.join(REPO, 'java', '*.java'))) - set(srcs))
    stub = os.path.join(xdrv.HARNESS, 'java', 'stub', 'org', 'apache', 'commons', 'math3', 'complex', 'Complex.java')
    pj = subprocess.run(['javac', '-encoding', 'UTF-8', '-nowarn', '-d', os.path.join(jd, 'classes'), stub] + srcs + extra, capture_output=True, text=True)
    if pj.returncode != 0: raise BuildError('javac failed on /repo/java (with the Complex stub): ' + (pj.stdout + pj.stderr)[-3000:])
    return srcs, extra


# ------------------------------------------------------------------------------------------------ history sessions
# Every object the C library hands out is a malloc'ed deep copy that the caller owns (property C15): whatever the caller writes into it, the
# next answer of the library is the same.  "Returns the same value as the C function for every argument tuple" therefore includes every call
# HISTORY in which the caller has edited what it was given.  A session is a list of driver lines run in ONE process on each side, in order
# (ops: harness/java/XrlDrv.java, harness/xdrv.c):
#     <call>                 plain call (compared with C as everywhere else)
#     @<k> <call>            call and keep the returned object in slot k
#     !mut <k> E             write a sentinel into every public mutable part of the object in slot k (Java: found by reflection)
#     !show <k> E            print the object in slot k               !copy <j> <k> E   slot j = copy of slot k (public copy constructor)
#     <crystal fn> $<k> ..   the crystal function on the kept object
HIST_OPS = ('!mut', '!copy', '!drop')
PRIM = ('int', 'double')

def _is_obj_ret(ret):
    return ret not in PRIM

class History:
    """generator + judge of the history sessions of C19"""
    def __init__(self, chk, ctx, b, jm, cat, ranges):
        self.chk = chk; self.ctx = ctx; self.b = b; self.jm = jm; self.cat = cat; self.ranges = ranges
        self.rng = __import__('random').Random(ctx.seed * 104729 + 19)
        self.protos = {p['name']: p for p in b['protos']}
        self.quick = ctx.tier == 'quick'
        # enumerated by reflection on the compiled classes: every public static method that returns something other than int / double
        self.obj_methods = sorted((n, tuple(a), r) for n, sigs in jm.items() for a, r in sigs if _is_obj_ret(r))
        # ... and every method that takes a String or an object (the functions whose answer depends on a catalogue entry)
        self.dep_methods = sorted((n, tuple(a), r) for n, sigs in jm.items() for a, r in sigs if any(x not in PRIM for x in a))

    # ---- arguments
    def pname(self, fn, k):
        p = self.protos.get(fn)
        if p and k < len(p['params']) - 1: return p['params'][k][0]
        return ''
    def dflt(self, fn, k, ty, name):
        """default value of parameter k of `fn` in a call about the catalogue entry `name`"""
        rng = self.rng; pn = self.pname(fn, k)
        if ty in ('String', 'Crystal_Struct') or ty not in PRIM: return xapi.sarg(name)
        if ty == 'int':
            if pn in ('i_miller', 'j_miller', 'k_miller'): return str(rng.choice([1, 1, 2, 0, -1, 3]))
            if pn.endswith('_flag'): return str(rng.choice([2, 2, 1, 0]))
            if pn == 'Z': return str(rng.choice([1, 8, 14, 26, 47, 82, 92]))
            return str(rng.choice([0, 1, 2, 3]))
        if pn in ('theta', 'phi', 'rel_angle'): return xapi.hx(rng.choice([1.0, 0.5, math.pi / 3, 2.0]))
        if pn == 'density': return xapi.hx(rng.choice([1.0, 2.5, 0.0]))
        if pn == 'debye_factor': return xapi.hx(rng.choice([1.0, 0.5]))
        if pn in ('q', 'pz'): return xapi.hx(rng.choice([0.0, 0.5, 2.0]))
        return xapi.hx(rng.choice([1.0, 5.9, 8.0, 17.44, 30.0, 59.54, 100.0, round(rng.uniform(1.0, 200.0), 3)]))       # energies
    def call(self, fn, sig, name, fixed=None):
        a = [(fixed[k] if fixed and k in fixed else self.dflt(fn, k, ty, name)) for k, ty in enumerate(sig)]
        return '%s%s E' % (fn, ''.join(' ' + x for x in a))

    def dependents(self, name, cap=None):
        """one call of every method that takes a String / an object, about the entry `name` (a NIST name is a compound for the 22 *_CP functions and
        Refractive_Index*, a crystal name names the crystal of the crystal functions, a formula is parsed, ...; where the name means nothing to a
        method, C reports an error and Java must throw)"""
        ms = self.dep_methods
        if cap is not None and len(ms) > cap:
            must = [m for m in ms if m[0] in ('CS_Total_CP', 'Refractive_Index', 'GetCompoundDataNISTByName', 'GetRadioNuclideDataByName', 'Crystal_GetCrystal',
                                              'Crystal_UnitCellVolume', 'Crystal_F_H_StructureFactor', 'CompoundParser', 'Bragg_angle')]
            rest = [m for m in ms if m not in must]
            ms = sorted(must + self.rng.sample(rest, max(0, cap - len(must))))
        return [self.call(fn, sig, name) for fn, sig, r in ms]

    def on_slot(self, line, k, name):
        """a dependent call on the kept object instead of a fresh lookup by name (object-typed parameters only)"""
        t = line.split(' '); fn = t[0]
        sigs = [a for a, r in self.jm.get(fn, []) if len(a) == len(t) - 2]
        if not sigs: return None
        out = list(t); hit = False
        for i, ty in enumerate(sigs[0]):
            if ty not in PRIM and ty != 'String' and t[i + 1] == xapi.sarg(name): out[i + 1] = '$%d' % k; hit = True
        return ' '.join(out) if hit else None

    def session(self, fn, sig, ret, args_line, name, siblings, cap):
        """the history around ONE object-returning call `args_line` (about catalogue entry / string `name`)"""
        deps = self.dependents(name, cap)
        # calls on the kept object: the drivers resolve an object-typed parameter given by name through Crystal_GetCrystal(name), so `$1` stands for it
        # exactly when slot 1 was filled by that call
        cls_takes = [l2 for l2 in (self.on_slot(l, 1, name) for l in deps) if l2] if args_line == 'Crystal_GetCrystal %s E' % xapi.sarg(name) else []
        s = [args_line] + siblings + deps                                   # what the library says before anybody edits anything
        s += ['@0 ' + args_line, '@1 ' + args_line, '!mut 0 E',            # two results alive, the first is edited
              '!show 1 E'] + cls_takes                                      #   ... the second one is as it was, and computes as before
        s += ['@2 ' + args_line] + siblings + deps                          #   ... and so is everything the library answers
        s += ['!copy 3 2 E', '!mut 3 E', '!show 2 E',                       # a copy made by the public copy constructor is the caller's too
              '!copy 4 1 E', '!mut 1 E', '!show 4 E', '!mut 2 E', '!mut 4 E']           # ... in both directions; then everything handed out is edited
        s += [args_line] + siblings + deps
        s += ['!drop %d E' % k for k in range(5)]
        return s

    def generate(self):
        """-> list of dict(method, about, lines)"""
        cat = self.cat; rng = self.rng; out = []
        nist = cat['nist']; nuc = cat['nuclides']; cry = cat['crystals']
        cap = None          # every dependent method in both tiers (35 calls per block: a session is ~170 lines, the whole set runs in seconds)
        forms = list(xapi.FORMULAS_OK)
        some = lambda lst, k: lst if (not self.quick or len(lst) <= k) else sorted(rng.sample(lst, k))
        known = {}
        def add(fn, sig, ret, line, name, siblings=()):
            out.append(dict(method=fn, about=name, lines=self.session(fn, sig, ret, line, name, list(siblings), cap)))
        for fn, sig, ret in self.obj_methods:
            if fn == 'GetCompoundDataNISTByIndex' and sig == ('int',):
                for i, n in enumerate(nist):
                    add(fn, sig, ret, '%s %d E' % (fn, i), n, ['GetCompoundDataNISTByName %s E' % xapi.sarg(n)] + (['GetCompoundDataNISTList E'] if i % 30 == 0 else []))
                for i in (-1, len(nist)): add(fn, sig, ret, '%s %d E' % (fn, i), nist[0])
            elif fn == 'GetCompoundDataNISTByName' and sig == ('String',):
                for i, n in enumerate(nist): add(fn, sig, ret, '%s %s E' % (fn, xapi.sarg(n)), n, ['GetCompoundDataNISTByIndex %d E' % i])
                add(fn, sig, ret, '%s %s E' % (fn, xapi.sarg('no such compound')), 'no such compound')
            elif fn == 'GetRadioNuclideDataByIndex' and sig == ('int',):
                for i, n in enumerate(nuc): add(fn, sig, ret, '%s %d E' % (fn, i), n, ['GetRadioNuclideDataByName %s E' % xapi.sarg(n), 'GetRadioNuclideDataList E'])
                for i in (-1, len(nuc)): add(fn, sig, ret, '%s %d E' % (fn, i), nuc[0])
            elif fn == 'GetRadioNuclideDataByName' and sig == ('String',):
                for i, n in enumerate(nuc): add(fn, sig, ret, '%s %s E' % (fn, xapi.sarg(n)), n, ['GetRadioNuclideDataByIndex %d E' % i])
            elif fn == 'Crystal_GetCrystal' and sig == ('String',):
                for n in cry: add(fn, sig, ret, '%s %s E' % (fn, xapi.sarg(n)), n, ['Crystal_GetCrystalsList E'] if n in (cry[0], cry[-1]) else [])
                add(fn, sig, ret, '%s %s E' % (fn, xapi.sarg('NoSuchCrystal')), 'NoSuchCrystal')
            elif sig == () and ret == 'String[]':
                # a name list: afterwards every kind of lookup of its first, a middle and its last entry
                pool = nist if 'NIST' in fn else nuc if 'Nuclide' in fn else cry if 'Crystal' in fn else nist
                for n in (pool[0], pool[len(pool) // 2], pool[-1]): add(fn, sig, ret, '%s E' % fn, n, ['GetCompoundDataNISTList E', 'GetRadioNuclideDataList E', 'Crystal_GetCrystalsList E'])
            elif fn == 'CompoundParser' and sig == ('String',):
                for f in some(forms, 12) + some(nist, 3) + ['', 'h2o']: add(fn, sig, ret, '%s %s E' % (fn, xapi.sarg(f)), f)
            else:
                # any other object-returning method — Complex / double[] / String results today, whatever reflection finds tomorrow: arguments by type, about
                # entries of every catalogue and formulas
                names = some(nist, 4) + some(cry, 4) + some(nuc, 2) + some(forms, 4)
                if not any(x not in PRIM for x in sig): names = names[:6]
                for n in names: add(fn, sig, ret, self.call(fn, sig, n), n)
        return out

    # ---- run + judge
    def run(self, sessions, cenv=None, groups=12):
        """every session in order inside a process of each side (several processes, each with its share of the sessions) -> [(c answers, java answers)]"""
        if not sessions: return []
        k = max(1, min(groups, len(sessions)))
        parts = [list(range(i, len(sessions), k)) for i in range(k)]
        def one(idx):
            lines = [l for i in idx for l in sessions[i]['lines']]
            c = xdrv.run_driver([self.b['cdrv']], lines, cenv, None)
            j = xdrv.run_driver(self.b['jcmd'], lines, None, None)
            res = {}; pos = 0
            for i in idx:
                n = len(sessions[i]['lines']); res[i] = (c[pos:pos + n], j[pos:pos + n]); pos += n
            return res
        res = {}
        with ThreadPoolExecutor(max_workers=k) as ex:
            for r in ex.map(one, parts): res.update(r)
        return [res[i] for i in range(len(sessions))]

    def judge(self, lines, c_ans, j_ans, stats, cfg=''):
        """-> list of violations dict(i, what, cls, key, c, java) of one session; updates stats (counts, mutated paths)"""
        viols = []; made = {}; first = {}
        if any(a.startswith('died') for a in c_ans):
            stats['hist_sessions_c_aborted'] = stats.get('hist_sessions_c_aborted', 0) + 1; return viols
        for i, (l, ca, ja) in enumerate(zip(lines, c_ans, j_ans)):
            t = l.split(' ')
            if t[0] in HIST_OPS:
                if not ja.startswith('ok') or not ca.startswith('ok'):
                    viols.append(dict(i=i, key=l, cls='driver', what='a driver could not perform the session op', c=ca[:300], java=ja[:300]))
                elif t[0] == '!mut':
                    w = ja.split(' ')
                    stats['hist_writes'] = stats.get('hist_writes', 0) + int(w[1])
                    mp = stats.setdefault('hist_mutated_paths', {})
                    for x in w[2:]:
                        m = re.fullmatch(r'(.*?)(\d+)', x)
                        if m: mp[m.group(1)] = mp.get(m.group(1), 0) + int(m.group(2))
                elif t[0] == '!copy':
                    if ja.split(' ')[1:2] == ['1']: made[t[1]] = made.get(t[2])
                    else: made.pop(t[1], None)
                continue
            # an observation: translate into the plain call it is an observation of
            if t[0].startswith('@'):
                plain = ' '.join(t[1:]); pc = xdrv.parse_c(ca)
                if pc['kind'] == 'ok' and pc['code'] is None and ja.startswith('ok'): made[t[0][1:]] = plain
                else: made.pop(t[0][1:], None)
            elif t[0] == '!show':
                plain = made.get(t[1])
                if plain is None: continue
            else:
                plain = l
                if any(x.startswith('$') for x in t[1:-1]):
                    t2 = list(t); ok = True
                    for k, x in enumerate(t):
                        if x.startswith('$') and 0 < k < len(t) - 1:
                            src = made.get(x[1:])
                            if not src or not src.startswith('Crystal_GetCrystal s'): ok = False; break
                            t2[k] = src.split(' ')[1]               # the name the kept object was looked up by
                    if not ok: continue
                    plain = ' '.join(t2)
            stats['hist_observations'] = stats.get('hist_observations', 0) + 1
            v = self.chk.judge(plain, ca, ja, stats)
            if v:
                viols.append(dict(v, i=i, key=l, c=ca[:300], java=ja[:300])); continue
            # the Java port against itself: no public method changes the library's state, so the same call has the same answer at every point of a session
            if plain in first and first[plain][1] != ja:
                viols.append(dict(i=i, key=l, cls='history', c=ca[:300], java=ja[:300],
                                  what='the Java answer to `%s` changed within the session: line %d said %s' % (plain[:80], first[plain][0] + 1, first[plain][1][:120])))
            first.setdefault(plain, (i, ja))
        return viols

    def minimise(self, sess, v, cenv, cfg):
        """the session alone in fresh processes; then without the calls that are not needed to see the disagreement"""
        lines = sess['lines']
        def fails(ls):
            c = xdrv.run_driver([self.b['cdrv']], ls, cenv, None); j = xdrv.run_driver(self.b['jcmd'], ls, None, None)
            st = dict(_tight=True) if cfg == '@file' else {}
            vs = [x for x in self.judge(ls, c, j, st, cfg) if x['cls'] == v['cls']]
            return vs[0] if vs else None
        v1 = fails(lines[:v['i'] + 1])
        if not v1:
            # the whole session alone: it may disagree later than it did in the shared process (where an earlier session had already done the damage)
            c = xdrv.run_driver([self.b['cdrv']], lines, cenv, None); j = xdrv.run_driver(self.b['jcmd'], lines, None, None)
            vs = self.judge(lines, c, j, dict(_tight=True) if cfg == '@file' else {}, cfg)
            if not vs: return None, None
            v = vs[0]; v1 = v
        base = lines[:v['i'] + 1]
        t = base[-1].split(' ')
        keep_fn = {t[0] if not t[0].startswith('@') else t[1]}
        cand = [l for l in base[:-1] if l.split(' ')[0].startswith(('@', '!')) or l == base[-1] or (l.split(' ')[0] in keep_fn)] + [base[-1]]
        v2 = fails(cand) if len(cand) < len(base) else None
        if v2:
            # drop the session ops that are not needed either
            cur = cand
            for _ in range(2):
                for k in range(len(cur) - 2, -1, -1):
                    if not cur[k].startswith('!'): continue
                    tr = cur[:k] + cur[k + 1:]
                    vv = fails(tr)
                    if vv: cur = tr; v2 = vv
            return cur, v2
        return base, v1


class C19:
    id = 'C19'

    def run(self, tier, seed, replay=None):
        ctx = core.Ctx('C19', tier, seed)
        try:
            return self._run(ctx, replay)
        except BuildError as e:
            log('BUILD ERROR', str(e)[:3000])
            body = '# check C19 could not build the working tree or its own harness (the Java sources must compile against the Complex stub, pr_data_java.c against libprdata):\n# ' + str(e)[:4000].replace('\n', '\n# ') + '\n'
            path = core.write_replay(ctx, body, 'txt')
            print('VIOLATION property=C19 replay=%s no-failing-input-found' % path)
            core.write_evidence(ctx, 'translation_validation', dict(programs=0, disagreements_checked=0, samples=[], explanation='build failed: ' + str(e)[:500], trusted_base=TRUSTED), 1)
            return 1
        finally:
            ctx.close()

    # ------------------------------------------------------------------------------------------ build
    def build(self, ctx, data_root=None, tag=''):
        """C reference driver + xraylib.dat + Java classes, all from the working tree.  data_root: alternative root holding data/ (second data configuration)"""
        sc = ctx.sc; aux = sc.path('aux' + tag); os.makedirs(aux, exist_ok=True)
        t = time.time()
        if data_root is None:
            ctx.build_c()
            objs, cfl = ctx.objs, ctx.cfl
        else:
            # same prdata executable, other data directory -> other generated tables
            bdir = sc.path('b' + tag); os.makedirs(bdir, exist_ok=True)
            shutil.copy(sc.path('b', 'config.h'), bdir)
            p = subprocess.run([sc.path('prdata'), data_root, os.path.join(bdir, 'xrayglob_inline.c')], capture_output=True, text=True)
            if p.returncode != 0: raise BuildError('prdata failed on the second data configuration: ' + (p.stdout + p.stderr)[-2000:])
            objs = [o for o in ctx.objs if not o.endswith('xrayglob_inline.c.o')]
            o = sc.path('xrayglob_inline%s.o' % tag)
            cbuild.run(['clang-14'] + cbuild.cflags(REPO, bdir) + ['-O0', '-g0', '-w', '-fsanitize=address', '-c', os.path.join(bdir, 'xrayglob_inline.c'), '-o', o])
            objs = objs + [o]; cfl = ctx.cfl
        protos = xapi.c_protos(REPO, sc.path('b'), aux, with_aux=True)
        xapi.gen_c_driver(protos, os.path.join(aux, 'xdrv_gen.inc'))
        ssc = _Sub(sc, tag)
        cdrv, _ = xdrv.build_c_driver(ssc, objs, cfl, aux)
        ctx.tick('c_build' + tag, t); t = time.time()
        # xraylib.dat, Java classes
        jd = sc.path('java' + tag)
        dat = build_java_dat(sc, jd, data_root)
        srcs, extra = build_java_classes(jd)
        pj = subprocess.run(['javac', '-encoding', 'UTF-8', '-nowarn', '-cp', os.path.join(jd, 'classes'), '-d', os.path.join(jd, 'classes'),
                             os.path.join(xdrv.HARNESS, 'java', 'XrlDrv.java')], capture_output=True, text=True)
        if pj.returncode != 0: raise BuildError('javac failed on the driver (a public member it prints has changed?): ' + (pj.stdout + pj.stderr)[-3000:])
        imports = sorted(set(re.findall(r'^import\s+([\w\.]+);', ''.join(open(s, errors='replace').read() for s in srcs + extra), re.M)))
        foreign = [i for i in imports if not i.startswith('java.') and i != 'org.apache.commons.math3.complex.Complex']
        if foreign: raise BuildError('the Java sources import something the harness does not provide: %s' % foreign)
        ctx.tick('java_build' + tag, t)
        jcmd = ['java', '-Xss16m', '-XX:+UseSerialGC', '-XX:TieredStopAtLevel=1', '-cp', os.path.join(jd, 'classes'), 'XrlDrv']
        return dict(cdrv=cdrv, jcmd=jcmd, protos=protos, dat_size=os.path.getsize(dat), java_sources=[os.path.basename(s) for s in srcs + extra])

    def build_kissel(self, ctx, kind='synth'):
        sc = ctx.sc; root = sc.path('kroot' + kind); os.makedirs(os.path.join(root, 'data'), exist_ok=True)
        for f in os.listdir(os.path.join(REPO, 'data')):
            src = os.path.join(REPO, 'data', f); dst = os.path.join(root, 'data', f)
            if f != 'kissel_pe.dat' and os.path.isfile(src) and not os.path.exists(dst): os.symlink(src, dst)
        with open(sc.path('edges.txt'), 'w') as f:
            for Z, es in self.edges_c.items():
                for s_, e in enumerate(es):
                    if e: f.write('%d %d %.17g\n' % (Z, s_, e))
        if kind == 'real':   # the Kissel table regenerated from the raw files of data/kissel (port of kissel.pro)
            p = subprocess.run([sys.executable, os.path.join(VERIF, 'tools', 'regen_kissel.py'), os.path.join(REPO, 'data', 'kissel'), os.path.join(root, 'data', 'kissel_pe.dat')], capture_output=True, text=True)
        else:
            p = subprocess.run([sys.executable, os.path.join(VERIF, 'tools', 'synth_kissel.py'), sc.path('edges.txt'), os.path.join(root, 'data', 'kissel_pe.dat')], capture_output=True, text=True)
        if p.returncode != 0: raise BuildError('%s kissel table failed: ' % kind + p.stderr[-1000:])
        return self.build(ctx, data_root=root, tag='K' + kind)

    # ------------------------------------------------------------------------------------------ compare
    def judge(self, line, c_ans, j_ans, stats):
        v = self.judge0(line, c_ans, j_ans, stats)
        if v and v['cls'] in ('value', 'no-exception', 'spurious-exception') and self.at_split_edge(line):
            # the energy lies on an absorption edge whose stored value differs by an ulp between the two tables (the C tables
            # pass through an 11-digit decimal print, xraylib.dat is a binary dump): the threshold comparison flips; not judged
            stats['edge_ulp_not_judged'] = stats.get('edge_ulp_not_judged', 0) + 1
            stats.setdefault('edge_ulp_examples', [])
            if len(stats['edge_ulp_examples']) < 3: stats['edge_ulp_examples'].append(line)
            return None
        return v

    def at_split_edge(self, line):
        t = line.split(' ')
        if len(t) < 3 or not re.fullmatch(r'-?\d+', t[1]): return False
        Z = int(t[1]); ec = self.edges_c.get(Z); ej = self.edges_j.get(Z)
        if not ec or not ej: return False
        for a in t[2:-1]:
            if a.startswith('x') and len(a) == 17:
                E = xapi.unhx(a)
                for x, y in zip(ec, ej):
                    if x is not None and y is not None and x != y and min(x, y) <= E <= max(x, y): return True
        return False

    def load_edges(self, b):
        q = ['EdgeEnergy %d %d E' % (Z, s) for Z in range(1, 121) for s in range(0, 31)]
        c, j = self.two_way(b, q, None)
        self.edges_c = {}; self.edges_j = {}
        for l, ca, ja in zip(q, c, j):
            Z = int(l.split(' ')[1]); pc = xdrv.parse_c(ca); pj = xdrv.parse_w(ja)
            self.edges_c.setdefault(Z, []).append(xapi.unhx(pc['vals'][0]) if pc['kind'] == 'ok' and pc['code'] is None else None)
            self.edges_j.setdefault(Z, []).append(xapi.unhx(pj['vals'][0]) if pj['kind'] == 'ok' and pj['vals'] else None)
        return sum(1 for Z in self.edges_c for x, y in zip(self.edges_c[Z], self.edges_j[Z]) if x is not None and y is not None and x != y)

    def judge0(self, line, c_ans, j_ans, stats):
        fn = line.split(' ')[0]
        c = xdrv.parse_c(c_ans); j = xdrv.parse_w(j_ans)
        if c['kind'] == 'died':
            stats['c_aborts'] = stats.get('c_aborts', 0) + 1; return None       # the reference has no defined answer here (C04's subject)
        if c['kind'] != 'ok' or j['kind'] not in ('ok', 'throw'):
            return dict(what='unparsable answer or driver failure', cls='driver')
        if c['code'] is not None:
            if j['kind'] == 'throw':
                k = 'exc:' + j['cls']; stats[k] = stats.get(k, 0) + 1
                if xapi.unesc(j['msg']) != xapi.unesc(c['msg'] or ''): stats['message_differs'] = stats.get('message_differs', 0) + 1
                return None
            return dict(what='C reports an error (%s) but Java returns a value' % xapi.unesc(c['msg'] or '')[:60], cls='no-exception')
        if j['kind'] == 'throw':
            return dict(what='C succeeds but Java throws %s(%s)' % (j['cls'], xapi.unesc(j['msg'])[:60]), cls='spurious-exception')
        if len(c['vals']) != len(j['vals']):
            return dict(what='result shapes differ (%d vs %d values)' % (len(c['vals']), len(j['vals'])), cls='shape')
        rel = LOOSE.get(fn, (REL_TOL, ''))[0] if not (stats.get('_tight') and fn in CRYSTAL_FNS) else REL_TOL
        absl = 0.0
        if fn in CRYSTAL_FNS:
            sf = fn.startswith('Crystal_F_H') or fn == 'Q_scattering_amplitude'
            # structure factors are sums of up to ~100 terms of size ~Z that cancel for forbidden reflections: an absolute floor
            # (1e-9 on equal data; on the float-literal table the 5e-7 position error x 2 pi |hkl| x sum of |f| gives ~1e-2)
            absl = (1e-9 if sf else 0.0) if stats.get('_tight') else (2e-2 if sf else 2e-6)
        for k, (a, b) in enumerate(zip(c['vals'], j['vals'])):
            if a == b: continue
            if a.startswith('x') and b.startswith('x'):
                x, y = xapi.unhx(a), xapi.unhx(b)
                if close(x, y, rel) or abs(x - y) <= absl:
                    if x != y and math.isfinite(x) and math.isfinite(y) and max(abs(x), abs(y)) > 0:
                        dv = abs(x - y) / max(abs(x), abs(y)); key = 'max_rel_dev_loose' if (fn in CRYSTAL_FNS and not stats.get('_tight')) else 'max_rel_dev'
                        if abs(x - y) > absl and dv > stats.get(key, 0): stats[key] = dv; stats[key + '_at'] = line
                        pf = stats.setdefault('per_method_max_rel_dev', {})
                        if abs(x - y) > absl and dv > pf.get(fn, 0) and not (fn in CRYSTAL_FNS and not stats.get('_tight')): pf[fn] = dv
                    continue
                return dict(what='value %d differs: C %.17g, Java %.17g (rel %.3g)' % (k, x, y, abs(x - y) / max(abs(x), abs(y), 1e-300)), cls='value')
            return dict(what='value %d differs: C %s, Java %s' % (k, a[:60], b[:60]), cls='value')
        return None

    def two_way(self, b, lines, chunk, cenv=None):
        with ThreadPoolExecutor(max_workers=2) as ex:
            fc = ex.submit(xdrv.run_driver, [b['cdrv']], lines, cenv, chunk, 8)
            fj = ex.submit(xdrv.run_driver, b['jcmd'], lines, None, (chunk * 5) if chunk else None, 6)
            return fc.result(), fj.result()

    def methods(self, b):
        a = xdrv.run_driver(b['jcmd'], ['!methods'], chunk=None)[0].split(' ')[1:]
        out = {}
        for m in a:
            mm = re.fullmatch(r'(\w+)\((.*)\)->(.+)', m)
            out.setdefault(mm.group(1), []).append(([x for x in mm.group(2).split(',') if x], mm.group(3)))
        return out

    def classes(self, b):
        """public fields (final or MUTABLE), array getters and copy constructors of every class a public static method returns, by reflection"""
        return xdrv.run_driver(b['jcmd'], ['!classes'], chunk=None)[0].split(' ')[1:]

    def account_session(self, hist, se, c, j, stats, dist, viols, cfg, minimise=True):
        d = dist.setdefault('history:' + se['method'] + cfg, dict(calls=0, ok=0, err=0, c_abort=0, disagree=0))
        d['calls'] += len(se['lines'])
        for l, ca in zip(se['lines'], c):
            pc = xdrv.parse_c(ca)
            if pc['kind'] == 'ok' and pc['code'] is None: d['ok'] += 1
            elif pc['kind'] == 'ok': d['err'] += 1
            elif pc['kind'] == 'died': d['c_abort'] += 1
            elif l.split(' ')[0].startswith('@') and ca.startswith('bad-op'): se['c_bad_op'] = True
        tight = stats.get('_tight')
        if cfg == '@file': stats['_tight'] = True
        try:
            vs = hist.judge(se['lines'], c, j, stats, cfg)
        finally:
            if not tight: stats.pop('_tight', None)
        if not vs: return
        d['disagree'] += len(vs)
        v = vs[0]; lines = se['lines'][:v['i'] + 1]
        # the failing input is a session that fails when run ALONE in fresh processes (under a changed library an earlier session of the same process may
        # already have damaged the entry): per class (method, kind) sessions are re-run alone until one is confirmed (at most 4 tries a class, 60 in all)
        key = (se['method'], v['cls'], cfg); tr = self._hist_tries = getattr(self, '_hist_tries', {})
        if minimise and tr.get(key, 0) >= 0 and tr.get(key, 0) < 4 and sum(abs(x) for x in tr.values()) < 60:
            cenv = dict(XDRV_CRYSTALS=os.path.join(REPO, 'data', 'Crystals.dat')) if cfg == '@file' else None
            ml, mv = hist.minimise(se, v, cenv, cfg)
            if ml: lines = ml; v = dict(mv, alone=True); tr[key] = -1 - tr.get(key, 0)          # confirmed: negative
            else: v = dict(v, alone=False); tr[key] = tr.get(key, 0) + 1
        elif minimise: v = dict(v, alone=None)
        else: v = dict(v, alone=True)
        viols.append(dict(v, session=lines, method=se['method'], about=se['about'], cfg=cfg, more=len(vs) - 1))

    def plan(self, ctx, b):
        """methods with a C counterpart; signature agreement is part of the comparison"""
        jm = self.methods(b); protos = {p['name']: p for p in b['protos']}; self.jm = jm
        JT = {'int': 'int', 'double': 'double', 'str': 'String', 'cs': 'Crystal_Struct'}
        scalar = []; sig_mismatch = []
        for n, p in protos.items():
            if n not in jm or not xapi.is_simple(p): continue
            want = [JT[t] for _, t in p['params'][:-1]]
            if not any(a == want for a, r in jm[n]): sig_mismatch.append('%s: C (%s) vs Java %s' % (n, ','.join(want), jm[n])); continue
            scalar.append(n)
        hand = ['CompoundParser', 'AtomicNumberToSymbol', 'GetCompoundDataNISTByName', 'GetCompoundDataNISTByIndex', 'GetCompoundDataNISTList',
                'GetRadioNuclideDataByName', 'GetRadioNuclideDataByIndex', 'GetRadioNuclideDataList', 'Refractive_Index', 'Atomic_Factors', 'Crystal_GetCrystalsList'] + list(CRYSTAL_FNS)
        missing_java = [h for h in hand if h not in jm]
        java_only = sorted(n for n in jm if n not in protos)
        c_only = sorted(n for n, p in protos.items() if n not in jm and any(t == 'errpp' for _, t in p['params']))
        return dict(scalar=sorted(scalar), hand=[h for h in hand if h in jm], sig_mismatch=sig_mismatch, missing_java=missing_java, java_only=java_only, c_only=c_only)

    def _run(self, ctx, replay):
        known = xdrv.load_findings('C19', FINDINGS_FILE)
        b = self.build(ctx)
        plan = self.plan(ctx, b)
        self.split_edges = self.load_edges(b)
        ln = xapi.macro_ranges(REPO)['names']['line']
        self.line_names = {}
        for k in sorted(ln, key=lambda k: (len(k), k)): self.line_names.setdefault(ln[k], k)
        stats = {}; dist = {}; viols = []; n_eval = 0
        problems = []
        # ---- the Java MODEL: Xraylib.java's static numeric methods machine-translated to Lean on every run (tools/j2lean.py), tied to the real
        #      Java by execution, and 105 theorems `java_eq_c_*` against the machine-translated C (lean/Xrl/Props/C19.lean)
        if not replay:
            try:
                from props.c19_model import java_model_step
                mrep = dict(problems=[], proof_broken=[], tie_broken=[])
                ctx.c19_build = b
                java_model_step(ctx, mrep)
                problems += ['theorem no longer checks: ' + t for t in mrep['proof_broken']] + ['Java model tie: ' + t for t in mrep['tie_broken']] + mrep['problems']
            except BuildError as ex:
                problems.append('Java model step could not build: ' + str(ex)[:400])
        if plan['sig_mismatch']: problems.append('signatures differ between C and Java: ' + '; '.join(plan['sig_mismatch'][:5]))
        if plan['missing_java']: problems.append('Java lacks methods the comparison expects: %s' % plan['missing_java'])
        def account(line, ca, ja, cfg=''):
            nonlocal n_eval
            n_eval += 1
            fn = line.split(' ')[0]
            d = dist.setdefault(fn + cfg, dict(calls=0, ok=0, err=0, c_abort=0, disagree=0))
            d['calls'] += 1
            c = xdrv.parse_c(ca)
            if c['kind'] == 'ok' and c['code'] is None: d['ok'] += 1
            elif c['kind'] == 'ok': d['err'] += 1
            else: d['c_abort'] += 1
            v = self.judge(line, ca, ja, stats)
            if v:
                d['disagree'] += 1
                viols.append(dict(v, key=line, c=ca[:300], java=ja[:300], cfg=cfg))
        samples = []
        if replay:
            rl = []; rsess = []; cur = None
            for l in open(replay):
                l = l.strip()
                m = re.match(r'# session(?: cfg=(\S+))?(?: method=(\S+))?', l)
                if m: cur = dict(cfg=(m.group(1) or '').replace('-', ''), method=m.group(2) or '?', about='replay', lines=[]); rsess.append(cur); continue
                if l.startswith('# end-session'): cur = None; continue
                if not l or l.startswith('#'): continue
                (cur['lines'] if cur is not None else rl).append(l)
            if any(l.split(' ')[0].startswith(('@', '!')) for l in rl):       # session lines without a header: one session
                rsess.append(dict(cfg='', method='?', about='replay', lines=rl)); rl = []
            if not rl and not rsess: log('replay file names no call; running the whole check'); replay = None
            else:
                c, j = self.two_way(b, rl, None)
                for l, ca, ja in zip(rl, c, j):
                    print('%s\n   C    : %s\n   Java : %s' % (l, ca[:300], ja[:300])); account(l, ca, ja)
                if rsess:
                    hist = History(self, ctx, b, self.jm, None, None)
                    for sess in rsess:       # each session in fresh processes
                        cenv = dict(XDRV_CRYSTALS=os.path.join(REPO, 'data', 'Crystals.dat')) if sess['cfg'] == '@file' else None
                        (c, j), = hist.run([sess], cenv, 1)
                        for l, ca, ja in zip(sess['lines'], c, j): print('%s\n   C    : %s\n   Java : %s' % (l, ca[:300], ja[:300]))
                        self.account_session(hist, sess, c, j, stats, dist, viols, sess['cfg'], minimise=False)
                        n_eval += len(sess['lines'])
        if not replay:
            tables = dict(protos=b['protos'], wrappers=[], scalar_functions=plan['scalar'])
            g = Gen(ctx, tables, b['cdrv'], cpp=False)
            lines, rule = g.stateless()
            lines = [l for l in lines if l.split(' ')[0] in plan['scalar'] or l.split(' ')[0] in plan['hand'] or l.split(' ')[0] == 'SymbolToAtomicNumber']
            lines = core_corpus('C19') + lines
            t = time.time()
            c, j = self.two_way(b, lines, 5000)
            ctx.tick('run', t)
            for l, ca, ja in zip(lines, c, j): account(l, ca, ja)
            # crystal methods once more, at the default tolerance, against the C functions working on the data file itself
            cl = [l for l in lines if l.split(' ')[0] in CRYSTAL_FNS or l.startswith('Crystal_GetCrystalsList')]
            c2, j2 = self.two_way(b, cl, None, dict(XDRV_CRYSTALS=os.path.join(REPO, 'data', 'Crystals.dat')))
            stats['_tight'] = True
            for l, ca, ja in zip(cl, c2, j2): account(l, ca, ja, '@file')
            stats.pop('_tight')
            # second data configuration: synthetic Kissel tables, to drive the Kissel / cascade code of both implementations
            t = time.time()
            kre = re.compile(r'Kissel|Photo_Total|Photo_Partial|^ElectronConfig$|^P[LM]\d_')
            kl = [l for l in lines if kre.search(l.split(' ')[0])]
            for kind in (('real', 'synth') if ctx.tier == 'thorough' else ('real',)):      # the regenerated table is the configuration the property names: always run
                bk = self.build_kissel(ctx, kind)
                ck, jk = self.two_way(bk, kl, 5000)
                for l, ca, ja in zip(kl, ck, jk): account(l, ca, ja, '@kissel' if kind == 'synth' else '@kissel-real')
                stats.setdefault('kissel_configs', []).append(kind)
            ctx.tick('kissel_config', t)
            # call HISTORIES: every object-returning method (enumerated by reflection), the returned objects edited by the caller in every public mutable part
            t = time.time()
            hist = History(self, ctx, b, self.jm, g.catalog, g.ranges)
            sess = [dict(method='corpus', about='corpus/C19-*.lines', lines=ls) for ls in core_sessions('C19')] + hist.generate()
            res = hist.run(sess)
            for se, (hc, hj) in zip(sess, res): self.account_session(hist, se, hc, hj, stats, dist, viols, '')
            n_eval += sum(len(se['lines']) for se in sess)
            cs = [se for se in sess if any(l.split(' ')[0].lstrip('@') in CRYSTAL_FNS or 'Crystal_GetCrystalsList' in l for l in se['lines'][:1])]
            cenv = dict(XDRV_CRYSTALS=os.path.join(REPO, 'data', 'Crystals.dat'))
            res = hist.run(cs, cenv)
            stats['_tight'] = True
            for se, (hc, hj) in zip(cs, res): self.account_session(hist, se, hc, hj, stats, dist, viols, '@file')
            stats.pop('_tight')
            n_eval += sum(len(se['lines']) for se in cs)
            covered = sorted({se['method'] for se in sess})
            stats['history'] = dict(object_returning_methods=['%s(%s)->%s' % (n, ','.join(a), r) for n, a, r in hist.obj_methods],
                                    dependent_methods=len(hist.dep_methods), sessions=len(sess), sessions_file_config=len(cs),
                                    lines=sum(len(se['lines']) for se in sess) + sum(len(se['lines']) for se in cs),
                                    sessions_per_method={m: sum(1 for se in sess if se['method'] == m) for m in covered},
                                    classes=self.classes(b))
            missing = [n for n, a, r in hist.obj_methods if n not in covered]
            if missing: problems.append('object-returning Java methods without a history session: %s' % missing)
            no_twin = sorted({se['method'] for se in sess if se.get('c_bad_op')})
            if no_twin: problems.append('the C reference driver has no twin for the history of: %s (harness/xdrv.c dispatch_hist)' % no_twin)
            ctx.tick('history', t)
            samples = [dict(call=lines[i], c=c[i][:200], java=j[i][:200]) for i in sorted(ctx.rng.sample(range(len(lines)), 8))]
            ctx.rule = rule.replace('every _XRL_FUNCTION wrapper', 'every Java method with a C counterpart (%d scalar + %d object/crystal methods)' % (len(plan['scalar']), len(plan['hand'])))
        return self.report(ctx, b, plan, known, problems, viols, stats, dist, samples, n_eval, replay)

    # ------------------------------------------------------------------------------------------ classify + report
    def classify(self, v, known):
        """-> finding key for a disagreement: method + argument class"""
        t = v['key'].split(' ')
        fn = t[0]
        if v.get('session') is not None:
            return '%s history %s' % (v.get('method', '?'), v['cls'])
        if fn == 'LineEnergy' and len(t) >= 3:          # the C repairs of this function are per line macro: so are the findings
            return '%s line=%s %s' % (fn, self.line_names.get(int(t[2]), t[2]), v['cls'])
        return '%s %s' % (fn, v['cls'])

    def shrink(self, b, v):
        line = v['key']
        st = {}
        def fails(l):
            c, j = self.two_way(b, [l], None)
            vv = self.judge(l, c[0], j[0], st)
            return vv is not None and vv['cls'] == v['cls']
        t = line.split(' ')
        for _ in range(3):
            changed = False
            for i in range(1, len(t) - 1):
                cands = []
                if re.fullmatch(r'-?\d+', t[i]):
                    x = int(t[i]); cands = [c for c in (0, 1, x // 2, x - 1 if x > 0 else x + 1) if c != x]
                elif t[i].startswith('x') and len(t[i]) == 17:
                    x = xapi.unhx(t[i]); cands = [xapi.hx(c) for c in (1.0, 10.0, float(round(x)) if math.isfinite(x) else 0.0) if c != x]
                elif t[i].startswith('s') and len(t[i]) > 2:
                    s = xapi.unesc(t[i][1:]); cands = [xapi.sarg(s[:len(s) // 2]), xapi.sarg(s[1:]), xapi.sarg(s[:-1])]
                for c in cands:
                    t2 = t[:i] + [str(c)] + t[i + 1:]
                    if fails(' '.join(t2)): t = t2; changed = True; break
            if not changed: break
        return ' '.join(t)

    def report(self, ctx, b, plan, known, problems, viols, stats, dist, samples, n_eval, replay):
        kmap = {k[0]: k[1] for k in known}
        new = []; seen_known = {}
        for v in viols:
            key = self.classify(v, known)
            if key in kmap: seen_known.setdefault(key, []).append(v)
            else: new.append(v)
        for key, vs in seen_known.items():
            print('KNOWN-FINDING: property=C19 %s: %s' % (key, kmap[key]))
        exit_code = 0
        if new:
            body = '# violation of C19: the Java method and the C function of the same name disagree (replay: ./check C19 --replay <this file>)\n'
            seen = set(); k = 0
            # of the disagreeing sessions of a class the one confirmed alone speaks for the class
            best = {}
            for v in new:
                if v.get('session') is not None:
                    c = self.classify(v, known)
                    if c not in best or (v.get('alone') is True and best[c].get('alone') is not True): best[c] = v
            for v in new:
                cls = self.classify(v, known)
                if cls in seen: continue
                if v.get('session') is not None: v = best[cls]
                seen.add(cls); k += 1
                if k > 15: break
                if v.get('session') is not None and v.get('alone') is not True:
                    body += '# [%s] %s — seen only in a process in which earlier sessions had run (the session does not disagree when run alone): no lines given\n' % (cls, v['what'])
                    continue
                if v.get('session') is not None:
                    body += ('# [%s] %s\n# C    : %s\n# Java : %s\n# the lines below are ONE session: run in order in one process on each side (./check C19 --replay runs it so); the LAST line is the one that disagrees\n'
                             '# session cfg=%s method=%s about=%s\n%s\n# end-session\n') % (cls, v['what'], v['c'], v['java'], v.get('cfg') or '-', v['method'], xapi.esc(str(v['about'])), '\n'.join(v['session']))
                    continue
                key = self.shrink(b, v) if k <= 4 else v['key']
                body += '# [%s] %s\n# C    : %s\n# Java : %s\n%s\n' % (cls, v['what'], v['c'], v['java'], key)
            body += '# %d disagreeing calls in %d classes (method, kind)\n' % (len(new), len({self.classify(v, known) for v in new}))
            for pb in problems: body += '# also: %s\n' % pb
            path = core.write_replay(ctx, body)
            has_input = any(l.strip() and not l.startswith('#') for l in body.splitlines())
            print('VIOLATION property=C19 replay=%s%s' % (path, '' if has_input else ' no-failing-input-found'))
            exit_code = 1
        elif problems:
            body = '# C19: the comparison could not be set up as designed; no disagreeing call was found among %d\n' % n_eval
            for pb in problems: body += '# %s\n' % pb
            path = core.write_replay(ctx, body)
            print('VIOLATION property=C19 replay=%s no-failing-input-found' % path)
            exit_code = 1
        tot = dict(calls=sum(d['calls'] for d in dist.values()), ok=sum(d['ok'] for d in dist.values()), err=sum(d['err'] for d in dist.values()),
                   c_abort=sum(d['c_abort'] for d in dist.values()), disagree=sum(d['disagree'] for d in dist.values()))
        log('C19 distribution: %d methods, %d calls: %d C ok, %d C errors, %d C aborts (not judged); max rel. deviation %.3g (crystal methods %.3g); exception classes %s' % (
            len(dist), tot['calls'], tot['ok'], tot['err'], tot['c_abort'], stats.get('max_rel_dev', 0), stats.get('max_rel_dev_loose', 0), {k[4:]: v for k, v in stats.items() if k.startswith('exc:')}))
        cov = dict(programs=len(plan['scalar']) + len(plan['hand']) + 1, disagreements_checked=n_eval, samples=samples,
                   trusted_base=TRUSTED, rule=getattr(ctx, 'rule', 'replay of %s' % replay),
                   tolerance=dict(default_rel=REL_TOL, loose=[dict(methods=sorted(k for k in LOOSE if LOOSE[k][1] == why), rel=[LOOSE[k][0] for k in LOOSE if LOOSE[k][1] == why][0], why=why)
                                                               for why in sorted({v[1] for v in LOOSE.values()})]),
                   methods_compared=dict(scalar=plan['scalar'], object=plan['hand']),
                   java_methods_without_c_counterpart=plan['java_only'], c_error_functions_without_java_method=plan['c_only'],
                   totals=tot, stats=stats, distribution=dist,
                   known_findings_reproduced=[dict(key=k, calls=len(vs), example=vs[0]['key']) for k, vs in seen_known.items()],
                   disagreement_classes=_classes(self, viols, known),
                   disagreements_new=len(new), problems=problems, xraylib_dat_bytes=b['dat_size'], java_sources=b['java_sources'],
                   obligations=int(ctx.coverage.get('java_theorems', 0)), discharged=int(ctx.coverage.get('java_theorems_discharged', 0)),
                   checker_cmd='cd lean && lake build Xrl.Props.C19  (then `#print axioms` on each theorem)',
                   java_model=dict(ctx.coverage),
                   scope_note='the static numeric methods of Xraylib.java are machine-translated to Lean on every run and %s of them are proved equivalent to the machine-translated C '
                              '(theorems java_eq_c_*); the remaining methods (strings, crystals, complex numbers, compound data) and the data file xraylib.dat are covered by '
                              'translation validation: differential execution of the real Java against the real C, enumeration / seeded sampling' % ctx.coverage.get('java_methods_with_theorem', '?'),
                   provenance=dict(tree=cbuild.tree_hash(REPO, ('java', 'src', 'include'))))
        core.write_evidence(ctx, 'proof' if cov.get('obligations') else 'translation_validation', cov, len(new) + (1 if problems and not new else 0),
                            ['the C library is the reference (its own properties are C01-C17)', 'shipped data configuration: data/kissel_pe.dat of the working tree (see report for the Kissel tables)'])
        log('C19 %s: exit %d (%.1fs; %d methods, %d calls compared, %d disagreements new, %d known)' % (ctx.tier, exit_code, time.time() - ctx.t0,
            cov['programs'], n_eval, len(new), sum(len(v) for v in seen_known.values())))
        return exit_code

def _classes(chk, viols, known):
    out = {}
    for v in viols:
        k = chk.classify(v, known) + v.get('cfg', '')
        d = out.setdefault(k, dict(count=0, examples=[]))
        d['count'] += 1
        if len(d['examples']) < 3: d['examples'].append(dict(call=v['key'], what=v['what'], c=v['c'][:160], java=v['java'][:160]))
    return out

class _Sub:
    """view of a Scratch whose paths carry a tag (second build in the same scratch directory)"""
    def __init__(self, sc, tag): self.sc = sc; self.tag = tag
    def path(self, *p):
        if not self.tag: return self.sc.path(*p)
        return self.sc.path(*(list(p[:-1]) + [p[-1] + self.tag]))

CHECK = C19()
