"""C05 — totals, per-atom and differential cross sections obey their defining identities."""
import math
from vlib.runner import Check
from vlib import core
from vlib.core import hx, unhx

AVOGNUM = 0.602214129
K_PARTIAL = 'kissel_pe.c:62-67 CSb_Photo_Total adds 0 for a sub-shell whose table ends below E'

def val(ans):
    """-> float value if the call succeeded (slot E), None if it failed properly, 'bad' otherwise"""
    p = core.parse_answer(ans)
    if p['kind'] != 'ok': return 'bad'
    if p['slot'] == 'E': return p['vals'][0]
    if p['slot'].startswith('F') and p['vals'][0] == 0: return None
    return 'bad'

def mul_aw(v): return None if None in v else v[0] * v[1] / AVOGNUM
def div_aw(v): return None if None in v else v[0] * AVOGNUM / v[1]
def sum3(v): return None if None in v else (v[0] + v[1]) + v[2]

ID_ZE = {   # arguments: Z, E
    'CS_Total': (['CS_Photo', 'CS_Rayl', 'CS_Compt'], sum3),
    'CS_Total_Kissel': (['CS_Photo_Total', 'CS_Rayl', 'CS_Compt'], sum3),
    'CSb_Total': (['CS_Total', 'AtomicWeight!'], mul_aw),
    'CSb_Photo': (['CS_Photo', 'AtomicWeight!'], mul_aw),
    'CSb_Rayl': (['CS_Rayl', 'AtomicWeight!'], mul_aw),
    'CSb_Compt': (['CS_Compt', 'AtomicWeight!'], mul_aw),
    'CSb_Total_Kissel': (['CS_Total_Kissel', 'AtomicWeight!'], mul_aw),
    'CS_Photo_Total': (['CSb_Photo_Total', 'AtomicWeight!'], div_aw),
}
ID_ZET = {'DCSb_Rayl': (['DCS_Rayl', 'AtomicWeight!'], mul_aw), 'DCSb_Compt': (['DCS_Compt', 'AtomicWeight!'], mul_aw)}
ID_ZETP = {'DCSPb_Rayl': (['DCSP_Rayl', 'AtomicWeight!'], mul_aw), 'DCSPb_Compt': (['DCSP_Compt', 'AtomicWeight!'], mul_aw)}
ID_ZXE = {'CSb_FluorLine': (['CS_FluorLine', 'AtomicWeight!'], mul_aw), 'CSb_FluorShell': (['CS_FluorShell', 'AtomicWeight!'], mul_aw)}

class C05(Check):
    id = 'C05'
    module = 'Xrl.Props.C05'
    namespace = 'Xrl.C05'
    extra_modules = [('Xrl.Props.C05b', 'Xrl.C05'), ('Xrl.Props.C05c', 'Xrl.C05'), ('Xrl.Props.C05d', 'Xrl.C05')]
    functions = sorted(set(list(ID_ZE) + list(ID_ZET) + list(ID_ZETP) + list(ID_ZXE) + ['CS_Photo', 'CS_Rayl', 'CS_Compt', 'DCS_Rayl', 'DCS_Compt', 'DCSP_Rayl', 'DCSP_Compt']))
    assumptions = ['theorems assume vecOkB of the cross-section / form-factor / scattering-function tables (executed on the dumped tables by C02\'s check)',
                   'the differential and Kissel-total theorems carry hW: wherever a form-factor, scattering-function or Kissel table exists the element has an atomic weight '
                   '(six functions divide by AtomicWeight without testing it; latent: Spec.weightFailures is executed on the tables of every run and must be empty; the full statements are refuted on a synthetic table by *_full_fails)']

    def table_ends(self, ctx):
        """first / last knot (keV) of the photo, Rayleigh and Compton tables of every element, from the dumped tables"""
        if not hasattr(ctx, '_c05ends'):
            req = ['vec %s %d' % (t, Z) for Z in range(1, 121) for t in ('E_Photo_arr', 'E_Rayl_arr', 'E_Compt_arr')]
            out = ctx.run_model(req); ends = {}
            for r_, o in zip(req, out):
                v = [unhx(x) for x in o.split(' ')[1:] if x]
                if len(v) >= 2: ends.setdefault(int(r_.split(' ')[2]), []).extend([math.exp(v[0]) / 1000.0, math.exp(v[-1]) / 1000.0])
            ctx._c05ends = ends
        return ctx._c05ends

    def energies(self, ctx, Z):
        r = ctx.rng
        base = [0.0, -1.0, 0.5, 1.0, 1.0001, 5.0, 8.979, 20.0, 88.0, 100.0, 799.9, 800.0, 800.03, 1000.0, 1e6]
        # both sides of every end of each component table, and the middle of every window between ends that differ
        # (a part undefined there while the others are defined: the aggregate must fail, not return a partial sum)
        ends = sorted(set(self.table_ends(ctx).get(Z, [])))
        edge = [e * f for e in ends for f in (1 - 1e-7, 1 + 1e-7)] + [(a * b) ** 0.5 for a, b in zip(ends, ends[1:]) if b > a * (1 + 1e-9)]
        return base + edge + [math.exp(r.uniform(math.log(0.9), math.log(900))) for _ in range(4 if ctx.tier == 'quick' else 40)]

    def cases(self, ctx):
        if hasattr(ctx, '_c05'): return ctx._c05
        out = []
        thetas = [0.0, 0.3, math.pi / 2, 1e-4, math.pi, 2e-8, 1e-6, math.pi - 1e-6, -0.7, 7.0]     # incl. near-forward / near-backward
        phis = [0.0, 1.0, math.pi / 2]
        for Z in list(range(-1, 123)):
            for E in self.energies(ctx, Z):
                for fn in ID_ZE: out.append((ID_ZE, fn, (Z,), (E,)))
                for th in (thetas[:4] + [ctx.rng.choice(thetas[4:])] if ctx.tier == 'quick' else thetas):
                    for fn in ID_ZET: out.append((ID_ZET, fn, (Z,), (E, th)))
                    for ph in phis[: (1 if ctx.tier == 'quick' else 3)]:
                        for fn in ID_ZETP: out.append((ID_ZETP, fn, (Z,), (E, th, ph)))
            for x in (0, 1, 2, 3, 4, -1, -2, -3, -29, -90, 28):
                for E in (1.0, 9.0, 30.0, 120.0):
                    for fn in ID_ZXE: out.append((ID_ZXE, fn, (Z, x), (E,)))
        ctx._c05 = out
        return out

    @staticmethod
    def line(fn, ints, dbls, mode='E'):
        return ' '.join([fn] + [str(i) for i in ints] + [hx(d) for d in dbls] + [mode])

    def corr_lines(self, ctx):
        seen = set(); out = []
        for tab, fn, ints, dbls in self.cases(ctx):
            for f in [fn] + [c.rstrip('!') for c in tab[fn][0]]:
                aw = f.startswith('AtomicWeight')
                l = self.line(f, ints[:1] if aw else ints, () if aw else dbls)
                if l not in seen: seen.add(l); out.append(l)
        return out + [l[:-1] + 'N' for l in out[::7]]

    def search(self, ctx):
        cases = self.cases(ctx)
        lines = []; index = {}
        def need(l):
            if l not in index: index[l] = len(lines); lines.append(l)
            return index[l]
        plan = []
        for tab, fn, ints, dbls in cases:
            t = need(self.line(fn, ints, dbls))
            comps = []
            for c in tab[fn][0]:
                if c.endswith('!'): comps.append(need(self.line(c[:-1], ints[:1], ())))
                else: comps.append(need(self.line(c, ints, dbls)))
            plan.append((fn, t, comps, tab[fn][1]))
        ans = ctx.run_c(lines)
        viol = []; nontriv = 0; stats = {}
        for fn, t, comps, comb in plan:
            got = val(ans[t]); cv = [val(ans[i]) for i in comps]
            if 'bad' in cv or got == 'bad':
                viol.append(dict(key=lines[t], got=ans[t], expected='a value or a proper failure', what='component or aggregate returned a malformed outcome: ' + '; '.join(ans[i] for i in comps)))
                continue
            exp = comb(cv)
            if exp is None:
                if got is not None:
                    viol.append(dict(key=lines[t], got=ans[t], expected='fails (a part is undefined: %s)' % [lines[i] for i, v in zip(comps, cv) if v is None][:1], what='aggregate returned a number although a part is undefined'))
            else:
                nontriv += 1
                if got is None or not core.close(got, exp, 1e-12):
                    viol.append(dict(key=lines[t], got=ans[t], expected='value %r = identity over %s' % (exp, [lines[i] for i in comps]), what='defining identity violated'))
        # ---- differential identities: DCS_Rayl = DCS_Thoms·FF_Rayl(q)²·N_A/A, DCS_Compt = DCS_KN·SF_Compt(q)·N_A/A with
        #      q = MomentTransf(E, θ), and the polarised twins; two phases because q is itself a library result
        dcases = sorted({(ints[0], dbls) for tab, fn, ints, dbls in cases if tab is ID_ZETP}, key=repr)
        q_lines = sorted({self.line('MomentTransf', (), d[:2]) for _, d in dcases})
        qv = dict(zip(q_lines, [val(a) for a in ctx.run_c(q_lines)]))
        dl = []; dindex = {}
        def dneed(l):
            if l not in dindex: dindex[l] = len(dl); dl.append(l)
            return dindex[l]
        dplan = []
        for Z, d in dcases:
            E, th, ph = d
            q = qv[self.line('MomentTransf', (), (E, th))]
            aw = dneed(self.line('AtomicWeight', (Z,), ()))
            ff = sf = None
            if q not in (None, 'bad'):
                ff = dneed(self.line('FF_Rayl', (Z,), (q,))); sf = dneed(self.line('SF_Compt', (Z,), (q,)))
            kern = dict(T=dneed(self.line('DCS_Thoms', (), (th,))), K=dneed(self.line('DCS_KN', (), (E, th))),
                        TP=dneed(self.line('DCSP_Thoms', (), (th, ph))), KP=dneed(self.line('DCSP_KN', (), (E, th, ph))))
            for fn, k, form, args in (('DCS_Rayl', 'T', ff, (E, th)), ('DCS_Compt', 'K', sf, (E, th)), ('DCSP_Rayl', 'TP', ff, (E, th, ph)), ('DCSP_Compt', 'KP', sf, (E, th, ph))):
                dplan.append((fn, dneed(self.line(fn, (Z,), args)), kern[k], form, aw, q))
        dans = ctx.run_c(dl)
        dn = 0
        for fn, t, k, form, aw, q in dplan:
            got = val(dans[t]); kv = val(dans[k]); av = val(dans[aw]); fv = val(dans[form]) if form is not None else None
            if 'bad' in (got, kv, av, fv) or q == 'bad':
                viol.append(dict(key=dl[t], got=dans[t], expected='a value or a proper failure', what='malformed outcome in a differential identity')); continue
            dn += 1
            if None in (kv, av, fv) or q is None:
                if got is not None:
                    viol.append(dict(key=dl[t], got=dans[t], expected='fails (a component is undefined)', what='differential cross section returned a number although kernel, form/scattering factor, momentum transfer or atomic weight is undefined'))
                continue
            if 'Rayl' in fn:
                exp = AVOGNUM / av * fv * fv * kv
            else:
                exp = AVOGNUM / av * fv * kv
            if exp == 0.0 and 'DCSP' in fn:
                if got is not None and got != 0.0:
                    viol.append(dict(key=dl[t], got=dans[t], expected='0 or a failure (the polarised kernel vanishes)', what='differential identity'))
                continue
            nontriv += 1
            if got is None or not core.close(got, exp, 1e-12):
                viol.append(dict(key=dl[t], got=dans[t], expected='value %r = N_A/A x kernel %r x factor %r (q = %r)' % (exp, kv, fv, q), what='differential identity violated'))
        # ---- the Kissel aggregates in the REGENERATED-Kissel configuration (they all fail in the shipped one): photo total = occupancy-weighted
        #      sum of the sub-shell cross sections, total = photo + Rayleigh + Compton, unit twins; with a slot and without; energies on both sides of
        #      EVERY sub-shell edge of the element and in the middle of every window between neighbouring edges (edge order is not shell order)
        kn = 0
        try:
            suf = ctx.build_kissel_config('real'); kexe = ctx.sc.path('cdrv' + suf)
            Zs = list(range(1, 100)) if ctx.tier == 'thorough' else sorted(ctx.rng.sample(range(1, 100), 14) + [82, 79])
            q = ['EdgeEnergy %d %d N' % (Z, sh) for Z in Zs for sh in range(28)] + ['ElectronConfig %d %d N' % (Z, sh) for Z in Zs for sh in range(31)]
            pv = {l[:-2]: core.parse_answer(o)['vals'][0] for l, o in zip(q, ctx.run_c(q, exe=kexe))}
            kl = []; kplan = []
            kends = {}
            try:
                vq = ['vec E_Photo_Partial_Kissel %d' % (Z * 31 + sh) for Z in Zs for sh in range(31)]
                for l_, o_ in zip(vq, ctx.run_model(vq, dump='dump' + suf)):
                    xs_ = [unhx(t_) for t_ in o_.split(' ')[1:] if t_]
                    if xs_: i_ = int(l_.split()[2]); kends[(i_ // 31, i_ % 31)] = math.exp(xs_[-1])
            except core.BuildError:
                pass
            for Z in Zs:
                ed = sorted({pv['EdgeEnergy %d %d' % (Z, sh)] for sh in range(28) if pv['EdgeEnergy %d %d' % (Z, sh)] > 0})
                Es = [e * f for e in ed for f in (1 - 1e-6, 1 + 1e-6)] + [(a * b) ** 0.5 for a, b in zip(ed, ed[1:])] + [0.05, 0.09, 0.5, 5.0, 50.0, 500.0, 900.0]
                if ctx.tier != 'thorough': Es = ctx.rng.sample(Es, min(len(Es), 40))
                occ = [(sh, pv['ElectronConfig %d %d' % (Z, sh)]) for sh in range(31) if pv['ElectronConfig %d %d' % (Z, sh)] > 1e-6]
                # the ends of the element's sub-shell tables (last knots, read from the loaded tables): both sides of every end and the
                # middle of every window between two different ends — there some parts are defined and others are not
                ends = sorted({e_ for sh, _ in occ for e_ in [kends.get((Z, sh))] if e_})
                Es += [e_ * f for e_ in ends for f in (1 - 1e-9, 1 + 1e-9)] + [(a * b) ** 0.5 for a, b in zip(ends, ends[1:])]
                for E in Es:
                    kplan.append((Z, E, occ))
                    for mode in 'EN':
                        for fn in ('CSb_Photo_Total', 'CS_Photo_Total', 'CS_Total_Kissel', 'CSb_Total_Kissel', 'CS_Rayl', 'CS_Compt'):
                            kl.append('%s %d %s %s' % (fn, Z, hx(E), mode))
                    for sh, _ in occ: kl.append('CSb_Photo_Partial %d %d %s E' % (Z, sh, hx(E)))
                    kl.append('AtomicWeight %d N' % Z)
            kl = list(dict.fromkeys(kl))
            ka = dict(zip(kl, ctx.run_c(kl, exe=kexe)))
            def kv(l):
                p_ = core.parse_answer(ka[l])
                if p_['kind'] != 'ok': return 'bad'
                if p_['slot'] in ('E', 'N'): return p_['vals'][0]
                return None if p_['vals'][0] == 0 else 'bad'
            for Z, E, occ in kplan:
                aw = kv('AtomicWeight %d N' % Z)
                parts = [(kv('CSb_Photo_Partial %d %d %s E' % (Z, sh, hx(E))), o_) for sh, o_ in occ]
                if any(p_ == 'bad' for p_, _ in parts) or aw in ('bad', None, 0.0): continue
                psum = sum((p_ or 0.0) * o_ for p_, o_ in parts)
                # a sub-shell at or above its edge whose partial cross section is UNDEFINED (its table ends below E) is an undefined part:
                # by the text the aggregate must then fail; the code adds 0 for it (kissel_pe.c:62-67, NULL slot) and returns the rest
                undefined = [sh for (sh, o_), (p_, _) in zip(occ, parts) if p_ is None and sh < 28 and 0 < pv['EdgeEnergy %d %d' % (Z, sh)] <= E]
                for mode in 'EN':
                    got = {fn: kv('%s %d %s %s' % (fn, Z, hx(E), mode)) for fn in ('CSb_Photo_Total', 'CS_Photo_Total', 'CS_Total_Kissel', 'CSb_Total_Kissel', 'CS_Rayl', 'CS_Compt')}
                    def judge(fn, exp, what):
                        nonlocal kn
                        kn += 1
                        g_ = got[fn]; line = '%s %d %s %s  @real' % (fn, Z, hx(E), mode)
                        if g_ == 'bad': viol.append(dict(key=line, got=ka[line[:-7]], expected='a value or a proper failure', what=what)); return
                        if exp is None:
                            if g_ not in (None, 0.0): viol.append(dict(key=line, got=ka[line[:-7]], expected='fails (a part is undefined)', what=what + ': a number although a part is undefined'))
                        elif g_ is None or g_ == 0.0 or not core.close(g_, exp, 1e-12):
                            viol.append(dict(key=line, got=ka[line[:-7]], expected='value %r' % exp, what=what))
                    pe = psum if psum > 0 and E > 0 else None
                    if undefined and pe is not None:
                        # strict reading: fails.  The known site returns exactly the sum over the defined parts.
                        for fn_ in ('CSb_Photo_Total', 'CS_Photo_Total', 'CS_Total_Kissel', 'CSb_Total_Kissel'):
                            g_ = got[fn_]; kn += 1
                            if g_ in (None, 0.0): continue
                            line = '%s %d %s %s  @real' % (fn_, Z, hx(E), mode)
                            expv = {'CSb_Photo_Total': pe, 'CS_Photo_Total': pe * AVOGNUM / aw}.get(fn_)
                            site = g_ != 'bad' and (expv is None or core.close(g_, expv, 1e-12))
                            viol.append(dict(key=K_PARTIAL if site else line, got=ka[line[:-7]], expected='fails: sub-shell(s) %s are ionisable at this energy but their cross section is undefined (table ends below E)' % undefined,
                                             what='Kissel aggregate returns a partial sum although a part is undefined (%s)' % line))
                        continue
                    judge('CSb_Photo_Total', pe, 'Kissel photo total = occupancy-weighted sum of the sub-shell cross sections')
                    pcm = None if pe is None else pe * AVOGNUM / aw
                    judge('CS_Photo_Total', pcm, 'CS_Photo_Total = CSb_Photo_Total x N_A / A')
                    r_, c_ = got['CS_Rayl'], got['CS_Compt']
                    tk = None if (pcm is None or r_ in (None, 'bad', 0.0) or c_ in (None, 'bad', 0.0)) else (pcm + r_) + c_
                    judge('CS_Total_Kissel', tk, 'CS_Total_Kissel = CS_Photo_Total + CS_Rayl + CS_Compt')
                    judge('CSb_Total_Kissel', None if tk is None else tk * aw / AVOGNUM, 'CSb_Total_Kissel = CS_Total_Kissel x A / N_A')
            # the strict specification of Props/C05d.lean (Spec.CSb_Photo_Total_strict: fails as soon as an ionisable sub-shell is undefined
            # at E; Spec.photoUndefined lists those sub-shells) evaluated on the same regenerated tables: its list must be the one computed
            # above from the public functions, and the library may differ from it only at the known site (a value where the list is non-empty)
            nstrict = 0
            try:
                pts = list(dict.fromkeys((Z, E) for Z, E, _ in kplan))
                so = ctx.run_model([x for Z, E in pts for x in ('spec.photoUndefined %d %s' % (Z, hx(E)), 'spec.CSb_Photo_Total_strict %d %s' % (Z, hx(E)))], dump='dump' + suf)
                und_py = {}
                for Z, E, occ in kplan:
                    und_py[(Z, E)] = [sh for sh, o_ in occ if sh < 28 and 0 < pv['EdgeEnergy %d %d' % (Z, sh)] <= E and kv('CSb_Photo_Partial %d %d %s E' % (Z, sh, hx(E))) is None]
                for i, (Z, E) in enumerate(pts):
                    ul = [int(x) for x in so[2 * i][len('list ['):-1].split(', ') if x.strip()]; se = so[2 * i + 1]; nstrict += 1
                    line = 'CSb_Photo_Total %d %s E' % (Z, hx(E))
                    if sorted(ul) != sorted(und_py[(Z, E)]):
                        viol.append(dict(key=line + '  @real', got='Spec.photoUndefined = %s' % ul, expected='%s (sub-shells at or above their edge whose CSb_Photo_Partial fails, from the public functions)' % und_py[(Z, E)],
                                         what='specification of "a part is undefined" and the library\'s own partial cross sections disagree'))
                        continue
                    co_ = ka[line]
                    if not core.expect_agrees(co_, se, rel=1e-12, stats=stats):
                        g_ = kv(line)
                        site = bool(ul) and se == 'fails' and g_ not in (None, 'bad', 0.0)
                        if not site:
                            viol.append(dict(key=line + '  @real', got=co_, expected=se, what='Kissel photo total: library vs the strict specification (Spec.CSb_Photo_Total_strict)'))
            except core.BuildError:
                pass
            stats['kissel_strict_spec_cases'] = nstrict
        except core.BuildError as ex:
            viol.append(dict(key='regenerated-Kissel configuration', got=str(ex)[:300], expected='builds', what='data/kissel -> kissel_pe.dat -> prdata'))
        stats['kissel_identity_cases'] = kn
        # ---- the executable specifications of Props/C05*.lean (Spec.CS_Total, Spec.DCS_Rayl, …) against the real library
        SPEC_FNS = {'CS_Total', 'CSb_Total', 'CSb_Photo', 'CSb_Rayl', 'CSb_Compt', 'DCS_Rayl', 'DCS_Compt', 'DCSb_Rayl', 'DCSb_Compt',
                    'DCSP_Rayl', 'DCSP_Compt', 'DCSPb_Rayl', 'DCSPb_Compt'}
        sl = [l for l in (lines + dl) if l.split(' ')[0] in SPEC_FNS]
        sl = sorted(set(sl))
        ns = 0
        try:
            eo = ctx.run_model(['spec.' + l[:-2] for l in sl] + ['spec.weightFailures'])
            wf = [x for x in eo[-1][len('shape ['):-1].split(', ') if x]
            for b in wf[:5]:
                viol.append(dict(key='weightFailures:' + b, got='no atomic weight', expected='an atomic weight wherever a form-factor / scattering-function / Kissel table exists',
                                 what='data invariant hW assumed by the differential and Kissel-total theorems fails on the tables built from the working tree'))
            co = ctx.run_c(sl)
            for l, c_, e_ in zip(sl, co, eo):
                ns += 1
                if not core.expect_agrees(c_, e_, rel=1e-13, stats=stats):
                    viol.append(dict(key=l, got=c_, expected=e_, what='library vs executable specification of the identity'))
        except core.BuildError:
            pass
        stats['spec_cases'] = ns
        stats.update(rule='every aggregate/unit-variant entry point x Z in [-1,122] x structured energies (range ends, edges, seeded log-uniform) x angle grid; expected value computed '
                          'from the PUBLIC component functions of the real library (for the four differential cross sections: kernel x form/scattering factor at q = MomentTransf(E,theta) x N_A/A); '
                          'non-trivial = cases where all parts are defined',
                     distinct_nontrivial=nontriv, differential_identities=dn,
                     samples=[dict(call=lines[plan[i][1]], impl=ans[plan[i][1]], parts=[ans[j] for j in plan[i][2]]) for i in (0, len(plan) // 2, len(plan) - 1)])
        seen_k = False; outv = []
        for v in viol:
            if v['key'] == K_PARTIAL:
                if seen_k: continue
                seen_k = True
            outv.append(v)
        viol = outv
        return len(plan) + len(dplan) + ns + kn, viol, stats

CHECK = C05()
