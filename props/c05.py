"""C05 — totals, per-atom and differential cross sections obey their defining identities."""
import math
from vlib.runner import Check
from vlib import core
from vlib.core import hx, unhx

AVOGNUM = 0.602214129

def val(ans):
    """-> float value if the call succeeded (slot E), None if it failed properly, 'bad' otherwise"""
    p = core.parse_answer(ans)
    if p['kind'] != 'ok': return 'bad'
    if p['slot'] == 'E': return p['vals'][0]
    if p['slot'].startswith('F') and p['vals'][0] == 0: return None
    return 'bad'

def mul_aw(v): return None if None in v else v[0] * v[1] / AVOGNUM
def div_aw(v): return None if None in v else v[0] * AVOGNUM / v[1]
def sum3(v): return None if None in v else (v[0] + v[1]) + v[2]

ID_ZE = {   # arguments: Z, E
    'CS_Total': (['CS_Photo', 'CS_Rayl', 'CS_Compt'], sum3),
    'CS_Total_Kissel': (['CS_Photo_Total', 'CS_Rayl', 'CS_Compt'], sum3),
    'CSb_Total': (['CS_Total', 'AtomicWeight!'], mul_aw),
    'CSb_Photo': (['CS_Photo', 'AtomicWeight!'], mul_aw),
    'CSb_Rayl': (['CS_Rayl', 'AtomicWeight!'], mul_aw),
    'CSb_Compt': (['CS_Compt', 'AtomicWeight!'], mul_aw),
    'CSb_Total_Kissel': (['CS_Total_Kissel', 'AtomicWeight!'], mul_aw),
    'CS_Photo_Total': (['CSb_Photo_Total', 'AtomicWeight!'], div_aw),
}
ID_ZET = {'DCSb_Rayl': (['DCS_Rayl', 'AtomicWeight!'], mul_aw), 'DCSb_Compt': (['DCS_Compt', 'AtomicWeight!'], mul_aw)}
ID_ZETP = {'DCSPb_Rayl': (['DCSP_Rayl', 'AtomicWeight!'], mul_aw), 'DCSPb_Compt': (['DCSP_Compt', 'AtomicWeight!'], mul_aw)}
ID_ZXE = {'CSb_FluorLine': (['CS_FluorLine', 'AtomicWeight!'], mul_aw), 'CSb_FluorShell': (['CS_FluorShell', 'AtomicWeight!'], mul_aw)}

class C05(Check):
    id = 'C05'
    module = 'Xrl.Props.C05'
    namespace = 'Xrl.C05'
    functions = sorted(set(list(ID_ZE) + list(ID_ZET) + list(ID_ZETP) + list(ID_ZXE) + ['CS_Photo', 'CS_Rayl', 'CS_Compt', 'DCS_Rayl', 'DCS_Compt', 'DCSP_Rayl', 'DCSP_Compt']))
    assumptions = ['theorems assume vecOkB of the three cross-section tables (executed on the dumped tables by C02\'s check)']

    def energies(self, ctx, Z):
        r = ctx.rng
        base = [0.0, -1.0, 0.5, 1.0, 1.0001, 5.0, 8.979, 20.0, 88.0, 100.0, 799.9, 800.0, 800.03, 1000.0, 1e6]
        return base + [math.exp(r.uniform(math.log(0.9), math.log(900))) for _ in range(4 if ctx.tier == 'quick' else 40)]

    def cases(self, ctx):
        if hasattr(ctx, '_c05'): return ctx._c05
        out = []
        thetas = [0.0, 0.3, math.pi / 2, math.pi, -0.7, 7.0]
        phis = [0.0, 1.0, math.pi / 2]
        for Z in list(range(-1, 123)):
            for E in self.energies(ctx, Z):
                for fn in ID_ZE: out.append((ID_ZE, fn, (Z,), (E,)))
                for th in thetas[: (3 if ctx.tier == 'quick' else 6)]:
                    for fn in ID_ZET: out.append((ID_ZET, fn, (Z,), (E, th)))
                    for ph in phis[: (1 if ctx.tier == 'quick' else 3)]:
                        for fn in ID_ZETP: out.append((ID_ZETP, fn, (Z,), (E, th, ph)))
            for x in (0, 1, 2, 3, 4, -1, -2, -3, -29, -90, 28):
                for E in (1.0, 9.0, 30.0, 120.0):
                    for fn in ID_ZXE: out.append((ID_ZXE, fn, (Z, x), (E,)))
        ctx._c05 = out
        return out

    @staticmethod
    def line(fn, ints, dbls, mode='E'):
        return ' '.join([fn] + [str(i) for i in ints] + [hx(d) for d in dbls] + [mode])

    def corr_lines(self, ctx):
        seen = set(); out = []
        for tab, fn, ints, dbls in self.cases(ctx):
            for f in [fn] + [c.rstrip('!') for c in tab[fn][0]]:
                aw = f.startswith('AtomicWeight')
                l = self.line(f, ints[:1] if aw else ints, () if aw else dbls)
                if l not in seen: seen.add(l); out.append(l)
        return out + [l[:-1] + 'N' for l in out[::7]]

    def search(self, ctx):
        cases = self.cases(ctx)
        lines = []; index = {}
        def need(l):
            if l not in index: index[l] = len(lines); lines.append(l)
            return index[l]
        plan = []
        for tab, fn, ints, dbls in cases:
            t = need(self.line(fn, ints, dbls))
            comps = []
            for c in tab[fn][0]:
                if c.endswith('!'): comps.append(need(self.line(c[:-1], ints[:1], ())))
                else: comps.append(need(self.line(c, ints, dbls)))
            plan.append((fn, t, comps, tab[fn][1]))
        ans = ctx.run_c(lines)
        viol = []; nontriv = 0; stats = {}
        for fn, t, comps, comb in plan:
            got = val(ans[t]); cv = [val(ans[i]) for i in comps]
            if 'bad' in cv or got == 'bad':
                viol.append(dict(key=lines[t], got=ans[t], expected='a value or a proper failure', what='component or aggregate returned a malformed outcome: ' + '; '.join(ans[i] for i in comps)))
                continue
            exp = comb(cv)
            if exp is None:
                if got is not None:
                    viol.append(dict(key=lines[t], got=ans[t], expected='fails (a part is undefined: %s)' % [lines[i] for i, v in zip(comps, cv) if v is None][:1], what='aggregate returned a number although a part is undefined'))
            else:
                nontriv += 1
                if got is None or not core.close(got, exp, 1e-12):
                    viol.append(dict(key=lines[t], got=ans[t], expected='value %r = identity over %s' % (exp, [lines[i] for i in comps]), what='defining identity violated'))
        stats.update(rule='every aggregate/unit-variant entry point x Z in [-1,122] x structured energies (range ends, edges, seeded log-uniform) x angle grid; expected value computed '
                          'from the PUBLIC component functions of the real library; non-trivial = cases where all parts are defined',
                     distinct_nontrivial=nontriv,
                     samples=[dict(call=lines[plan[i][1]], impl=ans[plan[i][1]], parts=[ans[j] for j in plan[i][2]]) for i in (0, len(plan) // 2, len(plan) - 1)])
        return len(plan), viol, stats

CHECK = C05()
