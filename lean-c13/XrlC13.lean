-- root of the `XrlC13` library (property C13): model, specification, lemmas, theorems
-- (XrlC13.Gen.Crystal is written by tools/c13_c2lean.py from /repo's src/crystal_diffraction.c; setup.sh and ./check C13 regenerate it)
import XrlC13.Core.Basic
import XrlC13.Core.Proto
import XrlC13.Core.Types
import XrlC13.Hand.CrystalNum
import XrlC13.Spec.Basic
import XrlC13.Spec.Crystal
import XrlC13.Props.C13
import XrlC13.Gen.Crystal
import XrlC13.Props.C13g
