-- root of the `XrlC13` library (property C13): model, specification, lemmas, theorems
import XrlC13.Core.Basic
import XrlC13.Core.Proto
import XrlC13.Hand.CrystalNum
import XrlC13.Spec.Basic
import XrlC13.Spec.Crystal
import XrlC13.Props.C13
