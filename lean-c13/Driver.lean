import XrlC13.Core.Basic
import XrlC13.Core.Proto
import XrlC13.Hand.CrystalNum
import XrlC13.Spec.Crystal
/-!
# `c13-model`: the hand model and the specification of C13 in the `Float` reading, behind the line protocol of
harness/c13drv.c (same requests, same answer syntax).

usage: c13-model <variant>      variant = 5 characters 0/1: braggFix zFix nullFix zeroFix ovfFix

A request may carry, after ` | `, the answer of the C driver's `aux`/`auxaf` request for the same arguments: the
values of the elemental functions FF_Rayl, Fi, Fii the library reports (they are parameters of the model).
The oracle answers only for the `q` it was asked at: a different `q` is the abort `ub ORACLE …`.

`spec.*` requests evaluate Spec/Crystal.lean (the violation search): answers `value <x>…`, `fails`, `any`.
-/
open Xrl Xrl.C13

structure ElemRow where
  Z : Int
  ff : Float
  ffErr : Option Err
  fi : Float
  fiErr : Option Err
  fii : Float
  fiiErr : Option Err

structure Aux where
  d : Option Float
  th : Option Float
  q : Option Float
  rows : List ElemRow

def pOpt (s : String) : Option Float :=
  match s.splitOn "=" with
  | [_, v] => if v == "-" then none else some (pF v)
  | _ => none

def pErr (s : String) : Option Err :=
  if s == "-" then none else
  match s.splitOn "/" with
  | code :: rest => some ⟨code.toNat!, ("/".intercalate rest).replace "_" " "⟩
  | _ => none

def pRow (s : String) : Option ElemRow :=
  match s.splitOn ":" with
  | [z, a, ae, b, be, c, ce] => some ⟨pI z, pF a, pErr ae, pF b, pErr be, pF c, pErr ce⟩
  | _ => none

def pAux (t : List String) : Option Aux :=
  match t with
  | "aux" :: d :: th :: q :: ";" :: rows => some ⟨pOpt d, pOpt th, pOpt q, rows.filterMap pRow⟩
  | _ => none

def closeF (a b : Float) : Bool :=
  a == b || (a - b).abs ≤ 1e-9 * (if a.abs < b.abs then b.abs else a.abs)

def answerElem (v : Float) (e : Option Err) (s : Slot) : M (Float × Slot) :=
  match e with
  | none => pure (v, s)
  | some e => do let s ← setErr s e.code e.msg; pure (v, s)

/-- the elemental functions as reported by the library in the same run -/
def oracle (a : Option Aux) : Elem Float :=
  let find (Z : Int) : M ElemRow :=
    match a with
    | none => throw (.ub "ORACLE no table")
    | some a => match a.rows.find? (fun r => r.Z == Z) with
      | some r => pure r
      | none => throw (.ub ("ORACLE no row for Z=" ++ toString Z))
  { ff := fun Z q s => do
      let r ← find Z
      match a.bind (·.q) with
      | some q0 => if closeF q q0 then answerElem r.ff r.ffErr s else throw (.ub "ORACLE asked at another q")
      | none => throw (.ub "ORACLE has no q")
    fi := fun Z _ s => do let r ← find Z; answerElem r.fi r.fiErr s
    fii := fun Z _ s => do let r ← find Z; answerElem r.fii r.fiiErr s }

def fmtOptF : Option Float → String
  | none => "-"
  | some x => fmtF x

def fmtExpect1 : Xrl.Spec.Expect Float → String
  | .value v => "value " ++ fmtF v
  | .fails => "fails"
  | .any => "any"

def fmtExpect2 : Xrl.Spec.Expect (Float × Float) → String
  | .value v => "value " ++ fmtF v.1 ++ " " ++ fmtF v.2
  | .fails => "fails"
  | .any => "any"

def pAtoms : Nat → List String → List (Atom Float)
  | 0, _ => []
  | n + 1, z :: f :: x :: y :: zz :: rest => ⟨pI z, pF f, pF x, pF y, pF zz⟩ :: pAtoms n rest
  | _, _ => []

abbrev Tab := Array (Option (Crystal Float))

def getC (tab : Tab) (s : String) : Option (Crystal Float) :=
  if s == "N" then none else (tab.getD s.toNat! none)

def isDef (tab : Tab) (s : String) : Bool := s == "N" || (tab.getD s.toNat! none).isSome

def reported (a : Option Aux) (Z : Int) : Option (Spec.Reported Float) :=
  match a with
  | none => none
  | some a => (a.rows.find? (fun r => r.Z == Z)).map (fun r =>
      ⟨if r.ffErr.isNone then some r.ff else none, if r.fiErr.isNone then some r.fi else none,
       if r.fiiErr.isNone then some r.fii else none⟩)

/-- the spacing the library reports for the same crystal and indices (`aux` request), when it is a finite number -/
def auxD (a : Option Aux) : Option Float := (a.bind (·.d)).filter (·.isFinite)

/-- what the specification expects of Bragg_angle / Q given the spacing the library reports -/
def expBragg (cr : Option (Crystal Float)) (a : Option Aux) (E : Float) (i j k : Int) : Xrl.Spec.Expect Float :=
  Spec.expectBraggAt cr (auxD a) E i j k

def expQ (cr : Option (Crystal Float)) (a : Option Aux) (E : Float) (i j k : Int) (rel : Float) : Xrl.Spec.Expect Float :=
  Spec.expectQAt cr (auxD a) E i j k rel

def handle (v : Variant) (tab : Tab) (t : List String) (a : Option Aux) : String :=
  let P := oracle a
  match t with
  | ["vol", c, s] => fmtR (Crystal_UnitCellVolume (getC tab c) (pS s))
  | ["dsp", c, i, j, k, s] => fmtR (Crystal_dSpacing v (getC tab c) (pI i) (pI j) (pI k) (pS s))
  | ["bragg", c, e, i, j, k, s] => fmtR (Bragg_angle v (getC tab c) (pF e) (pI i) (pI j) (pI k) (pS s))
  | ["q", c, e, i, j, k, r, s] => fmtR (Q_scattering_amplitude v (getC tab c) (pF e) (pI i) (pI j) (pI k) (pF r) (pS s))
  | ["af", z, e, q, d, mask, s] =>
    let m := (pI mask).toNat
    match Atomic_Factors v P (pI z) (pF e) (pF q) (pF d) (m % 2 == 1) (m / 2 % 2 == 1) (m / 4 % 2 == 1) (pS s) with
    | .ok ((rc, f0, fp, fpp), slot) =>
      "ok " ++ toString rc ++ " " ++ fmtOptF f0 ++ " " ++ fmtOptF fp ++ " " ++ fmtOptF fpp ++ " " ++ fmtSlot slot
    | .error e => fmtAbort e
  | [op, c, e, i, j, k, d, r, s] =>
    if op == "fh" || op == "fh2" then
      match Crystal_F_H_StructureFactor v P (getC tab c) (pF e) (pI i) (pI j) (pI k) (pF d) (pF r) (pS s) with
      | .ok ((re, im), slot) => "ok " ++ fmtF re ++ " " ++ fmtF im ++ " " ++ fmtSlot slot
      | .error e => fmtAbort e
    else "bad-op"
  | [op, c, e, i, j, k, d, r, f0, fp, fpp, s] =>
    if op == "fhp" || op == "fhp2" then
      match Crystal_F_H_StructureFactor_Partial v P (getC tab c) (pF e) (pI i) (pI j) (pI k) (pF d) (pF r)
          (pI f0) (pI fp) (pI fpp) (pS s) with
      | .ok ((re, im), slot) => "ok " ++ fmtF re ++ " " ++ fmtF im ++ " " ++ fmtSlot slot
      | .error e => fmtAbort e
    else if op == "spec.fhp" then
      let cr := getC tab c
      fmtExpect2 (Spec.expectFH cr (expQ cr a (pF e) (pI i) (pI j) (pI k) (pF r)) (pF e) (pF d) (pI i) (pI j) (pI k)
        (pI f0) (pI fp) (pI fpp) (reported a))
    else "bad-op"
  | ["cabs", re, im] => (match c_abs (pF re) (pF im) with | .ok x => "ok " ++ fmtF x | .error e => fmtAbort e)
  | ["cmul", a1, a2, b1, b2] => let z := c_mul (pF a1) (pF a2) (pF b1) (pF b2); "ok " ++ fmtF z.1 ++ " " ++ fmtF z.2
  | ["spec.vol", c] => fmtExpect1 (Spec.expectVolume (getC tab c))
  | ["spec.dsp", c, i, j, k] => fmtExpect1 (Spec.expectDSpacing (getC tab c) (pI i) (pI j) (pI k))
  | ["spec.bragg", c, e, i, j, k] => fmtExpect1 (expBragg (getC tab c) a (pF e) (pI i) (pI j) (pI k))
  | ["spec.q", c, e, i, j, k, r] => fmtExpect1 (expQ (getC tab c) a (pF e) (pI i) (pI j) (pI k) (pF r))
  | ["valid", c] =>
    match getC tab c with
    | none => "valid null"
    | some cc =>
      "valid cell=" ++ toString (decide (validCell cc)) ++ " atoms=" ++ toString (decide (validAtoms cc)) ++
        " nondeg=" ++ toString (decide (Spec.nonDegenerate cc)) ++ " vol=" ++ fmtF (Spec.volume cc) ++ " detC=" ++ fmtF (detC cc)
  | _ => "bad-op"

def needsCrystal (t : List String) : Option String :=
  match t with
  | op :: c :: _ =>
    if ["vol", "dsp", "bragg", "q", "fh", "fh2", "fhp", "fhp2", "spec.vol", "spec.dsp", "spec.bragg", "spec.q", "spec.fhp", "valid"].contains op
    then some c else none
  | _ => none

partial def loop (v : Variant) (tab : Tab) (h out : IO.FS.Stream) : IO Unit := do
  let line ← h.getLine
  if line.isEmpty then return ()
  let toks := (line.trimAscii.toString.splitOn " ").filter (· ≠ "")
  match toks with
  | [] => loop v tab h out
  | "crystal" :: id :: _name :: a :: b :: c :: al :: be :: ga :: vol :: n :: atoms =>
    let cc : Crystal Float := ⟨pF a, pF b, pF c, pF al, pF be, pF ga, pF vol, pAtoms n.toNat! atoms⟩
    let i := id.toNat!
    let tab := if i < tab.size then tab.set! i (some cc) else (tab ++ Array.replicate (i + 1 - tab.size) none).set! i (some cc)
    out.putStrLn ("def " ++ id)
    loop v tab h out
  | _ =>
    let (main, aux) := match toks.span (· ≠ "|") with
      | (m, _ :: a) => (m, pAux a)
      | (m, []) => (m, none)
    let ans := match needsCrystal main with
      | some c => if isDef tab c then handle v tab main aux else "bad-crystal"
      | none => handle v tab main aux
    out.putStrLn ans
    loop v tab h out

def main (argv : List String) : IO UInt32 := do
  let vs := (argv.headD "00000").toList
  let b (k : Nat) : Bool := vs.getD k '0' == '1'
  let v : Variant := ⟨b 0, b 1, b 2, b 3, b 4⟩
  let out ← IO.getStdout
  loop v #[] (← IO.getStdin) out
  out.flush
  return 0
