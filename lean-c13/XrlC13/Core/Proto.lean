import XrlC13.Core.Basic
/-!
# Line protocol of the correspondence check (driver only)

request : `<function> <arg>… `  ints in decimal, doubles as `x<16 hex digits>` (IEEE bits), the error slot as
          `E` (address of an empty slot) or `N` (NULL).
answer  : `ok <value>… <slot>` with doubles as hex bits, slot as `N`, `E` or `F<code>:<message>`;
          `abort ub|nf|overwrite|fuel <detail>` when the model run stops.
-/
namespace Xrl

def hexVal (c : Char) : Nat :=
  if c.isDigit then c.toNat - '0'.toNat
  else if 'a' ≤ c ∧ c ≤ 'f' then c.toNat - 'a'.toNat + 10
  else if 'A' ≤ c ∧ c ≤ 'F' then c.toNat - 'A'.toNat + 10 else 0

def pI (s : String) : Int := s.toInt?.getD 0

def pF (s : String) : Float :=
  let h := (s.drop 1).toString
  Float.ofBits (UInt64.ofNat (h.foldl (fun acc c => acc * 16 + hexVal c) 0))

def pS (s : String) : Slot := if s == "N" then Slot.null else Slot.empty

def hexDigit (n : Nat) : Char := if n < 10 then Char.ofNat (48 + n) else Char.ofNat (87 + n)

def fmtF (x : Float) : String :=
  let b := x.toBits.toNat
  "x" ++ String.ofList ((List.range 16).map (fun i => hexDigit ((b >>> (4 * (15 - i))) % 16)))

def fmtSlot : Slot → String
  | .null => "N"
  | .empty => "E"
  | .full e => "F" ++ toString e.code ++ ":" ++ e.msg

class Fmt (β : Type) where
  fmt : β → String
instance : Fmt Float := ⟨fmtF⟩
instance : Fmt Int := ⟨fun i => toString i⟩
instance : Fmt Slot := ⟨fmtSlot⟩
instance : Fmt Unit := ⟨fun _ => "()"⟩
instance {β γ : Type} [Fmt β] [Fmt γ] : Fmt (β × γ) := ⟨fun p => Fmt.fmt p.1 ++ " " ++ Fmt.fmt p.2⟩

def fmtAbort : Abort → String
  | .ub w => "abort ub " ++ w
  | .nf w => "abort nf " ++ w
  | .overwrite => "abort overwrite"
  | .fuel => "abort fuel"

def fmtR {β : Type} [Fmt β] (r : M β) : String :=
  match r with
  | .ok v => "ok " ++ Fmt.fmt v
  | .error e => fmtAbort e

end Xrl
