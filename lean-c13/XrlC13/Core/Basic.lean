/-!
# Core: outcomes, error slot, numeric carrier, checked operations

Core Lean only (no Mathlib) so that the driver links as a `lean_exe`.

* `Abort` : why a model run stops (undefined behaviour of the C program, a non-finite double,
  an error stored over an existing error, fuel exhausted).
* `Slot`  : the `xrl_error **error` argument as a value (`NULL` / `*error == NULL` / `*error` set).
* `XNum`  : the libm surface of xraylib, for the two carriers (ℝ in proofs, `Float` in the driver).
* `rd1/rd2/rd3/rdv` : array reads checked against the *declared* C bounds.
-/
namespace Xrl

inductive Abort where
  | ub (what : String)        -- undefined behaviour: out-of-bounds read, signed overflow, bad fn index
  | nf (what : String)        -- a non-finite value would be produced (x/0, log ≤ 0, sqrt < 0, asin > 1)
  | overwrite                 -- xrl_set_error on a slot that already holds an error
  | fuel                      -- recursion fuel exhausted (shown unreachable)
  deriving Repr, DecidableEq, Inhabited

abbrev M := Except Abort

/-- error codes of `xrl_error_code` (include/xraylib-error.h) -/
abbrev ErrCode := Nat
def XRL_ERROR_MEMORY : ErrCode := 0
def XRL_ERROR_INVALID_ARGUMENT : ErrCode := 1
def XRL_ERROR_IO : ErrCode := 2
def XRL_ERROR_TYPE : ErrCode := 3
def XRL_ERROR_UNSUPPORTED : ErrCode := 4
def XRL_ERROR_RUNTIME : ErrCode := 5

structure Err where
  code : ErrCode
  msg : String
  deriving Repr, DecidableEq, Inhabited

/-- `xrl_error **error` : `NULL`, pointing at a `NULL` error, pointing at an error. -/
inductive Slot where
  | null
  | empty
  | full (e : Err)
  deriving Repr, DecidableEq, Inhabited

/-- `xrl_set_error_literal` / `xrl_set_error` (src/xraylib-error.c:121-158): `NULL` swallows, an empty
slot takes the error, a full slot keeps its error and the C code prints a diagnostic — the model
outcome `overwrite`. -/
def setErr (s : Slot) (code : ErrCode) (msg : String) : M Slot :=
  match s with
  | .null => pure .null
  | .empty => pure (.full ⟨code, msg⟩)
  | .full _ => throw .overwrite

/-- `xrl_propagate_error(dest, src)` (src/xraylib-error.c:160-171) with `src` a local slot. -/
def propagateErr (dest : Slot) (src : Slot) : M Slot :=
  match src with
  | .full e => (match dest with
      | .null => pure .null
      | .empty => pure (.full e)
      | .full _ => throw .overwrite)
  | _ => pure dest

/-- what a slot looks like after exactly one error `e` was stored into it -/
def Slot.withErr (s : Slot) (e : Err) : Slot :=
  match s with
  | .null => .null
  | _ => .full e

def Slot.isFull : Slot → Bool
  | .full _ => true
  | _ => false

/-- libm surface + int→double conversion. -/
class XNum (α : Type) where
  ofInt : Int → α
  exp : α → α
  log : α → α
  sin : α → α
  cos : α → α
  tan : α → α
  sqrt : α → α
  asin : α → α
  acos : α → α
  atan : α → α
  fabs : α → α
  /-- `(int) x` : truncation toward zero (C semantics for in-range values) -/
  toInt : α → Int

def floatToInt (x : Float) : Int :=
  if x < 0 then - Int.ofNat ((-x).toUInt64.toNat) else Int.ofNat (x.toUInt64.toNat)

instance : XNum Float where
  ofInt := Float.ofInt
  exp := Float.exp
  log := Float.log
  sin := Float.sin
  cos := Float.cos
  tan := Float.tan
  sqrt := Float.sqrt
  asin := Float.asin
  acos := Float.acos
  atan := Float.atan
  fabs := Float.abs
  toInt := floatToInt

def INT_MIN : Int := -2147483648
def INT_MAX : Int := 2147483647
def inI32 (x : Int) : Prop := INT_MIN ≤ x ∧ x ≤ INT_MAX
instance (x : Int) : Decidable (inI32 x) := by unfold inI32; infer_instance

/-- checked `int` result: signed overflow is undefined behaviour -/
def chkI (what : String) (x : Int) : M Int :=
  if inI32 x then pure x else throw (.ub ("int overflow: " ++ what))

/-- a heap vector the tables point to: allocated length and contents -/
structure Vec (β : Type) where
  len : Int
  get : Nat → β

section
variable {α : Type} [Add α] [Sub α] [Mul α] [Div α] [Neg α] [LT α] [LE α] [OfScientific α]
  [DecidableLT α] [DecidableLE α] [XNum α]

/-- `a == b` on doubles, written with `≤` only (false on NaN like IEEE `==`) -/
@[reducible] def deq (a b : α) : Prop := a ≤ b ∧ b ≤ a
instance (a b : α) : Decidable (deq a b) := by unfold deq; infer_instance

def rd1 {β : Type} (name : String) (n : Nat) (f : Nat → β) (i : Int) : M β :=
  if 0 ≤ i ∧ i < n then pure (f i.toNat) else throw (.ub ("oob " ++ name))

def rd2 {β : Type} (name : String) (n m : Nat) (f : Nat → Nat → β) (i j : Int) : M β :=
  if 0 ≤ i ∧ i < n ∧ 0 ≤ j ∧ j < m then pure (f i.toNat j.toNat) else throw (.ub ("oob " ++ name))

def rd3 {β : Type} (name : String) (n m l : Nat) (f : Nat → Nat → Nat → β) (i j k : Int) : M β :=
  if 0 ≤ i ∧ i < n ∧ 0 ≤ j ∧ j < m ∧ 0 ≤ k ∧ k < l then pure (f i.toNat j.toNat k.toNat)
  else throw (.ub ("oob " ++ name))

/-- read element `k` (0-based) of a heap vector -/
def rdv {β : Type} (name : String) (v : Vec β) (k : Int) : M β :=
  if 0 ≤ k ∧ k < v.len then pure (v.get k.toNat) else throw (.ub ("oob " ++ name))

/-- checked division: `x / 0` is the outcome `nf` -/
def ddiv (a b : α) : M α := if deq b (0.0 : α) then throw (.nf "div0") else pure (a / b)
def dlog (a : α) : M α := if a ≤ (0.0 : α) then throw (.nf "log") else pure (XNum.log a)
def dsqrt (a : α) : M α := if a < (0.0 : α) then throw (.nf "sqrt") else pure (XNum.sqrt a)
def dasin (a : α) : M α :=
  if a < (-1.0 : α) ∨ (1.0 : α) < a then throw (.nf "asin") else pure (XNum.asin a)

end

end Xrl

namespace Xrl

/-- `for (i = lo; i < hi; i++) body` without `break`/`return` in the body -/
def loopM {σ : Type} (lo hi : Int) (init : σ) (body : Int → σ → M σ) : M σ :=
  (List.range (hi - lo).toNat).foldlM (fun st (k : Nat) => body (lo + (k : Int)) st) init

/-- what one iteration of a loop with `return`/`break` in its body does -/
inductive Ctl (ρ σ : Type) where
  | ret (r : ρ)
  | brk (s : σ)
  | next (s : σ)

def loopCtlGo {ρ σ : Type} (lo : Int) (body : Int → σ → M (Ctl ρ σ)) : List Nat → σ → M (Sum ρ σ)
  | [], s => pure (Sum.inr s)
  | k :: ks, s => do
    let c ← body (lo + (k : Int)) s
    match c with
    | Ctl.ret r => pure (Sum.inl r)
    | Ctl.brk s' => pure (Sum.inr s')
    | Ctl.next s' => loopCtlGo lo body ks s'

/-- `for (i = lo; i < hi; i++) body` where the body may `return` (→ `inl`) or `break` -/
def loopCtlM {ρ σ : Type} (lo hi : Int) (init : σ) (body : Int → σ → M (Ctl ρ σ)) : M (Sum ρ σ) :=
  loopCtlGo lo body (List.range (hi - lo).toNat) init

/-- fuel handed to the public entry of a recursive group (C recursion depth is ≤ 3) -/
def FUEL : Nat := 6

end Xrl
