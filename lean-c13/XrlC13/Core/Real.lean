import XrlC13.Core.Basic
import Mathlib.Analysis.SpecialFunctions.Log.Basic
import Mathlib.Analysis.SpecialFunctions.Trigonometric.Basic
import Mathlib.Analysis.SpecialFunctions.Trigonometric.Inverse
import Mathlib.Analysis.SpecialFunctions.Trigonometric.Arctan
import Mathlib.Analysis.SpecialFunctions.Sqrt
import Mathlib.Tactic.Linarith
import Mathlib.Tactic.NormNum
import Mathlib.Tactic.Ring
import Mathlib.Tactic.FieldSimp
import Mathlib.Tactic.Positivity
/-!
# The real-number reading of the carrier (proofs only)
-/
namespace Xrl

noncomputable instance : XNum ℝ where
  ofInt := fun i => (i : ℝ)
  exp := Real.exp
  log := Real.log
  sin := Real.sin
  cos := Real.cos
  tan := Real.tan
  sqrt := Real.sqrt
  asin := Real.arcsin
  acos := Real.arccos
  atan := Real.arctan
  fabs := fun x => |x|
  toInt := fun x => if 0 ≤ x then ⌊x⌋ else ⌈x⌉

@[simp] theorem deq_real (a b : ℝ) : deq a b ↔ a = b := by
  unfold deq; exact le_antisymm_iff.symm

@[simp] theorem setErr_null (c : ErrCode) (m : String) : setErr Slot.null c m = Except.ok Slot.null := rfl
@[simp] theorem setErr_empty (c : ErrCode) (m : String) : setErr Slot.empty c m = Except.ok (Slot.full ⟨c, m⟩) := rfl

theorem setErr_notFull {s : Slot} (h : s.isFull = false) (c : ErrCode) (m : String) :
    setErr s c m = Except.ok (s.withErr ⟨c, m⟩) := by
  cases s <;> simp_all [Slot.isFull, Slot.withErr, setErr]
  all_goals rfl

@[simp] theorem bind_ok {β γ : Type} (a : β) (f : β → M γ) : (Except.ok a : M β) >>= f = f a := rfl
@[simp] theorem bind_error {β γ : Type} (e : Abort) (f : β → M γ) : (Except.error e : M β) >>= f = Except.error e := rfl
@[simp] theorem pure_eq_ok {β : Type} (a : β) : (pure a : M β) = Except.ok a := rfl
@[simp] theorem throw_eq_error {β : Type} (e : Abort) : (throw e : M β) = Except.error e := rfl

end Xrl
