import XrlC13.Core.Basic
import XrlC13.Core.Proto
/-!
# Data the crystal functions work on, shared by the hand model and by the machine translation of
`src/crystal_diffraction.c` (`XrlC13/Gen/Crystal.lean`, written by tools/c13_c2lean.py on every run)

* `Atom`, `Crystal` : `Crystal_Atom`, `Crystal_Struct` (include/xraylib-crystal-diffraction.h) as values — the name is
  left out, `n_atom` is the length of `atoms`;
* `Elem` : the elemental functions `FF_Rayl`, `Fi`, `Fii` the crystal code calls (parameters: property C02/C03);
* `derefC`, `rdAtom` : `cc->field` and `cc->atom[i]` — through a NULL pointer / outside `0..n_atom-1` the outcome is `ub`;
* `LArr`, `rdL`, `wrL` : a stack array written by index (`double f_re[120]`): a read of an element that was never
  written, or a subscript outside the declared bound, is `ub`.

Core Lean only (the compiled driver links it).
-/
namespace Xrl
namespace C13

structure Atom (α : Type) where
  Zatom : Int
  fraction : α
  x : α
  y : α
  z : α
  deriving Inhabited

/-- `Crystal_Struct` without the name; `n_atom` is the length of `atoms` -/
structure Crystal (α : Type) where
  a : α
  b : α
  c : α
  alpha : α
  beta : α
  gamma : α
  volume : α
  atoms : List (Atom α)
  deriving Inhabited

/-- `FF_Rayl(Z, q, error)`, `Fi(Z, E, error)`, `Fii(Z, E, error)` as the library reports them -/
structure Elem (α : Type) where
  ff : Int → α → Slot → M (α × Slot)
  fi : Int → α → Slot → M (α × Slot)
  fii : Int → α → Slot → M (α × Slot)

/-- `p->field` : the record a crystal pointer points to; a NULL pointer is undefined behaviour -/
def derefC {α : Type} (what : String) (p : Option (Crystal α)) : M (Crystal α) :=
  match p with
  | some cc => pure cc
  | none => throw (.ub ("member access within NULL pointer " ++ what))

/-- `cc->atom[i]` against the bound `n_atom` -/
def rdAtom {α : Type} (cc : Crystal α) (i : Int) : M (Atom α) :=
  if 0 ≤ i ∧ i < (cc.atoms.length : Int) then
    match cc.atoms[i.toNat]? with
    | some a => pure a
    | none => throw (.ub "oob cc->atom")
  else throw (.ub "oob cc->atom")

/-- a stack array `T name[n]` written by index: `get i = none` — element `i` was never written -/
structure LArr (β : Type) where
  n : Nat
  get : Int → Option β

/-- `T name[n];` -/
def LArr.uninit {β : Type} (n : Nat) : LArr β := ⟨n, fun _ => none⟩
/-- `T name[n] = {0};` -/
def LArr.const {β : Type} (n : Nat) (v : β) : LArr β := ⟨n, fun _ => some v⟩

/-- `name[i]` as a value -/
def rdL {β : Type} (name : String) (a : LArr β) (i : Int) : M β :=
  if 0 ≤ i ∧ i < (a.n : Int) then
    match a.get i with
    | some v => pure v
    | none => throw (.ub ("read of uninitialised " ++ name))
  else throw (.ub ("oob " ++ name))

/-- `name[i] = v` -/
def wrL {β : Type} (name : String) (a : LArr β) (i : Int) (v : β) : M (LArr β) :=
  if 0 ≤ i ∧ i < (a.n : Int) then pure ⟨a.n, fun j => if j = i then some v else a.get j⟩
  else throw (.ub ("oob " ++ name))

end C13
end Xrl
