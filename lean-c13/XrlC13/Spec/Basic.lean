import XrlC13.Core.Basic
/-!
# Specification vocabulary (written from the property texts, not from the code)

A specification is an *executable* function computing an `Expect`ation: the value the call must return, or
that it must fail.  `Meets r error x` relates an actual model outcome to the expectation:

* `Returns r v error` : the call succeeded with value `v` and left the caller's slot as it was;
* `Fails r error`     : sentinel value 0, and *exactly one* error — valid code, non-empty message — was stored
                        into the caller's slot (nothing if the slot is NULL).

Both say the outcome is `ok`: no undefined behaviour, no non-finite intermediate, no error stored over an
existing one.  The same `Expect` values are printed by the driver (`spec.*` operations) and compared with the
real library by the violation search.
-/
namespace Xrl
namespace Spec

inductive Expect (α : Type) where
  | value (v : α)
  | fails
  | any          -- the specification makes no claim for this input
  deriving Repr

section
variable {α : Type} [OfScientific α]

def Returns (r : M (α × Slot)) (v : α) (error : Slot) : Prop := r = Except.ok (v, error)

def Fails (r : M (α × Slot)) (error : Slot) : Prop :=
  ∃ e : Err, e.msg ≠ "" ∧ e.code ≤ XRL_ERROR_RUNTIME ∧ r = Except.ok ((0.0 : α), error.withErr e)

def Meets (r : M (α × Slot)) (error : Slot) : Expect α → Prop
  | .value v => Returns r v error
  | .fails => Fails r error
  | .any => True

end
end Spec
end Xrl
