import XrlC13.Hand.CrystalNum
import XrlC13.Spec.Basic
/-!
# Specification of C13, written from the property text (not from the code)

* the direct metric tensor `G` of the cell (`gᵢⱼ = aᵢ·aⱼ`), its determinant, its inverse `G* = adj G / det G`
  (the reciprocal metric tensor), the d-spacing `1/√(hᵀ G* h)`, the cell volume `√(det G)`;
* Bragg's law `sin θ = λ / (2 d)` with `λ = hc/E`; no reflection when `λ > 2 d`;
* the structure factor `F(h) = Σ_atoms occ · (f₀ + f′ + i f″) · e^{2πi h·r}` as an explicit sum of pairs
  (real, imaginary), the three partial terms selected by their flags (0: absent, 2: the value, 1: the constant 1, f₀ only).

Everything is polymorphic in the carrier and executable: the driver evaluates these definitions in `Float` for the
violation search; the theorems of Props/C13.lean read them over ℝ.  The constants `PI` (so `2π` is the header's `TWOPI`,
degrees are converted with the header's `DEGRAD`) and `KEV2ANGST` are those of include/xraylib.h.
-/
namespace Xrl
namespace C13
namespace Spec
open Xrl.Spec (Expect)

section
variable {α : Type} [Add α] [Sub α] [Mul α] [Div α] [Neg α] [LT α] [LE α] [OfScientific α]
  [DecidableLT α] [DecidableLE α] [XNum α]

/-- a symmetric 3×3 matrix -/
structure Sym3 (α : Type) where
  g11 : α
  g22 : α
  g33 : α
  g12 : α
  g13 : α
  g23 : α

/-- cosine of an angle given in degrees -/
def cosDeg (x : α) : α := XNum.cos (x * (PI / (180.0 : α)))

/-- direct metric tensor: `g11 = a², g12 = a b cos γ, g13 = a c cos β, g23 = b c cos α` -/
def metric (cc : Crystal α) : Sym3 α :=
  ⟨cc.a * cc.a, cc.b * cc.b, cc.c * cc.c,
   cc.a * cc.b * cosDeg cc.gamma, cc.a * cc.c * cosDeg cc.beta, cc.b * cc.c * cosDeg cc.alpha⟩

def det (G : Sym3 α) : α :=
  G.g11 * (G.g22 * G.g33 - G.g23 * G.g23) - G.g12 * (G.g12 * G.g33 - G.g23 * G.g13) +
    G.g13 * (G.g12 * G.g23 - G.g22 * G.g13)

/-- adjugate (matrix of cofactors; symmetric) -/
def adj (G : Sym3 α) : Sym3 α :=
  ⟨G.g22 * G.g33 - G.g23 * G.g23, G.g11 * G.g33 - G.g13 * G.g13, G.g11 * G.g22 - G.g12 * G.g12,
   G.g13 * G.g23 - G.g12 * G.g33, G.g12 * G.g23 - G.g13 * G.g22, G.g12 * G.g13 - G.g11 * G.g23⟩

/-- reciprocal metric tensor `G* = G⁻¹ = adj G / det G` -/
def recip (G : Sym3 α) : Sym3 α :=
  let A := adj G
  let D := det G
  ⟨A.g11 / D, A.g22 / D, A.g33 / D, A.g12 / D, A.g13 / D, A.g23 / D⟩

/-- `hᵀ G h` -/
def quad (G : Sym3 α) (h k l : α) : α :=
  G.g11 * h * h + G.g22 * k * k + G.g33 * l * l + (2.0 : α) * G.g12 * h * k + (2.0 : α) * G.g13 * h * l +
    (2.0 : α) * G.g23 * k * l

/-- d-spacing from the reciprocal metric: `1/√(hᵀ G* h)` -/
def dRecip (cc : Crystal α) (i j k : Int) : α :=
  (1.0 : α) / XNum.sqrt (quad (recip (metric cc)) (XNum.ofInt i) (XNum.ofInt j) (XNum.ofInt k))

/-- cell volume `√(det G)` -/
def volume (cc : Crystal α) : α := XNum.sqrt (det (metric cc))

/-- a cell the geometric statements speak about: positive edges, positive Gram determinant -/
def nonDegenerate (cc : Crystal α) : Prop :=
  (0.0 : α) < cc.a ∧ (0.0 : α) < cc.b ∧ (0.0 : α) < cc.c ∧ (0.0 : α) < det (metric cc)
instance (cc : Crystal α) : Decidable (nonDegenerate cc) := by unfold nonDegenerate; infer_instance

/-- expectation for `Crystal_UnitCellVolume` -/
def expectVolume (crystal : Option (Crystal α)) : Expect α :=
  match crystal with
  | none => .fails
  | some cc => if nonDegenerate cc then .value (volume cc) else .any

/-- expectation for `Crystal_dSpacing`: the reciprocal-metric value, scaled by stored / recomputed volume (the two
agree for a consistent crystal record, which is a separate numeric fact about the data) -/
def expectDSpacing (crystal : Option (Crystal α)) (i j k : Int) : Expect α :=
  match crystal with
  | none => .fails
  | some cc =>
    if i = 0 ∧ j = 0 ∧ k = 0 then .fails
    else if nonDegenerate cc then .value (cc.volume / volume cc * dRecip cc i j k) else .any

/-- Bragg's law for a plane family of spacing `d`: `sin θ = (hc/E) / (2d)`; an error when there is no reflection.
`d` is the spacing the library reports for the same crystal and indices (`none`: it reported an error). -/
def expectBragg (d : Option α) (energy : α) : Expect α :=
  if energy ≤ (0.0 : α) then .fails
  else match d with
    | none => .fails
    | some d =>
      if d ≤ (0.0 : α) then .any
      else
        let s := KEV2ANGST / energy / ((2.0 : α) * d)
        if (1.0 : α) < s then .fails else .value (XNum.asin s)

/-- expectation for `Bragg_angle(crystal, E, i, j, k)`; `d`: the spacing the library reports for the same crystal and indices
(`none`: not known — no claim beyond the argument checks).  `E ≤ 0`, no crystal, (0,0,0): an error. -/
def expectBraggAt (crystal : Option (Crystal α)) (d : Option α) (energy : α) (i j k : Int) : Expect α :=
  if energy ≤ (0.0 : α) then .fails
  else match crystal with
    | none => .fails
    | some _ =>
      if i = 0 ∧ j = 0 ∧ k = 0 then .fails
      else match d with
        | none => .any
        | some d => expectBragg (some d) energy

/-- `Q = sin(rel_angle · θ_B) / λ` -/
def expectQ (theta : Option α) (energy : α) (i j k : Int) (rel_angle : α) : Expect α :=
  if energy ≤ (0.0 : α) then .fails
  else if i = 0 ∧ j = 0 ∧ k = 0 then .value (0.0 : α)
  else match theta with
    | none => .fails
    | some th => .value (XNum.sin (rel_angle * th) / (KEV2ANGST / energy))

/-- expectation for `Q_scattering_amplitude(crystal, E, i, j, k, rel_angle)`: `E ≤ 0` → an error; (0,0,0) → 0 whatever the
crystal; otherwise `sin(rel_angle · θ_B)/λ` with the Bragg angle `θ_B` expected of `Bragg_angle` (an error when that is one) -/
def expectQAt (crystal : Option (Crystal α)) (d : Option α) (energy : α) (i j k : Int) (rel_angle : α) : Expect α :=
  if energy ≤ (0.0 : α) then .fails
  else if i = 0 ∧ j = 0 ∧ k = 0 then .value (0.0 : α)
  else match expectBraggAt crystal d energy i j k with
    | .fails => .fails
    | .any => .any
    | .value th => expectQ (some th) energy i j k rel_angle

/-- one partial term: flag 0 → absent, flag 2 → the value, flag 1 → the constant 1 (allowed for f₀ only) -/
def term (allowOne : Bool) (flag : Int) (x : α) : Option α :=
  if flag = 0 then some (0.0 : α)
  else if flag = 2 then some x
  else if flag = 1 ∧ allowOne = true then some (1.0 : α)
  else none

/-- atomic scattering factor `(f₀ + f′, f″)` of one element under the three flags; `none`: an invalid flag -/
def atomicFactor (f0 fp fpp : α) (f0_flag f_prime_flag f_prime2_flag : Int) : Option (α × α) :=
  match term true f0_flag f0, term false f_prime_flag fp, term false f_prime2_flag fpp with
  | some a, some b, some c => some (a + b, c)
  | _, _, _ => none

/-- phase angle `2π h·r` of an atom -/
def phase (i j k : Int) (atom : Atom α) : α :=
  TWOPI * (XNum.ofInt i * atom.x + XNum.ofInt j * atom.y + XNum.ofInt k * atom.z)

/-- one summand `occ · (fre + i fim) · (cos φ + i sin φ)` as a pair -/
def summand (i j k : Int) (fA : Int → α × α) (atom : Atom α) : α × α :=
  let φ := phase i j k atom
  let f := fA atom.Zatom
  (atom.fraction * (f.1 * XNum.cos φ - f.2 * XNum.sin φ), atom.fraction * (f.1 * XNum.sin φ + f.2 * XNum.cos φ))

/-- the explicit sum over the atoms, in list order, starting from `(0, 0)` -/
def sumFrom (i j k : Int) (fA : Int → α × α) : List (Atom α) → α × α → α × α
  | [], F => F
  | atom :: rest, F =>
    let s := summand i j k fA atom
    sumFrom i j k fA rest (F.1 + s.1, F.2 + s.2)

def structureFactor (cc : Crystal α) (i j k : Int) (fA : Int → α × α) : α × α :=
  sumFrom i j k fA cc.atoms ((0.0 : α), (0.0 : α))

/-- what the library reports for one element at the `q` and energy of the call (`none`: it reported an error) -/
structure Reported (α : Type) where
  ff : Option α
  fi : Option α
  fii : Option α

/-- `(f₀, f′, f″) = (FF·D, Fi·D, −Fii·D)` with the Debye factor `D`, under the flags -/
def factorOf (debye_factor : α) (f0_flag f_prime_flag f_prime2_flag : Int) (r : Reported α) : Option (α × α) :=
  match r.ff, r.fi, r.fii with
  | some a, some b, some c =>
    atomicFactor (a * debye_factor) (b * debye_factor) (-c * debye_factor) f0_flag f_prime_flag f_prime2_flag
  | _, _, _ => none

/-- expectation for the structure factor.  `q`: what is expected of `Q_scattering_amplitude` for the same arguments;
`rep Z`: the elemental factors the library reports for element `Z` at that `q` and energy.
* no crystal, `E ≤ 0`, no Bragg reflection → an error;
* an atom whose element has no reported factors (unknown element, energy or `q` outside the tables), a non-positive
  Debye factor, an invalid flag → an error (when there is at least one atom);
* otherwise the explicit sum. -/
def expectFH (crystal : Option (Crystal α)) (q : Expect α) (energy debye_factor : α) (i j k : Int)
    (f0_flag f_prime_flag f_prime2_flag : Int) (rep : Int → Option (Reported α)) : Expect (α × α) :=
  match crystal with
  | none => .fails
  | some cc =>
    if energy ≤ (0.0 : α) then .fails
    else match q with
      | .fails => .fails
      | .any => .any
      | .value _ =>
        if cc.atoms.isEmpty = true then .value ((0.0 : α), (0.0 : α))
        else if debye_factor ≤ (0.0 : α) then .fails
        else
          let fs := cc.atoms.map (fun atom =>
            match rep atom.Zatom with
            | some r => factorOf debye_factor f0_flag f_prime_flag f_prime2_flag r
            | none => none)
          if fs.all Option.isSome = true then
            .value (structureFactor cc i j k (fun Z =>
              match rep Z with
              | some r => (factorOf debye_factor f0_flag f_prime_flag f_prime2_flag r).getD ((0.0 : α), (0.0 : α))
              | none => ((0.0 : α), (0.0 : α))))
          else .fails

/-- a complex-valued call succeeded with value `F` and left the caller's slot alone -/
def Returns2 (r : M ((α × α) × Slot)) (F : α × α) (error : Slot) : Prop := r = Except.ok (F, error)

/-- a complex-valued call failed: `(0, 0)` and exactly one error (valid code, non-empty message) in the caller's slot -/
def Fails2 (r : M ((α × α) × Slot)) (error : Slot) : Prop :=
  ∃ e : Err, e.msg ≠ "" ∧ e.code ≤ XRL_ERROR_RUNTIME ∧ r = Except.ok (((0.0 : α), (0.0 : α)), error.withErr e)

/-- a complex-valued call meets an expectation -/
def Meets2 (r : M ((α × α) × Slot)) (error : Slot) : Expect (α × α) → Prop
  | .value F => Returns2 r F error
  | .fails => Fails2 r error
  | .any => True

end
end Spec
end C13
end Xrl
