import XrlC13.Lemmas.Witness
import XrlC13.Lemmas.Metric
import XrlC13.Lemmas.Sums
import XrlC13.Lemmas.ComplexForm
import XrlC13.Lemmas.MeetsSpec
/-!
# C13 — crystal diffraction results obey Bragg's law and structure-factor algebra

Every theorem is about the hand model `Hand/CrystalNum.lean` of the numeric half of src/crystal_diffraction.c (which
Props/C13g.lean proves equal, function by function and for every input, to the machine translation of the working tree's C source), read over
ℝ, for **every** crystal record (cell, stored volume, atom list of any length), Miller triple, energy, Debye factor,
relative angle, flag triple, error slot, and **every** behaviour of the elemental functions `FF_Rayl, Fi, Fii`
(parameter `P : Elem ℝ`; hypotheses say what is assumed of them: `Gives` = "answers this value and leaves the slot
alone", `ElemContract` = their C03 contract).  `v : Variant` is the code as shipped (`asIs`) or with some of the proposed
repairs notes/proposed_fixes/C13-1..5.diff; a theorem without a hypothesis on `v` holds for all 32 combinations.

Where the shipped code violates the property the file keeps, side by side, the full statement as a `def …_full (v) : Prop`,
its refutation `…_full_fails` for the unrepaired switch on a concrete witness (replayed on the library by the check and
listed as a known finding), what is proved under the hypothesis that excludes the witness set, and `…_fixed` for the
repaired switch:

| full statement                | fails for          | witness                                  | proved instead                         |
|-------------------------------|--------------------|------------------------------------------|----------------------------------------|
| `bragg_no_reflection_full`    | `braggFix = false` | unit cube, (1,0,0), 1 keV: `nf "asin"`   | `bragg_law` (a reflection exists)      |
| `atomic_factors_zero_full`    | `zeroFix = false`  | `Fii = 0`: rc 0, no error                | `atomic_factors_spec` (products ≠ 0)   |
| `fh_no_ub_full`               | `nullFix = false`  | crystal NULL, hkl = 000: `ub`            | `fh_no_ub_partial`, `fh_no_abort`      |
|                               | `zFix = false`     | `Zatom = 120`: `ub`                      |  (non-NULL, `validAtoms`)              |
| `dspacing_no_ub_full`         | `ovfFix = false`   | (40000,40000,1): `ub`                    | `dspacing_no_ub_partial` (`smallMiller`)|

The constants are the decimal literals of include/xraylib.h: "2π" in the phase factor is the header's `TWOPI`, degrees
are converted with `DEGRAD`; nothing below depends on their numeric value except the witnesses (`|PI − π| < 10⁻⁶`).
-/
namespace Xrl
namespace C13
open Xrl.Spec (Returns Fails Meets Expect)
open Spec (Returns2 Fails2 Meets2)

/-! ## Cell volume -/

/-- the volume function returns `√(det G)` of the direct metric tensor for every non-degenerate cell -/
theorem volume_formula (cc : Crystal ℝ) (error : Slot) (h : Spec.nonDegenerate cc) :
    Returns (Crystal_UnitCellVolume (some cc) error) (Spec.volume cc) error := by
  obtain ⟨ha, hb, hc, hD⟩ := nonDegenerate_good h
  unfold Returns Crystal_UnitCellVolume
  have hD' : ¬ (detC cc < 0) := not_lt.mpr hD.le
  have hdef : ((1.0 : ℝ) - pow2 (cosd cc.alpha) - pow2 (cosd cc.beta) - pow2 (cosd cc.gamma)) +
      (2.0 : ℝ) * cosd cc.alpha * cosd cc.beta * cosd cc.gamma = detC cc := rfl
  simp only [hdef, dsqrt, lit0, hD', if_false, bind_ok, pure_eq_ok, xsqrt, volume_spec ha hb hc]

theorem volume_null_fails (error : Slot) (he : error.isFull = false) :
    Fails (Crystal_UnitCellVolume (none : Option (Crystal ℝ)) error) error :=
  ⟨⟨XRL_ERROR_INVALID_ARGUMENT, CRYSTAL_NULL⟩, by decide, by decide, by simp [Crystal_UnitCellVolume, setErr_notFull he]⟩

/-- three axes that cannot close a cell (negative Gram determinant): the square root has a negative argument -/
theorem volume_degenerate_nf (cc : Crystal ℝ) (error : Slot) (h : detC cc < 0) :
    Crystal_UnitCellVolume (some cc) error = .error (.nf "sqrt") := by
  unfold Crystal_UnitCellVolume
  have hdef : ((1.0 : ℝ) - pow2 (cosd cc.alpha) - pow2 (cosd cc.beta) - pow2 (cosd cc.gamma)) +
      (2.0 : ℝ) * cosd cc.alpha * cosd cc.beta * cosd cc.gamma = detC cc := rfl
  simp only [hdef, dsqrt, lit0, h, if_true]
  rfl

example : Returns (Crystal_UnitCellVolume (some cube) Slot.empty) (Spec.volume cube) Slot.empty :=
  volume_formula cube Slot.empty (good_nonDegenerate cube_valid.good)

/-- the cell volume meets its executable specification: NULL → an error; non-degenerate cell → `√(det G)` -/
theorem volume_meets_spec (cr : Option (Crystal ℝ)) (error : Slot) (he : error.isFull = false) :
    Meets (Crystal_UnitCellVolume cr error) error (Spec.expectVolume cr) := by
  cases cr with
  | none => exact volume_null_fails error he
  | some cc =>
    unfold Spec.expectVolume
    by_cases h : Spec.nonDegenerate cc
    · simp only [h, if_true]; exact volume_formula cc error h
    · simp only [h, if_false]; trivial

example : Meets (Crystal_UnitCellVolume (some cube) Slot.empty) Slot.empty (Spec.expectVolume (some cube)) ∧
    Spec.expectVolume (some cube) = .value (Spec.volume cube) :=
  ⟨volume_meets_spec (some cube) Slot.empty rfl, by
    have h : Spec.nonDegenerate cube := good_nonDegenerate cube_valid.good
    simp only [Spec.expectVolume, h, if_true]⟩

/-! ## d-spacing -/

/-- `d(−h) = d(h)`: the two calls have the same outcome (value, error or abort), for every crystal pointer -/
theorem dspacing_inversion (v : Variant) (cr : Option (Crystal ℝ)) (i j k : Int) (error : Slot) (hs : SafeMiller v i j k) :
    Crystal_dSpacing v cr (-i) (-j) (-k) error = Crystal_dSpacing v cr i j k error :=
  dSpacing_inversion v cr hs error

/-- `d(n·h) = d(h)/|n|` for `n ≠ 0`: same outcome, the value divided by `|n|` -/
theorem dspacing_scale (v : Variant) (cr : Option (Crystal ℝ)) (n i j k : Int) (error : Slot) (hn : n ≠ 0)
    (hs : SafeMiller v i j k) (hsn : SafeMiller v (n * i) (n * j) (n * k)) :
    Crystal_dSpacing v cr (n * i) (n * j) (n * k) error =
      (Crystal_dSpacing v cr i j k error).map (fun p => (p.1 / |(n : ℝ)|, p.2)) :=
  dSpacing_scale v cr hn hs hsn error

/-- the reciprocal metric tensor of the specification is the inverse of the direct one -/
theorem recip_metric_is_inverse (cc : Crystal ℝ) (h : Spec.nonDegenerate cc) :
    (Spec.metric cc).toMatrix * (Spec.recip (Spec.metric cc)).toMatrix = 1 := by
  apply recip_mul
  have := h.2.2.2
  simp only [lit0] at this
  exact this.ne'

/-- in general: `d = (stored volume / recomputed volume) · 1/√(hᵀ G* h)` -/
theorem dspacing_reciprocal_metric_scaled (v : Variant) (cc : Crystal ℝ) (i j k : Int) (error : Slot)
    (h : Spec.nonDegenerate cc) (hs : SafeMiller v i j k) (h0 : ¬ (i = 0 ∧ j = 0 ∧ k = 0)) :
    Returns (Crystal_dSpacing v (some cc) i j k error) (cc.volume / Spec.volume cc * Spec.dRecip cc i j k) error := by
  have hg := nonDegenerate_good h
  unfold Returns
  rw [dSpacing_good v hg error hs h0, dval_eq_recip hg h0]

/-- with a consistent record (`volume² = det G`, volume positive) the d-spacing is `1/√(hᵀ G* h)`, `G* = G⁻¹` -/
theorem dspacing_reciprocal_metric (v : Variant) (cc : Crystal ℝ) (i j k : Int) (error : Slot)
    (h : Spec.nonDegenerate cc) (hs : SafeMiller v i j k) (h0 : ¬ (i = 0 ∧ j = 0 ∧ k = 0))
    (hvol : cc.volume ^ 2 = Spec.det (Spec.metric cc)) (hpos : 0 < cc.volume) :
    Returns (Crystal_dSpacing v (some cc) i j k error) (Spec.dRecip cc i j k) error := by
  have hvs : Spec.volume cc = cc.volume := by
    unfold Spec.volume
    rw [xsqrt, ← hvol, Real.sqrt_sq hpos.le]
  have := dspacing_reciprocal_metric_scaled v cc i j k error h hs h0
  rwa [hvs, div_self hpos.ne', one_mul] at this

example : Returns (Crystal_dSpacing asIs (some cubeV) 1 0 0 Slot.empty) (Spec.dRecip cubeV 1 0 0) Slot.empty := by
  have hnd : Spec.nonDegenerate cubeV := good_nonDegenerate cube_valid.good
  have hdet : (0 : ℝ) < Spec.det (Spec.metric cube) := by have := hnd.2.2.2; simp only [lit0] at this; exact this
  apply dspacing_reciprocal_metric asIs cubeV 1 0 0 Slot.empty hnd (Or.inr cube_smallMiller) (by decide)
  · show (Spec.volume cube) ^ 2 = Spec.det (Spec.metric cube)
    unfold Spec.volume; rw [xsqrt, Real.sq_sqrt hdet.le]
  · show 0 < Spec.volume cube
    unfold Spec.volume; rw [xsqrt]; exact Real.sqrt_pos.mpr hdet

example : Crystal_dSpacing asIs (some cube) (-1) 0 0 Slot.empty = Crystal_dSpacing asIs (some cube) 1 0 0 Slot.empty := by
  have := dspacing_inversion asIs (some cube) 1 0 0 Slot.empty (Or.inr cube_smallMiller)
  simpa using this

example : Crystal_dSpacing asIs (some cube) (3 * 1) (3 * 0) (3 * 0) Slot.empty = .ok (dval cube 1 0 0 / |((3 : Int) : ℝ)|, Slot.empty) := by
  rw [dspacing_scale asIs (some cube) 3 1 0 0 Slot.empty (by decide) (Or.inr cube_smallMiller) (Or.inr (by decide)),
    dSpacing_valid asIs cube_valid Slot.empty (Or.inr cube_smallMiller) (by decide)]
  rfl

/-- the d-spacing meets the executable specification (NULL or (0,0,0): an error; non-degenerate cell: the value) -/
theorem dspacing_meets_spec (v : Variant) (cr : Option (Crystal ℝ)) (i j k : Int) (error : Slot)
    (he : error.isFull = false) (hs : SafeMiller v i j k) :
    Meets (Crystal_dSpacing v cr i j k error) error (Spec.expectDSpacing cr i j k) := by
  cases cr with
  | none =>
    exact ⟨⟨XRL_ERROR_INVALID_ARGUMENT, CRYSTAL_NULL⟩, by decide, by decide, by simp [Crystal_dSpacing, setErr_notFull he]⟩
  | some cc =>
    unfold Spec.expectDSpacing
    by_cases h0 : i = 0 ∧ j = 0 ∧ k = 0
    · simp only [h0, and_self, if_true]
      exact ⟨⟨XRL_ERROR_INVALID_ARGUMENT, INVALID_MILLER⟩, by decide, by decide, by simp [Crystal_dSpacing, h0, setErr_notFull he]⟩
    · simp only [h0, if_false]
      by_cases hn : Spec.nonDegenerate cc
      · simp only [hn, if_true]
        exact dspacing_reciprocal_metric_scaled v cc i j k error hn hs h0
      · simp only [hn, if_false]; trivial

example : Returns (Crystal_dSpacing asIs (some cube) 1 0 0 Slot.empty)
    (cube.volume / Spec.volume cube * Spec.dRecip cube 1 0 0) Slot.empty :=
  dspacing_reciprocal_metric_scaled asIs cube 1 0 0 Slot.empty (good_nonDegenerate cube_valid.good)
    (Or.inr cube_smallMiller) (by decide)

/-- the `int` products `2*i*j` : no undefined behaviour for every `int` Miller triple -/
def dspacing_no_ub_full (v : Variant) : Prop :=
  ∀ (cr : Option (Crystal ℝ)) (i j k : Int) (error : Slot), inI32 i → inI32 j → inI32 k →
    ∀ w, Crystal_dSpacing v cr i j k error ≠ .error (.ub w)

theorem dspacing_no_ub_partial (v : Variant) (cr : Option (Crystal ℝ)) (i j k : Int) (error : Slot)
    (hs : SafeMiller v i j k) (w : String) : Crystal_dSpacing v cr i j k error ≠ .error (.ub w) := by
  cases cr with
  | none => unfold Crystal_dSpacing; cases error <;> simp [setErr]
  | some cc =>
    by_cases h0 : i = 0 ∧ j = 0 ∧ k = 0
    · unfold Crystal_dSpacing; cases error <;> simp [setErr, h0]
    · rw [dSpacing_eval v cc error hs h0]
      split_ifs <;> simp

/-- `Crystal_dSpacing(cube, 40000, 40000, 1)`: `2*40000*40000` does not fit an `int` -/
theorem dspacing_no_ub_full_fails (v : Variant) (hv : v.ovfFix = false) : ¬ dspacing_no_ub_full v := by
  intro h
  have := h (some cube) 40000 40000 1 Slot.empty (by decide) (by decide) (by decide)
    "int overflow: 2 * i_miller * j_miller"
  apply this
  unfold Crystal_dSpacing twoIJ
  simp [hv, cube, ddiv, chkI, inI32, INT_MIN, INT_MAX]

theorem dspacing_no_ub_fixed (v : Variant) (hv : v.ovfFix = true) : dspacing_no_ub_full v :=
  fun cr i j k error _ _ _ w => dspacing_no_ub_partial v cr i j k error (Or.inl hv) w

example : SafeMiller asIs 6 (-6) 5 := Or.inr (by decide)

/-! ## Bragg's law -/

/-- when a reflection exists (`|λ/2d| ≤ 1`) the call returns an angle with `2 d sin θ = hc/E` and leaves the slot as
`Crystal_dSpacing` left it -/
theorem bragg_law (v : Variant) (cr : Option (Crystal ℝ)) (E : ℝ) (i j k : Int) (error e' : Slot) (d : ℝ) (hE : 0 < E)
    (hd : Crystal_dSpacing v cr i j k error = .ok (d, e')) (hd0 : d ≠ 0) (hr : |KEV2ANGST / E / (2 * d)| ≤ 1) :
    ∃ θ, Bragg_angle v cr E i j k error = .ok (θ, e') ∧ 2 * d * Real.sin θ = KEV2ANGST / E := by
  have hr' : |braggSin E d| ≤ 1 := hr
  obtain ⟨h1, h2⟩ := abs_le.mp hr'
  refine ⟨Real.arcsin (braggSin E d), ?_, ?_⟩
  · rw [bragg_of_dspacing v cr hE hd hd0]
    have hno : ¬ (braggSin E d < -1 ∨ 1 < braggSin E d) := by
      intro h; rcases h with h | h <;> linarith
    split_ifs <;> rfl
  · rw [Real.sin_arcsin h1 h2]
    unfold braggSin
    field_simp

/-- on a valid crystal record: a reflection exists iff `hc/E ≤ 2d`, and then Bragg's law holds -/
theorem bragg_law_valid_cell (v : Variant) (cc : Crystal ℝ) (E : ℝ) (i j k : Int) (error : Slot) (hv : validCell cc)
    (hE : 0 < E) (hs : SafeMiller v i j k) (h0 : ¬ (i = 0 ∧ j = 0 ∧ k = 0)) :
    ∃ d, Crystal_dSpacing v (some cc) i j k error = .ok (d, error) ∧ 0 < d ∧
      (KEV2ANGST / E ≤ 2 * d → ∃ θ, Bragg_angle v (some cc) E i j k error = .ok (θ, error) ∧ 2 * d * Real.sin θ = KEV2ANGST / E) := by
  refine ⟨dval cc i j k, dSpacing_valid v hv error hs h0, dval_pos hv h0, fun hr => ?_⟩
  have ⟨hpos, hle⟩ := braggSin_range hv hE h0
  exact bragg_law v (some cc) E i j k error error _ hE (dSpacing_valid v hv error hs h0) (dval_pos hv h0).ne'
    (by show |braggSin E (dval cc i j k)| ≤ 1; rw [abs_of_pos hpos]; exact hle.mpr hr)

example : ∃ θ, Bragg_angle asIs (some cube) 10 1 0 0 Slot.empty = .ok (θ, Slot.empty) ∧
    2 * dval cube 1 0 0 * Real.sin θ = KEV2ANGST / 10 := by
  obtain ⟨d, hd, _, h⟩ := bragg_law_valid_cell asIs cube 10 1 0 0 Slot.empty cube_valid (by norm_num)
    (Or.inr cube_smallMiller) (by decide)
  have hdv : d = dval cube 1 0 0 := by
    rw [dSpacing_valid asIs cube_valid Slot.empty (Or.inr cube_smallMiller) (by decide)] at hd
    injection hd with hd; injection hd with hd; exact hd.symm
  subst hdv
  apply h
  have := cube_dval_ge_one
  unfold KEV2ANGST; norm_num; linarith

theorem bragg_nonpositive_energy_fails (v : Variant) (cr : Option (Crystal ℝ)) (E : ℝ) (i j k : Int) (error : Slot)
    (he : error.isFull = false) (hE : E ≤ 0) : Fails (Bragg_angle v cr E i j k error) error := by
  rw [bragg_nonpos v cr hE, setErr_notFull he]
  exact ⟨⟨XRL_ERROR_INVALID_ARGUMENT, NEGATIVE_ENERGY⟩, by decide, by decide, by simp [Except.bind]⟩

/-- the property: *no reflection (`hc/E > 2d`) ⇒ an error* -/
def bragg_no_reflection_full (v : Variant) : Prop :=
  ∀ (cr : Option (Crystal ℝ)) (E : ℝ) (i j k : Int) (error : Slot) (d : ℝ), 0 < E → error.isFull = false →
    Crystal_dSpacing v cr i j k error = .ok (d, error) → 0 < d → KEV2ANGST / E > 2 * d →
    Fails (Bragg_angle v cr E i j k error) error

/-- what the shipped code does instead: `asin` of a number above 1 — NaN, no error -/
theorem bragg_no_reflection_nf (v : Variant) (hv : v.braggFix = false) (cr : Option (Crystal ℝ)) (E : ℝ) (i j k : Int)
    (error : Slot) (d : ℝ) (hE : 0 < E) (hd : Crystal_dSpacing v cr i j k error = .ok (d, error)) (hd0 : 0 < d)
    (hr : KEV2ANGST / E > 2 * d) : Bragg_angle v cr E i j k error = .error (.nf "asin") := by
  rw [bragg_of_dspacing v cr hE hd hd0.ne']
  have h1 : 1 < braggSin E d := by
    unfold braggSin; rw [lt_div_iff₀ (by positivity)]; linarith
  simp [hv, h1]

theorem bragg_no_reflection_full_fails (v : Variant) (hv : v.braggFix = false) : ¬ bragg_no_reflection_full v := by
  intro h
  have hd := dSpacing_valid v cube_valid Slot.empty (Or.inr cube_smallMiller) (i := 1) (j := 0) (k := 0) (by decide)
  obtain ⟨e, _, _, he⟩ := h (some cube) 1 1 0 0 Slot.empty _ one_pos rfl hd cube_dval.1 cube_no_reflection
  rw [bragg_no_reflection_nf v hv (some cube) 1 1 0 0 Slot.empty _ one_pos hd cube_dval.1 cube_no_reflection] at he
  cases he

theorem bragg_no_reflection_fixed (v : Variant) (hv : v.braggFix = true) : bragg_no_reflection_full v := by
  intro cr E i j k error d hE he hd hd0 hr
  rw [bragg_of_dspacing v cr hE hd hd0.ne']
  have h1 : ¬ |braggSin E d| ≤ 1 := by
    have : 1 < braggSin E d := by
      unfold braggSin; rw [lt_div_iff₀ (by positivity)]; linarith
    rw [abs_of_pos (by linarith)]; linarith
  simp only [hv, if_true, h1, if_false, setErr_notFull he]
  exact ⟨⟨XRL_ERROR_INVALID_ARGUMENT, NO_REFLECTION⟩, by decide, by decide, by simp [Except.bind]⟩

example : Bragg_angle asIs (some cube) 1 1 0 0 Slot.empty = .error (.nf "asin") :=
  bragg_no_reflection_nf asIs rfl (some cube) 1 1 0 0 Slot.empty _ one_pos
    (dSpacing_valid asIs cube_valid Slot.empty (Or.inr cube_smallMiller) (by decide)) cube_dval.1 cube_no_reflection

example : Fails (Bragg_angle repaired (some cube) 1 1 0 0 Slot.empty) Slot.empty :=
  bragg_no_reflection_fixed repaired rfl (some cube) 1 1 0 0 Slot.empty _ one_pos rfl
    (dSpacing_valid repaired cube_valid Slot.empty (Or.inl rfl) (by decide)) cube_dval.1 cube_no_reflection

/-- **Bragg's law or an error** (executable specification `expectBraggAt`, repair C13-1 in): `E ≤ 0`, NULL crystal, (0,0,0)
→ an error; with `d` the spacing `Crystal_dSpacing` reports for the same crystal and indices: `hc/E > 2d` → an error, otherwise
`θ = asin((hc/E)/(2d))` -/
theorem bragg_meets_spec (v : Variant) (hv : v.braggFix = true) (cr : Option (Crystal ℝ)) (E : ℝ) (i j k : Int) (error : Slot)
    (he : error.isFull = false) (hs : SafeMiller v i j k) (d : Option ℝ)
    (hd : ∀ x, d = some x → Crystal_dSpacing v cr i j k Slot.null = .ok (x, Slot.null)) :
    Meets (Bragg_angle v cr E i j k error) error (Spec.expectBraggAt cr d E i j k) := by
  unfold Spec.expectBraggAt
  by_cases hE : E ≤ 0
  · simp only [lit0, hE, if_true]
    exact bragg_nonpositive_energy_fails v cr E i j k error he hE
  · have hE' : 0 < E := lt_of_not_ge hE
    simp only [lit0, hE, if_false]
    cases cr with
    | none =>
      exact ⟨⟨XRL_ERROR_INVALID_ARGUMENT, CRYSTAL_NULL⟩, by decide, by decide,
        by rw [bragg_of_dspacing_zero v none hE' (dspacing_null_zero v i j k he)]; simp⟩
    | some cc =>
      by_cases h0 : i = 0 ∧ j = 0 ∧ k = 0
      · obtain ⟨rfl, rfl, rfl⟩ := h0
        simp only [and_self, if_true]
        exact ⟨⟨XRL_ERROR_INVALID_ARGUMENT, INVALID_MILLER⟩, by decide, by decide,
          by rw [bragg_of_dspacing_zero v (some cc) hE' (dspacing_000_zero v cc he)]; simp⟩
      · simp only [h0, if_false]
        cases d with
        | none => trivial
        | some x =>
          have hx := dSpacing_slot v cc hs h0 (hd x rfl) error
          unfold Spec.expectBragg
          simp only [lit0, lit1, lit2, hE, if_false]
          by_cases hx0 : x ≤ 0
          · simp only [hx0, if_true]; trivial
          · have hxp : 0 < x := lt_of_not_ge hx0
            simp only [hx0, if_false]
            have hsp : 0 < braggSin E x := by unfold braggSin; have := KEV2ANGST_pos; positivity
            rw [show KEV2ANGST / E / (2 * x) = braggSin E x from rfl]
            by_cases h1 : 1 < braggSin E x
            · simp only [h1, if_true]
              have hna : ¬ |braggSin E x| ≤ 1 := by rw [abs_of_pos hsp]; exact not_le.mpr h1
              refine ⟨⟨XRL_ERROR_INVALID_ARGUMENT, NO_REFLECTION⟩, by decide, by decide, ?_⟩
              rw [bragg_of_dspacing v (some cc) hE' hx hxp.ne']
              simp only [hv, if_true, hna, if_false, setErr_notFull he]
              simp [Except.bind]
            · simp only [h1, if_false]
              have ha : |braggSin E x| ≤ 1 := by rw [abs_of_pos hsp]; exact not_lt.mp h1
              show Bragg_angle v (some cc) E i j k error = .ok (XNum.asin (braggSin E x), error)
              rw [bragg_of_dspacing v (some cc) hE' hx hxp.ne']
              simp only [hv, if_true, ha, xasin]



/-- at 10 keV the unit cube reflects on (1,0,0): the specification demands the angle, and the (repaired) model returns it -/
example : ∃ θ, Spec.expectBraggAt (some cube) (some (dval cube 1 0 0)) (10 : ℝ) 1 0 0 = .value θ ∧
    Bragg_angle repaired (some cube) 10 1 0 0 Slot.empty = .ok (θ, Slot.empty) := by
  have hm := bragg_meets_spec repaired rfl (some cube) 10 1 0 0 Slot.empty rfl (Or.inl rfl) (some (dval cube 1 0 0))
    (fun x hx => by injection hx with hx; subst hx; exact dSpacing_valid repaired cube_valid Slot.null (Or.inl rfl) (by decide))
  have hd1 := cube_dval_ge_one
  have hk : (KEV2ANGST : ℝ) / 10 / (2 * dval cube 1 0 0) ≤ 1 := by
    rw [div_le_one (by positivity)]; unfold KEV2ANGST; norm_num; linarith
  have hx : Spec.expectBraggAt (some cube) (some (dval cube 1 0 0)) (10 : ℝ) 1 0 0 =
      .value (XNum.asin (KEV2ANGST / 10 / (2 * dval cube 1 0 0))) := by
    unfold Spec.expectBraggAt Spec.expectBragg
    have h1 : ¬ ((10 : ℝ) ≤ 0) := by norm_num
    have h2 : ¬ (dval cube 1 0 0 ≤ 0) := by linarith
    have h3 : ¬ (1 < (KEV2ANGST : ℝ) / 10 / (2 * dval cube 1 0 0)) := not_lt.mpr hk
    simp [h1, h2, h3]
  rw [hx] at hm ⊢
  exact ⟨_, rfl, hm⟩

/-! ## `Q_scattering_amplitude` -/

/-- **`Q = sin(rel_angle · θ_B) / λ`**, `λ = hc/E`: whatever `Bragg_angle` answers for the same arguments (angle `θ_B`, slot
`e'`), for every relative angle -/
theorem q_sin_over_lambda (v : Variant) (cr : Option (Crystal ℝ)) (E : ℝ) (i j k : Int) (rel : ℝ) (error e' : Slot) (θ : ℝ)
    (hE : 0 < E) (h0 : ¬ (i = 0 ∧ j = 0 ∧ k = 0)) (hb : Bragg_angle v cr E i j k error = .ok (θ, e')) :
    Q_scattering_amplitude v cr E i j k rel error = .ok (Real.sin (rel * θ) / (KEV2ANGST / E), e') := by
  rw [q_of_bragg v cr hE h0, hb]
  show Except.ok (E * Real.sin (rel * θ) / KEV2ANGST, e') = _
  have hk := KEV2ANGST_ne
  congr 2
  field_simp

/-- `Q` meets its executable specification `expectQAt`: `E ≤ 0` → an error; (0,0,0) → 0 for every crystal pointer; otherwise
`sin(rel·θ_B)/λ` with the Bragg angle of the specification, an error when there is no reflection / no crystal -/
theorem q_meets_spec (v : Variant) (hv : v.braggFix = true) (cr : Option (Crystal ℝ)) (E : ℝ) (i j k : Int) (rel : ℝ) (error : Slot)
    (he : error.isFull = false) (hs : SafeMiller v i j k) (d : Option ℝ)
    (hd : ∀ x, d = some x → Crystal_dSpacing v cr i j k Slot.null = .ok (x, Slot.null)) :
    Meets (Q_scattering_amplitude v cr E i j k rel error) error (Spec.expectQAt cr d E i j k rel) := by
  unfold Spec.expectQAt
  by_cases hE : E ≤ 0
  · simp only [lit0, hE, if_true]
    rw [q_nonpos v cr hE, setErr_notFull he]
    exact ⟨⟨XRL_ERROR_INVALID_ARGUMENT, NEGATIVE_ENERGY⟩, by decide, by decide, by simp [Except.bind]⟩
  · have hE' : 0 < E := lt_of_not_ge hE
    simp only [lit0, hE, if_false]
    by_cases h0 : i = 0 ∧ j = 0 ∧ k = 0
    · obtain ⟨rfl, rfl, rfl⟩ := h0
      simp only [and_self, if_true]
      exact q_zero_miller v cr hE' rel error
    · simp only [h0, if_false]
      have hb := bragg_meets_spec v hv cr E i j k error he hs d hd
      generalize Spec.expectBraggAt cr d E i j k = x at hb
      cases x with
      | any => trivial
      | fails =>
        obtain ⟨e, e1, e2, h⟩ := hb
        refine ⟨e, e1, e2, ?_⟩
        rw [q_of_bragg v cr hE' h0, h]
        show Except.ok (E * Real.sin (rel * (0.0 : ℝ)) / KEV2ANGST, error.withErr e) = _
        simp
      | value th =>
        have h : Bragg_angle v cr E i j k error = .ok (th, error) := hb
        unfold Spec.expectQ
        simp only [lit0, hE, if_false, h0]
        exact q_sin_over_lambda v cr E i j k rel error error th hE' h0 h

example : ∃ θ, Q_scattering_amplitude asIs (some cube) 10 1 0 0 0.5 Slot.empty =
    .ok (Real.sin (0.5 * θ) / (KEV2ANGST / 10), Slot.empty) := by
  have hr : KEV2ANGST / 10 ≤ 2 * dval cube 1 0 0 := by
    have := cube_dval_ge_one; unfold KEV2ANGST; norm_num; linarith
  exact ⟨_, q_sin_over_lambda asIs (some cube) 10 1 0 0 0.5 Slot.empty Slot.empty _ (by norm_num) (by decide)
    (bragg_valid asIs cube_valid (by norm_num) (Or.inr cube_smallMiller) (by decide) hr Slot.empty)⟩

example : Meets (Q_scattering_amplitude repaired (some cube) 10 0 0 0 1.7 Slot.empty) Slot.empty (.value 0.0) := by
  have := q_meets_spec repaired rfl (some cube) 10 0 0 0 1.7 Slot.empty rfl (Or.inl rfl) none (fun x hx => by cases hx)
  have hx : Spec.expectQAt (some cube) none (10 : ℝ) 0 0 0 1.7 = .value 0.0 := by
    unfold Spec.expectQAt
    have h1 : ¬ ((10 : ℝ) ≤ 0) := by norm_num
    simp [h1]
  rwa [hx] at this

/-! ## Atomic factors -/

/-- when the three elemental functions answer (and, for the shipped code, no requested product is exactly 0):
return code 1, the requested outputs are `FF·D, Fi·D, −Fii·D`, the slot is untouched -/
theorem atomic_factors_spec (v : Variant) (P : Elem ℝ) (Z : Int) (E q D a b c : ℝ) (w0 wp wpp : Bool) (error : Slot)
    (hD : 0 < D) (ha : Gives (P.ff Z q) a) (hb : Gives (P.fi Z E) b) (hc : Gives (P.fii Z E) c)
    (hnz : v.zeroFix = true ∨ ((w0 = true → a * D ≠ 0) ∧ (wp = true → b * D ≠ 0) ∧ (wpp = true → -c * D ≠ 0))) :
    Atomic_Factors v P Z E q D w0 wp wpp error =
      .ok ((1, if w0 = true then some (a * D) else none, if wp = true then some (b * D) else none,
            if wpp = true then some (-c * D) else none), error) := by
  have t : ∀ (w : Bool) (f : Slot → M (ℝ × Slot)) (x : ℝ) (sign : ℝ → ℝ), Gives f x →
      (v.zeroFix = true ∨ (w = true → sign x * D ≠ 0)) →
      afTerm v w f sign D error = .ok (if w = true then some (sign x * D) else none, false, error) := by
    intro w f x sign hf hz
    cases w with
    | false => simp [afTerm_skip]
    | true => simpa using afTerm_gives v hf sign D error (hz.imp id (fun h => h rfl))
  unfold Atomic_Factors
  have h1 := t w0 _ a id ha (hnz.imp id (fun h => by simpa using h.1))
  have h2 := t wp _ b id hb (hnz.imp id (fun h => by simpa using h.2.1))
  have h3 := t wpp _ c (fun x => -x) hc (hnz.imp id (fun h => by simpa using h.2.2))
  simp only [lit0, not_le.mpr hD, if_false, h1, h2, h3, bind_ok, id]
  rfl

/-- a non-positive Debye factor: return code 0, outputs zeroed, exactly one error -/
theorem atomic_factors_debye_fails (v : Variant) (P : Elem ℝ) (Z : Int) (E q D : ℝ) (w0 wp wpp : Bool) (error : Slot)
    (he : error.isFull = false) (hD : D ≤ 0) :
    Atomic_Factors v P Z E q D w0 wp wpp error =
      .ok ((0, zeroed w0, zeroed wp, zeroed wpp), error.withErr ⟨XRL_ERROR_INVALID_ARGUMENT, NEGATIVE_DEBYE_FACTOR⟩) := by
  unfold Atomic_Factors
  simp only [lit0, hD, if_true, setErr_notFull he, bind_ok, pure_eq_ok]

/-- the property (C03 for this function): *all three factors available ⇒ success with the products* -/
def atomic_factors_zero_full (v : Variant) : Prop :=
  ∀ (P : Elem ℝ) (Z : Int) (E q D a b c : ℝ) (error : Slot), 0 < D →
    Gives (P.ff Z q) a → Gives (P.fi Z E) b → Gives (P.fii Z E) c →
    Atomic_Factors v P Z E q D true true true error = .ok ((1, some (a * D), some (b * D), some (-c * D)), error)

/-- what the shipped code does when `Fii` is exactly 0: return code 0, everything zeroed, **no** error -/
theorem atomic_factors_zero_silent (v : Variant) (hv : v.zeroFix = false) (P : Elem ℝ) (Z : Int) (E q D a b : ℝ)
    (error : Slot) (hD : 0 < D) (ha : Gives (P.ff Z q) a) (hb : Gives (P.fi Z E) b) (hc : Gives (P.fii Z E) 0)
    (ha0 : a * D ≠ 0) (hb0 : b * D ≠ 0) :
    Atomic_Factors v P Z E q D true true true error = .ok ((0, some 0, some 0, some 0), error) := by
  unfold Atomic_Factors
  have h1 := afTerm_gives v ha id D error (Or.inr (by simpa using ha0))
  have h2 := afTerm_gives v hb id D error (Or.inr (by simpa using hb0))
  have h3 := afTerm_zero v hv hc (fun x => -x) D error (by simp)
  simp only [lit0, not_le.mpr hD, if_false, h1, h2, h3, bind_ok, zeroed, if_true]
  rfl

theorem atomic_factors_zero_full_fails (v : Variant) (hv : v.zeroFix = false) : ¬ atomic_factors_zero_full v := by
  intro h
  have h1 := h Pzero 8 1 0 1 8 1 0 Slot.empty one_pos (fun _ => rfl) (fun _ => rfl) (fun _ => rfl)
  rw [atomic_factors_zero_silent v hv Pzero 8 1 0 1 8 1 Slot.empty one_pos (fun _ => rfl) (fun _ => rfl) (fun _ => rfl)
    (by norm_num) (by norm_num)] at h1
  injection h1 with h1
  injection h1 with h1
  injection h1 with h1
  exact absurd h1 (by decide)

theorem atomic_factors_zero_fixed (v : Variant) (hv : v.zeroFix = true) : atomic_factors_zero_full v :=
  fun P Z _ _ _ _ _ _ error hD ha hb hc => atomic_factors_ok v P Z hD ha hb hc (Or.inl hv) error

example : Atomic_Factors asIs P0 14 8 0.2 1 true true true Slot.empty = .ok ((1, some (14 * 1), some (1 * 1), some (-1 * 1)), Slot.empty) := by
  have := atomic_factors_spec asIs P0 14 8 0.2 1 ((14 : Int) : ℝ) 1 1 true true true Slot.empty one_pos
    (fun _ => rfl) (fun _ => rfl) (fun _ => rfl) (Or.inr (by norm_num))
  simpa using this

example : Atomic_Factors asIs Pzero 8 1 0 1 true true true Slot.empty = .ok ((0, some 0, some 0, some 0), Slot.empty) :=
  atomic_factors_zero_silent asIs rfl Pzero 8 1 0 1 8 1 Slot.empty one_pos (fun _ => rfl) (fun _ => rfl) (fun _ => rfl)
    (by norm_num) (by norm_num)

/-! ## Structure factor -/

/-- **explicit sum.**  For any atom list: when `Q` answers `q`, the Debye factor is positive, the flags are valid, every
`Zatom` is a legal subscript and the library reports the factors `F Z = (FF, Fi, Fii)` of every element present, the
result is `Σ_atoms occ · (f₀ + f′ + i f″) · e^{i·TWOPI·h·r}` with `(f₀, f′, f″) = (FF·D, Fi·D, −Fii·D)` selected by the
flags — the per-Z cache returns, for every atom, the factor of that atom's element (`fillCache_reports`). -/
theorem fh_explicit_sum (v : Variant) (P : Elem ℝ) (cc : Crystal ℝ) (E q D rel : ℝ) (i j k a b c : Int) (error : Slot)
    (F : Int → ℝ × ℝ × ℝ)
    (hQ : Q_scattering_amplitude v (some cc) E i j k rel Slot.empty = .ok (q, Slot.empty))
    (hD : 0 < D) (hfl : validFlags a b c)
    (hat : ∀ atom ∈ cc.atoms, (0 ≤ atom.Zatom ∧ atom.Zatom < 120) ∧ Reports v P E q D F atom.Zatom) :
    Returns2 (Crystal_F_H_StructureFactor_Partial v P (some cc) E i j k D rel a b c error)
        (Spec.structureFactor cc i j k (fAof F D a b c)) error ∧
      ∀ Z, Spec.atomicFactor ((F Z).1 * D) ((F Z).2.1 * D) (-(F Z).2.2 * D) a b c = some (fAof F D a b c Z) :=
  ⟨fh_eval v P cc error hQ hD hfl F hat, fun Z => atomicFactor_valid hfl _ _ _⟩

/-- the sum in `Σ` form -/
theorem fh_explicit_sum_list (cc : Crystal ℝ) (i j k : Int) (fA : Int → ℝ × ℝ) :
    Spec.structureFactor cc i j k fA = (cc.atoms.map (Spec.summand i j k fA)).sum := by
  unfold Spec.structureFactor
  simp only [lit0]
  exact sumFrom_zero i j k fA cc.atoms

/-- …and in complex notation: `F = Σ occ · (f_re + i f_im) · exp(i · TWOPI · h·r)` -/
theorem fh_explicit_sum_complex (cc : Crystal ℝ) (i j k : Int) (fA : Int → ℝ × ℝ) :
    toC (Spec.structureFactor cc i j k fA) =
      (cc.atoms.map (fun atom => (atom.fraction : ℂ) * toC (fA atom.Zatom) *
        Complex.exp (Complex.I * (Spec.phase i j k atom : ℝ)))).sum := by
  rw [fh_explicit_sum_list, sum_complex]

example : Returns2 (Crystal_F_H_StructureFactor_Partial asIs P0 (some cube) 10 1 0 0 1 1 2 2 2 Slot.empty)
    (Spec.structureFactor cube 1 0 0 (fAof F0 1 2 2 2)) Slot.empty :=
  (fh_explicit_sum asIs P0 cube 10 _ 1 1 1 0 0 2 2 2 Slot.empty F0 (cube_hQ asIs) one_pos (by decide) (cube_reports asIs 10 _)).1

/-- **additivity in the three flags**: `F(a,b,c) = F(a,0,0) + F(0,b,0) + F(0,0,c)` -/
theorem fh_additive_flags (v : Variant) (P : Elem ℝ) (cc : Crystal ℝ) (E q D rel : ℝ) (i j k a b c : Int) (error : Slot)
    (F : Int → ℝ × ℝ × ℝ)
    (hQ : Q_scattering_amplitude v (some cc) E i j k rel Slot.empty = .ok (q, Slot.empty))
    (hD : 0 < D) (hfl : validFlags a b c)
    (hat : ∀ atom ∈ cc.atoms, (0 ≤ atom.Zatom ∧ atom.Zatom < 120) ∧ Reports v P E q D F atom.Zatom) :
    ∃ Fabc Fa Fb Fc : ℝ × ℝ,
      Crystal_F_H_StructureFactor_Partial v P (some cc) E i j k D rel a b c error = .ok (Fabc, error) ∧
      Crystal_F_H_StructureFactor_Partial v P (some cc) E i j k D rel a 0 0 error = .ok (Fa, error) ∧
      Crystal_F_H_StructureFactor_Partial v P (some cc) E i j k D rel 0 b 0 error = .ok (Fb, error) ∧
      Crystal_F_H_StructureFactor_Partial v P (some cc) E i j k D rel 0 0 c error = .ok (Fc, error) ∧
      Fabc = Fa + Fb + Fc := by
  refine ⟨_, _, _, _, fh_eval v P cc error hQ hD hfl F hat, fh_eval v P cc error hQ hD (validFlags_a a hfl.1) F hat,
    fh_eval v P cc error hQ hD (validFlags_b b hfl.2.1) F hat, fh_eval v P cc error hQ hD (validFlags_c c hfl.2.2) F hat, ?_⟩
  unfold Spec.structureFactor
  simp only [lit0]
  rw [← sumFrom_add, ← sumFrom_add]
  congr 1
  funext Z
  exact fAof_additive F D hfl Z

example : validFlags 2 2 2 ∧ validFlags 1 0 2 ∧ ¬ validFlags 2 1 2 := by decide

example : ∃ Fabc Fa Fb Fc : ℝ × ℝ,
    Crystal_F_H_StructureFactor_Partial asIs P0 (some cube) 10 1 0 0 1 1 1 2 2 Slot.empty = .ok (Fabc, Slot.empty) ∧
    Crystal_F_H_StructureFactor_Partial asIs P0 (some cube) 10 1 0 0 1 1 1 0 0 Slot.empty = .ok (Fa, Slot.empty) ∧
    Crystal_F_H_StructureFactor_Partial asIs P0 (some cube) 10 1 0 0 1 1 0 2 0 Slot.empty = .ok (Fb, Slot.empty) ∧
    Crystal_F_H_StructureFactor_Partial asIs P0 (some cube) 10 1 0 0 1 1 0 0 2 Slot.empty = .ok (Fc, Slot.empty) ∧
    Fabc = Fa + Fb + Fc :=
  fh_additive_flags asIs P0 cube 10 _ 1 1 1 0 0 1 2 2 Slot.empty F0 (cube_hQ asIs) one_pos (by decide) (cube_reports asIs 10 _)

/-- **Friedel's law**: with the absorptive term switched off (`f_prime2_flag = 0`), `F(−h) = conj F(h)` -/
theorem fh_friedel (v : Variant) (P : Elem ℝ) (cc : Crystal ℝ) (E q D rel : ℝ) (i j k a b : Int) (error : Slot)
    (F : Int → ℝ × ℝ × ℝ) (hs : SafeMiller v i j k)
    (hQ : Q_scattering_amplitude v (some cc) E i j k rel Slot.empty = .ok (q, Slot.empty))
    (hD : 0 < D) (hfl : validFlags a b 0)
    (hat : ∀ atom ∈ cc.atoms, (0 ≤ atom.Zatom ∧ atom.Zatom < 120) ∧ Reports v P E q D F atom.Zatom) :
    ∃ Fh : ℝ × ℝ,
      Crystal_F_H_StructureFactor_Partial v P (some cc) E i j k D rel a b 0 error = .ok (Fh, error) ∧
      Crystal_F_H_StructureFactor_Partial v P (some cc) E (-i) (-j) (-k) D rel a b 0 error = .ok (conj Fh, error) := by
  have hQ' : Q_scattering_amplitude v (some cc) E (-i) (-j) (-k) rel Slot.empty = .ok (q, Slot.empty) := by
    rw [q_inversion v (some cc) E hs]; exact hQ
  refine ⟨_, fh_eval v P cc error hQ hD hfl F hat, ?_⟩
  rw [fh_eval v P cc error hQ' hD hfl F hat]
  unfold Spec.structureFactor
  simp only [lit0]
  rw [sumFrom_friedel i j k _ (fun Z => by simp [fAof, flagged])]

example : ∃ Fh : ℝ × ℝ,
    Crystal_F_H_StructureFactor_Partial asIs P0 (some cube) 10 1 0 0 1 1 2 2 0 Slot.empty = .ok (Fh, Slot.empty) ∧
    Crystal_F_H_StructureFactor_Partial asIs P0 (some cube) 10 (-1) (-0) (-0) 1 1 2 2 0 Slot.empty = .ok (conj Fh, Slot.empty) :=
  fh_friedel asIs P0 cube 10 _ 1 1 1 0 0 2 2 Slot.empty F0 (Or.inr cube_smallMiller) (cube_hQ asIs) one_pos (by decide)
    (cube_reports asIs 10 _)

/-- **the (0,0,0) reflection**, any valid flags: all phases are 1; `Q = 0` without looking at the cell -/
theorem fh_000_general (v : Variant) (P : Elem ℝ) (cc : Crystal ℝ) (E D rel : ℝ) (a b c : Int) (error : Slot)
    (F : Int → ℝ × ℝ × ℝ) (hE : 0 < E) (hD : 0 < D) (hfl : validFlags a b c)
    (hat : ∀ atom ∈ cc.atoms, (0 ≤ atom.Zatom ∧ atom.Zatom < 120) ∧ Reports v P E 0 D F atom.Zatom) :
    Returns2 (Crystal_F_H_StructureFactor_Partial v P (some cc) E 0 0 0 D rel a b c error)
      ((cc.atoms.map (fun atom => atom.fraction * (fAof F D a b c atom.Zatom).1)).sum,
       (cc.atoms.map (fun atom => atom.fraction * (fAof F D a b c atom.Zatom).2)).sum) error := by
  unfold Returns2
  rw [fh_eval v P cc error (q_zero_miller v (some cc) hE rel Slot.empty) hD hfl F hat]
  unfold Spec.structureFactor
  simp only [lit0]
  rw [sumFrom_000]

/-- **(0,0,0), f₀ only**: with `FF_Rayl(Z, 0) = Z` the structure factor is `Σ occ · Z · Debye factor` -/
theorem fh_000 (v : Variant) (P : Elem ℝ) (cc : Crystal ℝ) (E D rel : ℝ) (error : Slot)
    (F : Int → ℝ × ℝ × ℝ) (hE : 0 < E) (hD : 0 < D)
    (hat : ∀ atom ∈ cc.atoms, (0 ≤ atom.Zatom ∧ atom.Zatom < 120) ∧ Reports v P E 0 D F atom.Zatom ∧
      (F atom.Zatom).1 = (atom.Zatom : ℝ)) :
    Returns2 (Crystal_F_H_StructureFactor_Partial v P (some cc) E 0 0 0 D rel 2 0 0 error)
      ((cc.atoms.map (fun atom => atom.fraction * ((atom.Zatom : ℝ) * D))).sum, 0) error := by
  have h := fh_000_general v P cc E D rel 2 0 0 error F hE hD (by decide) (fun atom ha => ⟨(hat atom ha).1, (hat atom ha).2.1⟩)
  unfold Returns2 at *
  rw [h]
  have e1 : cc.atoms.map (fun atom => atom.fraction * (fAof F D 2 0 0 atom.Zatom).1) =
      cc.atoms.map (fun atom => atom.fraction * ((atom.Zatom : ℝ) * D)) := by
    apply List.map_congr_left
    intro atom ha
    simp [fAof, flagged, (hat atom ha).2.2]
  have e2 : (cc.atoms.map (fun atom => atom.fraction * (fAof F D 2 0 0 atom.Zatom).2)).sum = 0 := by
    simp [fAof, flagged]
  rw [e1, e2]

example : Returns2 (Crystal_F_H_StructureFactor_Partial asIs P0 (some cube) 8 0 0 0 1 1 2 0 0 Slot.empty)
    ((cube.atoms.map (fun atom => atom.fraction * ((atom.Zatom : ℝ) * 1))).sum, 0) Slot.empty := by
  apply fh_000 asIs P0 cube 8 1 1 Slot.empty F0 (by norm_num) one_pos
  intro atom h
  simp only [cube, List.mem_singleton] at h
  subst h
  exact ⟨by decide, P0_reports asIs 8 0, rfl⟩

/-- **invalid flags ⇒ error** — detected while the first atom is processed: `(0,0)` and exactly one error naming the first
offending flag (order f0, f′, f″) -/
theorem fh_invalid_flags (v : Variant) (P : Elem ℝ) (cc : Crystal ℝ) (E q D rel : ℝ) (i j k a b c : Int) (error : Slot)
    (F : Int → ℝ × ℝ × ℝ) (atom : Atom ℝ) (rest : List (Atom ℝ)) (hcc : cc.atoms = atom :: rest)
    (hQ : Q_scattering_amplitude v (some cc) E i j k rel Slot.empty = .ok (q, Slot.empty))
    (hD : 0 < D) (hfl : ¬ validFlags a b c) (he : error.isFull = false)
    (hz : 0 ≤ atom.Zatom ∧ atom.Zatom < 120) (hr : Reports v P E q D F atom.Zatom) :
    Fails2 (Crystal_F_H_StructureFactor_Partial v P (some cc) E i j k D rel a b c error) error := by
  obtain ⟨msg, hmsg, hap⟩ := applyFlags_invalid hfl ((F atom.Zatom).1 * D) ((F atom.Zatom).2.1 * D) (-(F atom.Zatom).2.2 * D) he
  refine ⟨⟨XRL_ERROR_INVALID_ARGUMENT, msg⟩, hmsg, (by decide : XRL_ERROR_INVALID_ARGUMENT ≤ XRL_ERROR_RUNTIME), ?_⟩
  have haf := atomic_factors_ok v P atom.Zatom hD hr.ff hr.fi hr.fii hr.nz error
  unfold Crystal_F_H_StructureFactor_Partial
  simp only [hQ, bind_ok, Slot.isFull, Bool.false_eq_true, if_false, hcc]
  rw [fillCache]
  simp only [hz, and_self, if_true, Cache.empty, Option.isSome_none, Bool.false_eq_true, if_false, haf, bind_ok,
    one_ne_zero, hap]
  rfl

/-- …and with no atom at all there is nothing to detect: `(0,0)`, no error, whatever the flags -/
theorem fh_invalid_flags_no_atoms (v : Variant) (P : Elem ℝ) (cc : Crystal ℝ) (E q D rel : ℝ) (i j k a b c : Int)
    (error : Slot) (hcc : cc.atoms = [])
    (hQ : Q_scattering_amplitude v (some cc) E i j k rel Slot.empty = .ok (q, Slot.empty)) :
    Crystal_F_H_StructureFactor_Partial v P (some cc) E i j k D rel a b c error = .ok ((0.0, 0.0), error) := by
  unfold Crystal_F_H_StructureFactor_Partial
  simp only [hQ, bind_ok, Slot.isFull, Bool.false_eq_true, if_false, hcc, fillCache, sumAtoms, pure_eq_ok]

example : Fails2 (Crystal_F_H_StructureFactor_Partial asIs P0 (some cube) 8 0 0 0 1 1 3 2 2 Slot.empty) Slot.empty :=
  fh_invalid_flags asIs P0 cube 8 0 1 1 0 0 0 3 2 2 Slot.empty F0 _ [] rfl
    (q_zero_miller asIs (some cube) (by norm_num) 1 Slot.empty) one_pos (by decide) rfl (by decide) (P0_reports asIs 8 0)

/-- **finite / no abort.**  For a valid crystal record (non-NULL, non-degenerate cell with positive stored volume, every
`Zatom` in 0..119 — or repair C13-2), Miller indices without `int` overflow, elemental functions that honour their
contract and a slot without an error: the call ends in `ok` (a value, or `(0,0)` with an error) — no undefined
behaviour, no non-finite intermediate, no error stored over an error — provided the shipped `Bragg_angle` is not asked
for a reflection that does not exist (`E ≤ 0`, hkl = 000, `hc/E ≤ 2d`, or repair C13-1). -/
theorem fh_no_abort (v : Variant) (P : Elem ℝ) (cc : Crystal ℝ) (E D rel : ℝ) (i j k a b c : Int) (error : Slot)
    (hP : ElemContract P) (hv : validCell cc) (hz : v.zFix = true ∨ validAtoms cc) (hs : SafeMiller v i j k)
    (he : error.isFull = false)
    (hr : v.braggFix = true ∨ E ≤ 0 ∨ (i = 0 ∧ j = 0 ∧ k = 0) ∨
      ∀ d, Crystal_dSpacing v (some cc) i j k Slot.empty = .ok (d, Slot.empty) → KEV2ANGST / E ≤ 2 * d) :
    ∃ Fh e', Crystal_F_H_StructureFactor_Partial v P (some cc) E i j k D rel a b c error = .ok (Fh, e') := by
  apply fh_total v hP hv hz E D rel hs a b c he
  rcases hr with h | h | h | h
  · exact Or.inl h
  · exact Or.inr (Or.inl h)
  · exact Or.inr (Or.inr (Or.inl h))
  · by_cases h0 : i = 0 ∧ j = 0 ∧ k = 0
    · exact Or.inr (Or.inr (Or.inl h0))
    · exact Or.inr (Or.inr (Or.inr (h _ (dSpacing_valid v hv Slot.empty hs h0))))

example : ∃ Fh e', Crystal_F_H_StructureFactor_Partial asIs P0 (some cube) 8 0 0 0 0.9 1 2 2 2 Slot.empty = .ok (Fh, e') :=
  fh_no_abort asIs P0 cube 8 0.9 1 0 0 0 2 2 2 Slot.empty P0_contract cube_valid (Or.inr cube_validAtoms)
    (Or.inr (by decide)) rfl (Or.inr (Or.inr (Or.inl ⟨rfl, rfl, rfl⟩)))

/-- the property (C04 for this function): *no undefined behaviour for any crystal pointer and any record* -/
def fh_no_ub_full (v : Variant) : Prop :=
  ∀ (P : Elem ℝ), ElemContract P → ∀ (cr : Option (Crystal ℝ)) (E D rel : ℝ) (i j k a b c : Int) (error : Slot),
    smallMiller i j k → error.isFull = false →
    ∀ w, Crystal_F_H_StructureFactor_Partial v P cr E i j k D rel a b c error ≠ .error (.ub w)

/-- `crystal = NULL`, hkl = (0,0,0): `Q` returns 0 without looking at the crystal, then `cc->n_atom` -/
theorem fh_no_ub_full_fails_null (v : Variant) (hv : v.nullFix = false) : ¬ fh_no_ub_full v := by
  intro h
  apply h P0 P0_contract none 8 1 1 0 0 0 2 2 2 Slot.empty (by decide) rfl
    "member access cc->n_atom within NULL pointer (crystal_diffraction.c:349)"
  unfold Crystal_F_H_StructureFactor_Partial
  rw [q_zero_miller v none (by norm_num) 1 Slot.empty]
  simp [hv, Slot.isFull]

/-- `Zatom = 120`: `f_is_computed[120]` is one past the array -/
theorem fh_no_ub_full_fails_zatom (v : Variant) (hv : v.zFix = false) : ¬ fh_no_ub_full v := by
  intro h
  apply h P0 P0_contract (some badZ) 8 1 1 0 0 0 2 2 2 Slot.empty (by decide) rfl
    "index out of bounds for f_is_computed[120] (crystal_diffraction.c:352)"
  unfold Crystal_F_H_StructureFactor_Partial
  rw [q_zero_miller v (some badZ) (by norm_num) 1 Slot.empty]
  simp [hv, Slot.isFull, badZ, fillCache]

/-- excluding exactly the two witness sets (NULL pointer, illegal `Zatom`): no undefined behaviour, for every cell -/
theorem fh_no_ub_partial (v : Variant) (P : Elem ℝ) (cc : Crystal ℝ) (E D rel : ℝ) (i j k a b c : Int) (error : Slot)
    (hP : ElemContract P) (hz : validAtoms cc) (hs : SafeMiller v i j k) (he : error.isFull = false) (w : String) :
    Crystal_F_H_StructureFactor_Partial v P (some cc) E i j k D rel a b c error ≠ .error (.ub w) := by
  rcases fh_outcome v hP (some cc) E D rel hs a b c he (Or.inr (by simp))
    (Or.inr (fun cc' h => by injection h with h; subst h; exact hz)) with ⟨w', h⟩ | ⟨Fh, e', h⟩ <;> rw [h] <;> simp

example (w : String) : Crystal_F_H_StructureFactor_Partial asIs P0 (some cube) 1 1 0 0 1 1 2 2 2 Slot.empty ≠ .error (.ub w) :=
  fh_no_ub_partial asIs P0 cube 1 1 1 1 0 0 2 2 2 Slot.empty P0_contract cube_validAtoms (Or.inr cube_smallMiller) rfl w

theorem fh_no_ub_fixed (v : Variant) (hz : v.zFix = true) (hn : v.nullFix = true) : fh_no_ub_full v := by
  intro P hP cr E D rel i j k a b c error hs he w
  rcases fh_outcome v hP cr E D rel (Or.inr hs) a b c he (Or.inl hn) (Or.inl hz) with ⟨w', h⟩ | ⟨Fh, e', h⟩ <;> rw [h] <;> simp

/-- after repair C13-3 the NULL crystal is an ordinary error -/
theorem fh_null_fixed (v : Variant) (hn : v.nullFix = true) (P : Elem ℝ) (E D rel : ℝ) (a b c : Int) (error : Slot)
    (hE : 0 < E) (he : error.isFull = false) :
    Fails2 (Crystal_F_H_StructureFactor_Partial v P none E 0 0 0 D rel a b c error) error := by
  refine ⟨⟨XRL_ERROR_INVALID_ARGUMENT, CRYSTAL_NULL⟩, by decide, by decide, ?_⟩
  unfold Crystal_F_H_StructureFactor_Partial
  rw [q_zero_miller v none hE rel Slot.empty]
  simp only [bind_ok, Slot.isFull, Bool.false_eq_true, if_false, hn, if_true, setErr_notFull he]
  rfl

example : Fails2 (Crystal_F_H_StructureFactor_Partial repaired P0 none 8 0 0 0 1 1 2 2 2 Slot.empty) Slot.empty :=
  fh_null_fixed repaired rfl P0 8 1 1 2 2 2 Slot.empty (by norm_num) rfl

/-- `Crystal_F_H_StructureFactor` is the `(2,2,2)` instance (the `…2` variants store the same pair through `result`) -/
theorem fh_is_partial_222 (v : Variant) (P : Elem ℝ) (cr : Option (Crystal ℝ)) (E : ℝ) (i j k : Int) (D rel : ℝ) (error : Slot) :
    Crystal_F_H_StructureFactor v P cr E i j k D rel error =
      Crystal_F_H_StructureFactor_Partial v P cr E i j k D rel 2 2 2 error := rfl

/-! ## the structure factor meets its executable specification -/

/-- **structure factor vs the executable specification** (repairs C13-2, C13-3, C13-4 in).  `qx`: what is expected of
`Q_scattering_amplitude` for the same arguments (`q_meets_spec`); `rep Z`: what the elemental functions report for element
`Z` at that `q` and energy (`RepOf`: a value with the slot untouched, or a failure per their C03 contract); an atom whose
`Zatom` is no legal subscript has no complete report (no element beyond the tables — a fact about the data, hypothesis).
Then: NULL crystal, `E ≤ 0`, `Q` fails → `(0,0)` and exactly one error; no atoms → `(0,0)`; a non-positive Debye factor, an
element with an unavailable factor, an invalid flag → `(0,0)` and exactly one error; otherwise the explicit sum. -/
theorem fh_meets_spec (v : Variant) (hz : v.zFix = true) (hn : v.nullFix = true) (hzero : v.zeroFix = true)
    (P : Elem ℝ) (cr : Option (Crystal ℝ)) (E D rel : ℝ) (i j k a b c : Int) (error : Slot) (he : error.isFull = false)
    (qx : Expect ℝ) (hq : Meets (Q_scattering_amplitude v cr E i j k rel Slot.empty) Slot.empty qx)
    (rep : Int → Option (Spec.Reported ℝ))
    (hrep : ∀ q, qx = .value q → ∀ cc, cr = some cc → ∀ atom ∈ cc.atoms,
      ∃ r, rep atom.Zatom = some r ∧ RepOf P E q atom.Zatom r ∧ (r.full → 0 ≤ atom.Zatom ∧ atom.Zatom < 120)) :
    Meets2 (Crystal_F_H_StructureFactor_Partial v P cr E i j k D rel a b c error) error
      (Spec.expectFH cr qx E D i j k a b c rep) := by
  -- when Q fails the function stores Q's error and returns (0,0)
  have qfail : ∀ e : Err, e.msg ≠ "" → e.code ≤ XRL_ERROR_RUNTIME →
      Q_scattering_amplitude v cr E i j k rel Slot.empty = .ok ((0.0 : ℝ), Slot.empty.withErr e) →
      Fails2 (Crystal_F_H_StructureFactor_Partial v P cr E i j k D rel a b c error) error := by
    intro e e1 e2 h
    refine ⟨e, e1, e2, ?_⟩
    unfold Crystal_F_H_StructureFactor_Partial
    simp only [h, bind_ok, Slot.withErr, Slot.isFull, if_true, propagate_full he]
    rfl
  cases cr with
  | none =>
    show Fails2 _ _
    by_cases hE : E ≤ 0
    · have hq' := q_nonpos v none hE i j k rel Slot.empty
      exact qfail ⟨XRL_ERROR_INVALID_ARGUMENT, NEGATIVE_ENERGY⟩ (by decide) (by decide) (by rw [hq']; simp [setErr, Except.bind, Slot.withErr])
    · have hE' : 0 < E := lt_of_not_ge hE
      by_cases h0 : i = 0 ∧ j = 0 ∧ k = 0
      · obtain ⟨rfl, rfl, rfl⟩ := h0
        exact fh_null_fixed v hn P E D rel a b c error hE' he
      · have hb : Bragg_angle v none E i j k Slot.empty = .ok (0, Slot.empty.withErr ⟨XRL_ERROR_INVALID_ARGUMENT, CRYSTAL_NULL⟩) :=
          bragg_of_dspacing_zero v none hE' (dspacing_null_zero v i j k rfl)
        refine qfail ⟨XRL_ERROR_INVALID_ARGUMENT, CRYSTAL_NULL⟩ (by decide) (by decide) ?_
        rw [q_of_bragg v none hE' h0, hb]
        show Except.ok (E * Real.sin (rel * 0) / KEV2ANGST, _) = _
        simp
  | some cc =>
    unfold Spec.expectFH
    by_cases hE : E ≤ 0
    · simp only [lit0, hE, if_true]
      have hq' := q_nonpos v (some cc) hE i j k rel Slot.empty
      exact qfail ⟨XRL_ERROR_INVALID_ARGUMENT, NEGATIVE_ENERGY⟩ (by decide) (by decide) (by rw [hq']; simp [setErr, Except.bind, Slot.withErr])
    · simp only [lit0, hE, if_false]
      cases qx with
      | any => trivial
      | fails =>
        obtain ⟨e, e1, e2, h⟩ := hq
        exact qfail e e1 e2 h
      | value q =>
        have hQ : Q_scattering_amplitude v (some cc) E i j k rel Slot.empty = .ok (q, Slot.empty) := hq
        have hat := hrep q rfl cc rfl
        simp only
        by_cases hem : cc.atoms.isEmpty = true
        · simp only [hem, if_true]
          have hnil : cc.atoms = [] := List.isEmpty_iff.mp hem
          have := fh_invalid_flags_no_atoms v P cc E q D rel i j k a b c error hnil hQ
          show _ = _
          rw [this]; simp
        · simp only [hem, Bool.false_eq_true, if_false]
          obtain ⟨atom, rest, hcc⟩ : ∃ atom rest, cc.atoms = atom :: rest := by
            cases hl : cc.atoms with
            | nil => simp [hl] at hem
            | cons x xs => exact ⟨x, xs, rfl⟩
          by_cases hD : D ≤ 0
          · simp only [hD, if_true]
            -- the first atom: an illegal subscript, or the Debye factor is rejected
            unfold Crystal_F_H_StructureFactor_Partial
            simp only [hQ, bind_ok, Slot.isFull, Bool.false_eq_true, if_false, hcc]
            rw [fillCache]
            by_cases hZ : 0 ≤ atom.Zatom ∧ atom.Zatom < 120
            · refine ⟨⟨XRL_ERROR_INVALID_ARGUMENT, NEGATIVE_DEBYE_FACTOR⟩, by decide, by decide, ?_⟩
              simp only [hZ, and_self, if_true, Cache.empty, Option.isSome_none, Bool.false_eq_true, if_false,
                atomic_factors_debye_fails v P atom.Zatom E q D true true true error he hD, bind_ok, pure_eq_ok]
            · refine ⟨⟨XRL_ERROR_INVALID_ARGUMENT, Z_OUT_OF_RANGE⟩, by decide, by decide, ?_⟩
              simp only [hZ, if_false, hz, if_true, setErr_notFull he, bind_ok, pure_eq_ok]
          · have hD' : 0 < D := lt_of_not_ge hD
            simp only [hD, if_false]
            have hrepo : ∀ x ∈ cc.atoms, ∃ r, rep x.Zatom = some r ∧ RepOf P E q x.Zatom r :=
              fun x hx => let ⟨r, h1, h2, _⟩ := hat x hx; ⟨r, h1, h2⟩
            split_ifs with hall
            · -- every element completely reported, valid flags: the explicit sum
              simp only [List.all_eq_true, List.mem_map, forall_exists_index, and_imp, forall_apply_eq_imp_iff₂] at hall
              have hfl : validFlags a b c := by
                by_contra hfl
                have h1 := hall atom (by rw [hcc]; exact List.mem_cons_self)
                obtain ⟨r, hrz, _⟩ := hat atom (by rw [hcc]; exact List.mem_cons_self)
                rw [hrz] at h1; simp only [factorOf_invalid hfl D r] at h1; exact absurd h1 (by simp)
              have hfull : ∀ x ∈ cc.atoms, ∃ r, rep x.Zatom = some r ∧ r.full := by
                intro x hx
                obtain ⟨r, hrz, _⟩ := hat x hx
                refine ⟨r, hrz, ?_⟩
                by_contra hnf
                have h1 := hall x hx
                rw [hrz] at h1; simp only [factorOf_notfull D a b c hnf] at h1; exact absurd h1 (by simp)
              have hat' : ∀ x ∈ cc.atoms, (0 ≤ x.Zatom ∧ x.Zatom < 120) ∧ Reports v P E q D (repF rep) x.Zatom := by
                intro x hx
                obtain ⟨r, hrz, hr, hrange⟩ := hat x hx
                obtain ⟨r', hrz', hf⟩ := hfull x hx
                rw [hrz] at hrz'; injection hrz' with hrz'; subst hrz'
                exact ⟨hrange hf, repOf_reports v hzero hrz hr hf⟩
              show _ = _
              rw [fh_eval v P cc error hQ hD' hfl (repF rep) hat']
              congr 2
              unfold Spec.structureFactor
              apply sumFrom_congr
              intro x hx
              obtain ⟨r, hrz, hf⟩ := hfull x hx
              simp only [hrz, factorOf_full hfl D hrz hf, Option.getD_some]
            · -- some element incompletely reported, or an invalid flag: exactly one error
              have hgood : ¬ (validFlags a b c ∧ ∀ x ∈ cc.atoms, ∃ r, rep x.Zatom = some r ∧ r.full) := by
                rintro ⟨hfl, hfull⟩
                apply hall
                simp only [List.all_eq_true, List.mem_map, forall_exists_index, and_imp, forall_apply_eq_imp_iff₂]
                intro x hx
                obtain ⟨r, hrz, hf⟩ := hfull x hx
                rw [hrz]; simp only [factorOf_full hfl D hrz hf, Option.isSome_some]
              show Fails2 _ _
              by_cases hfl : validFlags a b c
              · have hbad : ∃ x ∈ cc.atoms, BadAtom rep x := by
                  by_contra hno
                  apply hgood
                  refine ⟨hfl, fun x hx => ?_⟩
                  obtain ⟨r, hrz, _⟩ := hat x hx
                  refine ⟨r, hrz, ?_⟩
                  by_contra hnf
                  exact hno ⟨x, hx, Or.inr ⟨r, hrz, hnf⟩⟩
                obtain ⟨e, e1, e2, h⟩ := fillCache_fails v hz hzero P hD' hfl rep he cc.atoms Cache.empty hrepo
                  (by intro Z hZ; simp [Cache.empty] at hZ) hbad
                refine ⟨e, e1, e2, ?_⟩
                unfold Crystal_F_H_StructureFactor_Partial
                simp only [hQ, bind_ok, Slot.isFull, Bool.false_eq_true, if_false, h, pure_eq_ok]
              · -- invalid flags: detected while the first atom is processed
                obtain ⟨r, hrz, hr, hrange⟩ := hat atom (by rw [hcc]; exact List.mem_cons_self)
                by_cases hf : r.full
                · exact fh_invalid_flags v P cc E q D rel i j k a b c error (repF rep) atom rest hcc hQ hD' hfl he (hrange hf)
                    (repOf_reports v hzero hrz hr hf)
                · unfold Crystal_F_H_StructureFactor_Partial
                  simp only [hQ, bind_ok, Slot.isFull, Bool.false_eq_true, if_false, hcc]
                  rw [fillCache]
                  by_cases hZ : 0 ≤ atom.Zatom ∧ atom.Zatom < 120
                  · obtain ⟨e, e1, e2, x, y, z, h⟩ := atomic_factors_fails v hzero P atom.Zatom hD' hr hf he
                    refine ⟨e, e1, e2, ?_⟩
                    simp only [hZ, and_self, if_true, Cache.empty, Option.isSome_none, Bool.false_eq_true, if_false, h, bind_ok,
                      pure_eq_ok]
                  · refine ⟨⟨XRL_ERROR_INVALID_ARGUMENT, Z_OUT_OF_RANGE⟩, by decide, by decide, ?_⟩
                    simp only [hZ, if_false, hz, if_true, setErr_notFull he, bind_ok, pure_eq_ok]


/-- what `P0` reports, as the driver hands it to the specification -/
def rep0 : Int → Option (Spec.Reported ℝ) := fun Z => some ⟨some (Z : ℝ), some 1, some 1⟩

example : ∃ F, Spec.expectFH (some cube) (.value (qval cube 10 1 0 0 1)) 10 1 1 0 0 2 2 2 rep0 = .value F ∧
    Crystal_F_H_StructureFactor_Partial repaired P0 (some cube) 10 1 0 0 1 1 2 2 2 Slot.empty = .ok (F, Slot.empty) := by
  have hm := fh_meets_spec repaired rfl rfl rfl P0 (some cube) 10 1 1 1 0 0 2 2 2 Slot.empty rfl
    (.value (qval cube 10 1 0 0 1)) (cube_hQ repaired) rep0
    (by
      intro q _ cc hcc atom hat
      injection hcc with hcc; subst hcc
      simp only [cube, List.mem_singleton] at hat
      subst hat
      exact ⟨_, rfl, ⟨fun _ => rfl, fun _ => rfl, fun _ => rfl⟩, fun _ => by decide⟩)
  have hx : ∃ F, Spec.expectFH (some cube) (.value (qval cube 10 1 0 0 1)) (10 : ℝ) 1 1 0 0 2 2 2 rep0 = .value F := by
    unfold Spec.expectFH
    have h1 : ¬ ((10 : ℝ) ≤ 0.0) := by norm_num
    have h2 : ¬ ((1 : ℝ) ≤ 0.0) := by norm_num
    simp only [h1, h2, if_false]
    exact ⟨_, by simp [cube, rep0, Spec.factorOf, Spec.atomicFactor, Spec.term]; rfl⟩
  obtain ⟨F, hF⟩ := hx
  rw [hF] at hm
  exact ⟨F, hF, hm⟩

/-! ## `c_abs`, `c_mul` -/

theorem c_abs_spec (re im : ℝ) : c_abs re im = .ok (Real.sqrt (re ^ 2 + im ^ 2)) := by
  unfold c_abs dsqrt
  have : ¬ (re * re + im * im < 0) := not_lt.mpr (by nlinarith [mul_self_nonneg re, mul_self_nonneg im])
  simp only [lit0, this, if_false, pure_eq_ok, xsqrt]
  congr 2; ring

theorem c_mul_spec (a b c d : ℝ) : c_mul a b c d = (a * c - b * d, a * d + b * c) := rfl

end C13
end Xrl
