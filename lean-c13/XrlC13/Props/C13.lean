import XrlC13.Hand.CrystalNum
namespace Xrl
namespace C13
end C13
end Xrl
