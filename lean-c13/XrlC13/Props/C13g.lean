import XrlC13.Gen.Crystal
import XrlC13.Props.C13
import XrlC13.Lemmas.GenLoops
/-!
# C13 — the static tie: the machine translation of src/crystal_diffraction.c refines the hand model

`XrlC13/Gen/Crystal.lean` is written by tools/c13_c2lean.py from the clang AST of the working tree's
`src/crystal_diffraction.c` on every run of `./check C13`.  The theorems of this file say that each translated function,
read over ℝ, has **the same outcome** (value, error slot, or the kind of abort) as the function of the hand model
`Hand/CrystalNum.lean` with all repairs in (`repaired`) — for every crystal pointer (NULL included), every record, every
Miller triple, energy, relative angle, and every state of the caller's error slot (NULL, empty, already holding an error).
The theorems of Props/C13.lean therefore hold of the generated code (`gen_…` corollaries below), and a semantic change of
the C source breaks one of the `…_refines` obligations.
-/
namespace Xrl
namespace C13
open Xrl.Spec (Returns Fails Meets Expect)

/-! ## `Crystal_UnitCellVolume` -/

theorem gen_volume_refines (cr : Option (Crystal ℝ)) (error : Slot) :
    Gen.Crystal_UnitCellVolume cr error = Crystal_UnitCellVolume cr error := by
  cases cr with
  | none => rfl
  | some cc =>
    unfold Gen.Crystal_UnitCellVolume Crystal_UnitCellVolume
    simp only [Option.isSome_some, Bool.true_eq_false, if_false, derefC_some, bind_ok, gen_cosd, pow2]

/-! ## `Crystal_dSpacing` -/

theorem gen_dspacing_refines (cr : Option (Crystal ℝ)) (i j k : Int) (error : Slot) :
    Gen.Crystal_dSpacing cr i j k error = Crystal_dSpacing repaired cr i j k error := by
  cases cr with
  | none => rfl
  | some cc =>
    unfold Gen.Crystal_dSpacing Crystal_dSpacing
    by_cases h0 : i = 0 ∧ j = 0 ∧ k = 0
    · obtain ⟨rfl, rfl, rfl⟩ := h0
      rfl
    · have h0' : ¬ ((i = 0 ∧ j = 0) ∧ k = 0) := fun h => h0 ⟨h.1.1, h.1.2, h.2⟩
      simp only [Option.isSome_some, Bool.true_eq_false, if_false, h0, h0', derefC_some, bind_ok, gen_cosd, gen_sind, pow2,
        twoIJ, repaired, if_true, pure_eq_ok]

/-! ## `Bragg_angle` -/

theorem gen_bragg_refines (cr : Option (Crystal ℝ)) (E : ℝ) (i j k : Int) (error : Slot) :
    Gen.Bragg_angle cr E i j k error = Bragg_angle repaired cr E i j k error := by
  unfold Gen.Bragg_angle Bragg_angle
  rw [gen_dspacing_refines]
  by_cases hE : E ≤ (0.0 : ℝ)
  · simp only [hE, if_true]; rfl
  · simp only [hE, if_false]
    cases hd : Crystal_dSpacing repaired cr i j k error with
    | error a => rfl
    | ok p =>
      obtain ⟨d, e'⟩ := p
      simp only [bind_ok]
      by_cases hd0 : deq d (0.0 : ℝ)
      · rw [if_pos hd0, if_pos hd0]
      · rw [if_neg hd0, if_neg hd0]
        simp only [KEV2ANGST]
        cases hw : ddiv (12.39841930 : ℝ) E with
        | error a => rfl
        | ok w =>
          simp only [bind_ok]
          cases hs : ddiv w ((2.0 : ℝ) * d) with
          | error a => rfl
          | ok s =>
            simp only [bind_ok, repaired, if_true]
            by_cases hr : XNum.fabs s ≤ (1.0 : ℝ)
            · have hr' := abs_le.mp (by simpa using hr : |s| ≤ 1)
              have hno : ¬ (s < (-1.0 : ℝ) ∨ (1.0 : ℝ) < s) := by
                intro h; rcases h with h | h
                · norm_num at h; linarith [hr'.1]
                · norm_num at h; linarith [hr'.2]
              simp only [hr, not_true_eq_false, if_false, if_true, dasin, hno, bind_ok, pure_eq_ok]
            · simp only [hr, not_false_eq_true, if_true, if_false]; rfl

/-! ## `Q_scattering_amplitude` -/

theorem gen_q_refines (cr : Option (Crystal ℝ)) (E : ℝ) (i j k : Int) (rel : ℝ) (error : Slot) :
    Gen.Q_scattering_amplitude cr E i j k rel error = Q_scattering_amplitude repaired cr E i j k rel error := by
  unfold Gen.Q_scattering_amplitude Q_scattering_amplitude
  rw [gen_bragg_refines]
  by_cases hE : E ≤ (0.0 : ℝ)
  · simp only [hE, if_true]; rfl
  · simp only [hE, if_false]
    by_cases h0 : i = 0 ∧ j = 0 ∧ k = 0
    · obtain ⟨rfl, rfl, rfl⟩ := h0
      rfl
    · have h0' : ¬ ((i = 0 ∧ j = 0) ∧ k = 0) := fun h => h0 ⟨h.1.1, h.1.2, h.2⟩
      simp only [h0, h0', if_false]
      cases hb : Bragg_angle repaired cr E i j k error with
      | error a => rfl
      | ok p =>
        obtain ⟨th, e'⟩ := p
        have hk : ¬ deq (KEV2ANGST : ℝ) (0.0 : ℝ) := by
          simp only [deq_real, lit0]; exact KEV2ANGST_ne
        simp only [bind_ok, ddiv]
        rw [if_neg hk]
        rfl

/-! ## `Atomic_Factors` -/

/-- an elemental call handed the address of an empty local error hands back that address: empty or holding an error, never NULL -/
def SlotSane (f : Slot → M (ℝ × Slot)) : Prop := ∀ v s', f Slot.empty = .ok (v, s') → s' ≠ Slot.null
def ElemSane (P : Elem ℝ) : Prop := ∀ Z x, SlotSane (P.ff Z x) ∧ SlotSane (P.fi Z x) ∧ SlotSane (P.fii Z x)

def afView (w0 wp wpp : Bool) (r : Int × ℝ × ℝ × ℝ × Slot) : (Int × Option ℝ × Option ℝ × Option ℝ) × Slot :=
  ((r.1, if w0 = true then some r.2.1 else none, if wp = true then some r.2.2.1 else none,
    if wpp = true then some r.2.2.2.1 else none), r.2.2.2.2)

set_option linter.unusedSimpArgs false in
/-- `Atomic_Factors`: same return code, same out-parameters (a NULL pointer receives nothing), same slot — `afView` reads the
generated function's tuple (code, *f0, *f_prime, *f_prime2, slot) the way the hand model reports it -/
theorem gen_atomic_factors_refines (P : Elem ℝ) (hP : ElemSane P) (Z : Int) (E q D : ℝ) (w0 wp wpp : Bool) (error : Slot) :
    (Gen.Atomic_Factors P Z E q D w0 wp wpp error).map (afView w0 wp wpp) =
      Atomic_Factors repaired P Z E q D w0 wp wpp error := by
  have s0 := (hP Z q).1
  have s1 := (hP Z E).2.1
  have s2 := (hP Z E).2.2
  unfold Gen.Atomic_Factors Atomic_Factors
  generalize P.ff Z q = f0 at *
  generalize P.fi Z E = f1 at *
  generalize P.fii Z E = f2 at *
  by_cases hD : D ≤ (0.0 : ℝ)
  · simp only [hD, if_true]
    cases w0 <;> cases wp <;> cases wpp <;> cases error <;> rfl
  · simp only [hD, if_false, afTerm, repaired, if_true]
    have k0 : ∀ v, f0 Slot.empty ≠ .ok (v, Slot.null) := fun v h => s0 v _ h rfl
    have k1 : ∀ v, f1 Slot.empty ≠ .ok (v, Slot.null) := fun v h => s1 v _ h rfl
    have k2 : ∀ v, f2 Slot.empty ≠ .ok (v, Slot.null) := fun v h => s2 v _ h rfl
    cases w0 <;> cases wp <;> cases wpp <;>
      simp only [Bool.false_eq_true, if_false, if_true, bind_ok, pure_eq_ok, decide_false, decide_true] <;>
      first
      | rfl
      | skip
    all_goals
      rcases h0 : f0 Slot.empty with a0 | ⟨x0, t0⟩ <;> rcases h1 : f1 Slot.empty with a1 | ⟨x1, t1⟩ <;>
      rcases h2 : f2 Slot.empty with a2 | ⟨x2, t2⟩ <;>
      (try (cases t0 <;> first | exact absurd h0 (k0 _) | skip)) <;>
      (try (cases t1 <;> first | exact absurd h1 (k1 _) | skip)) <;>
      (try (cases t2 <;> first | exact absurd h2 (k2 _) | skip)) <;>
      (simp only [h0, h1, h2, bind_ok, bind_error, Slot.isFull, Bool.false_eq_true, decide_false, decide_true, if_false, if_true,
        afView, zeroed, Except.map, id] <;>
       cases error <;> simp [propagateErr])

/-- the same, as a case distinction on the outcome with all three pointers non-NULL (the call of the structure-factor loop) -/
theorem gen_atomic_factors_refines_cases (P : Elem ℝ) (hP : ElemSane P) (Z : Int) (E q D : ℝ) (error : Slot) :
    (∃ x, Gen.Atomic_Factors P Z E q D true true true error = .error x ∧
          Atomic_Factors repaired P Z E q D true true true error = .error x) ∨
    (∃ rc f0 fp fpp e', Gen.Atomic_Factors P Z E q D true true true error = .ok (rc, f0, fp, fpp, e') ∧
          Atomic_Factors repaired P Z E q D true true true error = .ok ((rc, some f0, some fp, some fpp), e')) := by
  have h := gen_atomic_factors_refines P hP Z E q D true true true error
  cases hg : Gen.Atomic_Factors P Z E q D true true true error with
  | error x => left; rw [hg] at h; exact ⟨x, rfl, h.symm⟩
  | ok r =>
    obtain ⟨rc, f0, fp, fpp, e'⟩ := r
    right; rw [hg] at h; exact ⟨rc, f0, fp, fpp, e', rfl, h.symm⟩

/-! ## `Crystal_F_H_StructureFactor_Partial`, `Crystal_F_H_StructureFactor` -/

set_option linter.unusedTactic false in
/-- the two loops over the atoms with the three stack arrays `f_re[120] f_im[120] f_is_computed[120]` (translation) have the
outcome of `fillCache` / `sumAtoms` with the per-Z cache (hand model): same complex value, same slot, same abort —
for every crystal pointer, atom list, flag triple (valid or not) and slot -/
theorem gen_fh_partial_refines (P : Elem ℝ) (hP : ElemSane P) (cr : Option (Crystal ℝ)) (E : ℝ) (i j k : Int) (D rel : ℝ)
    (a b c : Int) (error : Slot) :
    Gen.Crystal_F_H_StructureFactor_Partial P cr E i j k D rel a b c error =
      Crystal_F_H_StructureFactor_Partial repaired P cr E i j k D rel a b c error := by
  unfold Gen.Crystal_F_H_StructureFactor_Partial Crystal_F_H_StructureFactor_Partial
  simp only [gen_q_refines]
  cases hq : Q_scattering_amplitude repaired cr E i j k rel Slot.empty with
  | error x => rfl
  | ok r =>
    obtain ⟨q, tmp⟩ := r
    simp only [bind_ok]
    by_cases ht : tmp.isFull = true
    · simp only [ht, if_true]
    · simp only [ht, Bool.false_eq_true, if_false]
      cases cr with
      | none => simp only [Option.isSome_none, if_true, repaired]; rfl
      | some cc =>
        simp only [Option.isSome_some, Bool.true_eq_false, if_false, derefC_some, bind_ok]
        rw [loopCtlM_range']
        generalize hb : loopCtlGo 0 _ (List.range' 0 cc.atoms.length) _ = g
        have hfill : FillRel g (fillCache repaired P E q D a b c cc.atoms Cache.empty error) := by
          rw [← hb]
          clear hb hq ht
          refine fill_sim P E q D a b c cc _ ?hs cc.atoms [] (by simp) _ _ _ _ _ _ _ _ Cache.empty InvA.init
          intro n atom hk Z' e f0 fi fis fp fpp fr ch hinv
          dsimp only
          rw [zero_add, rdAtom_ok cc hk]
          simp only [bind_ok]
          unfold fillStep
          by_cases hZ : 0 ≤ atom.Zatom ∧ atom.Zatom < 120
          · have hnz : ¬ (atom.Zatom < 0 ∨ atom.Zatom ≥ 120) := by omega
            have hri : 0 ≤ atom.Zatom ∧ atom.Zatom < (fi.n : Int) := by rw [hinv.nim]; exact hZ
            have hris : 0 ≤ atom.Zatom ∧ atom.Zatom < (fis.n : Int) := by rw [hinv.nisc]; exact hZ
            have hrr : 0 ≤ atom.Zatom ∧ atom.Zatom < (fr.n : Int) := by rw [hinv.nre]; exact hZ
            simp only [hnz, hZ, and_self, if_false, if_true]
            rcases hinv.cell atom.Zatom hZ.1 hZ.2 with ⟨c1, c2⟩ | ⟨re, im, c1, c2, c3, c4⟩
            · simp only [rdL_ok "f_is_computed" fis hris c2, bind_ok, ne_eq, not_true_eq_false, if_false, c1, Option.isSome_none,
                Bool.false_eq_true]
              rcases gen_atomic_factors_refines_cases P hP atom.Zatom E q D e with ⟨x, h1, h2⟩ | ⟨rc, x0, xp, xpp, e', h1, h2⟩
              · rw [h1, h2]; rfl
              · rw [h1, h2]
                simp only [bind_ok]
                by_cases hrc : rc = 0
                · simp only [hrc, if_true, pure_eq_ok, StepRel]
                · simp only [hrc, if_false]
                  by_cases hfa : a = 0 ∨ a = 1 ∨ a = 2
                  · by_cases hfb : b = 0 ∨ b = 2
                    · by_cases hfc : c = 0 ∨ c = 2
                      · rw [applyFlags_valid ⟨hfa, hfb, hfc⟩]
                        rcases hfa with rfl | rfl | rfl <;> rcases hfb with rfl | rfl <;> rcases hfc with rfl | rfl
                        all_goals
                          simp only [Int.reduceEq, if_true, if_false, wrL_ok "f_re" fr hrr, wrL_ok "f_im" fi hri,
                            wrL_ok "f_is_computed" fis hris, rdL_set_same "f_re" fr hrr, wrL_set "f_re" fr hrr, bind_ok, pure_eq_ok,
                            StepRel, flagged]
                        all_goals
                          refine ⟨_, _, _, _, _, _, _, rfl, hinv.store _ _ _ rfl rfl rfl ?_ ?_ ?_ ?_ ?_ ?_⟩
                        all_goals first
                          | (simp [LArr.set]; done)
                          | (intro j hj; simp [LArr.set, hj]; done)
                      · have hc' : c ≠ 0 ∧ c ≠ 2 := by omega
                        rw [applyFlags_bad_c hfa hfb hc']
                        rcases hfa with rfl | rfl | rfl <;> rcases hfb with rfl | rfl <;>
                          simp only [Int.reduceEq, if_true, if_false, hc'.1, hc'.2, wrL_ok "f_re" fr hrr, rdL_set_same "f_re" fr hrr,
                            wrL_set "f_re" fr hrr, bind_ok] <;>
                          cases e' <;> simp [setErr, StepRel, Except.bind, XRL_ERROR_INVALID_ARGUMENT]
                    · have hb' : b ≠ 0 ∧ b ≠ 2 := by omega
                      rw [applyFlags_bad_b hfa hb']
                      rcases hfa with rfl | rfl | rfl <;>
                        simp only [Int.reduceEq, if_true, if_false, hb'.1, hb'.2, wrL_ok "f_re" fr hrr, bind_ok] <;>
                        cases e' <;> simp [setErr, StepRel, Except.bind, XRL_ERROR_INVALID_ARGUMENT]
                  · have ha' : a ≠ 0 ∧ a ≠ 1 ∧ a ≠ 2 := by omega
                    rw [applyFlags_bad_a ha']
                    simp only [ha'.1, ha'.2.1, ha'.2.2, if_false]
                    cases e' <;> simp [setErr, StepRel, Except.bind, XRL_ERROR_INVALID_ARGUMENT]
            · simp only [rdL_ok "f_is_computed" fis hris c2, bind_ok, c1, Option.isSome_some, if_true, ne_eq, one_ne_zero,
                not_false_eq_true, pure_eq_ok, StepRel]
              exact ⟨_, _, _, _, _, _, _, rfl, hinv⟩
          · have hnz : (atom.Zatom < 0 ∨ atom.Zatom ≥ 120) := by omega
            simp only [hnz, hZ, if_false, if_true]
            cases e <;> simp [setErr, StepRel, XRL_ERROR_INVALID_ARGUMENT, Z_OUT_OF_RANGE]
        clear hb
        cases hF : fillCache repaired P E q D a b c cc.atoms Cache.empty error with
        | error x =>
          rw [hF] at hfill
          simp only [FillRel] at hfill
          rw [hfill]; rfl
        | ok r =>
          rw [hF] at hfill
          cases r with
          | inl e' =>
            simp only [FillRel] at hfill
            rw [hfill]; rfl
          | inr p =>
            obtain ⟨ch', e'⟩ := p
            simp only [FillRel] at hfill
            obtain ⟨Z', f0, fi, fis, fp, fpp, fr, hg, hinv⟩ := hfill
            obtain ⟨hdone, _⟩ := fillCache_done P E q D a b c cc.atoms Cache.empty ch' error e' hF
            rw [hg]
            simp only [bind_ok]
            generalize hb2 : loopM 0 (Int.ofNat cc.atoms.length) _ _ = g2
            have hs : ∃ F' H' Z'', g2 = .ok (F', H', Z'') ∧ sumAtoms ch' i j k cc.atoms ((0.0 : ℝ), (0.0 : ℝ)) = .ok F' := by
              rw [← hb2]
              clear hb2
              refine sum_sim_top cc i j k ch' _ ?hbody (fun x hx => (hdone x hx).2) _ _ _
              intro n atom hk re im hch F H Z
              obtain ⟨hZ0, hZ1⟩ := (hdone atom (List.mem_of_getElem? hk)).1
              have hcell : fr.get atom.Zatom = some re ∧ fi.get atom.Zatom = some im := by
                rcases hinv.cell atom.Zatom hZ0 hZ1 with ⟨c1, _⟩ | ⟨r, m, c1, _, c3, c4⟩
                · rw [c1] at hch; cases hch
                · rw [c1] at hch; injection hch with hch; injection hch with h1 h2; subst h1; subst h2; exact ⟨c3, c4⟩
              have hri : 0 ≤ atom.Zatom ∧ atom.Zatom < (fi.n : Int) := by rw [hinv.nim]; exact ⟨hZ0, hZ1⟩
              have hrr : 0 ≤ atom.Zatom ∧ atom.Zatom < (fr.n : Int) := by rw [hinv.nre]; exact ⟨hZ0, hZ1⟩
              dsimp only
              rw [zero_add]
              simp only [rdAtom_ok cc hk, bind_ok, rdL_ok "f_re" fr hrr hcell.1, rdL_ok "f_im" fi hri hcell.2, pure_eq_ok]
              exact ⟨_, _, rfl⟩
            obtain ⟨F', H', Z'', h1, h2⟩ := hs
            rw [h1, h2]
            rfl


theorem gen_fh_refines (P : Elem ℝ) (hP : ElemSane P) (cr : Option (Crystal ℝ)) (E : ℝ) (i j k : Int) (D rel : ℝ) (error : Slot) :
    Gen.Crystal_F_H_StructureFactor P cr E i j k D rel error = Crystal_F_H_StructureFactor repaired P cr E i j k D rel error := by
  unfold Gen.Crystal_F_H_StructureFactor Crystal_F_H_StructureFactor
  rw [gen_fh_partial_refines P hP]
  cases Crystal_F_H_StructureFactor_Partial repaired P cr E i j k D rel 2 2 2 error <;> rfl

/-! ## `c_abs`, `c_mul` -/

theorem gen_c_abs_refines (re im : ℝ) : Gen.c_abs (re, im) = c_abs re im := by
  unfold Gen.c_abs c_abs
  show (dsqrt (re * re + im * im) >>= fun m => pure m) = dsqrt (re * re + im * im)
  cases dsqrt (re * re + im * im) <;> rfl

theorem gen_c_mul_refines (a b c d : ℝ) : Gen.c_mul (a, b) (c, d) = .ok (c_mul a b c d) := rfl

/-! ## what the refinements buy: the property theorems hold of the generated code

(one line each: rewrite with the refinement, apply the theorem of Props/C13.lean for `repaired`) -/

open Spec (Returns2 Fails2 Meets2)

theorem gen_volume_meets_spec (cr : Option (Crystal ℝ)) (error : Slot) (he : error.isFull = false) :
    Meets (Gen.Crystal_UnitCellVolume cr error) error (Spec.expectVolume cr) := by
  rw [gen_volume_refines]; exact volume_meets_spec cr error he

/-- `d(−h) = d(h)` for the generated code, every `int` triple -/
theorem gen_dspacing_inversion (cr : Option (Crystal ℝ)) (i j k : Int) (error : Slot) :
    Gen.Crystal_dSpacing cr (-i) (-j) (-k) error = Gen.Crystal_dSpacing cr i j k error := by
  rw [gen_dspacing_refines, gen_dspacing_refines]; exact dspacing_inversion repaired cr i j k error (Or.inl rfl)

/-- `d(n·h) = d(h)/|n|` for the generated code -/
theorem gen_dspacing_scale (cr : Option (Crystal ℝ)) (n i j k : Int) (error : Slot) (hn : n ≠ 0) :
    Gen.Crystal_dSpacing cr (n * i) (n * j) (n * k) error =
      (Gen.Crystal_dSpacing cr i j k error).map (fun p => (p.1 / |(n : ℝ)|, p.2)) := by
  rw [gen_dspacing_refines, gen_dspacing_refines]; exact dspacing_scale repaired cr n i j k error hn (Or.inl rfl) (Or.inl rfl)

/-- reciprocal-metric formula (scaled by stored/recomputed volume), NULL and (0,0,0) → an error, for the generated code -/
theorem gen_dspacing_meets_spec (cr : Option (Crystal ℝ)) (i j k : Int) (error : Slot) (he : error.isFull = false) :
    Meets (Gen.Crystal_dSpacing cr i j k error) error (Spec.expectDSpacing cr i j k) := by
  rw [gen_dspacing_refines]; exact dspacing_meets_spec repaired cr i j k error he (Or.inl rfl)

/-- Bragg's law or an error, for the generated code -/
theorem gen_bragg_meets_spec (cr : Option (Crystal ℝ)) (E : ℝ) (i j k : Int) (error : Slot) (he : error.isFull = false) (d : Option ℝ)
    (hd : ∀ x, d = some x → Gen.Crystal_dSpacing cr i j k Slot.null = .ok (x, Slot.null)) :
    Meets (Gen.Bragg_angle cr E i j k error) error (Spec.expectBraggAt cr d E i j k) := by
  rw [gen_bragg_refines]
  exact bragg_meets_spec repaired rfl cr E i j k error he (Or.inl rfl) d (fun x hx => by rw [← gen_dspacing_refines]; exact hd x hx)

/-- `Q = sin(rel·θ_B)/λ` or an error, for the generated code -/
theorem gen_q_meets_spec (cr : Option (Crystal ℝ)) (E : ℝ) (i j k : Int) (rel : ℝ) (error : Slot) (he : error.isFull = false)
    (d : Option ℝ) (hd : ∀ x, d = some x → Gen.Crystal_dSpacing cr i j k Slot.null = .ok (x, Slot.null)) :
    Meets (Gen.Q_scattering_amplitude cr E i j k rel error) error (Spec.expectQAt cr d E i j k rel) := by
  rw [gen_q_refines]
  exact q_meets_spec repaired rfl cr E i j k rel error he (Or.inl rfl) d (fun x hx => by rw [← gen_dspacing_refines]; exact hd x hx)

/-- the structure factor of the generated code meets the executable specification `expectFH` (explicit sum / exactly one error) -/
theorem gen_fh_meets_spec (P : Elem ℝ) (hP : ElemSane P) (cr : Option (Crystal ℝ)) (E D rel : ℝ) (i j k a b c : Int) (error : Slot)
    (he : error.isFull = false) (qx : Expect ℝ)
    (hq : Meets (Gen.Q_scattering_amplitude cr E i j k rel Slot.empty) Slot.empty qx) (rep : Int → Option (Spec.Reported ℝ))
    (hrep : ∀ q, qx = .value q → ∀ cc, cr = some cc → ∀ atom ∈ cc.atoms,
      ∃ r, rep atom.Zatom = some r ∧ RepOf P E q atom.Zatom r ∧ (r.full → 0 ≤ atom.Zatom ∧ atom.Zatom < 120)) :
    Meets2 (Gen.Crystal_F_H_StructureFactor_Partial P cr E i j k D rel a b c error) error
      (Spec.expectFH cr qx E D i j k a b c rep) := by
  rw [gen_fh_partial_refines P hP]
  exact fh_meets_spec repaired rfl rfl rfl P cr E D rel i j k a b c error he qx (by rw [← gen_q_refines]; exact hq) rep hrep

/-- additivity in the three flags, for the generated code -/
theorem gen_fh_additive_flags (P : Elem ℝ) (hP : ElemSane P) (cc : Crystal ℝ) (E q D rel : ℝ) (i j k a b c : Int) (error : Slot)
    (F : Int → ℝ × ℝ × ℝ)
    (hQ : Gen.Q_scattering_amplitude (some cc) E i j k rel Slot.empty = .ok (q, Slot.empty))
    (hD : 0 < D) (hfl : validFlags a b c)
    (hat : ∀ atom ∈ cc.atoms, (0 ≤ atom.Zatom ∧ atom.Zatom < 120) ∧ Reports repaired P E q D F atom.Zatom) :
    ∃ Fabc Fa Fb Fc : ℝ × ℝ,
      Gen.Crystal_F_H_StructureFactor_Partial P (some cc) E i j k D rel a b c error = .ok (Fabc, error) ∧
      Gen.Crystal_F_H_StructureFactor_Partial P (some cc) E i j k D rel a 0 0 error = .ok (Fa, error) ∧
      Gen.Crystal_F_H_StructureFactor_Partial P (some cc) E i j k D rel 0 b 0 error = .ok (Fb, error) ∧
      Gen.Crystal_F_H_StructureFactor_Partial P (some cc) E i j k D rel 0 0 c error = .ok (Fc, error) ∧
      Fabc = Fa + Fb + Fc := by
  simp only [gen_fh_partial_refines P hP]
  exact fh_additive_flags repaired P cc E q D rel i j k a b c error F (by rw [← gen_q_refines]; exact hQ) hD hfl hat

/-- Friedel's law, for the generated code -/
theorem gen_fh_friedel (P : Elem ℝ) (hP : ElemSane P) (cc : Crystal ℝ) (E q D rel : ℝ) (i j k a b : Int) (error : Slot)
    (F : Int → ℝ × ℝ × ℝ)
    (hQ : Gen.Q_scattering_amplitude (some cc) E i j k rel Slot.empty = .ok (q, Slot.empty))
    (hD : 0 < D) (hfl : validFlags a b 0)
    (hat : ∀ atom ∈ cc.atoms, (0 ≤ atom.Zatom ∧ atom.Zatom < 120) ∧ Reports repaired P E q D F atom.Zatom) :
    ∃ Fh : ℝ × ℝ,
      Gen.Crystal_F_H_StructureFactor_Partial P (some cc) E i j k D rel a b 0 error = .ok (Fh, error) ∧
      Gen.Crystal_F_H_StructureFactor_Partial P (some cc) E (-i) (-j) (-k) D rel a b 0 error = .ok (conj Fh, error) := by
  simp only [gen_fh_partial_refines P hP]
  exact fh_friedel repaired P cc E q D rel i j k a b error F (Or.inl rfl) (by rw [← gen_q_refines]; exact hQ) hD hfl hat

/-- the (0,0,0) reflection: `Σ occ · Z · Debye factor`, for the generated code -/
theorem gen_fh_000 (P : Elem ℝ) (hP : ElemSane P) (cc : Crystal ℝ) (E D rel : ℝ) (error : Slot)
    (F : Int → ℝ × ℝ × ℝ) (hE : 0 < E) (hD : 0 < D)
    (hat : ∀ atom ∈ cc.atoms, (0 ≤ atom.Zatom ∧ atom.Zatom < 120) ∧ Reports repaired P E 0 D F atom.Zatom ∧
      (F atom.Zatom).1 = (atom.Zatom : ℝ)) :
    Returns2 (Gen.Crystal_F_H_StructureFactor_Partial P (some cc) E 0 0 0 D rel 2 0 0 error)
      ((cc.atoms.map (fun atom => atom.fraction * ((atom.Zatom : ℝ) * D))).sum, 0) error := by
  rw [gen_fh_partial_refines P hP]
  exact fh_000 repaired P cc E D rel error F hE hD hat

/-! non-vacuity: the hypotheses are satisfiable (the elemental functions `P0` hand back the slot they were given) -/

theorem P0_sane : ElemSane P0 := fun _ _ =>
  ⟨fun _ _ h => by injection h with h; injection h with _ h; rw [← h]; simp,
   fun _ _ h => by injection h with h; injection h with _ h; rw [← h]; simp,
   fun _ _ h => by injection h with h; injection h with _ h; rw [← h]; simp⟩

example : Gen.Crystal_F_H_StructureFactor_Partial P0 (some cube) 8 0 0 0 1 1 2 0 0 Slot.empty =
    .ok (((cube.atoms.map (fun atom => atom.fraction * ((atom.Zatom : ℝ) * 1))).sum, 0), Slot.empty) := by
  apply gen_fh_000 P0 P0_sane cube 8 1 1 Slot.empty F0 (by norm_num) one_pos
  intro atom h
  simp only [cube, List.mem_singleton] at h
  subst h
  exact ⟨by decide, P0_reports repaired 8 0, rfl⟩

example : (Gen.Atomic_Factors P0 14 8 0.2 1 true false true Slot.null).map (afView true false true) =
    Atomic_Factors repaired P0 14 8 0.2 1 true false true Slot.null :=
  gen_atomic_factors_refines P0 P0_sane 14 8 0.2 1 true false true Slot.null

example : Meets (Gen.Crystal_dSpacing (some cube) 1 0 0 Slot.empty) Slot.empty (Spec.expectDSpacing (some cube) 1 0 0) :=
  gen_dspacing_meets_spec (some cube) 1 0 0 Slot.empty rfl

example : Gen.Crystal_dSpacing (some cube) (3 * 1) (3 * 0) (3 * 0) Slot.empty =
    (Gen.Crystal_dSpacing (some cube) 1 0 0 Slot.empty).map (fun p => (p.1 / |((3 : Int) : ℝ)|, p.2)) :=
  gen_dspacing_scale (some cube) 3 1 0 0 Slot.empty (by decide)

example : Meets (Gen.Crystal_UnitCellVolume (none : Option (Crystal ℝ)) Slot.null) Slot.null .fails :=
  gen_volume_meets_spec none Slot.null rfl

/-- the spacing the generated `Crystal_dSpacing` reports for the unit cube, (1,0,0), with a NULL slot -/
theorem cube_gen_d (x : ℝ) (hx : some (dval cube 1 0 0) = some x) :
    Gen.Crystal_dSpacing (some cube) 1 0 0 Slot.null = .ok (x, Slot.null) := by
  injection hx with hx; subst hx
  rw [gen_dspacing_refines]
  exact dSpacing_valid repaired cube_valid Slot.null (Or.inl rfl) (by decide)

example : Meets (Gen.Bragg_angle (some cube) 10 1 0 0 Slot.empty) Slot.empty
    (Spec.expectBraggAt (some cube) (some (dval cube 1 0 0)) 10 1 0 0) :=
  gen_bragg_meets_spec (some cube) 10 1 0 0 Slot.empty rfl _ cube_gen_d

example : Meets (Gen.Q_scattering_amplitude (some cube) 10 1 0 0 0.5 Slot.empty) Slot.empty
    (Spec.expectQAt (some cube) (some (dval cube 1 0 0)) 10 1 0 0 0.5) :=
  gen_q_meets_spec (some cube) 10 1 0 0 0.5 Slot.empty rfl _ cube_gen_d

/-- at 10 keV the generated `Q_scattering_amplitude` answers for the unit cube, (1,0,0) -/
theorem cube_gen_hQ : Gen.Q_scattering_amplitude (some cube) 10 1 0 0 1 Slot.empty = .ok (qval cube 10 1 0 0 1, Slot.empty) := by
  rw [gen_q_refines]; exact cube_hQ repaired

example : Gen.Crystal_F_H_StructureFactor_Partial P0 (some cube) 10 1 0 0 1 1 2 2 2 Slot.empty =
    Crystal_F_H_StructureFactor_Partial repaired P0 (some cube) 10 1 0 0 1 1 2 2 2 Slot.empty :=
  gen_fh_partial_refines P0 P0_sane (some cube) 10 1 0 0 1 1 2 2 2 Slot.empty

example : Meets2 (Gen.Crystal_F_H_StructureFactor_Partial P0 (some cube) 10 1 0 0 1 1 2 2 2 Slot.empty) Slot.empty
    (Spec.expectFH (some cube) (.value (qval cube 10 1 0 0 1)) 10 1 1 0 0 2 2 2 rep0) :=
  gen_fh_meets_spec P0 P0_sane (some cube) 10 1 1 1 0 0 2 2 2 Slot.empty rfl (.value (qval cube 10 1 0 0 1)) cube_gen_hQ rep0
    (by
      intro q _ cc hcc atom hat
      injection hcc with hcc; subst hcc
      simp only [cube, List.mem_singleton] at hat
      subst hat
      exact ⟨_, rfl, ⟨fun _ => rfl, fun _ => rfl, fun _ => rfl⟩, fun _ => by decide⟩)

example : ∃ Fabc Fa Fb Fc : ℝ × ℝ,
    Gen.Crystal_F_H_StructureFactor_Partial P0 (some cube) 10 1 0 0 1 1 1 2 2 Slot.empty = .ok (Fabc, Slot.empty) ∧
    Gen.Crystal_F_H_StructureFactor_Partial P0 (some cube) 10 1 0 0 1 1 1 0 0 Slot.empty = .ok (Fa, Slot.empty) ∧
    Gen.Crystal_F_H_StructureFactor_Partial P0 (some cube) 10 1 0 0 1 1 0 2 0 Slot.empty = .ok (Fb, Slot.empty) ∧
    Gen.Crystal_F_H_StructureFactor_Partial P0 (some cube) 10 1 0 0 1 1 0 0 2 Slot.empty = .ok (Fc, Slot.empty) ∧
    Fabc = Fa + Fb + Fc :=
  gen_fh_additive_flags P0 P0_sane cube 10 _ 1 1 1 0 0 1 2 2 Slot.empty F0 cube_gen_hQ one_pos (by decide) (cube_reports repaired 10 _)

example : ∃ Fh : ℝ × ℝ,
    Gen.Crystal_F_H_StructureFactor_Partial P0 (some cube) 10 1 0 0 1 1 2 2 0 Slot.empty = .ok (Fh, Slot.empty) ∧
    Gen.Crystal_F_H_StructureFactor_Partial P0 (some cube) 10 (-1) (-0) (-0) 1 1 2 2 0 Slot.empty = .ok (conj Fh, Slot.empty) :=
  gen_fh_friedel P0 P0_sane cube 10 _ 1 1 1 0 0 2 2 Slot.empty F0 cube_gen_hQ one_pos (by decide) (cube_reports repaired 10 _)

end C13
end Xrl
