import XrlC13.Lemmas.Factors
import XrlC13.Lemmas.Bragg
/-!
# The two loops of `Crystal_F_H_StructureFactor_Partial` over ℝ

* `fillCache_reports` — the cache lemma: after the first loop the cached pair for `Z` is the flagged factor of `Z`, for
  every atom of that `Z` (induction over the atom list, invariant "every cached entry is correct");
* `sumAtoms_eq` — the second loop is the explicit sum of the specification;
* `fillCache_total`, `sumAtoms_total` — under the contract of the elemental functions neither loop aborts.
-/
namespace Xrl
namespace C13
open Real

def validFlags (a b c : Int) : Prop := (a = 0 ∨ a = 1 ∨ a = 2) ∧ (b = 0 ∨ b = 2) ∧ (c = 0 ∨ c = 2)
instance (a b c : Int) : Decidable (validFlags a b c) := by unfold validFlags; infer_instance

/-- `(f₀-term + f′-term, f″-term)` under valid flags -/
noncomputable def flagged (f0 fp fpp : ℝ) (a b c : Int) : ℝ × ℝ :=
  ((if a = 0 then 0 else if a = 1 then 1 else f0) + (if b = 0 then 0 else fp), if c = 0 then 0 else fpp)

theorem atomicFactor_valid {a b c : Int} (h : validFlags a b c) (f0 fp fpp : ℝ) :
    Spec.atomicFactor f0 fp fpp a b c = some (flagged f0 fp fpp a b c) := by
  obtain ⟨ha, hb, hc⟩ := h
  rcases ha with rfl | rfl | rfl <;> rcases hb with rfl | rfl <;> rcases hc with rfl | rfl <;>
    simp [Spec.atomicFactor, Spec.term, flagged]

theorem atomicFactor_invalid {a b c : Int} (h : ¬ validFlags a b c) (f0 fp fpp : ℝ) :
    Spec.atomicFactor f0 fp fpp a b c = none := by
  unfold validFlags at h
  unfold Spec.atomicFactor Spec.term
  by_cases h1 : a = 0 ∨ a = 1 ∨ a = 2
  · by_cases h2 : b = 0 ∨ b = 2
    · have h3 : ¬ (c = 0 ∨ c = 2) := fun h3 => h ⟨h1, h2, h3⟩
      simp only [not_or] at h3
      rcases h1 with rfl | rfl | rfl <;> rcases h2 with rfl | rfl <;> simp [h3.1, h3.2]
    · simp only [not_or] at h2
      rcases h1 with rfl | rfl | rfl <;> simp [h2.1, h2.2]
  · simp only [not_or] at h1
    simp [h1.1, h1.2.1, h1.2.2]

theorem applyFlags_valid {a b c : Int} (h : validFlags a b c) (f0 fp fpp : ℝ) (error : Slot) :
    applyFlags f0 fp fpp a b c error = .ok (Sum.inr (flagged f0 fp fpp a b c)) := by
  obtain ⟨ha, hb, hc⟩ := h
  rcases ha with rfl | rfl | rfl <;> rcases hb with rfl | rfl <;> rcases hc with rfl | rfl <;>
    simp [applyFlags, flagged]

/-- an invalid flag: exactly one error, naming the first offending flag in the order f0, f′, f″ -/
theorem applyFlags_invalid {a b c : Int} (h : ¬ validFlags a b c) (f0 fp fpp : ℝ) {error : Slot}
    (he : error.isFull = false) :
    ∃ msg, msg ≠ "" ∧ applyFlags f0 fp fpp a b c error = .ok (Sum.inl (error.withErr ⟨XRL_ERROR_INVALID_ARGUMENT, msg⟩)) := by
  unfold validFlags at h
  have hne : ∀ (n : String) (x : Int), flagMsg n x ≠ "" := by
    intro n x hh
    have := congrArg String.length hh
    simp [flagMsg, String.length_append] at this
  unfold applyFlags
  by_cases h1 : a = 0 ∨ a = 1 ∨ a = 2
  · have h1' : ¬ (a ≠ 0 ∧ a ≠ 1 ∧ a ≠ 2) := by omega
    by_cases h2 : b = 0 ∨ b = 2
    · have h2' : ¬ (b ≠ 0 ∧ b ≠ 2) := by omega
      have h3 : c ≠ 0 ∧ c ≠ 2 := by
        constructor <;> intro hc <;> exact h ⟨h1, h2, by omega⟩
      refine ⟨flagMsg "f_prime2_flag" c, hne _ _, ?_⟩
      simp only [h1', h2', if_false, setErr_notFull he, bind_ok, pure_eq_ok]
      rw [if_pos h3]
    · have h2' : b ≠ 0 ∧ b ≠ 2 := by omega
      refine ⟨flagMsg "f_prime_flag" b, hne _ _, ?_⟩
      simp only [h1', if_false, setErr_notFull he, bind_ok, pure_eq_ok]
      rw [if_pos h2']
  · have h1' : a ≠ 0 ∧ a ≠ 1 ∧ a ≠ 2 := by omega
    refine ⟨flagMsg "f0_flag" a, hne _ _, ?_⟩
    simp only [setErr_notFull he, bind_ok, pure_eq_ok]
    rw [if_pos h1']

theorem applyFlags_total (a b c : Int) (f0 fp fpp : ℝ) {error : Slot} (he : error.isFull = false) :
    (∃ e', applyFlags f0 fp fpp a b c error = .ok (Sum.inl e')) ∨ (∃ p, applyFlags f0 fp fpp a b c error = .ok (Sum.inr p)) := by
  by_cases h : validFlags a b c
  · exact Or.inr ⟨_, applyFlags_valid h f0 fp fpp error⟩
  · obtain ⟨msg, _, hm⟩ := applyFlags_invalid h f0 fp fpp he
    exact Or.inl ⟨_, hm⟩

/-- what the library reports for element `Z` at this energy and `q`: the three values `F Z`, each call leaving the slot
alone, and — for the shipped `Atomic_Factors` — no product exactly zero -/
structure Reports (v : Variant) (P : Elem ℝ) (E q D : ℝ) (F : Int → ℝ × ℝ × ℝ) (Z : Int) : Prop where
  ff : Gives (P.ff Z q) (F Z).1
  fi : Gives (P.fi Z E) (F Z).2.1
  fii : Gives (P.fii Z E) (F Z).2.2
  nz : v.zeroFix = true ∨ ((F Z).1 * D ≠ 0 ∧ (F Z).2.1 * D ≠ 0 ∧ -(F Z).2.2 * D ≠ 0)

/-- the flagged atomic factor `(f₀ + f′, f″)` of element `Z`: `f₀ = FF·D`, `f′ = Fi·D`, `f″ = −Fii·D` -/
noncomputable def fAof (F : Int → ℝ × ℝ × ℝ) (D : ℝ) (a b c : Int) (Z : Int) : ℝ × ℝ :=
  flagged ((F Z).1 * D) ((F Z).2.1 * D) (-(F Z).2.2 * D) a b c

theorem fillCache_reports (v : Variant) (P : Elem ℝ) {E q D : ℝ} (hD : 0 < D) {a b c : Int} (hfl : validFlags a b c)
    (F : Int → ℝ × ℝ × ℝ) (error : Slot) :
    ∀ (atoms : List (Atom ℝ)) (ch : Cache ℝ),
      (∀ atom ∈ atoms, (0 ≤ atom.Zatom ∧ atom.Zatom < 120) ∧ Reports v P E q D F atom.Zatom) →
      (∀ Z x, ch Z = some x → x = fAof F D a b c Z) →
      ∃ ch', fillCache v P E q D a b c atoms ch error = .ok (Sum.inr (ch', error)) ∧
        (∀ Z x, ch' Z = some x → x = fAof F D a b c Z) ∧
        (∀ atom ∈ atoms, ch' atom.Zatom = some (fAof F D a b c atom.Zatom)) ∧
        (∀ Z, (ch Z).isSome = true → ch' Z = ch Z) := by
  intro atoms
  induction atoms with
  | nil =>
    intro ch _ hinv
    exact ⟨ch, by simp [fillCache], hinv, by simp, fun _ _ => rfl⟩
  | cons atom rest ih =>
    intro ch hat hinv
    have hz := (hat atom (List.mem_cons_self)).1
    have hr := (hat atom (List.mem_cons_self)).2
    have hrest : ∀ x ∈ rest, (0 ≤ x.Zatom ∧ x.Zatom < 120) ∧ Reports v P E q D F x.Zatom :=
      fun x hx => hat x (List.mem_cons_of_mem _ hx)
    by_cases hc : (ch atom.Zatom).isSome = true
    · obtain ⟨ch', h1, h2, h3, h4⟩ := ih ch hrest hinv
      refine ⟨ch', ?_, h2, ?_, h4⟩
      · rw [fillCache]; simp only [hz, and_self, if_true, hc]; exact h1
      · intro x hx
        rcases List.mem_cons.mp hx with rfl | hx
        · obtain ⟨y, hy⟩ := Option.isSome_iff_exists.mp hc
          rw [h4 _ hc, hy, hinv _ _ hy]
        · exact h3 x hx
    · have haf := atomic_factors_ok v P atom.Zatom hD hr.ff hr.fi hr.fii hr.nz error
      set p := fAof F D a b c atom.Zatom with hp
      have hinv' : ∀ Z x, (ch.set atom.Zatom p.1 p.2) Z = some x → x = fAof F D a b c Z := by
        intro Z x hx
        unfold Cache.set at hx
        by_cases hZ : Z = atom.Zatom
        · subst hZ; simp only [if_true] at hx; injection hx with hx; rw [← hx]
        · simp only [hZ, if_false] at hx; exact hinv Z x hx
      obtain ⟨ch', h1, h2, h3, h4⟩ := ih (ch.set atom.Zatom p.1 p.2) hrest hinv'
      have hself : (ch.set atom.Zatom p.1 p.2) atom.Zatom = some p := by simp [Cache.set]
      refine ⟨ch', ?_, h2, ?_, ?_⟩
      · rw [fillCache]
        simp only [hz, and_self, if_true, hc, haf, bind_ok, applyFlags_valid hfl]
        simp only [one_ne_zero, if_false]
        exact h1
      · intro x hx
        rcases List.mem_cons.mp hx with rfl | hx
        · rw [h4 _ (by rw [hself]; rfl), hself]
        · exact h3 x hx
      · intro Z hZ
        have hne : Z ≠ atom.Zatom := fun h => hc (h ▸ hZ)
        rw [h4 Z (by simp [Cache.set, hne, hZ])]
        simp [Cache.set, hne]

theorem sumAtoms_eq (ch : Cache ℝ) (i j k : Int) (fA : Int → ℝ × ℝ) :
    ∀ (atoms : List (Atom ℝ)) (F : ℝ × ℝ), (∀ atom ∈ atoms, ch atom.Zatom = some (fA atom.Zatom)) →
      sumAtoms ch i j k atoms F = .ok (Spec.sumFrom i j k fA atoms F) := by
  intro atoms
  induction atoms with
  | nil => intro F _; simp [sumAtoms, Spec.sumFrom]
  | cons atom rest ih =>
    intro F h
    obtain ⟨Fre, Fim⟩ := F
    rw [sumAtoms, h atom List.mem_cons_self]
    simp only
    rw [ih _ (fun x hx => h x (List.mem_cons_of_mem _ hx))]
    rfl

theorem sumAtoms_total (ch : Cache ℝ) (i j k : Int) :
    ∀ (atoms : List (Atom ℝ)) (F : ℝ × ℝ), (∀ atom ∈ atoms, (ch atom.Zatom).isSome = true) →
      ∃ F', sumAtoms ch i j k atoms F = .ok F' := by
  intro atoms
  induction atoms with
  | nil => intro F _; exact ⟨F, by simp [sumAtoms]⟩
  | cons atom rest ih =>
    intro F h
    obtain ⟨Fre, Fim⟩ := F
    obtain ⟨⟨re, im⟩, hy⟩ := Option.isSome_iff_exists.mp (h atom List.mem_cons_self)
    rw [sumAtoms, hy]
    exact ih _ (fun x hx => h x (List.mem_cons_of_mem _ hx))

/-- under the contract of the elemental functions the first loop never aborts; when it runs to the end the slot is
untouched and every atom's element is cached -/
theorem fillCache_total (v : Variant) {P : Elem ℝ} (hP : ElemContract P) (E q D : ℝ) (a b c : Int)
    {error : Slot} (he : error.isFull = false) :
    ∀ (atoms : List (Atom ℝ)) (ch : Cache ℝ),
      (v.zFix = true ∨ ∀ atom ∈ atoms, 0 ≤ atom.Zatom ∧ atom.Zatom < 120) →
      (∃ e', fillCache v P E q D a b c atoms ch error = .ok (Sum.inl e')) ∨
      (∃ ch', fillCache v P E q D a b c atoms ch error = .ok (Sum.inr (ch', error)) ∧
        (∀ atom ∈ atoms, (ch' atom.Zatom).isSome = true) ∧ (∀ Z, (ch Z).isSome = true → (ch' Z).isSome = true)) := by
  intro atoms
  induction atoms with
  | nil => intro ch _; exact Or.inr ⟨ch, by simp [fillCache], by simp, fun _ h => h⟩
  | cons atom rest ih =>
    intro ch hz
    have hzr : v.zFix = true ∨ ∀ x ∈ rest, 0 ≤ x.Zatom ∧ x.Zatom < 120 :=
      hz.imp id (fun h x hx => h x (List.mem_cons_of_mem _ hx))
    by_cases hZ : 0 ≤ atom.Zatom ∧ atom.Zatom < 120
    · by_cases hc : (ch atom.Zatom).isSome = true
      · rcases ih ch hzr with ⟨e', h1⟩ | ⟨ch', h1, h2, h3⟩
        · left; exact ⟨e', by rw [fillCache]; simp only [hZ, and_self, if_true, hc]; exact h1⟩
        · right
          refine ⟨ch', by rw [fillCache]; simp only [hZ, and_self, if_true, hc]; exact h1, ?_, h3⟩
          intro x hx
          rcases List.mem_cons.mp hx with rfl | hx
          · exact h3 _ hc
          · exact h2 x hx
      · obtain ⟨rc, f0, fp, fpp, e', haf, hrc⟩ := atomic_factors_contract v hP atom.Zatom E q D he
        by_cases hrc0 : rc = 0
        · left; exact ⟨e', by rw [fillCache]; simp only [hZ, and_self, if_true, hc, Bool.false_eq_true, if_false, haf, bind_ok, hrc0, pure_eq_ok]⟩
        · obtain ⟨rfl, x, y, z, rfl, rfl, rfl⟩ := hrc hrc0
          rcases applyFlags_total a b c x y z he with ⟨e'', hfl⟩ | ⟨⟨re, im⟩, hfl⟩
          · left; exact ⟨e'', by rw [fillCache]; simp only [hZ, and_self, if_true, hc, Bool.false_eq_true, haf, bind_ok, hrc0, if_false, hfl, pure_eq_ok]⟩
          · rcases ih (ch.set atom.Zatom re im) hzr with ⟨e'', h1⟩ | ⟨ch', h1, h2, h3⟩
            · left; exact ⟨e'', by rw [fillCache]; simp only [hZ, and_self, if_true, hc, Bool.false_eq_true, haf, bind_ok, hrc0, if_false, hfl]; exact h1⟩
            · right
              refine ⟨ch', by rw [fillCache]; simp only [hZ, and_self, if_true, hc, Bool.false_eq_true, haf, bind_ok, hrc0, if_false, hfl]; exact h1, ?_, ?_⟩
              · intro x hx
                rcases List.mem_cons.mp hx with rfl | hx
                · exact h3 _ (by simp [Cache.set])
                · exact h2 x hx
              · intro Z hZ'
                apply h3
                unfold Cache.set
                by_cases hh : Z = atom.Zatom <;> simp [hh, hZ']
    · have hzf : v.zFix = true := by
        rcases hz with h | h
        · exact h
        · exact absurd (h atom List.mem_cons_self) hZ
      left
      exact ⟨error.withErr ⟨XRL_ERROR_INVALID_ARGUMENT, Z_OUT_OF_RANGE⟩,
        by rw [fillCache]; simp only [hZ, if_false, hzf, if_true, setErr_notFull he, bind_ok, pure_eq_ok]⟩

end C13
end Xrl
