import XrlC13.Lemmas.FH
import XrlC13.Lemmas.Sums
/-!
# Ingredients of the `…_meets_spec` theorems of Props/C13.lean (executable specifications `expectBraggAt`, `expectQAt`, `expectFH`)
-/
namespace Xrl
namespace C13
open Real
open Xrl.Spec (Expect)

/-- the value `Crystal_dSpacing` returns does not depend on the caller's slot -/
theorem dSpacing_slot (v : Variant) (cc : Crystal ℝ) {i j k : Int} (hs : SafeMiller v i j k)
    (h0 : ¬ (i = 0 ∧ j = 0 ∧ k = 0)) {x : ℝ} {s : Slot} (h : Crystal_dSpacing v (some cc) i j k s = .ok (x, s)) (error : Slot) :
    Crystal_dSpacing v (some cc) i j k error = .ok (x, error) := by
  rw [dSpacing_eval v cc s hs h0] at h
  rw [dSpacing_eval v cc error hs h0]
  split_ifs at h ⊢
  · injection h with h; injection h with h; rw [h]

theorem dspacing_null_zero (v : Variant) (i j k : Int) {error : Slot} (he : error.isFull = false) :
    Crystal_dSpacing v (none : Option (Crystal ℝ)) i j k error = .ok (0, error.withErr ⟨XRL_ERROR_INVALID_ARGUMENT, CRYSTAL_NULL⟩) := by
  simp [Crystal_dSpacing, setErr_notFull he]

theorem dspacing_000_zero (v : Variant) (cc : Crystal ℝ) {error : Slot} (he : error.isFull = false) :
    Crystal_dSpacing v (some cc) 0 0 0 error = .ok (0, error.withErr ⟨XRL_ERROR_INVALID_ARGUMENT, INVALID_MILLER⟩) := by
  simp [Crystal_dSpacing, setErr_notFull he]

/-- the elemental call fails as its C03 contract says: sentinel 0, exactly one well-formed error, from every slot that holds none -/
def FailsC (f : Slot → M (ℝ × Slot)) : Prop :=
  ∀ s, s.isFull = false → ∃ e : Err, e.msg ≠ "" ∧ e.code ≤ XRL_ERROR_RUNTIME ∧ f s = .ok ((0 : ℝ), s.withErr e)

/-- what the library reports for one elemental call: a value (slot untouched) or a contract failure -/
def RepTerm (f : Slot → M (ℝ × Slot)) : Option ℝ → Prop
  | some x => Gives f x
  | none => FailsC f

/-- `r` is what the elemental functions report for element `Z` at `(q, E)` -/
structure RepOf (P : Elem ℝ) (E q : ℝ) (Z : Int) (r : Spec.Reported ℝ) : Prop where
  ff : RepTerm (P.ff Z q) r.ff
  fi : RepTerm (P.fi Z E) r.fi
  fii : RepTerm (P.fii Z E) r.fii

def Spec.Reported.full (r : Spec.Reported ℝ) : Prop := r.ff.isSome = true ∧ r.fi.isSome = true ∧ r.fii.isSome = true
instance (r : Spec.Reported ℝ) : Decidable r.full := by unfold Spec.Reported.full; infer_instance

theorem propagate_full {error : Slot} (he : error.isFull = false) (e : Err) :
    propagateErr error (Slot.full e) = .ok (error.withErr e) := by
  cases error <;> simp_all [propagateErr, Slot.withErr, Slot.isFull]

theorem afTerm_fails (v : Variant) (hv : v.zeroFix = true) {f : Slot → M (ℝ × Slot)} (hf : FailsC f) (sign : ℝ → ℝ) (D : ℝ)
    {error : Slot} (he : error.isFull = false) :
    ∃ e : Err, e.msg ≠ "" ∧ e.code ≤ XRL_ERROR_RUNTIME ∧ ∃ y, afTerm v true f sign D error = .ok (some y, true, error.withErr e) := by
  obtain ⟨e, h1, h2, h3⟩ := hf Slot.empty rfl
  refine ⟨e, h1, h2, sign 0 * D, ?_⟩
  unfold afTerm
  simp only [hv, if_true, h3, Slot.withErr, bind_ok, Slot.isFull, propagate_full he, pure_eq_ok]

/-- with repair C13-4: when one of the three factors is unavailable, return code 0 and exactly one error, whatever the others do -/
theorem atomic_factors_fails (v : Variant) (hv : v.zeroFix = true) (P : Elem ℝ) (Z : Int) {E q D : ℝ} (hD : 0 < D)
    {r : Spec.Reported ℝ} (hr : RepOf P E q Z r) (hnf : ¬ r.full) {error : Slot} (he : error.isFull = false) :
    ∃ e : Err, e.msg ≠ "" ∧ e.code ≤ XRL_ERROR_RUNTIME ∧ ∃ a b c,
      Atomic_Factors v P Z E q D true true true error = .ok ((0, a, b, c), error.withErr e) := by
  unfold Atomic_Factors
  simp only [lit0, not_le.mpr hD, if_false]
  obtain ⟨rff, rfi, rfii⟩ := r
  obtain ⟨h1, h2, h3⟩ := hr
  simp only at h1 h2 h3
  cases rff with
  | none =>
    obtain ⟨e, e1, e2, y, h⟩ := afTerm_fails v hv h1 id D he
    exact ⟨e, e1, e2, _, _, _, by rw [h]; rfl⟩
  | some x =>
    have t1 := afTerm_gives v h1 id D error (Or.inl hv)
    rw [t1]; simp only [bind_ok, Bool.false_eq_true, if_false]
    cases rfi with
    | none =>
      obtain ⟨e, e1, e2, y, h⟩ := afTerm_fails v hv h2 id D he
      exact ⟨e, e1, e2, _, _, _, by rw [h]; rfl⟩
    | some y =>
      have t2 := afTerm_gives v h2 id D error (Or.inl hv)
      rw [t2]; simp only [bind_ok, Bool.false_eq_true, if_false]
      cases rfii with
      | none =>
        obtain ⟨e, e1, e2, y, h⟩ := afTerm_fails v hv h3 (fun x => -x) D he
        exact ⟨e, e1, e2, _, _, _, by rw [h]; rfl⟩
      | some z => exact absurd ⟨rfl, rfl, rfl⟩ hnf

/-- the values of a full report -/
noncomputable def repF (rep : Int → Option (Spec.Reported ℝ)) (Z : Int) : ℝ × ℝ × ℝ :=
  match rep Z with
  | some r => (r.ff.getD 0, r.fi.getD 0, r.fii.getD 0)
  | none => (0, 0, 0)

theorem repOf_reports (v : Variant) (hv : v.zeroFix = true) {P : Elem ℝ} {E q D : ℝ} {Z : Int} {rep : Int → Option (Spec.Reported ℝ)}
    {r : Spec.Reported ℝ} (hrz : rep Z = some r) (hr : RepOf P E q Z r) (hf : r.full) : Reports v P E q D (repF rep) Z := by
  obtain ⟨rff, rfi, rfii⟩ := r
  obtain ⟨h1, h2, h3⟩ := hr
  obtain ⟨f1, f2, f3⟩ := hf
  simp only at h1 h2 h3 f1 f2 f3
  obtain ⟨x, rfl⟩ := Option.isSome_iff_exists.mp f1
  obtain ⟨y, rfl⟩ := Option.isSome_iff_exists.mp f2
  obtain ⟨z, rfl⟩ := Option.isSome_iff_exists.mp f3
  have e : repF rep Z = (x, y, z) := by unfold repF; rw [hrz]; rfl
  exact ⟨by rw [e]; exact h1, by rw [e]; exact h2, by rw [e]; exact h3, Or.inl hv⟩

theorem factorOf_full {a b c : Int} (hfl : validFlags a b c) (D : ℝ) {rep : Int → Option (Spec.Reported ℝ)} {Z : Int}
    {r : Spec.Reported ℝ} (hrz : rep Z = some r) (hf : r.full) :
    Spec.factorOf D a b c r = some (fAof (repF rep) D a b c Z) := by
  obtain ⟨rff, rfi, rfii⟩ := r
  obtain ⟨f1, f2, f3⟩ := hf
  simp only at f1 f2 f3
  obtain ⟨x, rfl⟩ := Option.isSome_iff_exists.mp f1
  obtain ⟨y, rfl⟩ := Option.isSome_iff_exists.mp f2
  obtain ⟨z, rfl⟩ := Option.isSome_iff_exists.mp f3
  have e : repF rep Z = (x, y, z) := by unfold repF; rw [hrz]; rfl
  unfold Spec.factorOf fAof
  simp only [atomicFactor_valid hfl, e]

theorem factorOf_notfull (D : ℝ) (a b c : Int) {r : Spec.Reported ℝ} (hnf : ¬ r.full) : Spec.factorOf D a b c r = none := by
  obtain ⟨rff, rfi, rfii⟩ := r
  unfold Spec.factorOf
  cases rff <;> cases rfi <;> cases rfii <;> first | rfl | exact absurd ⟨rfl, rfl, rfl⟩ hnf

theorem factorOf_invalid {a b c : Int} (hfl : ¬ validFlags a b c) (D : ℝ) (r : Spec.Reported ℝ) : Spec.factorOf D a b c r = none := by
  obtain ⟨rff, rfi, rfii⟩ := r
  unfold Spec.factorOf
  cases rff <;> cases rfi <;> cases rfii <;> first | rfl | exact atomicFactor_invalid hfl _ _ _

/-- an atom the first loop cannot get past: an illegal subscript, or an element with an unavailable factor -/
def BadAtom (rep : Int → Option (Spec.Reported ℝ)) (atom : Atom ℝ) : Prop :=
  ¬ (0 ≤ atom.Zatom ∧ atom.Zatom < 120) ∨ ∃ r, rep atom.Zatom = some r ∧ ¬ r.full

/-- with the repairs C13-2 and C13-4 in: every atom's element is reported (fully or not); valid flags; when some atom is bad
the first loop ends in exactly one error -/
theorem fillCache_fails (v : Variant) (hz : v.zFix = true) (hv : v.zeroFix = true) (P : Elem ℝ) {E q D : ℝ} (hD : 0 < D)
    {a b c : Int} (hfl : validFlags a b c) (rep : Int → Option (Spec.Reported ℝ)) {error : Slot} (he : error.isFull = false) :
    ∀ (atoms : List (Atom ℝ)) (ch : Cache ℝ),
      (∀ atom ∈ atoms, ∃ r, rep atom.Zatom = some r ∧ RepOf P E q atom.Zatom r) →
      (∀ Z, (ch Z).isSome = true → (0 ≤ Z ∧ Z < 120) ∧ ∃ r, rep Z = some r ∧ r.full) →
      (∃ atom ∈ atoms, BadAtom rep atom) →
      ∃ e : Err, e.msg ≠ "" ∧ e.code ≤ XRL_ERROR_RUNTIME ∧
        fillCache v P E q D a b c atoms ch error = .ok (Sum.inl (error.withErr e)) := by
  intro atoms
  induction atoms with
  | nil => intro ch _ _ hb; obtain ⟨x, hx, _⟩ := hb; simp at hx
  | cons atom rest ih =>
    intro ch hrep hinv hbad
    have hrest : ∀ x ∈ rest, ∃ r, rep x.Zatom = some r ∧ RepOf P E q x.Zatom r :=
      fun x hx => hrep x (List.mem_cons_of_mem _ hx)
    by_cases hZ : 0 ≤ atom.Zatom ∧ atom.Zatom < 120
    · obtain ⟨r, hrz, hr⟩ := hrep atom List.mem_cons_self
      by_cases hc : (ch atom.Zatom).isSome = true
      · -- already cached: the element is fine, the bad atom is further on
        have hgood := hinv _ hc
        have hb' : ∃ x ∈ rest, BadAtom rep x := by
          obtain ⟨x, hx, hbx⟩ := hbad
          rcases List.mem_cons.mp hx with rfl | hx
          · exfalso
            rcases hbx with h | ⟨r', hr', hnf⟩
            · exact h hZ
            · obtain ⟨_, r'', hr'', hf⟩ := hgood
              rw [hr'] at hr''; injection hr'' with hr''; subst hr''; exact hnf hf
          · exact ⟨x, hx, hbx⟩
        obtain ⟨e, e1, e2, h⟩ := ih ch hrest hinv hb'
        exact ⟨e, e1, e2, by rw [fillCache]; simp only [hZ, and_self, if_true, hc]; exact h⟩
      · by_cases hf : r.full
        · -- processed and cached
          have hrp := repOf_reports v hv (D := D) hrz hr hf
          have haf := atomic_factors_ok v P atom.Zatom hD hrp.ff hrp.fi hrp.fii hrp.nz error
          set p := fAof (repF rep) D a b c atom.Zatom with hp
          have hinv' : ∀ Z, ((ch.set atom.Zatom p.1 p.2) Z).isSome = true → (0 ≤ Z ∧ Z < 120) ∧ ∃ r, rep Z = some r ∧ r.full := by
            intro Z hZ'
            unfold Cache.set at hZ'
            by_cases hh : Z = atom.Zatom
            · subst hh; exact ⟨hZ, r, hrz, hf⟩
            · simp only [hh, if_false] at hZ'; exact hinv Z hZ'
          have hb' : ∃ x ∈ rest, BadAtom rep x := by
            obtain ⟨x, hx, hbx⟩ := hbad
            rcases List.mem_cons.mp hx with rfl | hx
            · exfalso
              rcases hbx with h | ⟨r', hr', hnf⟩
              · exact h hZ
              · rw [hrz] at hr'; injection hr' with hr'; subst hr'; exact hnf hf
            · exact ⟨x, hx, hbx⟩
          obtain ⟨e, e1, e2, h⟩ := ih (ch.set atom.Zatom p.1 p.2) hrest hinv' hb'
          refine ⟨e, e1, e2, ?_⟩
          rw [fillCache]
          simp only [hZ, and_self, if_true, hc, haf, bind_ok, applyFlags_valid hfl]
          simp only [one_ne_zero, if_false]
          exact h
        · obtain ⟨e, e1, e2, x, y, z, h⟩ := atomic_factors_fails v hv P atom.Zatom hD hr hf he
          refine ⟨e, e1, e2, ?_⟩
          rw [fillCache]
          simp only [hZ, and_self, if_true, hc, Bool.false_eq_true, if_false, h, bind_ok, pure_eq_ok]
    · exact ⟨⟨XRL_ERROR_INVALID_ARGUMENT, Z_OUT_OF_RANGE⟩, by decide, by decide,
        by rw [fillCache]; simp only [hZ, if_false, hz, if_true, setErr_notFull he, bind_ok, pure_eq_ok]⟩

/-- the explicit sum looks at the atomic factors of the elements present only -/
theorem sumFrom_congr (i j k : Int) (fA gA : Int → ℝ × ℝ) :
    ∀ (atoms : List (Atom ℝ)) (F : ℝ × ℝ), (∀ atom ∈ atoms, fA atom.Zatom = gA atom.Zatom) →
      Spec.sumFrom i j k fA atoms F = Spec.sumFrom i j k gA atoms F := by
  intro atoms
  induction atoms with
  | nil => intro F _; rfl
  | cons atom rest ih =>
    intro F h
    rw [Spec.sumFrom, Spec.sumFrom]
    have h1 : Spec.summand i j k fA atom = Spec.summand i j k gA atom := by
      unfold Spec.summand; rw [h atom List.mem_cons_self]
    simp only [h1]
    exact ih _ (fun x hx => h x (List.mem_cons_of_mem _ hx))

end C13
end Xrl
