import XrlC13.Lemmas.DSpacing
/-!
# `Bragg_angle` and `Q_scattering_amplitude` over ℝ, in terms of what `Crystal_dSpacing` returns
-/
namespace Xrl
namespace C13
open Real

/-- `sin θ_B = λ / (2d)` with `λ = hc/E` -/
noncomputable def braggSin (E d : ℝ) : ℝ := KEV2ANGST / E / (2 * d)

theorem bragg_nonpos (v : Variant) (cr : Option (Crystal ℝ)) {E : ℝ} (hE : E ≤ 0) (i j k : Int) (error : Slot) :
    Bragg_angle v cr E i j k error =
      (setErr error XRL_ERROR_INVALID_ARGUMENT NEGATIVE_ENERGY).bind (fun e => .ok ((0 : ℝ), e)) := by
  unfold Bragg_angle
  simp only [lit0, hE, if_true]
  rfl

theorem bragg_of_dspacing_error (v : Variant) (cr : Option (Crystal ℝ)) {E : ℝ} (hE : 0 < E) {i j k : Int} {error : Slot}
    {a : Abort} (hd : Crystal_dSpacing v cr i j k error = .error a) :
    Bragg_angle v cr E i j k error = .error a := by
  unfold Bragg_angle
  simp only [lit0, not_le.mpr hE, if_false, hd]
  rfl

theorem bragg_of_dspacing_zero (v : Variant) (cr : Option (Crystal ℝ)) {E : ℝ} (hE : 0 < E) {i j k : Int} {error e' : Slot}
    (hd : Crystal_dSpacing v cr i j k error = .ok ((0 : ℝ), e')) :
    Bragg_angle v cr E i j k error = .ok (0, e') := by
  unfold Bragg_angle
  simp only [lit0, not_le.mpr hE, if_false, hd, bind_ok, deq_real, if_true, pure_eq_ok]

/-- complete evaluation of `Bragg_angle` once the d-spacing is known and non-zero -/
theorem bragg_of_dspacing (v : Variant) (cr : Option (Crystal ℝ)) {E : ℝ} (hE : 0 < E) {i j k : Int} {error e' : Slot}
    {d : ℝ} (hd : Crystal_dSpacing v cr i j k error = .ok (d, e')) (hd0 : d ≠ 0) :
    Bragg_angle v cr E i j k error =
      if v.braggFix = true then
        (if |braggSin E d| ≤ 1 then .ok (Real.arcsin (braggSin E d), e')
         else (setErr e' XRL_ERROR_INVALID_ARGUMENT NO_REFLECTION).bind (fun e => .ok ((0 : ℝ), e)))
      else if braggSin E d < -1 ∨ 1 < braggSin E d then .error (.nf "asin")
      else .ok (Real.arcsin (braggSin E d), e') := by
  have h2d : (2 : ℝ) * d ≠ 0 := mul_ne_zero two_ne_zero hd0
  unfold Bragg_angle
  simp only [lit0, lit1, lit2, not_le.mpr hE, if_false, hd, bind_ok, deq_real, hd0, ddiv, hE.ne', h2d, pure_eq_ok,
    throw_eq_error, xfabs, xasin, dasin]
  unfold braggSin
  by_cases hv : v.braggFix = true
  · simp only [hv, if_true]
    by_cases hr : |KEV2ANGST / E / (2 * d)| ≤ 1
    · simp only [hr, if_true]
    · simp only [hr, if_false]; rfl
  · simp only [hv, if_false]
    by_cases hr : KEV2ANGST / E / (2 * d) < -1 ∨ 1 < KEV2ANGST / E / (2 * d)
    · simp only [hr, if_true]; rfl
    · simp only [hr, if_false]; rfl

theorem q_nonpos (v : Variant) (cr : Option (Crystal ℝ)) {E : ℝ} (hE : E ≤ 0) (i j k : Int) (rel : ℝ) (error : Slot) :
    Q_scattering_amplitude v cr E i j k rel error =
      (setErr error XRL_ERROR_INVALID_ARGUMENT NEGATIVE_ENERGY).bind (fun e => .ok ((0 : ℝ), e)) := by
  unfold Q_scattering_amplitude
  simp only [lit0, hE, if_true]
  rfl

theorem q_zero_miller (v : Variant) (cr : Option (Crystal ℝ)) {E : ℝ} (hE : 0 < E) (rel : ℝ) (error : Slot) :
    Q_scattering_amplitude v cr E 0 0 0 rel error = .ok (0, error) := by
  unfold Q_scattering_amplitude
  simp only [lit0, not_le.mpr hE, if_false, and_self, if_true, pure_eq_ok]

theorem q_of_bragg (v : Variant) (cr : Option (Crystal ℝ)) {E : ℝ} (hE : 0 < E) {i j k : Int}
    (h0 : ¬ (i = 0 ∧ j = 0 ∧ k = 0)) (rel : ℝ) (error : Slot) :
    Q_scattering_amplitude v cr E i j k rel error =
      (Bragg_angle v cr E i j k error).bind (fun p => .ok (E * Real.sin (rel * p.1) / KEV2ANGST, p.2)) := by
  unfold Q_scattering_amplitude
  simp only [lit0, not_le.mpr hE, if_false, h0, ddiv, deq_real, KEV2ANGST_ne, xsin, pure_eq_ok]
  rfl

end C13
end Xrl
