import Mathlib.Tactic.Linarith
import Mathlib.Tactic.Ring
import Mathlib.Tactic.Positivity
import Mathlib.Analysis.SpecialFunctions.Sqrt
/-!
# Pure algebra: the adjugate of the cosine Gram matrix is positive definite when its determinant is positive
-/
namespace Xrl
namespace C13

/-- `A11·Q(u) = (A11 u₁ + A12 u₂ + A13 u₃)² + D·((u₂ − cα u₃)² + A11 u₃²)` -/
theorem quad_identity (ca cb cg u1 u2 u3 : ℝ) :
    (1 - ca * ca) * ((1 - ca * ca) * u1 * u1 + (1 - cb * cb) * u2 * u2 + (1 - cg * cg) * u3 * u3 +
        2 * (ca * cb - cg) * u1 * u2 + 2 * (ca * cg - cb) * u1 * u3 + 2 * (cb * cg - ca) * u2 * u3) =
      ((1 - ca * ca) * u1 + (ca * cb - cg) * u2 + (ca * cg - cb) * u3) ^ 2 +
        (1 - ca * ca - cb * cb - cg * cg + 2 * ca * cb * cg) * ((u2 - ca * u3) ^ 2 + (1 - ca * ca) * u3 ^ 2) := by
  ring

theorem a11_pos (ca cb cg : ℝ) (hca : ca * ca ≤ 1) (hD : 0 < 1 - ca * ca - cb * cb - cg * cg + 2 * ca * cb * cg) :
    0 < 1 - ca * ca := by
  rcases (sub_nonneg.mpr hca).lt_or_eq with h | h
  · exact h
  · exfalso
    have : 1 - ca * ca - cb * cb - cg * cg + 2 * ca * cb * cg = (1 - ca * ca) * (1 - cb * cb) - (ca * cb - cg) ^ 2 := by ring
    rw [this, ← h] at hD
    nlinarith [sq_nonneg (ca * cb - cg)]

theorem quad_pos (ca cb cg u1 u2 u3 : ℝ) (hca : ca * ca ≤ 1)
    (hD : 0 < 1 - ca * ca - cb * cb - cg * cg + 2 * ca * cb * cg) (hu : u1 ≠ 0 ∨ u2 ≠ 0 ∨ u3 ≠ 0) :
    0 < (1 - ca * ca) * u1 * u1 + (1 - cb * cb) * u2 * u2 + (1 - cg * cg) * u3 * u3 +
        2 * (ca * cb - cg) * u1 * u2 + 2 * (ca * cg - cb) * u1 * u3 + 2 * (cb * cg - ca) * u2 * u3 := by
  have hA := a11_pos ca cb cg hca hD
  have hid := quad_identity ca cb cg u1 u2 u3
  set X := (1 - ca * ca) * u1 * u1 + (1 - cb * cb) * u2 * u2 + (1 - cg * cg) * u3 * u3 +
        2 * (ca * cb - cg) * u1 * u2 + 2 * (ca * cg - cb) * u1 * u3 + 2 * (cb * cg - ca) * u2 * u3 with hX
  set D := 1 - ca * ca - cb * cb - cg * cg + 2 * ca * cb * cg with hDdef
  have hpos : 0 < (1 - ca * ca) * X := by
    rw [hid]
    by_cases h3 : u3 = 0
    · by_cases h2 : u2 = 0
      · have h1 : u1 ≠ 0 := by
          rcases hu with h | h | h
          · exact h
          · exact absurd h2 h
          · exact absurd h3 h
        subst h3; subst h2
        have : 0 < ((1 - ca * ca) * u1) ^ 2 := by positivity
        nlinarith [this]
      · subst h3
        have h22 : 0 < u2 ^ 2 := by positivity
        have : 0 < D * u2 ^ 2 := mul_pos hD h22
        nlinarith [sq_nonneg ((1 - ca * ca) * u1 + (ca * cb - cg) * u2 + (ca * cg - cb) * 0), this]
    · have h33 : 0 < u3 ^ 2 := by positivity
      have h1 : 0 < D * ((1 - ca * ca) * u3 ^ 2) := mul_pos hD (mul_pos hA h33)
      have h2 : 0 ≤ D * (u2 - ca * u3) ^ 2 := mul_nonneg hD.le (sq_nonneg _)
      nlinarith [sq_nonneg ((1 - ca * ca) * u1 + (ca * cb - cg) * u2 + (ca * cg - cb) * u3), h1, h2]
  by_contra hneg
  have hneg := not_lt.mp hneg
  nlinarith [mul_nonpos_of_nonneg_of_nonpos hA.le hneg]

end C13
end Xrl
