import XrlC13.Lemmas.StructureFactor
/-!
# Simulation lemmas for the two loops of the machine-translated `Crystal_F_H_StructureFactor_Partial`

The translation (XrlC13/Gen/Crystal.lean) keeps the three stack arrays `f_re[120] f_im[120] f_is_computed[120]` as `LArr`
values threaded through `loopCtlM` / `loopM` over the atom index; the hand model keeps one `Cache` (`Z ↦ (f_re, f_im)`,
`none` = not computed) and recurses over the atom list.  `InvA` relates the two; `fill_sim` / `sum_sim` are the inductions,
stated for an **arbitrary** loop body that satisfies a per-iteration specification (`StepRel`, resp. the summand equation) —
Props/C13g.lean discharges that specification for the generated bodies.  Nothing here mentions the generated code.
-/
namespace Xrl
namespace C13

/-! ## pointers and header constants as the translation writes them -/

theorem derefC_some (w : String) (cc : Crystal ℝ) : derefC w (some cc) = .ok cc := rfl

/-- the literal the generated code carries for `DEGRAD` is the header's `( PI / 180.0 )` -/
theorem gen_sind (x : ℝ) : XNum.sin (x * ((3.1415926535897932384626433832795 : ℝ) / (180.0 : ℝ))) = sind x := rfl
theorem gen_cosd (x : ℝ) : XNum.cos (x * ((3.1415926535897932384626433832795 : ℝ) / (180.0 : ℝ))) = cosd x := rfl

/-! ## stack arrays -/

def LArr.set {β : Type} (a : LArr β) (i : Int) (v : β) : LArr β := ⟨a.n, fun j => if j = i then some v else a.get j⟩

@[simp] theorem LArr.set_n {β : Type} (a : LArr β) (i : Int) (v : β) : (a.set i v).n = a.n := rfl
@[simp] theorem LArr.set_get_same {β : Type} (a : LArr β) (i : Int) (v : β) : (a.set i v).get i = some v := by simp [LArr.set]
theorem LArr.set_get_ne {β : Type} (a : LArr β) {i j : Int} (v : β) (h : j ≠ i) : (a.set i v).get j = a.get j := by
  simp [LArr.set, h]

theorem wrL_ok {β : Type} (name : String) (a : LArr β) {i : Int} (h : 0 ≤ i ∧ i < (a.n : Int)) (v : β) :
    wrL name a i v = .ok (a.set i v) := by
  unfold wrL; rw [if_pos h]; rfl

theorem rdL_ok {β : Type} (name : String) (a : LArr β) {i : Int} {v : β} (h : 0 ≤ i ∧ i < (a.n : Int)) (hv : a.get i = some v) :
    rdL name a i = .ok v := by
  unfold rdL; rw [if_pos h, hv]; rfl

theorem rdL_set_same {β : Type} (name : String) (a : LArr β) {i : Int} (h : 0 ≤ i ∧ i < (a.n : Int)) (v : β) :
    rdL name (a.set i v) i = .ok v := rdL_ok name (a.set i v) h (LArr.set_get_same a i v)

theorem wrL_set {β : Type} (name : String) (a : LArr β) {i : Int} (h : 0 ≤ i ∧ i < (a.n : Int)) (v w : β) :
    wrL name (a.set i v) i w = .ok ((a.set i v).set i w) := wrL_ok name (a.set i v) h w

theorem rdAtom_ok (cc : Crystal ℝ) {k : Nat} {atom : Atom ℝ} (h : cc.atoms[k]? = some atom) : rdAtom cc (k : Int) = .ok atom := by
  have hk : k < cc.atoms.length := by
    by_contra hh
    rw [List.getElem?_eq_none (not_lt.mp hh)] at h; cases h
  unfold rdAtom
  have h1 : (0 : Int) ≤ (k : Int) ∧ (k : Int) < (cc.atoms.length : Int) := ⟨Int.natCast_nonneg k, by exact_mod_cast hk⟩
  rw [if_pos h1]
  simp only [Int.toNat_natCast, h]
  rfl

theorem loopCtlM_range' {ρ σ : Type} (n : Nat) (init : σ) (body : Int → σ → M (Ctl ρ σ)) :
    loopCtlM 0 (Int.ofNat n) init body = loopCtlGo 0 body (List.range' 0 n) init := by
  unfold loopCtlM
  simp [List.range_eq_range']

theorem loopM_range' {σ : Type} (n : Nat) (init : σ) (body : Int → σ → M σ) :
    loopM 0 (Int.ofNat n) init body = (List.range' 0 n).foldlM (fun st (k : Nat) => body (0 + (k : Int)) st) init := by
  unfold loopM
  simp [List.range_eq_range']

/-! ## the first loop -/

/-- the three arrays agree with the hand model's cache on every legal subscript -/
structure InvA (f_im : LArr ℝ) (f_isc : LArr Int) (f_re : LArr ℝ) (ch : Cache ℝ) : Prop where
  nim : f_im.n = 120
  nisc : f_isc.n = 120
  nre : f_re.n = 120
  cell : ∀ Z : Int, 0 ≤ Z → Z < 120 →
    (ch Z = none ∧ f_isc.get Z = some 0) ∨
    (∃ re im, ch Z = some (re, im) ∧ f_isc.get Z = some 1 ∧ f_re.get Z = some re ∧ f_im.get Z = some im)

theorem InvA.init : InvA (LArr.uninit 120) (LArr.const 120 (0 : Int)) (LArr.uninit 120) (Cache.empty : Cache ℝ) :=
  ⟨rfl, rfl, rfl, fun _ _ _ => Or.inl ⟨rfl, rfl⟩⟩

/-- after `f_re[Z] = re; f_im[Z] = im; f_is_computed[Z] = 1` (in any order, with any earlier values of `f_re[Z]`) -/
theorem InvA.store {f_im f_im' : LArr ℝ} {f_isc f_isc' : LArr Int} {f_re f_re' : LArr ℝ} {ch : Cache ℝ}
    (h : InvA f_im f_isc f_re ch) (Z : Int) (re im : ℝ)
    (n1 : f_im'.n = f_im.n) (n2 : f_isc'.n = f_isc.n) (n3 : f_re'.n = f_re.n)
    (g1 : f_im'.get Z = some im) (g2 : f_isc'.get Z = some 1) (g3 : f_re'.get Z = some re)
    (o1 : ∀ j, j ≠ Z → f_im'.get j = f_im.get j) (o2 : ∀ j, j ≠ Z → f_isc'.get j = f_isc.get j)
    (o3 : ∀ j, j ≠ Z → f_re'.get j = f_re.get j) :
    InvA f_im' f_isc' f_re' (ch.set Z re im) := by
  refine ⟨n1.trans h.nim, n2.trans h.nisc, n3.trans h.nre, fun Z' h0 h1 => ?_⟩
  by_cases hz : Z' = Z
  · subst hz
    exact Or.inr ⟨re, im, by simp [Cache.set], g2, g3, g1⟩
  · rcases h.cell Z' h0 h1 with ⟨c1, c2⟩ | ⟨r, i, c1, c2, c3, c4⟩
    · exact Or.inl ⟨by simp [Cache.set, hz, c1], by rw [o2 _ hz]; exact c2⟩
    · exact Or.inr ⟨r, i, by simp [Cache.set, hz, c1], by rw [o2 _ hz]; exact c2, by rw [o3 _ hz]; exact c3, by rw [o1 _ hz]; exact c4⟩

/-- state of the first loop: `(Z, error, f0, f_im, f_is_computed, f_prime, f_prime2, f_re)` -/
abbrev St8 := Int × Slot × ℝ × LArr ℝ × LArr Int × ℝ × ℝ × LArr ℝ
/-- what the function returns -/
abbrev Ret := (ℝ × ℝ) × Slot

/-- one iteration of the hand model's first loop (all repairs in), as a function: `inl e` = `return F_H` with slot `e`;
`inr (none, e)` = `continue` (element already cached); `inr (some (re, im), e)` = the pair was stored for `atom.Zatom` -/
noncomputable def fillStep (P : Elem ℝ) (E q D : ℝ) (a b c : Int) (atom : Atom ℝ) (ch : Cache ℝ) (error : Slot) :
    M (Sum Slot (Option (ℝ × ℝ) × Slot)) :=
  let Z := atom.Zatom
  if 0 ≤ Z ∧ Z < 120 then
    if (ch Z).isSome = true then pure (Sum.inr (none, error))
    else do
      let ((rc, f0, fp, fpp), error) ← Atomic_Factors repaired P Z E q D true true true error
      if rc = 0 then pure (Sum.inl error) else
      match f0, fp, fpp with
      | some f0, some fp, some fpp => do
        match ← applyFlags f0 fp fpp a b c error with
        | Sum.inl error => pure (Sum.inl error)
        | Sum.inr (re, im) => pure (Sum.inr (some (re, im), error))
      | _, _, _ => throw (.ub "Atomic_Factors left an out-parameter unset")
  else do
    let error ← setErr error XRL_ERROR_INVALID_ARGUMENT Z_OUT_OF_RANGE
    pure (Sum.inl error)

theorem fillCache_cons (P : Elem ℝ) (E q D : ℝ) (a b c : Int) (atom : Atom ℝ) (rest : List (Atom ℝ)) (ch : Cache ℝ)
    (error : Slot) :
    fillCache repaired P E q D a b c (atom :: rest) ch error =
      (fillStep P E q D a b c atom ch error).bind (fun r =>
        match r with
        | Sum.inl e => .ok (Sum.inl e)
        | Sum.inr (none, e) => fillCache repaired P E q D a b c rest ch e
        | Sum.inr (some (re, im), e) => fillCache repaired P E q D a b c rest (ch.set atom.Zatom re im) e) := by
  rw [fillCache]
  unfold fillStep
  by_cases hZ : 0 ≤ atom.Zatom ∧ atom.Zatom < 120
  · simp only [hZ, and_self, if_true]
    by_cases hc : (ch atom.Zatom).isSome = true
    · simp only [hc, if_true]; rfl
    · simp only [hc, Bool.false_eq_true, if_false]
      cases haf : Atomic_Factors repaired P atom.Zatom E q D true true true error with
      | error x => rfl
      | ok r =>
        obtain ⟨⟨rc, f0, fp, fpp⟩, e'⟩ := r
        simp only [bind_ok]
        by_cases hrc : rc = 0
        · simp only [hrc, if_true]; rfl
        · simp only [hrc, if_false]
          cases f0 <;> cases fp <;> cases fpp <;> try rfl
          rename_i x y z
          simp only
          cases hap : applyFlags x y z a b c e' with
          | error w => rfl
          | ok s =>
            cases s with
            | inl e'' => rfl
            | inr p => obtain ⟨re, im⟩ := p; rfl
  · simp only [hZ, if_false, repaired, if_true]
    cases error <;> rfl

/-- the three `default:` arms of the flag switches, for every state of the slot -/
theorem applyFlags_bad_a {a : Int} (h : a ≠ 0 ∧ a ≠ 1 ∧ a ≠ 2) (b c : Int) (f0 fp fpp : ℝ) (error : Slot) :
    applyFlags f0 fp fpp a b c error =
      (setErr error XRL_ERROR_INVALID_ARGUMENT ("Invalid f0_flag argument: " ++ toString a)).bind (fun e => .ok (Sum.inl e)) := by
  unfold applyFlags
  simp only [bind_ok, pure_eq_ok]
  rw [if_pos h]
  rfl

theorem applyFlags_bad_b {a b : Int} (ha : a = 0 ∨ a = 1 ∨ a = 2) (h : b ≠ 0 ∧ b ≠ 2) (c : Int) (f0 fp fpp : ℝ) (error : Slot) :
    applyFlags f0 fp fpp a b c error =
      (setErr error XRL_ERROR_INVALID_ARGUMENT ("Invalid f_prime_flag argument: " ++ toString b)).bind (fun e => .ok (Sum.inl e)) := by
  have ha' : ¬ (a ≠ 0 ∧ a ≠ 1 ∧ a ≠ 2) := by omega
  unfold applyFlags
  simp only [ha', if_false, bind_ok, pure_eq_ok]
  rw [if_pos h]
  rfl

theorem applyFlags_bad_c {a b c : Int} (ha : a = 0 ∨ a = 1 ∨ a = 2) (hb : b = 0 ∨ b = 2) (h : c ≠ 0 ∧ c ≠ 2) (f0 fp fpp : ℝ)
    (error : Slot) :
    applyFlags f0 fp fpp a b c error =
      (setErr error XRL_ERROR_INVALID_ARGUMENT ("Invalid f_prime2_flag argument: " ++ toString c)).bind (fun e => .ok (Sum.inl e)) := by
  have ha' : ¬ (a ≠ 0 ∧ a ≠ 1 ∧ a ≠ 2) := by omega
  have hb' : ¬ (b ≠ 0 ∧ b ≠ 2) := by omega
  unfold applyFlags
  simp only [ha', hb', if_false, bind_ok, pure_eq_ok]
  rw [if_pos h]
  rfl

/-- what one iteration `g` of a translated first loop must do, given the hand model's iteration `h` -/
def StepRel (g : M (Ctl Ret St8)) (ch : Cache ℝ) (Z : Int) (h : M (Sum Slot (Option (ℝ × ℝ) × Slot))) : Prop :=
  match h with
  | .error x => g = .error x
  | .ok (Sum.inl e) => g = .ok (Ctl.ret (((0.0 : ℝ), (0.0 : ℝ)), e))
  | .ok (Sum.inr (none, e)) =>
    ∃ Z' f0 fi fis fp fpp fr, g = .ok (Ctl.next (Z', e, f0, fi, fis, fp, fpp, fr)) ∧ InvA fi fis fr ch
  | .ok (Sum.inr (some (re, im), e)) =>
    ∃ Z' f0 fi fis fp fpp fr, g = .ok (Ctl.next (Z', e, f0, fi, fis, fp, fpp, fr)) ∧ InvA fi fis fr (ch.set Z re im)

/-- what a translated first loop `g` must end in, given the hand model's `fillCache` outcome `h` -/
def FillRel (g : M (Sum Ret St8)) (h : M (Sum Slot (Cache ℝ × Slot))) : Prop :=
  match h with
  | .error x => g = .error x
  | .ok (Sum.inl e) => g = .ok (Sum.inl (((0.0 : ℝ), (0.0 : ℝ)), e))
  | .ok (Sum.inr (ch', e)) => ∃ Z' f0 fi fis fp fpp fr, g = .ok (Sum.inr (Z', e, f0, fi, fis, fp, fpp, fr)) ∧ InvA fi fis fr ch'

theorem fill_sim (P : Elem ℝ) (E q D : ℝ) (a b c : Int) (cc : Crystal ℝ) (body : Int → St8 → M (Ctl Ret St8))
    (hstep : ∀ (k : Nat) (atom : Atom ℝ), cc.atoms[k]? = some atom → ∀ (Z' : Int) (e : Slot) (f0 : ℝ) (fi : LArr ℝ) (fis : LArr Int)
      (fp fpp : ℝ) (fr : LArr ℝ) (ch : Cache ℝ), InvA fi fis fr ch →
      StepRel (body (0 + (k : Int)) (Z', e, f0, fi, fis, fp, fpp, fr)) ch atom.Zatom (fillStep P E q D a b c atom ch e)) :
    ∀ (rest pre : List (Atom ℝ)), cc.atoms = pre ++ rest →
      ∀ (Z' : Int) (e : Slot) (f0 : ℝ) (fi : LArr ℝ) (fis : LArr Int) (fp fpp : ℝ) (fr : LArr ℝ) (ch : Cache ℝ), InvA fi fis fr ch →
      FillRel (loopCtlGo 0 body (List.range' pre.length rest.length) (Z', e, f0, fi, fis, fp, fpp, fr))
        (fillCache repaired P E q D a b c rest ch e) := by
  intro rest
  induction rest with
  | nil =>
    intro pre _ Z' e f0 fi fis fp fpp fr ch hinv
    simp only [List.length_nil, List.range'_zero, loopCtlGo, fillCache, pure_eq_ok, FillRel]
    exact ⟨_, _, _, _, _, _, _, rfl, hinv⟩
  | cons atom rest ih =>
    intro pre hpre Z' e f0 fi fis fp fpp fr ch hinv
    have hk : cc.atoms[pre.length]? = some atom := by
      rw [hpre, List.getElem?_append_right (le_refl _)]; simp
    have hpre' : cc.atoms = (pre ++ [atom]) ++ rest := by rw [hpre]; simp
    have hlen : (pre ++ [atom]).length = pre.length + 1 := by simp
    have hs := hstep pre.length atom hk Z' e f0 fi fis fp fpp fr ch hinv
    rw [List.length_cons, List.range'_succ, loopCtlGo, fillCache_cons]
    cases hf : fillStep P E q D a b c atom ch e with
    | error x =>
      rw [hf] at hs
      simp only [StepRel] at hs
      rw [hs]; rfl
    | ok r =>
      rw [hf] at hs
      cases r with
      | inl e' =>
        simp only [StepRel] at hs
        rw [hs]; rfl
      | inr p =>
        obtain ⟨o, e'⟩ := p
        cases o with
        | none =>
          simp only [StepRel] at hs
          obtain ⟨Z2, f02, fi2, fis2, fp2, fpp2, fr2, hg, hinv2⟩ := hs
          rw [hg]
          have := ih (pre ++ [atom]) hpre' Z2 e' f02 fi2 fis2 fp2 fpp2 fr2 ch hinv2
          rw [hlen] at this
          exact this
        | some p =>
          obtain ⟨re, im⟩ := p
          simp only [StepRel] at hs
          obtain ⟨Z2, f02, fi2, fis2, fp2, fpp2, fr2, hg, hinv2⟩ := hs
          rw [hg]
          have := ih (pre ++ [atom]) hpre' Z2 e' f02 fi2 fis2 fp2 fpp2 fr2 _ hinv2
          rw [hlen] at this
          exact this

/-- when the hand model's first loop runs to the end (repair C13-2 in), every atom has a legal subscript and is cached -/
theorem fillCache_done (P : Elem ℝ) (E q D : ℝ) (a b c : Int) :
    ∀ (atoms : List (Atom ℝ)) (ch ch' : Cache ℝ) (error e' : Slot),
      fillCache repaired P E q D a b c atoms ch error = .ok (Sum.inr (ch', e')) →
      (∀ atom ∈ atoms, (0 ≤ atom.Zatom ∧ atom.Zatom < 120) ∧ (ch' atom.Zatom).isSome = true) ∧
      (∀ Z, (ch Z).isSome = true → (ch' Z).isSome = true) := by
  intro atoms
  induction atoms with
  | nil =>
    intro ch ch' error e' h
    simp only [fillCache, pure_eq_ok] at h
    injection h with h; injection h with h; injection h with h1 h2
    subst h1
    exact ⟨by simp, fun _ h => h⟩
  | cons atom rest ih =>
    intro ch ch' error e' h
    rw [fillCache_cons] at h
    cases hf : fillStep P E q D a b c atom ch error with
    | error x => rw [hf] at h; cases h
    | ok r =>
      rw [hf] at h
      have hZ : 0 ≤ atom.Zatom ∧ atom.Zatom < 120 := by
        by_contra hZ
        unfold fillStep at hf
        simp only [hZ, if_false] at hf
        cases error <;> simp [setErr] at hf <;> (subst hf; cases h)
      cases r with
      | inl e'' => cases h
      | inr p =>
        obtain ⟨o, e''⟩ := p
        cases o with
        | none =>
          have h' : fillCache repaired P E q D a b c rest ch e'' = .ok (Sum.inr (ch', e')) := h
          obtain ⟨h1, h2⟩ := ih ch ch' e'' e' h'
          have hc : (ch atom.Zatom).isSome = true := by
            by_contra hc
            unfold fillStep at hf
            simp only [hZ, and_self, if_true, hc, Bool.false_eq_true, if_false] at hf
            cases haf : Atomic_Factors repaired P atom.Zatom E q D true true true error with
            | error x => rw [haf] at hf; cases hf
            | ok r =>
              obtain ⟨⟨rc, f0, fp, fpp⟩, e3⟩ := r
              rw [haf] at hf
              simp only [bind_ok] at hf
              by_cases hrc : rc = 0
              · simp only [hrc, if_true] at hf; cases hf
              · simp only [hrc, if_false] at hf
                cases f0 <;> cases fp <;> cases fpp <;> try (cases hf)
                rename_i x y z
                simp only at hf
                cases hap : applyFlags x y z a b c e3 with
                | error w => rw [hap] at hf; cases hf
                | ok s =>
                  rw [hap] at hf
                  cases s with
                  | inl e4 => cases hf
                  | inr p => obtain ⟨re, im⟩ := p; cases hf
          refine ⟨fun x hx => ?_, h2⟩
          rcases List.mem_cons.mp hx with rfl | hx
          · exact ⟨hZ, h2 _ hc⟩
          · exact h1 x hx
        | some p =>
          obtain ⟨re, im⟩ := p
          have h' : fillCache repaired P E q D a b c rest (ch.set atom.Zatom re im) e'' = .ok (Sum.inr (ch', e')) := h
          obtain ⟨h1, h2⟩ := ih _ ch' e'' e' h'
          refine ⟨fun x hx => ?_, fun Z hZ' => h2 Z ?_⟩
          · rcases List.mem_cons.mp hx with rfl | hx
            · exact ⟨hZ, h2 _ (by simp [Cache.set])⟩
            · exact h1 x hx
          · unfold Cache.set
            by_cases hh : Z = atom.Zatom <;> simp [hh, hZ']

/-! ## the second loop -/

/-- state of the second loop: `(F_H, H_dot_r, Z)` -/
abbrev St3 := (ℝ × ℝ) × ℝ × Int

theorem sum_sim (cc : Crystal ℝ) (i j k : Int) (ch : Cache ℝ) (body : Int → St3 → M St3)
    (hbody : ∀ (n : Nat) (atom : Atom ℝ), cc.atoms[n]? = some atom → ∀ (re im : ℝ), ch atom.Zatom = some (re, im) →
      ∀ (F : ℝ × ℝ) (H : ℝ) (Z : Int), ∃ H' Z', body (0 + (n : Int)) (F, H, Z) =
        .ok ((F.1 + atom.fraction * (re * XNum.cos (TWOPI * (XNum.ofInt i * atom.x + XNum.ofInt j * atom.y + XNum.ofInt k * atom.z)) -
                im * XNum.sin (TWOPI * (XNum.ofInt i * atom.x + XNum.ofInt j * atom.y + XNum.ofInt k * atom.z))),
              F.2 + atom.fraction * (re * XNum.sin (TWOPI * (XNum.ofInt i * atom.x + XNum.ofInt j * atom.y + XNum.ofInt k * atom.z)) +
                im * XNum.cos (TWOPI * (XNum.ofInt i * atom.x + XNum.ofInt j * atom.y + XNum.ofInt k * atom.z)))), H', Z')) :
    ∀ (rest pre : List (Atom ℝ)), cc.atoms = pre ++ rest → (∀ atom ∈ rest, (ch atom.Zatom).isSome = true) →
      ∀ (F : ℝ × ℝ) (H : ℝ) (Z : Int), ∃ F' H' Z',
        (List.range' pre.length rest.length).foldlM (fun st (n : Nat) => body (0 + (n : Int)) st) (F, H, Z) = .ok (F', H', Z') ∧
        sumAtoms ch i j k rest F = .ok F' := by
  intro rest
  induction rest with
  | nil =>
    intro pre _ _ F H Z
    exact ⟨F, H, Z, by simp [List.foldlM], by simp [sumAtoms]⟩
  | cons atom rest ih =>
    intro pre hpre hc F H Z
    have hk : cc.atoms[pre.length]? = some atom := by
      rw [hpre, List.getElem?_append_right (le_refl _)]; simp
    have hpre' : cc.atoms = (pre ++ [atom]) ++ rest := by rw [hpre]; simp
    have hlen : (pre ++ [atom]).length = pre.length + 1 := by simp
    obtain ⟨⟨re, im⟩, hy⟩ := Option.isSome_iff_exists.mp (hc atom List.mem_cons_self)
    obtain ⟨H', Z', hb⟩ := hbody pre.length atom hk re im hy F H Z
    obtain ⟨F'', H'', Z'', h1, h2⟩ := ih (pre ++ [atom]) hpre' (fun x hx => hc x (List.mem_cons_of_mem _ hx)) _ H' Z'
    rw [hlen] at h1
    refine ⟨F'', H'', Z'', ?_, ?_⟩
    · rw [List.length_cons, List.range'_succ, List.foldlM_cons, hb]
      exact h1
    · obtain ⟨Fre, Fim⟩ := F
      rw [sumAtoms, hy]
      exact h2

/-- `sum_sim` for the whole loop `for (i = 0; i < n_atom; i++)` -/
theorem sum_sim_top (cc : Crystal ℝ) (i j k : Int) (ch : Cache ℝ) (body : Int → St3 → M St3)
    (hbody : ∀ (n : Nat) (atom : Atom ℝ), cc.atoms[n]? = some atom → ∀ (re im : ℝ), ch atom.Zatom = some (re, im) →
      ∀ (F : ℝ × ℝ) (H : ℝ) (Z : Int), ∃ H' Z', body (0 + (n : Int)) (F, H, Z) =
        .ok ((F.1 + atom.fraction * (re * XNum.cos (TWOPI * (XNum.ofInt i * atom.x + XNum.ofInt j * atom.y + XNum.ofInt k * atom.z)) -
                im * XNum.sin (TWOPI * (XNum.ofInt i * atom.x + XNum.ofInt j * atom.y + XNum.ofInt k * atom.z))),
              F.2 + atom.fraction * (re * XNum.sin (TWOPI * (XNum.ofInt i * atom.x + XNum.ofInt j * atom.y + XNum.ofInt k * atom.z)) +
                im * XNum.cos (TWOPI * (XNum.ofInt i * atom.x + XNum.ofInt j * atom.y + XNum.ofInt k * atom.z)))), H', Z'))
    (hc : ∀ atom ∈ cc.atoms, (ch atom.Zatom).isSome = true) (F : ℝ × ℝ) (H : ℝ) (Z : Int) :
    ∃ F' H' Z', loopM 0 (Int.ofNat cc.atoms.length) (F, H, Z) body = .ok (F', H', Z') ∧ sumAtoms ch i j k cc.atoms F = .ok F' := by
  rw [loopM_range']
  exact sum_sim cc i j k ch body hbody cc.atoms [] (by simp) hc F H Z

end C13
end Xrl
