import XrlC13.Lemmas.Real
/-!
# `Atomic_Factors` over ℝ
-/
namespace Xrl
namespace C13

/-- the elemental call answers `x` and leaves every slot alone -/
def Gives (f : Slot → M (ℝ × Slot)) (x : ℝ) : Prop := ∀ s, f s = .ok (x, s)

/-- the C03 contract of an elemental call: from a slot that holds no error, either a value with the slot untouched, or
the sentinel 0 with exactly one error stored (nothing observable for the NULL slot) -/
def Contract (f : Slot → M (ℝ × Slot)) : Prop :=
  ∀ s, s.isFull = false → (∃ x, f s = .ok (x, s)) ∨ (∃ e, f s = .ok ((0 : ℝ), s.withErr e))

def ElemContract (P : Elem ℝ) : Prop :=
  ∀ Z x, Contract (P.ff Z x) ∧ Contract (P.fi Z x) ∧ Contract (P.fii Z x)

theorem Gives.contract {f : Slot → M (ℝ × Slot)} {x : ℝ} (h : Gives f x) : Contract f :=
  fun s _ => Or.inl ⟨x, h s⟩

theorem afTerm_skip (v : Variant) (f : Slot → M (ℝ × Slot)) (sign : ℝ → ℝ) (D : ℝ) (error : Slot) :
    afTerm v false f sign D error = .ok (none, false, error) := by
  unfold afTerm; simp

theorem afTerm_gives (v : Variant) {f : Slot → M (ℝ × Slot)} {x : ℝ} (hf : Gives f x) (sign : ℝ → ℝ) (D : ℝ)
    (error : Slot) (hnz : v.zeroFix = true ∨ sign x * D ≠ 0) :
    afTerm v true f sign D error = .ok (some (sign x * D), false, error) := by
  unfold afTerm
  by_cases hv : v.zeroFix = true
  · simp [hv, hf Slot.empty, Slot.isFull]
  · have hne := hnz.resolve_left hv
    simp [hv, hf error, hne, -mul_eq_zero]

/-- a zero product is taken for a failure by the shipped code -/
theorem afTerm_zero (v : Variant) (hv : v.zeroFix = false) {f : Slot → M (ℝ × Slot)} {x : ℝ} (hf : Gives f x)
    (sign : ℝ → ℝ) (D : ℝ) (error : Slot) (hz : sign x * D = 0) :
    afTerm v true f sign D error = .ok (some (sign x * D), true, error) := by
  unfold afTerm
  simp [hv, hf error, hz, -mul_eq_zero]

theorem slot_withErr_notFull_null {s : Slot} {e : Err} (h : (s.withErr e).isFull = false) : s = Slot.null := by
  cases s <;> simp_all [Slot.withErr, Slot.isFull]

/-- under the contract one term never aborts; it either succeeds leaving the slot alone, or is `bad` -/
theorem afTerm_contract (v : Variant) {f : Slot → M (ℝ × Slot)} (hf : Contract f) (sign : ℝ → ℝ) (hs : sign 0 = 0) (D : ℝ)
    {error : Slot} (he : error.isFull = false) :
    ∃ y bad e', afTerm v true f sign D error = .ok (some y, bad, e') ∧ (bad = false → e' = error) := by
  unfold afTerm
  by_cases hv : v.zeroFix = true
  · rcases hf Slot.empty rfl with ⟨x, hx⟩ | ⟨e, hx⟩
    · exact ⟨sign x * D, false, error, by simp [hv, hx, Slot.isFull], fun _ => rfl⟩
    · refine ⟨sign 0 * D, true, error.withErr e, ?_, by simp⟩
      simp only [hv, if_true, hx, Slot.withErr, bind_ok, Slot.isFull]
      cases error <;> simp_all [propagateErr, Slot.withErr, Slot.isFull]
  · rcases hf error he with ⟨x, hx⟩ | ⟨e, hx⟩
    · by_cases hz : sign x * D = 0
      · exact ⟨sign x * D, true, error, by simp [hv, hx, hz, -mul_eq_zero], by simp⟩
      · exact ⟨sign x * D, false, error, by simp [hv, hx, hz, -mul_eq_zero], fun _ => rfl⟩
    · exact ⟨sign 0 * D, true, error.withErr e, by simp [hv, hx, hs], by simp⟩

/-- all three factors available (and, for the shipped code, non-zero): success with the products -/
theorem atomic_factors_ok (v : Variant) (P : Elem ℝ) (Z : Int) {E q D a b c : ℝ} (hD : 0 < D)
    (ha : Gives (P.ff Z q) a) (hb : Gives (P.fi Z E) b) (hc : Gives (P.fii Z E) c)
    (hnz : v.zeroFix = true ∨ (a * D ≠ 0 ∧ b * D ≠ 0 ∧ -c * D ≠ 0)) (error : Slot) :
    Atomic_Factors v P Z E q D true true true error = .ok ((1, some (a * D), some (b * D), some (-c * D)), error) := by
  unfold Atomic_Factors
  have h1 := afTerm_gives v ha id D error (hnz.imp id (fun h => by simpa using h.1))
  have h2 := afTerm_gives v hb id D error (hnz.imp id (fun h => by simpa using h.2.1))
  have h3 := afTerm_gives v hc (fun x => -x) D error (hnz.imp id (fun h => by simpa using h.2.2))
  simp only [lit0, not_le.mpr hD, if_false, h1, h2, h3, bind_ok, id]
  rfl

/-- under the contract `Atomic_Factors` never aborts; `rc ≠ 0` leaves the slot alone and sets all three outputs -/
theorem atomic_factors_contract (v : Variant) {P : Elem ℝ} (hP : ElemContract P) (Z : Int) (E q D : ℝ)
    {error : Slot} (he : error.isFull = false) :
    ∃ rc f0 fp fpp e', Atomic_Factors v P Z E q D true true true error = .ok ((rc, f0, fp, fpp), e') ∧
      (rc ≠ 0 → e' = error ∧ ∃ x y z, f0 = some x ∧ fp = some y ∧ fpp = some z) := by
  unfold Atomic_Factors
  by_cases hD : D ≤ 0
  · refine ⟨0, zeroed true, zeroed true, zeroed true, error.withErr ⟨XRL_ERROR_INVALID_ARGUMENT, NEGATIVE_DEBYE_FACTOR⟩, ?_, by simp⟩
    simp only [lit0, hD, if_true, setErr_notFull he, bind_ok, pure_eq_ok]
  · simp only [lit0, hD, if_false]
    obtain ⟨y1, bad1, e1, h1, hb1⟩ := afTerm_contract v (hP Z q).1 id rfl D he
    rw [h1]; simp only [bind_ok]
    cases bad1 with
    | true => exact ⟨0, zeroed true, zeroed true, zeroed true, e1, by simp, by simp⟩
    | false =>
      have := hb1 rfl; subst this
      obtain ⟨y2, bad2, e2, h2, hb2⟩ := afTerm_contract v (hP Z E).2.1 id rfl D he
      simp only [Bool.false_eq_true, if_false]
      rw [h2]; simp only [bind_ok]
      cases bad2 with
      | true => exact ⟨0, zeroed true, zeroed true, zeroed true, e2, by simp, by simp⟩
      | false =>
        have := hb2 rfl; subst this
        obtain ⟨y3, bad3, e3, h3, hb3⟩ := afTerm_contract v (hP Z E).2.2 (fun x => -x) (by simp) D he
        simp only [Bool.false_eq_true, if_false]
        rw [h3]; simp only [bind_ok]
        cases bad3 with
        | true => exact ⟨0, zeroed true, zeroed true, zeroed true, e3, by simp, by simp⟩
        | false =>
          have := hb3 rfl; subst this
          exact ⟨1, some y1, some y2, some y3, e3, by simp, fun _ => ⟨rfl, y1, y2, y3, rfl, rfl, rfl⟩⟩

end C13
end Xrl
