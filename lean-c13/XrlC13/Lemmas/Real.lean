import XrlC13.Core.Real
import XrlC13.Hand.CrystalNum
import XrlC13.Spec.Crystal
/-!
# The real-number reading of the model's vocabulary (proofs only)
-/
namespace Xrl
namespace C13
open Real

@[simp] theorem lit0 : (0.0 : ℝ) = 0 := by norm_num
@[simp] theorem lit1 : (1.0 : ℝ) = 1 := by norm_num
@[simp] theorem lit2 : (2.0 : ℝ) = 2 := by norm_num
@[simp] theorem xsin (x : ℝ) : XNum.sin x = Real.sin x := rfl
@[simp] theorem xcos (x : ℝ) : XNum.cos x = Real.cos x := rfl
@[simp] theorem xsqrt (x : ℝ) : XNum.sqrt x = Real.sqrt x := rfl
@[simp] theorem xasin (x : ℝ) : XNum.asin x = Real.arcsin x := rfl
@[simp] theorem xfabs (x : ℝ) : XNum.fabs x = |x| := rfl
@[simp] theorem xofInt (i : Int) : (XNum.ofInt i : ℝ) = (i : ℝ) := rfl

theorem KEV2ANGST_pos : (0 : ℝ) < KEV2ANGST := by unfold KEV2ANGST; norm_num
theorem KEV2ANGST_ne : (KEV2ANGST : ℝ) ≠ 0 := KEV2ANGST_pos.ne'
theorem PI_pos : (0 : ℝ) < PI := by unfold PI; norm_num

theorem sind_sq (x : ℝ) : sind x * sind x = 1 - cosd x * cosd x := by
  unfold sind cosd
  simp only [xsin, xcos]
  nlinarith [Real.sin_sq_add_cos_sq (x * DEGRAD)]

theorem cosd_le_one (x : ℝ) : cosd x * cosd x ≤ 1 := by
  unfold cosd; simp only [xcos]; nlinarith [Real.sin_sq_add_cos_sq (x * DEGRAD), sq_nonneg (Real.sin (x * DEGRAD))]

theorem cosDeg_eq (x : ℝ) : Spec.cosDeg x = cosd x := rfl

end C13
end Xrl
