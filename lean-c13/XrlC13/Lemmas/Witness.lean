import XrlC13.Lemmas.FH
import Mathlib.Analysis.Real.Pi.Bounds
/-!
# The concrete witnesses of the negative theorems (also replayed on the library by the check)

`cube`: unit cube (a = b = c = 1 Å, 90°, stored volume 1), one Si atom at the origin.  The header's `PI` is a decimal
literal, so `cosd 90` is not exactly 0; `|cosd 90| < 10⁻⁶` is all that is needed.
-/
namespace Xrl
namespace C13
open Real

def cube : Crystal ℝ := ⟨1, 1, 1, 90, 90, 90, 1, [⟨14, 1, 0, 0, 0⟩]⟩

theorem PI_close : |(PI : ℝ) - π| < 1 / 1000000 := by
  have h1 := Real.pi_gt_d6
  have h2 := Real.pi_lt_d6
  unfold PI
  rw [abs_lt]
  constructor <;> norm_num <;> linarith

theorem cosd90_small : |cosd (90 : ℝ)| < 1 / 1000000 := by
  unfold cosd DEGRAD
  simp only [xcos]
  have hx : (90 : ℝ) * (PI / 180.0) = π / 2 - (π - PI) / 2 := by norm_num; ring
  rw [hx, Real.cos_pi_div_two_sub]
  have h := PI_close
  have h2 : |Real.sin ((π - PI) / 2)| ≤ |(π - PI) / 2| := Real.abs_sin_le_abs
  have h3 : |(π - PI) / 2| = |PI - π| / 2 := by rw [abs_div, abs_sub_comm]; norm_num
  rw [h3] at h2
  linarith [abs_nonneg ((PI : ℝ) - π)]

theorem cube_detC : (99 : ℝ) / 100 < detC cube := by
  rw [detC_real]
  have h := abs_lt.mp cosd90_small
  show (99 : ℝ) / 100 < 1 - cosd 90 * cosd 90 - cosd 90 * cosd 90 - cosd 90 * cosd 90 + 2 * cosd 90 * cosd 90 * cosd 90
  set c := cosd (90 : ℝ)
  nlinarith [h.1, h.2, sq_nonneg c, mul_self_nonneg c]

theorem cube_valid : validCell cube := by
  refine ⟨?_, ?_, ?_, ?_, ?_⟩ <;> simp only [lit0]
  · show (0 : ℝ) < 1; norm_num
  · show (0 : ℝ) < 1; norm_num
  · show (0 : ℝ) < 1; norm_num
  · linarith [cube_detC]
  · show (0 : ℝ) < 1; norm_num

theorem cube_validAtoms : validAtoms cube := by
  intro atom h
  simp only [cube, List.mem_singleton] at h
  subst h
  constructor <;> decide

theorem cube_Xq : Xq cube 1 0 0 = 1 - cosd 90 * cosd 90 := by
  rw [Xq_cos]
  show (1 - cosd 90 * cosd 90) * (((1 : Int) : ℝ) / 1) * (((1 : Int) : ℝ) / 1) + _ * (((0 : Int) : ℝ) / 1) * (((0 : Int) : ℝ) / 1)
    + _ * (((0 : Int) : ℝ) / 1) * (((0 : Int) : ℝ) / 1) + _ * (((1 : Int) : ℝ) / 1) * (((0 : Int) : ℝ) / 1)
    + _ * (((1 : Int) : ℝ) / 1) * (((0 : Int) : ℝ) / 1) + _ * (((0 : Int) : ℝ) / 1) * (((0 : Int) : ℝ) / 1) = _
  push_cast
  ring

/-- the (1,0,0) spacing of the unit cube is about 1 Å — at most 2 Å -/
theorem cube_dval : 0 < dval cube 1 0 0 ∧ dval cube 1 0 0 ≤ 2 := by
  have hpos := dval_pos cube_valid (i := 1) (j := 0) (k := 0) (by decide)
  refine ⟨hpos, ?_⟩
  unfold dval
  rw [cube_Xq]
  have h := abs_lt.mp cosd90_small
  set c := cosd (90 : ℝ)
  have hc : (1 : ℝ) / 4 ≤ 1 - c * c := by nlinarith [h.1, h.2]
  have h4 : 1 / (1 - c * c) ≤ 4 := by
    rw [div_le_iff₀ (by linarith)]; linarith
  have hs : Real.sqrt (1 / (1 - c * c)) ≤ 2 := by
    have : Real.sqrt (1 / (1 - c * c)) ≤ Real.sqrt 4 := Real.sqrt_le_sqrt h4
    have h22 : Real.sqrt 4 = 2 := by
      rw [show (4 : ℝ) = 2 ^ 2 by norm_num]; exact Real.sqrt_sq (by norm_num)
    linarith
  show (1 : ℝ) / (1 * 1 * 1) * Real.sqrt (1 / (1 - c * c)) ≤ 2
  rw [show (1 : ℝ) / (1 * 1 * 1) = 1 by norm_num, one_mul]
  exact hs

/-- at 1 keV (λ = 12.4 Å) the unit cube has no (1,0,0) reflection -/
theorem cube_no_reflection : KEV2ANGST / 1 > 2 * dval cube 1 0 0 := by
  have h := cube_dval.2
  unfold KEV2ANGST
  norm_num
  linarith

theorem cube_smallMiller : smallMiller 1 0 0 := by decide

theorem cube_dval_ge_one : 1 ≤ dval cube 1 0 0 := by
  unfold dval
  rw [cube_Xq]
  have h := abs_lt.mp cosd90_small
  set c := cosd (90 : ℝ)
  have hc : 0 < 1 - c * c := by nlinarith [h.1, h.2]
  have h1 : 1 ≤ 1 / (1 - c * c) := by
    rw [le_div_iff₀ hc]; nlinarith [mul_self_nonneg c]
  have hs : 1 ≤ Real.sqrt (1 / (1 - c * c)) := by
    rw [show (1 : ℝ) = Real.sqrt 1 by simp]
    exact Real.sqrt_le_sqrt (by simpa using h1)
  show 1 ≤ (1 : ℝ) / (1 * 1 * 1) * Real.sqrt (1 / (1 - c * c))
  rw [show (1 : ℝ) / (1 * 1 * 1) = 1 by norm_num, one_mul]
  exact hs

/-- elemental functions that always succeed: FF = Z, Fi = 1, Fii = 1 -/
def P0 : Elem ℝ := ⟨fun Z _ s => .ok ((Z : ℝ), s), fun _ _ s => .ok (1, s), fun _ _ s => .ok (1, s)⟩

theorem P0_contract : ElemContract P0 := fun Z x =>
  ⟨fun s _ => Or.inl ⟨_, rfl⟩, fun s _ => Or.inl ⟨_, rfl⟩, fun s _ => Or.inl ⟨_, rfl⟩⟩

/-- what `P0` reports -/
def F0 : Int → ℝ × ℝ × ℝ := fun Z => ((Z : ℝ), 1, 1)

theorem P0_reports (v : Variant) (E q : ℝ) : Reports v P0 E q 1 F0 14 :=
  ⟨fun _ => rfl, fun _ => rfl, fun _ => rfl, Or.inr (by simp [F0])⟩

/-- the unit cube with an atom whose `Zatom` is not a legal subscript of the stack arrays -/
def badZ : Crystal ℝ := ⟨1, 1, 1, 90, 90, 90, 1, [⟨120, 1, 0, 0, 0⟩]⟩

/-- at 10 keV the unit cube has a (1,0,0) reflection: `Q` answers -/
theorem cube_hQ (v : Variant) :
    Q_scattering_amplitude v (some cube) 10 1 0 0 1 Slot.empty = .ok (qval cube 10 1 0 0 1, Slot.empty) := by
  have hr : KEV2ANGST / 10 ≤ 2 * dval cube 1 0 0 := by
    have := cube_dval_ge_one; unfold KEV2ANGST; norm_num; linarith
  exact q_valid v cube_valid (by norm_num) (Or.inr cube_smallMiller) (by decide) hr 1 Slot.empty

theorem cube_reports (v : Variant) (E q : ℝ) :
    ∀ atom ∈ cube.atoms, (0 ≤ atom.Zatom ∧ atom.Zatom < 120) ∧ Reports v P0 E q 1 F0 atom.Zatom := by
  intro atom h
  simp only [cube, List.mem_singleton] at h
  subst h
  exact ⟨by decide, P0_reports v E q⟩

/-- the unit cube with a stored volume that agrees with its cell (`volume = √(det G)`) -/
noncomputable def cubeV : Crystal ℝ := { cube with volume := Spec.volume cube }

/-- elemental functions with `Fii = 0` exactly (as the library's `Fii` at the first knot of its table) -/
def Pzero : Elem ℝ := ⟨fun _ _ s => .ok (8, s), fun _ _ s => .ok (1, s), fun _ _ s => .ok (0, s)⟩

end C13
end Xrl
