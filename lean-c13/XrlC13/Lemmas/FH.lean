import XrlC13.Lemmas.StructureFactor
/-!
# `Crystal_F_H_StructureFactor_Partial` over ℝ: outcomes of the scalar functions, evaluation, totality
-/
namespace Xrl
namespace C13
open Real

/-- the three ways a scalar function of this file can end when it does not hit undefined behaviour: a non-finite
intermediate, a value with the slot untouched, the sentinel 0 with one error stored -/
def Benign (r : M (ℝ × Slot)) (error : Slot) : Prop :=
  (∃ w, r = .error (.nf w)) ∨ (∃ d, r = .ok (d, error)) ∨ (∃ e, r = .ok ((0 : ℝ), error.withErr e))

theorem dSpacing_benign (v : Variant) (cr : Option (Crystal ℝ)) {i j k : Int} (hs : SafeMiller v i j k) {error : Slot}
    (he : error.isFull = false) : Benign (Crystal_dSpacing v cr i j k error) error := by
  cases cr with
  | none =>
    right; right
    exact ⟨⟨XRL_ERROR_INVALID_ARGUMENT, CRYSTAL_NULL⟩, by simp [Crystal_dSpacing, setErr_notFull he]⟩
  | some cc =>
    by_cases h0 : i = 0 ∧ j = 0 ∧ k = 0
    · right; right
      exact ⟨⟨XRL_ERROR_INVALID_ARGUMENT, INVALID_MILLER⟩, by simp [Crystal_dSpacing, h0, setErr_notFull he]⟩
    · rw [dSpacing_eval v cc error hs h0]
      split_ifs
      · exact Or.inl ⟨_, rfl⟩
      · exact Or.inl ⟨_, rfl⟩
      · exact Or.inr (Or.inl ⟨_, rfl⟩)

theorem bragg_benign (v : Variant) (cr : Option (Crystal ℝ)) (E : ℝ) {i j k : Int} (hs : SafeMiller v i j k) {error : Slot}
    (he : error.isFull = false) : Benign (Bragg_angle v cr E i j k error) error := by
  by_cases hE : E ≤ 0
  · rw [bragg_nonpos v cr hE, setErr_notFull he]
    exact Or.inr (Or.inr ⟨_, rfl⟩)
  · have hE' : 0 < E := not_le.mp hE
    rcases dSpacing_benign v cr hs he with ⟨w, h⟩ | ⟨d, h⟩ | ⟨e, h⟩
    · rw [bragg_of_dspacing_error v cr hE' h]; exact Or.inl ⟨_, rfl⟩
    · by_cases hd0 : d = 0
      · subst hd0; rw [bragg_of_dspacing_zero v cr hE' h]; exact Or.inr (Or.inl ⟨_, rfl⟩)
      · rw [bragg_of_dspacing v cr hE' h hd0]
        split_ifs
        · exact Or.inr (Or.inl ⟨_, rfl⟩)
        · rw [setErr_notFull he]; exact Or.inr (Or.inr ⟨_, rfl⟩)
        · exact Or.inl ⟨_, rfl⟩
        · exact Or.inr (Or.inl ⟨_, rfl⟩)
    · rw [bragg_of_dspacing_zero v cr hE' h]; exact Or.inr (Or.inr ⟨_, rfl⟩)

theorem q_benign (v : Variant) (cr : Option (Crystal ℝ)) (E : ℝ) {i j k : Int} (hs : SafeMiller v i j k) (rel : ℝ)
    {error : Slot} (he : error.isFull = false) : Benign (Q_scattering_amplitude v cr E i j k rel error) error := by
  by_cases hE : E ≤ 0
  · rw [q_nonpos v cr hE, setErr_notFull he]
    exact Or.inr (Or.inr ⟨_, rfl⟩)
  · have hE' : 0 < E := not_le.mp hE
    by_cases h0 : i = 0 ∧ j = 0 ∧ k = 0
    · obtain ⟨rfl, rfl, rfl⟩ := h0
      rw [q_zero_miller v cr hE']; exact Or.inr (Or.inl ⟨_, rfl⟩)
    · rw [q_of_bragg v cr hE' h0]
      rcases bragg_benign v cr E hs he with ⟨w, h⟩ | ⟨d, h⟩ | ⟨e, h⟩
      · rw [h]; exact Or.inl ⟨_, rfl⟩
      · rw [h]; exact Or.inr (Or.inl ⟨_, rfl⟩)
      · rw [h]; right; right
        refine ⟨e, ?_⟩
        show Except.ok (E * Real.sin (rel * 0) / KEV2ANGST, error.withErr e) = _
        simp

/-- the value of `Q_scattering_amplitude` on a valid cell with a reflection -/
noncomputable def qval (cc : Crystal ℝ) (E : ℝ) (i j k : Int) (rel : ℝ) : ℝ :=
  E * Real.sin (rel * Real.arcsin (braggSin E (dval cc i j k))) / KEV2ANGST

theorem braggSin_range {cc : Crystal ℝ} (hv : validCell cc) {E : ℝ} (hE : 0 < E) {i j k : Int}
    (h0 : ¬ (i = 0 ∧ j = 0 ∧ k = 0)) :
    0 < braggSin E (dval cc i j k) ∧ (braggSin E (dval cc i j k) ≤ 1 ↔ KEV2ANGST / E ≤ 2 * dval cc i j k) := by
  have hd := dval_pos hv h0
  have hk := KEV2ANGST_pos
  unfold braggSin
  constructor
  · positivity
  · rw [div_le_one (by positivity)]

theorem bragg_valid (v : Variant) {cc : Crystal ℝ} (hv : validCell cc) {E : ℝ} (hE : 0 < E) {i j k : Int}
    (hs : SafeMiller v i j k) (h0 : ¬ (i = 0 ∧ j = 0 ∧ k = 0)) (hr : KEV2ANGST / E ≤ 2 * dval cc i j k) (error : Slot) :
    Bragg_angle v (some cc) E i j k error = .ok (Real.arcsin (braggSin E (dval cc i j k)), error) := by
  have ⟨hpos, hle⟩ := braggSin_range hv hE h0
  have hle1 := hle.mpr hr
  rw [bragg_of_dspacing v (some cc) hE (dSpacing_valid v hv error hs h0) (dval_pos hv h0).ne']
  have habs : |braggSin E (dval cc i j k)| ≤ 1 := by rw [abs_of_pos hpos]; exact hle1
  have hno : ¬ (braggSin E (dval cc i j k) < -1 ∨ 1 < braggSin E (dval cc i j k)) := by
    intro h; rcases h with h | h <;> linarith
  split_ifs <;> rfl

theorem q_valid (v : Variant) {cc : Crystal ℝ} (hv : validCell cc) {E : ℝ} (hE : 0 < E) {i j k : Int}
    (hs : SafeMiller v i j k) (h0 : ¬ (i = 0 ∧ j = 0 ∧ k = 0)) (hr : KEV2ANGST / E ≤ 2 * dval cc i j k) (rel : ℝ)
    (error : Slot) :
    Q_scattering_amplitude v (some cc) E i j k rel error = .ok (qval cc E i j k rel, error) := by
  rw [q_of_bragg v (some cc) hE h0, bragg_valid v hv hE hs h0 hr]
  rfl

/-- evaluation of the structure factor: explicit sum with the flagged factors of the elements -/
theorem fh_eval (v : Variant) (P : Elem ℝ) (cc : Crystal ℝ) {E q D rel : ℝ} {i j k : Int} {a b c : Int} (error : Slot)
    (hQ : Q_scattering_amplitude v (some cc) E i j k rel Slot.empty = .ok (q, Slot.empty))
    (hD : 0 < D) (hfl : validFlags a b c) (F : Int → ℝ × ℝ × ℝ)
    (hat : ∀ atom ∈ cc.atoms, (0 ≤ atom.Zatom ∧ atom.Zatom < 120) ∧ Reports v P E q D F atom.Zatom) :
    Crystal_F_H_StructureFactor_Partial v P (some cc) E i j k D rel a b c error =
      .ok (Spec.structureFactor cc i j k (fAof F D a b c), error) := by
  obtain ⟨ch', h1, _, h3, _⟩ := fillCache_reports v P hD hfl F error cc.atoms Cache.empty hat (by simp [Cache.empty])
  unfold Crystal_F_H_StructureFactor_Partial
  simp only [hQ, bind_ok, Slot.isFull, Bool.false_eq_true, if_false, h1, sumAtoms_eq ch' i j k _ cc.atoms _ h3]
  rfl

/-- once `Q` has answered, the rest of the function cannot abort (contract of the elemental functions, legal
subscripts or repair C13-2, slot without an error) -/
theorem fh_after_q (v : Variant) {P : Elem ℝ} (hP : ElemContract P) (cc : Crystal ℝ) {E q D rel : ℝ} {i j k : Int} (a b c : Int)
    {error t : Slot} (he : error.isFull = false)
    (hQ : Q_scattering_amplitude v (some cc) E i j k rel Slot.empty = .ok (q, t))
    (hz : v.zFix = true ∨ validAtoms cc) :
    ∃ F e', Crystal_F_H_StructureFactor_Partial v P (some cc) E i j k D rel a b c error = .ok (F, e') := by
  unfold Crystal_F_H_StructureFactor_Partial
  simp only [hQ, bind_ok]
  by_cases ht : t.isFull = true
  · simp only [ht, if_true]
    cases t with
    | full e => exact ⟨((0.0 : ℝ), (0.0 : ℝ)), error.withErr e, by cases error <;> simp_all [propagateErr, Slot.withErr, Slot.isFull]⟩
    | null => simp [Slot.isFull] at ht
    | empty => simp [Slot.isFull] at ht
  · simp only [ht, Bool.false_eq_true, if_false]
    rcases fillCache_total v hP E q D a b c he cc.atoms Cache.empty hz with ⟨e', h⟩ | ⟨ch', h, h2, _⟩
    · exact ⟨((0.0 : ℝ), (0.0 : ℝ)), e', by simp only [h, bind_ok, pure_eq_ok]⟩
    · obtain ⟨F', hF⟩ := sumAtoms_total ch' i j k cc.atoms ((0.0 : ℝ), (0.0 : ℝ)) h2
      exact ⟨F', error, by simp only [h, bind_ok, hF, pure_eq_ok]⟩

theorem fh_of_q_error (v : Variant) (P : Elem ℝ) (cr : Option (Crystal ℝ)) {E D rel : ℝ} {i j k : Int} (a b c : Int)
    (error : Slot) {x : Abort} (hQ : Q_scattering_amplitude v cr E i j k rel Slot.empty = .error x) :
    Crystal_F_H_StructureFactor_Partial v P cr E i j k D rel a b c error = .error x := by
  unfold Crystal_F_H_StructureFactor_Partial
  simp only [hQ, bind_error]

/-- no undefined behaviour once the two subscript/NULL repairs are in (any cell, any crystal pointer) -/
theorem fh_outcome (v : Variant) {P : Elem ℝ} (hP : ElemContract P) (cr : Option (Crystal ℝ)) (E D rel : ℝ) {i j k : Int}
    (hs : SafeMiller v i j k) (a b c : Int) {error : Slot} (he : error.isFull = false)
    (hn : v.nullFix = true ∨ cr ≠ none) (hz : v.zFix = true ∨ ∀ cc, cr = some cc → validAtoms cc) :
    (∃ w, Crystal_F_H_StructureFactor_Partial v P cr E i j k D rel a b c error = .error (.nf w)) ∨
    (∃ F e', Crystal_F_H_StructureFactor_Partial v P cr E i j k D rel a b c error = .ok (F, e')) := by
  rcases q_benign v cr E hs rel (error := Slot.empty) rfl with ⟨w, h⟩ | ⟨q, h⟩ | ⟨e, h⟩
  · exact Or.inl ⟨w, fh_of_q_error v P cr a b c error h⟩
  · right
    cases cr with
    | some cc => exact fh_after_q v hP cc a b c he h (hz.imp id (fun h' => h' cc rfl))
    | none =>
      have hnf : v.nullFix = true := hn.resolve_right (by simp)
      unfold Crystal_F_H_StructureFactor_Partial
      simp only [h, bind_ok, Slot.isFull, Bool.false_eq_true, if_false, hnf, if_true, setErr_notFull he]
      exact ⟨((0.0 : ℝ), (0.0 : ℝ)), _, rfl⟩
  · right
    unfold Crystal_F_H_StructureFactor_Partial
    simp only [h, bind_ok, Slot.withErr, Slot.isFull, if_true]
    exact ⟨((0.0 : ℝ), (0.0 : ℝ)), error.withErr e, by cases error <;> simp_all [propagateErr, Slot.withErr, Slot.isFull]⟩

theorem bragg_inversion (v : Variant) (cr : Option (Crystal ℝ)) (E : ℝ) {i j k : Int} (hs : SafeMiller v i j k) (error : Slot) :
    Bragg_angle v cr E (-i) (-j) (-k) error = Bragg_angle v cr E i j k error := by
  unfold Bragg_angle
  rw [dSpacing_inversion v cr hs]

theorem q_inversion (v : Variant) (cr : Option (Crystal ℝ)) (E : ℝ) {i j k : Int} (hs : SafeMiller v i j k) (rel : ℝ)
    (error : Slot) :
    Q_scattering_amplitude v cr E (-i) (-j) (-k) rel error = Q_scattering_amplitude v cr E i j k rel error := by
  unfold Q_scattering_amplitude
  rw [bragg_inversion v cr E hs]
  simp only [neg_eq_zero]

/-- on a valid cell `Q` always answers unless the shipped `Bragg_angle` meets "no reflection" -/
theorem q_total (v : Variant) {cc : Crystal ℝ} (hv : validCell cc) (E : ℝ) {i j k : Int} (hs : SafeMiller v i j k) (rel : ℝ)
    (hr : v.braggFix = true ∨ E ≤ 0 ∨ (i = 0 ∧ j = 0 ∧ k = 0) ∨ KEV2ANGST / E ≤ 2 * dval cc i j k) :
    ∃ q t, Q_scattering_amplitude v (some cc) E i j k rel Slot.empty = .ok (q, t) := by
  rcases q_benign v (some cc) E hs rel (error := Slot.empty) rfl with ⟨w, h⟩ | ⟨q, h⟩ | ⟨e, h⟩
  · exfalso
    by_cases hE : E ≤ 0
    · rw [q_nonpos v _ hE] at h; simp [setErr, Except.bind] at h
    have hE' : 0 < E := not_le.mp hE
    by_cases h0 : i = 0 ∧ j = 0 ∧ k = 0
    · obtain ⟨rfl, rfl, rfl⟩ := h0
      rw [q_zero_miller v _ hE'] at h; simp at h
    rw [q_of_bragg v _ hE' h0] at h
    by_cases hfix : v.braggFix = true
    · rw [bragg_of_dspacing v (some cc) hE' (dSpacing_valid v hv Slot.empty hs h0) (dval_pos hv h0).ne'] at h
      simp only [hfix, if_true] at h
      split_ifs at h <;> simp [setErr, Except.bind] at h
    · have hr' : KEV2ANGST / E ≤ 2 * dval cc i j k := by
        rcases hr with h1 | h1 | h1 | h1
        · exact absurd h1 hfix
        · exact absurd h1 hE
        · exact absurd h1 h0
        · exact h1
      rw [bragg_valid v hv hE' hs h0 hr'] at h
      simp [Except.bind] at h
  · exact ⟨q, _, h⟩
  · exact ⟨0, _, h⟩

/-- no abort at all on a valid crystal record (see `q_total` for the one exception of the shipped code) -/
theorem fh_total (v : Variant) {P : Elem ℝ} (hP : ElemContract P) {cc : Crystal ℝ} (hv : validCell cc)
    (hz : v.zFix = true ∨ validAtoms cc) (E D rel : ℝ) {i j k : Int} (hs : SafeMiller v i j k) (a b c : Int)
    {error : Slot} (he : error.isFull = false)
    (hr : v.braggFix = true ∨ E ≤ 0 ∨ (i = 0 ∧ j = 0 ∧ k = 0) ∨ KEV2ANGST / E ≤ 2 * dval cc i j k) :
    ∃ F e', Crystal_F_H_StructureFactor_Partial v P (some cc) E i j k D rel a b c error = .ok (F, e') := by
  obtain ⟨q, t, hQ⟩ := q_total v hv E hs rel hr
  exact fh_after_q v hP cc a b c he hQ hz

end C13
end Xrl
