import XrlC13.Lemmas.Sums
/-!
# The explicit sum in complex notation: `Σ occ · (f_re + i f_im) · e^{i φ}`
-/
namespace Xrl
namespace C13
open Complex

/-- a pair `(re, im)` as a complex number -/
noncomputable def toC (p : ℝ × ℝ) : ℂ := (p.1 : ℂ) + (p.2 : ℂ) * I

theorem toC_add (p q : ℝ × ℝ) : toC (p + q) = toC p + toC q := by
  unfold toC; simp only [Prod.fst_add, Prod.snd_add]; push_cast; ring

theorem toC_zero : toC 0 = 0 := by unfold toC; simp

theorem summand_complex (i j k : Int) (fA : Int → ℝ × ℝ) (atom : Atom ℝ) :
    toC (Spec.summand i j k fA atom) =
      (atom.fraction : ℂ) * toC (fA atom.Zatom) * Complex.exp (I * (Spec.phase i j k atom : ℝ)) := by
  unfold toC Spec.summand
  rw [mul_comm I, Complex.exp_mul_I]
  simp only [xcos, xsin]
  push_cast
  ring_nf
  rw [Complex.I_sq]
  ring

theorem sum_complex (i j k : Int) (fA : Int → ℝ × ℝ) (atoms : List (Atom ℝ)) :
    toC (atoms.map (Spec.summand i j k fA)).sum =
      (atoms.map (fun atom => (atom.fraction : ℂ) * toC (fA atom.Zatom) * Complex.exp (I * (Spec.phase i j k atom : ℝ)))).sum := by
  induction atoms with
  | nil => simp [toC_zero]
  | cons atom rest ih => simp only [List.map_cons, List.sum_cons, toC_add, ih, summand_complex]

end C13
end Xrl
