import XrlC13.Lemmas.DSpacing
import Mathlib.LinearAlgebra.Matrix.Notation
import Mathlib.Data.Matrix.Mul
import Mathlib.Data.Matrix.Reflection
/-!
# The model's d-spacing against the reciprocal metric tensor of the specification
-/
namespace Xrl
namespace C13
open Real

/-- a `Sym3` as a 3×3 matrix -/
def Spec.Sym3.toMatrix (G : Spec.Sym3 ℝ) : Matrix (Fin 3) (Fin 3) ℝ :=
  !![G.g11, G.g12, G.g13; G.g12, G.g22, G.g23; G.g13, G.g23, G.g33]

/-- `adj G / det G` is the inverse of `G` -/
theorem recip_mul (G : Spec.Sym3 ℝ) (hD : Spec.det G ≠ 0) : G.toMatrix * (Spec.recip G).toMatrix = 1 := by
  have h : ∀ x : ℝ, x / Spec.det G = x * (Spec.det G)⁻¹ := fun x => div_eq_mul_inv _ _
  ext i j
  fin_cases i <;> fin_cases j <;>
    simp [Spec.Sym3.toMatrix, Spec.recip, Spec.adj, Matrix.mul_apply, Fin.sum_univ_three] <;>
    field_simp <;> unfold Spec.det <;> ring

theorem det_metric (cc : Crystal ℝ) :
    Spec.det (Spec.metric cc) = (cc.a * cc.b * cc.c) ^ 2 * detC cc := by
  rw [detC_real]
  unfold Spec.det Spec.metric
  simp only [cosDeg_eq]
  ring

theorem quad_recip (cc : Crystal ℝ) (ha : cc.a ≠ 0) (hb : cc.b ≠ 0) (hc : cc.c ≠ 0) (hD : detC cc ≠ 0) (i j k : Int) :
    Spec.quad (Spec.recip (Spec.metric cc)) (i : ℝ) (j : ℝ) (k : ℝ) = Xq cc i j k / detC cc := by
  have hdet : Spec.det (Spec.metric cc) ≠ 0 := by
    rw [det_metric]; exact mul_ne_zero (pow_ne_zero _ (mul_ne_zero (mul_ne_zero ha hb) hc)) hD
  rw [Xq_cos]
  unfold Spec.quad Spec.recip
  simp only [lit2]
  rw [det_metric] at *
  rw [detC_real] at *
  unfold Spec.adj Spec.metric
  simp only [cosDeg_eq]
  field_simp

theorem volume_spec {cc : Crystal ℝ} (ha : 0 < cc.a) (hb : 0 < cc.b) (hc : 0 < cc.c) :
    Spec.volume cc = cc.a * cc.b * cc.c * Real.sqrt (detC cc) := by
  unfold Spec.volume
  rw [xsqrt, det_metric, Real.sqrt_mul (sq_nonneg _), Real.sqrt_sq (by positivity)]

theorem nonDegenerate_iff {cc : Crystal ℝ} (ha : 0 < cc.a) (hb : 0 < cc.b) (hc : 0 < cc.c) :
    0 < Spec.det (Spec.metric cc) ↔ 0 < detC cc := by
  rw [det_metric]
  have : 0 < (cc.a * cc.b * cc.c) ^ 2 := by positivity
  constructor
  · intro h; exact (mul_pos_iff_of_pos_left this).mp h
  · intro h; exact mul_pos this h

/-- the model's value = stored volume / recomputed volume × reciprocal-metric spacing -/
theorem dval_eq_recip {cc : Crystal ℝ} (hg : goodCell cc) {i j k : Int} (h0 : ¬ (i = 0 ∧ j = 0 ∧ k = 0)) :
    dval cc i j k = cc.volume / Spec.volume cc * Spec.dRecip cc i j k := by
  have hx := Xq_pos' hg h0
  obtain ⟨ha, hb, hc, hD⟩ := hg
  unfold dval Spec.dRecip
  simp only [xofInt, xsqrt, lit1]
  rw [quad_recip cc ha.ne' hb.ne' hc.ne' hD.ne', volume_spec ha hb hc]
  have hsD : 0 < Real.sqrt (detC cc) := Real.sqrt_pos.mpr hD
  rw [Real.sqrt_div' _ hD.le, Real.sqrt_div' _ hx.le, Real.sqrt_one]
  have hsX : 0 < Real.sqrt (Xq cc i j k) := Real.sqrt_pos.mpr hx
  field_simp

theorem nonDegenerate_good {cc : Crystal ℝ} (h : Spec.nonDegenerate cc) : goodCell cc := by
  obtain ⟨ha, hb, hc, hD⟩ := h
  simp only [lit0] at ha hb hc hD
  exact ⟨ha, hb, hc, (nonDegenerate_iff ha hb hc).mp hD⟩

theorem good_nonDegenerate {cc : Crystal ℝ} (h : goodCell cc) : Spec.nonDegenerate cc := by
  obtain ⟨ha, hb, hc, hD⟩ := h
  refine ⟨?_, ?_, ?_, ?_⟩ <;> simp only [lit0]
  · exact ha
  · exact hb
  · exact hc
  · exact (nonDegenerate_iff ha hb hc).mpr hD

end C13
end Xrl
